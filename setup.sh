#!/bin/sh
# Build the framework offline from files on disk: regenerate instance data from /repo, then lake build.
cd "$(dirname "$0")" || exit 2
export IPC_LAB_KAIRA_VERIF=1 PYTHONDONTWRITEBYTECODE=1
/venv/bin/python -m harness.setup || exit 2
