import Kaira.Dist
/-!
# Hard-decision decoders — models of `BruteForceMLDecoder`, `SyndromeLookupDecoder`,
`HammingCodeEncoder.inverse_encode`
-/
namespace Kaira.Decoders
open Kaira.Codes Kaira.Dist

/-- message `i` of the brute-force codebook: its bits are written MSB first into coordinates
`0 .. k-1`, i.e. the mask is the `k`-bit reversal of `i` -/
def mlMessage (k i : Nat) : Nat := revBits k i

/-- `torch.argmin` over the codebook in message order: first message at minimum distance -/
def mlLoop (G : List Nat) (n k x : Nat) : Nat → Nat → Nat → Nat → Nat
  | 0, _, best, _ => best
  | f+1, i, best, bd =>
    let d := weight n (x ^^^ encode G (mlMessage k i))
    if d < bd then mlLoop G n k x f (i + 1) i d else mlLoop G n k x f (i + 1) best bd

/-- index of the decoded message in the codebook -/
def mlIndex (G : List Nat) (n k x : Nat) : Nat :=
  mlLoop G n k x (2 ^ k - 1) 1 0 (weight n (x ^^^ encode G (mlMessage k 0)))

def mlDecode (G : List Nat) (n k x : Nat) : Nat := mlMessage k (mlIndex G n k x)

/-! ## syndrome table: first error pattern, by increasing weight and then lexicographically by
positions, with the given syndrome -/

/-- first pattern of exactly `w` ones at positions ≥ `start` (extending `cur`) whose syndrome is `s` -/
def findPattern (HT : List Nat) (n s : Nat) : Nat → Nat → Nat → Nat → Option Nat
  | 0, _, cur, _ => if encode HT cur = s then some cur else none
  | w+1, start, cur, fuel =>
    match fuel with
    | 0 => none
    | fuel+1 =>
      if start + (w + 1) > n then none
      else match findPattern HT n s w (start + 1) (cur ||| (1 <<< start)) fuel with
        | some e => some e
        | none => findPattern HT n s (w + 1) (start + 1) cur fuel

def lookupLoop (HT : List Nat) (n s : Nat) : Nat → Nat → Nat
  | 0, _ => 0
  | f+1, w => match findPattern HT n s w 0 0 (n + 1) with
    | some e => e
    | none => lookupLoop HT n s f (w + 1)

/-- the table entry for syndrome `s` (zero pattern if none is found) -/
def tableLookup (HT : List Nat) (n s : Nat) : Nat := lookupLoop HT n s (n + 1) 0

/-- `SyndromeLookupDecoder` on one block with the default extraction `x·R` -/
def synDecode (HT R : List Nat) (n x : Nat) : Nat :=
  invEncode R (x ^^^ tableLookup HT n (syndrome HT x))

/-! ## Hamming single-error correction -/
def firstCol (HT : List Nat) (s : Nat) : Option Nat := (HT.zipIdx.find? (fun p => p.1 == s)).map (·.2)

/-- `inverse_encode` of the Hamming encoder: flip the first position whose check-matrix column
equals the syndrome, then read the information set -/
def hammingInverse (HT : List Nat) (info : List Nat) (x : Nat) : Nat :=
  let s := syndrome HT x
  let y := match firstCol HT s with
    | some j => x ^^^ (1 <<< j)
    | none => x
  (info.zipIdx.foldl (fun a (p, i) => if y.testBit p then a ||| (1 <<< i) else a) 0)

end Kaira.Decoders
