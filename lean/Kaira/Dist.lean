import Kaira.Codes
import Kaira.Poly2
/-!
# Minimum distance, cyclic structure — checkers evaluated on the catalogue (C03)
-/
namespace Kaira.Dist
open Kaira.Codes

/-- Hamming weight of the low `n` coordinates -/
def weight : Nat → Nat → Nat
  | 0, _ => 0
  | n+1, x => weight n x + (if x.testBit n then 1 else 0)

/-- minimum of `w (acc ⊕ ⨁ chosen rows)` over all row subsets that (together with the flag `ne`)
are non-empty; `top` when there is none -/
def spanMin (w : Nat → Nat) (top : Nat) : List Nat → Nat → Bool → Nat
  | [], acc, ne => if ne then w acc else top
  | r :: rs, acc, ne => min (spanMin w top rs acc ne) (spanMin w top rs (acc ^^^ r) true)

/-- cyclic shift of an `n`-bit word by one position -/
def cshift (n x : Nat) : Nat := ((x <<< 1) ^^^ (x >>> (n - 1))) % 2 ^ n

/-- rotate left by `s` positions (used to bring a layout into polynomial coefficient order) -/
def rotl (n s x : Nat) : Nat := ((x <<< s) ^^^ (x >>> (n - s))) % 2 ^ n

/-- reverse the low `n` bits -/
def revBits : Nat → Nat → Nat
  | 0, _ => 0
  | n+1, x => ((x % 2) <<< n) ||| revBits n (x / 2)

structure DistInst where
  name : String
  n : Nat
  k : Nat
  r : Nat
  G : List Nat
  HT : List Nat
  advN : Nat           -- code_length the object reports
  advK : Nat           -- code_dimension the object reports
  advD : Nat           -- advertised minimum / design distance (0: none advertised)
  exact : Bool         -- the advertised value is documented as exact
  wit : Nat            -- message whose codeword has weight advD (exact values)
  decided : Bool       -- lower bound by full enumeration here (otherwise by an information-set certificate, `InfoInst`)
  cyclic : Bool        -- cyclic family: generator polynomial, closure, multiples
  gpoly : Nat
  rot : Nat            -- coordinate p carries the coefficient of X^((p + rot) mod n) …
  rev : Bool           -- … after reversing the coordinate order when `rev`
  perfect : Bool       -- documented as perfect: sphere-packing bound with equality
  knownBad : Bool      -- listed known finding: the advertised distance is NOT a lower bound
  nameN : Nat          -- (n, k) promised by the name of a named standard code (0: none)
  nameK : Nat

/-- bring a word into coefficient order -/
def toPolyOrder (d : DistInst) (x : Nat) : Nat := rotl d.n d.rot (if d.rev then revBits d.n x else x)

def paramsOk (d : DistInst) : Bool :=
  d.advN == d.n && d.advK == d.k && d.G.length == d.k && (d.nameN == 0 || (d.nameN == d.n && d.nameK == d.k))

def distOk (d : DistInst) : Bool :=
  d.advD == 0 ||
    ((!d.decided || decide (d.advD ≤ spanMin (weight d.n) (d.n + 1) d.G 0 false)) &&
     (!d.exact || (decide (0 < d.wit) && decide (d.wit < 2 ^ d.k) && weight d.n (encode d.G d.wit) == d.advD)))

def cyclicOk (d : DistInst) : Bool :=
  !d.cyclic ||
    (decide (0 < d.gpoly) && Kaira.Poly2.mod (2 ^ d.n + 1) d.gpoly == 0 &&
     Kaira.bitLen d.gpoly + d.k == d.n + 1 &&
     d.G.all (fun g => encode d.HT (cshift d.n g) == 0) &&
     d.G.all (fun g => Kaira.Poly2.mod (toPolyOrder d g) d.gpoly == 0))

/-- for a listed finding the kernel proves the advertised value is *not* a lower bound -/
def badWitness (d : DistInst) : Bool :=
  decide (0 < d.wit) && decide (d.wit < 2 ^ d.k) && decide (weight d.n (encode d.G d.wit) < d.advD)

def dinstOk (d : DistInst) : Bool :=
  paramsOk d && (if d.knownBad then badWitness d else distOk d) && cyclicOk d

/-! ## information-set bound: distances of codes too large to enumerate

For an information set `pos` (k distinct coordinates on which the generator matrix is invertible, inverse `M`) every codeword
is `encode G' u` with `u` its restriction to `pos` and `G' = M·G`; a codeword is at least as heavy as its restriction, so only
the `u` of weight below the advertised distance have to be enumerated. -/

/-- `x` has at least `d` ones: clear the highest set bit `d` times -/
def geW : Nat → Nat → Bool
  | 0, _ => true
  | d+1, x => x != 0 && geW d (x % 2 ^ x.log2)

/-- every combination of at most `b` further rows (non-empty, counting `ne`) added to `acc` has at least `d` ones -/
def allGe (d : Nat) : List Nat → Nat → Bool → Nat → Bool
  | [], acc, ne, _ => !ne || geW d acc
  | r :: rs, acc, ne, b => allGe d rs acc ne b && (b == 0 || allGe d rs (acc ^^^ r) true (b - 1))

/-- restriction of a word to the coordinates `pos` -/
def proj (pos : List Nat) (x : Nat) : Nat := maskOf (pos.map x.testBit)

/-- number of ones among the `len` bits of `u` starting at bit `i` -/
def bitsSet : Nat → Nat → Nat → Nat
  | 0, _, _ => 0
  | len+1, i, u => (if u.testBit i then 1 else 0) + bitsSet len (i + 1) u

structure InfoInst where
  name : String
  n : Nat
  k : Nat
  G : List Nat
  advD : Nat
  pos : List Nat    -- information set: k distinct coordinates
  M : List Nat      -- k masks of k bits, (G restricted to pos) · M = I
  even : Bool       -- every generator row has even weight and advD is even

def infoOk (c : InfoInst) : Bool :=
  c.G.length == c.k && c.pos.length == c.k && c.M.length == c.k && c.pos.all (· < c.n) && decide c.pos.Nodup &&
  c.G.all (· < 2 ^ c.n) && unitRows (c.G.map (proj c.pos)) c.M &&
  (if c.even then c.G.all (fun g => weight c.n g % 2 == 0) && c.advD % 2 == 0 && decide (2 ≤ c.advD) &&
      allGe (c.advD - 1) (c.M.map (encode c.G)) 0 false (c.advD - 2)
   else allGe c.advD (c.M.map (encode c.G)) 0 false (c.advD - 1))

/-- a BCH instance: generator matrix, a right inverse of it, the field GF(2^m) = GF(2)[X]/(P), the generator polynomial and the
design distance the object advertises (`Proofs/BCHBound.lean`: `bchOk`, `bch_min_distance`) -/
structure BchInst where
  name : String
  n : Nat
  k : Nat
  G : List Nat
  R : List Nat
  m : Nat
  P : Nat
  gpoly : Nat
  delta : Nat

end Kaira.Dist
