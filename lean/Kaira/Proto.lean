/-!
# Line protocol helpers (parsing / printing) shared by the driver verbs
-/
namespace Kaira.Proto

def natList? (s : String) : Option (List Nat) :=
  if s = "-" then some [] else (s.splitOn ",").mapM String.toNat?

def intList? (s : String) : Option (List Int) :=
  if s = "-" then some [] else (s.splitOn ",").mapM String.toInt?

/-- bit string `0110` -> list of Bool; `-` is the empty list -/
def bits? (s : String) : Option (List Bool) :=
  if s = "-" then some [] else
  s.toList.mapM fun c => if c = '0' then some false else if c = '1' then some true else none

def showBits (l : List Bool) : String :=
  if l.isEmpty then "-" else String.ofList (l.map fun b => if b then '1' else '0')

def showNats (l : List Nat) : String :=
  if l.isEmpty then "-" else ",".intercalate (l.map toString)

def showInts (l : List Int) : String :=
  if l.isEmpty then "-" else ",".intercalate (l.map toString)

/-- matrix as rows of bit strings separated by `/` -/
def mat? (s : String) : Option (List (List Bool)) :=
  if s = "-" then some [] else (s.splitOn "/").mapM bits?

def showMat (m : List (List Bool)) : String :=
  if m.isEmpty then "-" else "/".intercalate (m.map showBits)

def showOptNat : Option Nat → String
  | some n => toString n
  | none => "reject"

/-- rational `p/q` or integer -/
def rat? (s : String) : Option Rat :=
  match s.splitOn "/" with
  | [p] => p.toInt?.map fun i => (i : Rat)
  | [p, q] => do
    let pi ← p.toInt?
    let qi ← q.toNat?
    if qi = 0 then none else some ((pi : Rat) / (qi : Rat))
  | _ => none

def ratList? (s : String) : Option (List Rat) :=
  if s = "-" then some [] else (s.splitOn ",").mapM rat?

def showRat (r : Rat) : String :=
  if r.den = 1 then toString r.num else s!"{r.num}/{r.den}"

def showRats (l : List Rat) : String :=
  if l.isEmpty then "-" else ",".intercalate (l.map showRat)

end Kaira.Proto
