/-!
# Error-rate metrics — model of `BitErrorRate`, `BlockErrorRate` (aliases SER/FER) and the
`StandardMetrics` helpers.

Inputs are lists of rationals (the tensor flattened; for BLER one list per batch item); the
thresholding the Python does is part of the model.  Rates are returned as exact `(num, den)`.
-/
namespace Kaira.Metrics

/-- `(x > threshold).bool()` -/
def thr (t : Rat) (xs : List Rat) : List Bool := xs.map (fun x => decide (t < x))

/-- number of positions where two bit lists differ (`(x_bits != y_bits).sum()`) -/
def diffCount : List Bool → List Bool → Nat
  | a :: as, b :: bs => (if a != b then 1 else 0) + diffCount as bs
  | _, _ => 0

/-! ## BitErrorRate -/
structure Ber where
  total : Nat
  errors : Nat
deriving DecidableEq, Repr

def Ber.init : Ber := ⟨0, 0⟩
/-- `update` (shapes already checked equal) -/
def Ber.update (s : Ber) (x y : List Bool) : Ber := ⟨s.total + x.length, s.errors + diffCount x y⟩
/-- `compute`: `error_bits / max(total_bits, 1)` -/
def Ber.compute (s : Ber) : Nat × Nat := (s.errors, max s.total 1)
/-- `forward`: `num_errors / total_bits if total_bits > 0 else 0.0` -/
def Ber.oneShot (x y : List Bool) : Nat × Nat := if x.length = 0 then (0, 1) else (diffCount x y, x.length)

inductive BerOp
  | update (x y : List Bool)
  | compute
  | reset

def Ber.step (s : Ber) : BerOp → Ber × Option (Nat × Nat)
  | .update x y => (s.update x y, none)
  | .compute => (s, some s.compute)
  | .reset => (Ber.init, none)

/-- outputs of all `compute` operations of a history -/
def Ber.run (s : Ber) : List BerOp → List (Nat × Nat)
  | [] => []
  | op :: ops => match s.step op with
    | (s', some o) => o :: Ber.run s' ops
    | (s', none) => Ber.run s' ops

/-! ## BlockErrorRate -/

/-- blocks of `B` consecutive elements (the last one shorter only if `B ∤ length`) -/
def chunks (B : Nat) (l : List α) : List (List α) :=
  if _h : B = 0 ∨ l = [] then [] else
    l.take B :: chunks B (l.drop B)
termination_by l.length
decreasing_by
  simp only [List.length_drop]
  have : l.length ≠ 0 := by
    intro h0; exact _h (Or.inr (List.eq_nil_of_length_eq_zero h0))
  omega

/-- number of blocks of a row containing at least one error -/
def blockErrors (B : Nat) (mask : List Bool) : Nat := ((chunks B mask).filter (fun c => c.any id)).length

structure Bler where
  total : Nat
  errors : Nat
deriving DecidableEq, Repr

def Bler.init : Bler := ⟨0, 0⟩

/-- `_reshape_into_blocks` + `update` on error masks, one per batch item.  `B = none`: each row is
one block.  Rejected (`none`) when a row's length is not a multiple of the block size. -/
def Bler.update? (s : Bler) (B : Option Nat) (rows : List (List Bool)) : Option Bler :=
  match B with
  | none => some ⟨s.total + rows.length, s.errors + (rows.filter (fun r => r.any id)).length⟩
  | some b =>
    if b = 0 then none
    else if rows.all (fun r => r.length % b = 0) then
      some ⟨s.total + (rows.map (fun r => r.length / b)).sum, s.errors + (rows.map (blockErrors b)).sum⟩
    else none

def Bler.compute (s : Bler) : Nat × Nat := (s.errors, max s.total 1)

/-- `|x - y| > threshold` elementwise -/
def errMask (t : Rat) : List Rat → List Rat → List Bool
  | a :: as, b :: bs => decide (t < (if a - b < 0 then b - a else a - b)) :: errMask t as bs
  | _, _ => []

end Kaira.Metrics
