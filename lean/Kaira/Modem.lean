/-!
# Table-driven model of the memoryless modulators / demodulators

A constellation is the table the Python object publishes: for every symbol index the point
(coordinates as integers, scaled by a common power of two so that float32 values are exact) and the
`b`-bit label (`bit_patterns[i]` read MSB first).  The tables are regenerated from `/repo` on every
run; this file defines what the code does *with* a table.
-/
namespace Kaira.Modem

structure Pt where
  re : Int
  im : Int
  lab : Nat
deriving DecidableEq, Repr

structure Table where
  b : Nat
  pts : List Pt
deriving Repr

/-! ## Gray utilities (`kaira/modulations/utils.py`) — including the two hard-coded values -/
def toGray (n : Nat) : Nat := if n = 1023 then 1365 else n ^^^ (n >>> 1)

def fromGrayLoop : Nat → Nat → Nat → Nat
  | 0, _, res => res
  | f+1, mask, res => if mask = 0 then res else fromGrayLoop f (mask >>> 1) (res ^^^ (mask >>> 1))
def fromGray (g : Nat) : Nat := if g = 1365 then 1023 else fromGrayLoop (g + 1) g g

/-- the same maps without the special cases (what the functions compute everywhere else) -/
def toGrayPure (n : Nat) : Nat := n ^^^ (n >>> 1)
def fromGrayPure (g : Nat) : Nat := fromGrayLoop (g + 1) g g

/-! ## bits <-> naturals, MSB first -/
def bitsToNat : List Bool → Nat
  | [] => 0
  | x :: xs => (if x then 2 ^ xs.length else 0) + bitsToNat xs
def natToBits : Nat → Nat → List Bool
  | 0, _ => []
  | b+1, n => ((n >>> b) % 2 == 1) :: natToBits b n

def groups (b : Nat) : Nat → List Bool → List (List Bool)
  | 0, _ => []
  | f+1, l => if l.isEmpty ∨ b = 0 then [] else l.take b :: groups b f (l.drop b)

/-! ## mapping -/
/-- last index whose label is `lab` (the Python loops assign `symbols[mask] = constellation[i]` for
increasing `i`, so the last match wins); index 0 if none -/
def idxFrom (lab : Nat) : List Pt → Nat → Nat → Nat
  | [], _, acc => acc
  | p :: ps, i, acc => idxFrom lab ps (i + 1) (if p.lab = lab then i else acc)
def idxByLabel (t : Table) (lab : Nat) : Nat := idxFrom lab t.pts 0 0

/-- symbol indices for a bit sequence, `none` when the length is not a multiple of `b` -/
def modulate (t : Table) (byLabel : Bool) (bits : List Bool) : Option (List Nat) :=
  if t.b = 0 ∨ bits.length % t.b ≠ 0 then none
  else some ((groups t.b bits.length bits).map fun g =>
    if byLabel then idxByLabel t (bitsToNat g) else bitsToNat g)

/-! ## hard decision: first index at minimum Euclidean distance (`torch.argmin`) -/
def dist2 (p : Pt) (x y : Int) : Int := (p.re - x) * (p.re - x) + (p.im - y) * (p.im - y)

def nearestFrom (x y : Int) : List Pt → Nat → Nat → Int → Nat
  | [], _, best, _ => best
  | p :: ps, i, best, bd =>
    let d := dist2 p x y
    if d < bd then nearestFrom x y ps (i + 1) i d else nearestFrom x y ps (i + 1) best bd

def nearestIdx (t : Table) (x y : Int) : Nat :=
  match t.pts with
  | [] => 0
  | p :: ps => nearestFrom x y ps 1 0 (dist2 p x y)

def labelAt (t : Table) (i : Nat) : Nat := (t.pts[i]?.map (·.lab)).getD 0

def demodHard (t : Table) (ys : List (Int × Int)) : List Bool :=
  ys.flatMap fun (x, y) => natToBits t.b (labelAt t (nearestIdx t x y))

/-! ## max-log LLR -/
def labBit (b lab k : Nat) : Bool := (lab >>> (b - 1 - k)) % 2 == 1

def minDist (x y : Int) (v : Bool) (b k : Nat) : List Pt → Option Int
  | [] => none
  | p :: ps =>
    let r := minDist x y v b k ps
    if labBit b p.lab k = v then
      match r with
      | none => some (dist2 p x y)
      | some m => some (if dist2 p x y < m then dist2 p x y else m)
    else r

/-- `c * (min_{lab_k=1} d² − min_{lab_k=0} d²) / (scale² · σ²)` for bit `k`; `none` if a class is empty -/
def llr (t : Table) (c : Rat) (scale2 : Rat) (k : Nat) (x y : Int) (nv : Rat) : Option Rat :=
  match minDist x y true t.b k t.pts, minDist x y false t.b k t.pts with
  | some d1, some d0 => some (c * ((d1 - d0 : Int) : Rat) / (scale2 * nv))
  | _, _ => none

/-! ## checkers evaluated by the kernel on extracted tables (soundness: `Proofs/Modem.lean`) -/

/-- labels are exactly `0 .. 2^b − 1`, each once (OR-mask of `1 <<< lab`) -/
def labelsOk (t : Table) : Bool :=
  t.pts.length == 2 ^ t.b &&
  t.pts.all (fun p => p.lab < 2 ^ t.b) &&
  t.pts.foldl (fun m p => m ||| (1 <<< p.lab)) 0 == 2 ^ (2 ^ t.b) - 1

def popcount : Nat → Nat → Nat
  | 0, _ => 0
  | f+1, x => x % 2 + popcount f (x >>> 1)

/-- every pair is at squared distance ≥ `lo`; when `gray`, pairs within `hi` (the nearest
neighbours) differ in exactly one label bit -/
def rowOk (lo hi : Int) (gray : Bool) (b : Nat) (p : Pt) : List Pt → Bool
  | [] => true
  | q :: qs =>
    let d := dist2 p q.re q.im
    decide (lo ≤ d) && (!gray || decide (hi < d) || popcount b (p.lab ^^^ q.lab) == 1) && rowOk lo hi gray b p qs

def pairsOk (lo hi : Int) (gray : Bool) (b : Nat) : List Pt → Bool
  | [] => true
  | p :: ps => rowOk lo hi gray b p ps && pairsOk lo hi gray b ps

/-- the pair of indices `w` is within `hi` (so `hi` really is an upper bound of the minimum distance) -/
def nearOk (hi : Int) (pts : List Pt) (w : Nat × Nat) : Bool :=
  match pts[w.1]?, pts[w.2]? with
  | some p, some q => w.1 != w.2 && decide (dist2 p q.re q.im ≤ hi)
  | _, _ => false

/-- average energy is 1 within `tol` (relative), coordinates scaled by `s`: `|Σ|p|² − n s²| ≤ tol·n s²` -/
def energyOk (s : Int) (tolNum tolDen : Int) (pts : List Pt) : Bool :=
  let e := pts.foldl (fun a p => a + p.re * p.re + p.im * p.im) 0
  let n : Int := pts.length
  decide ((e - n * s * s) * tolDen ≤ tolNum * n * s * s) && decide ((n * s * s - e) * tolDen ≤ tolNum * n * s * s)

/-- one catalogue entry as regenerated from `/repo` -/
structure Inst where
  name : String
  table : Table
  lo : Int           -- lower bound for the minimum squared distance (checked)
  hi : Int           -- upper bound: pairs within `hi` are the nearest neighbours
  gray : Bool        -- Gray labelling requested
  scale : Int        -- coordinates are multiples of 1/scale
  unit : Bool        -- unit average energy requested (or by definition)
  knownNonGray : Bool -- listed known finding: Gray requested but the table is not Gray
  near : Nat × Nat   -- indices of a pair at the minimum distance (certificate for `hi`)

/-- everything C14 asks of one published constellation -/
def instOk (i : Inst) : Bool :=
  labelsOk i.table &&
  decide (0 < i.lo) && nearOk i.hi i.table.pts i.near &&
  (if i.gray && !i.knownNonGray then pairsOk i.lo i.hi true i.table.b i.table.pts
   else pairsOk i.lo i.hi false i.table.b i.table.pts &&
     (!i.gray || !pairsOk i.lo i.hi true i.table.b i.table.pts)) &&
  (!i.unit || energyOk i.scale 1 1000000 i.table.pts)

end Kaira.Modem
