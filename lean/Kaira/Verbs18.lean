import Kaira.Proto
import Kaira.GF2m
namespace Kaira.Verbs
open Kaira Kaira.Proto

/-- C18 verbs.  Arguments are decimal naturals. -/
def c18 (verb : String) (a : List Nat) : Option String :=
  match verb, a with
  | "pmul", [x, y] => some (toString (Poly2.mul x y))
  | "pmod", [x, y] => some (showOptNat (Poly2.mod? x y))
  | "pdiv", [x, y] => some (showOptNat (Poly2.div? x y))
  | "pgcd", [x, y] => some (toString (Poly2.gcd x y))
  | "plcm", [x, y] => some (toString (Poly2.lcm x y))
  | "pderiv", [x] => some (toString (Poly2.derivative x))
  | "pdeg", [x] => some (toString (Poly2.degree x))
  | "pcoeffs", [x] => some (showNats (Poly2.coeffs x))
  | "fmul", [P, x, y] => some (toString (GF2m.fmul P x y))
  | "fpow", [P, x, e] => some (toString (GF2m.fpow P x e))
  | "finv", [P, m, x] => some (showOptNat (GF2m.finv? P m x))
  | "ftrace", [P, m, x] => some (toString (GF2m.trace P m x))
  | "fconj", [P, m, x] => some (showNats (GF2m.conjugates P m x))
  | "fminpoly", [P, m, x] => some (showOptNat (GF2m.minPoly? P m x))
  | "primel", [P, m] => some (toString ((Poly2.mod 2 P) % 2 ^ m))
  | "peval", [P, p, x] => some (toString (GF2m.evalAt P p x))
  | _, _ => none

end Kaira.Verbs
