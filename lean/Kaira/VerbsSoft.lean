import Kaira.Proto
import Kaira.Soft
namespace Kaira.Verbs
open Kaira Kaira.Proto Kaira.Soft

/-- Tanner graph `0,1,3/1,2,4/...`: per check its variable indices -/
def graph? (s : String) : Option Graph :=
  if s = "-" then some [] else (s.splitOn "/").mapM natList?

/-- C10 verbs -/
def csoft (toks : List String) : Option String :=
  match toks with
  | ["wag", llrs] => do
    let r ← ratList? llrs
    some (showBits (wagnerDecode r))
  | ["wagcw", llrs] => do
    let r ← ratList? llrs
    some (showBits (wagner r))
  | ["ms", scale, offset, cl, iters, g, pos, llrs] => do
    let s ← rat? scale; let o ← rat? offset; let c ← rat? cl; let t ← iters.toNat?
    let H ← graph? g; let p ← natList? pos; let l ← ratList? llrs
    some (showBits (mpDecode (checkMS s o) H l c t p))
  | ["mssoft", scale, offset, cl, iters, g, llrs] => do
    let s ← rat? scale; let o ← rat? offset; let c ← rat? cl; let t ← iters.toNat?
    let H ← graph? g; let l ← ratList? llrs
    some (showRats (softOut (checkMS s o) H l.length l c t))
  | _ => none

end Kaira.Verbs
