import Kaira.Proto
import Kaira.Metrics
namespace Kaira.Verbs
open Kaira Kaira.Proto Kaira.Metrics

private def showFrac (p : Nat × Nat) : String := s!"{p.1}/{p.2}"

private def rows? (s : String) : Option (List (List Rat)) := (s.splitOn ";").mapM ratList?

/-- `berhist thr op*` -/
def berHist (t : Rat) : Ber → List String → List String → Option (List String)
  | _, [], acc => some acc.reverse
  | s, op :: ops, acc =>
    match op.splitOn "|" with
    | ["c"] => berHist t s ops (showFrac s.compute :: acc)
    | ["r"] => berHist t Ber.init ops ("ok" :: acc)
    | ["u", xs, ys] => do
      let x ← ratList? xs; let y ← ratList? ys
      if x.length ≠ y.length then berHist t s ops ("reject" :: acc)
      else berHist t (s.update (thr t x) (thr t y)) ops ("ok" :: acc)
    | ["f", xs, ys] => do
      let x ← ratList? xs; let y ← ratList? ys
      if x.length ≠ y.length then berHist t s ops ("reject" :: acc)
      else berHist t s ops (showFrac (Ber.oneShot (thr t x) (thr t y)) :: acc)
    | ["uc", xr, xi, yr, yi] => do
      let a ← ratList? xr; let b ← ratList? xi; let c ← ratList? yr; let d ← ratList? yi
      if a.length ≠ c.length ∨ a.length ≠ b.length ∨ c.length ≠ d.length then berHist t s ops ("reject" :: acc)
      else berHist t (s.update (thr t a ++ thr t b) (thr t c ++ thr t d)) ops ("ok" :: acc)
    | _ => none

private def masks (t : Rat) (x y : List (List Rat)) : Option (List (List Bool)) :=
  if x.length ≠ y.length ∨ (List.zipWith (fun a b => a.length != b.length) x y).any id then none
  else some (List.zipWith (errMask t) x y)

/-- `blerhist bs thr op*` (`bs = 0` encodes `block_size=None`) -/
def blerHist (B : Option Nat) (t : Rat) : Bler → List String → List String → Option (List String)
  | _, [], acc => some acc.reverse
  | s, op :: ops, acc =>
    match op.splitOn "|" with
    | ["c"] => blerHist B t s ops (showFrac s.compute :: acc)
    | ["r"] => blerHist B t Bler.init ops ("ok" :: acc)
    | ["u", xs, ys] => do
      let x ← rows? xs; let y ← rows? ys
      match masks t x y with
      | none => blerHist B t s ops ("reject" :: acc)
      | some m =>
        match s.update? B m with
        | none => blerHist B t s ops ("reject" :: acc)
        | some s' => blerHist B t s' ops ("ok" :: acc)
    | ["f", xs, ys] => do
      let x ← rows? xs; let y ← rows? ys
      match masks t x y with
      | none => blerHist B t s ops ("reject" :: acc)
      | some m =>
        match Bler.init.update? B m with
        | none => blerHist B t s ops ("reject" :: acc)
        | some s' => blerHist B t s ops ((if s'.total = 0 then "0/1" else showFrac (s'.errors, s'.total)) :: acc)
    | _ => none

/-- `StandardMetrics.bit_error_rate`: exact inequality of values, no threshold -/
def sber (x y : List Rat) : String :=
  if x.length ≠ y.length ∨ x.length = 0 then "reject"
  else showFrac ((List.zipWith (fun a b => decide (a ≠ b)) x y).filter id |>.length, x.length)

/-- `StandardMetrics.block_error_rate` (rows = items of the first dimension; a 1-D input is one row) -/
def sbler (b : Nat) (x y : List (List Rat)) : String :=
  if x.length ≠ y.length ∨ (List.zipWith (fun a b => a.length != b.length) x y).any id then "reject"
  else if b == 0 || (match x with | [] => true | r :: _ => r.length % b != 0) then "reject"
  else
    let xf := x.flatten; let yf := y.flatten
    let mask := List.zipWith (fun a b => decide (a ≠ b)) xf yf
    let n := xf.length / b
    if n = 0 then "0/1" else showFrac (blockErrors b mask, n)

def c16 (toks : List String) : Option String :=
  match toks with
  | "berhist" :: t :: ops => do
    let tr ← rat? t
    let out ← berHist tr Ber.init ops []
    some (" ".intercalate out)
  | "blerhist" :: b :: t :: ops => do
    let bn ← b.toNat?
    let tr ← rat? t
    let out ← blerHist (if bn = 0 then none else some bn) tr Bler.init ops []
    some (" ".intercalate out)
  | ["sber", xs, ys] => do
    let x ← ratList? xs; let y ← ratList? ys
    some (sber x y)
  | ["sbler", b, xs, ys] => do
    let bn ← b.toNat?
    let x ← rows? xs; let y ← rows? ys
    some (sbler bn x y)
  | _ => none

end Kaira.Verbs
