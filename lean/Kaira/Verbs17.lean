import Kaira.Proto
import Kaira.Pipeline
namespace Kaira.Verbs
open Kaira Kaira.Proto Kaira.Pipeline

def Mod17 : Nat := 1000003
/-- the concrete stage family used on both sides of the correspondence -/
def stageFn (e : Nat) (s v : Nat) : Nat := (v * 31 + s + 1 + e) % Mod17
def stageFn2 (s a b : Nat) : Nat := (a * 31 + s + 1 + 7 * b) % Mod17

private def showTrace (t : Trace) : String :=
  if t.isEmpty then "-" else ",".intercalate (t.map fun (s, v) => s!"{s}:{v}")

private def seqOps (steps : List Nat) : List String → List String → Option (List Nat × List String)
  | [], acc => some (steps, acc.reverse)
  | op :: ops, acc =>
    match op.toList with
    | 'a' :: r => do
      let s ← (String.ofList r).toNat?
      seqOps (steps ++ [s]) ops ("ok" :: acc)
    | 'r' :: r => do
      let i ← (String.ofList r).toNat?
      match seqApply steps (.remove i) with
      | some s' => seqOps s' ops ("ok" :: acc)
      | none => seqOps steps ops ("reject" :: acc)
    | _ => none

private structure BrState where
  bs : List Branch
  default : Option Nat

private def brOps (st : BrState) : List String → List String → Option (BrState × List String)
  | [], acc => some (st, acc.reverse)
  | op :: ops, acc =>
    match op.splitOn ":" with
    | ["a", name, k, j, s] => do
      let k ← k.toNat?; let j ← j.toNat?; let s ← s.toNat?
      match addBranch st.bs ⟨name, fun v => v % k == j, s⟩ with
      | some bs' => brOps { st with bs := bs' } ops ("ok" :: acc)
      | none => brOps st ops ("reject" :: acc)
    | ["d", s] => do
      let s ← s.toNat?
      brOps { st with default := some s } ops ("ok" :: acc)
    | ["r", name] =>
      match removeBranch st.bs name with
      | some bs' => brOps { st with bs := bs' } ops ("ok" :: acc)
      | none => brOps st ops ("reject" :: acc)
    | _ => none

def c17 (toks : List String) : Option String :=
  match toks with
  | "seq" :: v :: e :: init :: ops => do
    let v ← v.toNat?; let e ← e.toNat?
    let init ← natList? init
    let (steps, outs) ← seqOps init ops []
    let (r, tr) := runSeq (stageFn e) steps v []
    some (" ".intercalate (outs ++ ["T", showTrace tr, "V", toString r]))
  | ["par", v, e, agg, names, stages, perm] => do
    let v ← v.toNat?; let e ← e.toNat?
    let stages ← natList? stages; let perm ← natList? perm
    let names := if names = "-" then [] else names.splitOn ","
    if names.length ≠ stages.length then none else
    let res := parallel (stageFn e) (names.zip stages) perm v
    if agg = "1" then
      if (names.zip stages).isEmpty then some "{}" else
      some (toString (res.foldl (fun h (p : String × Nat) => (h * 131 + p.2) % Mod17) 7))
    else some (if res.isEmpty then "{}" else ",".intercalate (res.map fun (n, x) => s!"{n}={x}"))
  | "br" :: v :: e :: ops => do
    let v ← v.toNat?; let e ← e.toNat?
    let (st, outs) ← brOps ⟨[], none⟩ ops []
    let (r, ev) := branchRun (stageFn e) st.bs st.default v
    let rs := match r with | some (n, x) => s!"{n}={x}" | none => "error"
    some (" ".intercalate (outs ++ ["B", rs, "E", if ev.isEmpty then "-" else ",".intercalate ev]))
  | ["fb", x, iters, mode] => do
    let x ← x.toNat?; let n ← iters.toNat?
    let (o, tr) := if mode = "1" then feedback (fun s _ => s * 1000 + 7) (fun s _ _ => s * 1000 + 7) x n
      else feedback (stageFn 0) stageFn2 x n
    some s!"O {match o with | some d => toString d | none => "none"} T {showTrace tr}"
  | ["mac", joint, xs] => do
    let xs ← natList? xs
    let (o, tr) := mac (stageFn 0) xs (joint = "1")
    some s!"O {showNats o} T {showTrace tr}"
  | ["macid", joint, xs] => do
    -- pass-through encoders (they return their input), the model run twice on one input list: pure, inputs untouched
    let xs ← natList? xs
    let f := fun s v => if 100 ≤ s ∧ s < 200 then v else stageFn 0 s v
    let (o, tr) := mac f xs (joint = "1")
    some s!"O {showNats o} T {showTrace tr} | O {showNats o} T {showTrace tr} | X {showNats xs}"
  | _ => none

end Kaira.Verbs
