/-!
# Linear block codes over GF(2) — model of `LinearBlockCodeEncoder` (`forward`,
`calculate_syndrome`, `inverse_encode`) and of everything that inherits these three matrix products.

A binary vector is a `Nat` mask (bit `p` = coordinate `p`), a matrix is the list of its rows.
All three operations of the Python class are `torch.matmul(x, M) % 2`, i.e. the xor of the rows of
`M` selected by the bits of `x`: `M = generator_matrix` for encoding, `M = check_matrixᵀ` for the
syndrome and `M = generator_right_inverse` for the message extraction.  The three matrices are
regenerated from `/repo` on every run.
-/
namespace Kaira.Codes

/-- `x · M (mod 2)`: xor of the rows of `M` selected by the bits of `x` -/
def encodeFrom : List Nat → Nat → Nat → Nat
  | [], _, _ => 0
  | g :: gs, i, m => (if m.testBit i then g else 0) ^^^ encodeFrom gs (i + 1) m
def encode (M : List Nat) (x : Nat) : Nat := encodeFrom M 0 x

/-- `calculate_syndrome` on one block; `HT` = rows of `check_matrix.transpose(0, 1)` -/
def syndrome (HT : List Nat) (x : Nat) : Nat := encode HT x
/-- `inverse_encode` (message part) on one block; `R` = rows of `generator_right_inverse` -/
def invEncode (R : List Nat) (x : Nat) : Nat := encode R x

/-! ## blocks: the last dimension may carry several blocks -/
def splitBlocks (size : Nat) : Nat → List Bool → List (List Bool)
  | 0, _ => []
  | f+1, l => if l.isEmpty ∨ size = 0 then [] else l.take size :: splitBlocks size f (l.drop size)

def maskOf : List Bool → Nat
  | [] => 0
  | b :: bs => (if b then 1 else 0) + 2 * maskOf bs
def bitsOf (n x : Nat) : List Bool := (List.range n).map x.testBit

/-- blockwise application, rejecting lengths that are not a multiple of the block size -/
def blockwise (inSize outSize : Nat) (f : Nat → Nat) (bits : List Bool) : Option (List Bool) :=
  if inSize = 0 ∨ bits.length % inSize ≠ 0 then none
  else some ((splitBlocks inSize bits.length bits).flatMap fun b => bitsOf outSize (f (maskOf b)))

/-! ## instance record and the checker the kernel evaluates -/
structure CodeInst where
  name : String
  n : Nat
  k : Nat
  r : Nat           -- number of rows of the published check matrix (≥ n - k)
  G : List Nat      -- generator_matrix rows (k masks of n bits)
  HT : List Nat     -- check_matrix columns (n masks of r bits)
  R : List Nat      -- generator_right_inverse rows (n masks of k bits)
  St : List Nat     -- certificate (r masks of n bits): x = (xR)G + (xHᵀ)Sᵀ on every unit vector
  J : List Nat      -- indices of n-k rows of H claimed independent
  HJ : List Nat     -- those rows (n-bit masks)
  W : List Nat      -- certificate (n masks of |J| bits): HJ · W = I

/-- `A · B = I`: row `i` of `A` times `B` is the `i`-th unit vector -/
def unitRows (A B : List Nat) : Bool := A.zipIdx.all fun (a, i) => encode B a == 1 <<< i

def basisOk (c : CodeInst) : Bool :=
  (List.range c.n).all fun p =>
    encode c.G (encode c.R (1 <<< p)) ^^^ encode c.St (encode c.HT (1 <<< p)) == 1 <<< p

/-- `HJ[i]` is row `J[i]` of the matrix whose columns are `HT` -/
def rowsOk (c : CodeInst) : Bool :=
  c.J.length == c.HJ.length &&
  (c.J.zip c.HJ).all fun (j, h) => decide (j < c.r) && decide (h < 2 ^ c.n) &&
    c.HT.zipIdx.all fun (col, p) => h.testBit p == col.testBit j

def codeOk (c : CodeInst) : Bool :=
  c.G.length == c.k && c.HT.length == c.n && c.R.length == c.n && c.St.length == c.r &&
  c.G.all (· < 2 ^ c.n) && c.St.all (· < 2 ^ c.n) && c.R.all (· < 2 ^ c.k) && c.HT.all (· < 2 ^ c.r) &&
  c.G.all (fun g => encode c.HT g == 0) &&
  unitRows c.G c.R && basisOk c &&
  c.HJ.length + c.k == c.n && rowsOk c && c.W.length == c.n && unitRows c.HJ c.W

end Kaira.Codes
