import Kaira.Codes
import Kaira.Dist
/-!
# Reed's majority-logic decoder — model of `ReedMullerDecoder.forward` (hard input)

`parts[j]` is the list of check groups (bit masks of positions) the encoder publishes for generator row `j`
(`get_reed_partitions`); rows are peeled in the published order: the check sum of a group is the parity of the current
word on that group, bit `j` is the majority of the check sums, and the row is removed when the bit is 1.
-/
namespace Kaira.Reed
open Kaira.Codes Kaira.Dist

/-- parity of the low `n` coordinates -/
def par (n x : Nat) : Bool := decide (weight n x % 2 = 1)

/-- `torch.sum(checksums) > checksums.numel() // 2` -/
def majority (bs : List Bool) : Bool := decide (bs.length / 2 < bs.count true)

def reedLoop (n : Nat) : List Nat → List (List Nat) → Nat → Nat → Nat → Nat
  | g :: gs, p :: ps, j, bx, u =>
    let b := majority (p.map fun M => par n (bx &&& M))
    reedLoop n gs ps (j + 1) (if b then bx ^^^ g else bx) (if b then u ^^^ (1 <<< j) else u)
  | _, _, _, _, u => u

def reedDecode (n : Nat) (G : List Nat) (parts : List (List Nat)) (x : Nat) : Nat := reedLoop n G parts 0 x 0

/-! ## certificate the kernel evaluates on the regenerated partitions -/
structure ReedInst where
  name : String
  n : Nat
  k : Nat
  t : Nat                       -- ⌊(d-1)/2⌋ for the advertised distance
  G : List Nat
  parts : List (List Nat)

/-- pairwise disjoint masks -/
def disjointAll : List Nat → Bool
  | [] => true
  | m :: ms => ms.all (fun m' => m &&& m' == 0) && disjointAll ms

/-- for row `g` with groups `p` and the rows `later` still to be peeled: every group sees `g` with odd parity and every
later row with even parity, the groups are disjoint subsets of the `n` coordinates, and more than `2t` of them exist -/
def rowOk (n t g : Nat) (p later : List Nat) : Bool :=
  p.all (fun M => par n (g &&& M) && later.all (fun g' => !par n (g' &&& M)) && decide (M < 2 ^ n)) &&
  disjointAll p && decide (2 * t < p.length)

def rowsOk (n t : Nat) : List Nat → List (List Nat) → Bool
  | g :: gs, p :: ps => rowOk n t g p gs && rowsOk n t gs ps
  | [], [] => true
  | _, _ => false

def reedOk (c : ReedInst) : Bool :=
  c.G.length == c.k && c.G.all (· < 2 ^ c.n) && rowsOk c.n c.t c.G c.parts

end Kaira.Reed
