/-!
# Power / amplitude constraints (C08) — exact rational model of what the scaling constraints do to
the *power* of an item (square roots never appear: the factor is characterised by its square).
-/
namespace Kaira.Constraint

def sumSq (x : List Rat) : Rat := (x.map fun v => v * v).foldl (· + ·) 0

/-- the constants hard-wired in the implementation -/
def eps : Rat := 1 / 100000000        -- 1e-8 added to the current power
def zeroThr : Rat := 1 / 10000000000  -- 1e-10: below this the item is replaced by a uniform signal

/-- squared scale factor `P / (c + 1e-8)` -/
def factorSq (P c : Rat) : Rat := P / (c + eps)

/-- power of the output when the current power is `c`: `c · P / (c + 1e-8)` -/
def powerAfter (P c : Rat) : Rat := c * factorSq P c

/-- `TotalPowerConstraint` on one item (real samples; complex: list re and im): output total power -/
def totalPower (P : Rat) (x : List Rat) : Rat :=
  let c := sumSq x
  if c < zeroThr then P else powerAfter P c

/-- `AveragePowerConstraint` on one item: output power per element (`n` elements; for complex input
the list holds 2n real components) -/
def averagePower (P : Rat) (n : Nat) (x : List Rat) : Rat :=
  let c := sumSq x / n
  if c < zeroThr then P else powerAfter P c

/-- `PerAntennaPowerConstraint` for one antenna of one batch item with mean power `c` -/
def antennaPower (t c : Rat) : Rat := c * (t / (c + eps))

/-- `PeakAmplitudeConstraint`: `clamp(x, -A, A)` -/
def clamp (A v : Rat) : Rat := if v < -A then -A else if A < v then A else v

/-- a composite constraint applies its parts in order -/
def composite (parts : List (α → α)) (x : α) : α := parts.foldl (fun acc f => f acc) x

end Kaira.Constraint
