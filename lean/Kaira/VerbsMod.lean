import Kaira.Proto
import Kaira.Modem
import Kaira.ModemMem
import Kaira.Polarity
namespace Kaira.Verbs
open Kaira Kaira.Proto Kaira.Modem Kaira.Polarity

abbrev Tables := List (String × Table)

def pt? (s : String) : Option Pt :=
  match s.splitOn "," with
  | [a, b, c] => do
    let re ← a.toInt?; let im ← b.toInt?; let lab ← c.toNat?
    some ⟨re, im, lab⟩
  | _ => none

def findTable (ts : Tables) (n : String) : Option Table := (ts.find? (·.1 = n)).map (·.2)

def xy? (s : String) : Option (Int × Int) :=
  match s.splitOn "," with
  | [a, b] => do let x ← a.toInt?; let y ← b.toInt?; some (x, y)
  | _ => none

/-- verbs shared by C05/C06/C14/C15 -/
def cmod (ts : Tables) (toks : List String) : Option String :=
  match toks with
  | ["gray", n] => do let n ← n.toNat?; some (toString (toGray n))
  | ["ungray", n] => do let n ← n.toNat?; some (toString (fromGray n))
  | ["labelsok", t] => do let t ← findTable ts t; some (toString (labelsOk t))
  | ["pairsok", t, lo, hi, g] => do
    let t ← findTable ts t; let lo ← lo.toInt?; let hi ← hi.toInt?
    some (toString (pairsOk lo hi (g = "1") t.b t.pts))
  | ["energyok", t, s] => do
    let t ← findTable ts t; let s ← s.toInt?
    some (toString (energyOk s 1 1000000 t.pts))
  | ["modidx", t, mode, bits] => do
    let t ← findTable ts t; let bits ← bits? bits
    match modulate t (mode = "label") bits with
    | some idx => some (showNats idx)
    | none => some "reject"
  | ["cons", "llr", sc, thr, ls] => do
    let sc ← rat? sc; let thr ← rat? thr; let ls ← ratList? ls
    some (showBits (ls.map (llrThresh sc thr)))
  | ["cons", "fixed", thr, ls] => do
    let thr ← rat? thr; let ls ← ratList? ls
    some (showBits (ls.map (fixedLLR thr)))
  | ["cons", "mindist", refs, ls] => do
    let refs ← ratList? refs; let ls ← ratList? ls
    some (showBits (ls.map (minDistLLR refs)))
  | ["cons", "half", ls] => do
    let ls ← ratList? ls
    some (showBits (ls.map halfProb))
  | ["cons", "rep", r, ls] => do
    let r ← r.toNat?; let ls ← ratList? ls
    if r = 0 ∨ ls.length % r ≠ 0 then some "reject" else
    some (showBits ((List.range (ls.length / r)).map fun i => repetitionLLR ((ls.drop (i * r)).take r)))
  | ["rtml", t, mode, bits] => do
    let t ← findTable ts t; let bits ← bits? bits
    some (match rtMemoryless t (mode = "label") bits with | some o => showBits o | none => "reject")
  | ["rtdiff", t, bits] => do
    let t ← findTable ts t; let bits ← bits? bits
    some (match rtDifferential t bits with | some o => showBits o | none => "reject")
  | ["rtalt", a, b, c, d, bits] => do
    let a ← findTable ts a; let b ← findTable ts b; let c ← findTable ts c; let d ← findTable ts d
    let bits ← bits? bits
    some (match rtAlternating a b c d bits with | some o => showBits o | none => "reject")
  | ["rtoq", bits] => do
    let bits ← bits? bits
    some (match rtOffset bits with | some o => showBits o | none => "reject")
  | ["hard", t, ys] => do
    let t ← findTable ts t
    let ys ← (ys.splitOn ";").mapM xy?
    some (showBits (demodHard t ys))
  | ["nearest", t, ys] => do
    let t ← findTable ts t
    let ys ← (ys.splitOn ";").mapM xy?
    some (showNats (ys.map fun (x, y) => nearestIdx t x y))
  | ["llr", t, c, scale2, nv, ys] => do
    let t ← findTable ts t; let c ← rat? c; let s2 ← rat? scale2; let nv ← rat? nv
    let ys ← (ys.splitOn ";").mapM xy?
    let out := ys.flatMap fun (x, y) => (List.range t.b).map fun k => llr t c s2 k x y nv
    some (" ".intercalate (out.map fun o => match o with | some r => showRat r | none => "inf"))
  | _ => none

/-- `deftable name b re,im,lab;re,im,lab;...` -/
def defTable (toks : List String) : Option (String × Table) :=
  match toks with
  | ["deftable", name, b, pts] => do
    let b ← b.toNat?
    let pts ← (pts.splitOn ";").mapM pt?
    some (name, ⟨b, pts⟩)
  | _ => none

end Kaira.Verbs
