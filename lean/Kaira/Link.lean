import Kaira.Codes
import Kaira.ModemMem
/-!
# A coded, modulated link (C09) — the stage order of `ChannelCodeModel`:
encoder → modulator → (constraint) → channel → demodulator → decoder, on bit lists.
-/
namespace Kaira.Link
open Kaira.Codes Kaira.Modem

/-- the chain with a hard-decision demodulator; `chan` acts on the transmitted points -/
def link (k n : Nat) (G : List Nat) (t : Table) (dec : Nat → Nat)
    (chan : List (Int × Int) → List (Int × Int)) (msg : List Bool) : Option (List Bool) :=
  match blockwise k n (encode G) msg with
  | none => none
  | some cw =>
    match modulate t true cw with
    | none => none
    | some idx => blockwise n k dec (demodHard t (chan (idx.map (ptAt t))))

/-- symbol displacement: one offset per symbol -/
def displace (ds : List (Int × Int)) (pts : List (Int × Int)) : List (Int × Int) :=
  List.zipWith (fun p d => (p.1 + d.1, p.2 + d.2)) pts ds

def xorBits : List Bool → List Bool → List Bool
  | a :: as, b :: bs => xor a b :: xorBits as bs
  | as, [] => as
  | [], _ => []

/-- the harness' adversarial channel: decide the transmitted symbols, flip the code bits marked in
`e`, re-modulate (symbol substitution), then displace every symbol -/
def chanSub (t : Table) (e : List Bool) (ds : List (Int × Int)) (pts : List (Int × Int)) : List (Int × Int) :=
  match modulate t true (xorBits (demodHard t pts) e) with
  | some idx => displace ds (idx.map (ptAt t))
  | none => pts

end Kaira.Link
