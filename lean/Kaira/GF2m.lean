import Kaira.Poly2
/-!
# GF(2^m) arithmetic — model of `FiniteBifield` / `FiniteBifieldElement`

An element is a `Nat` below `2^m`; the field is given by its modulus `P` (a bit mask of bit length
`m+1`).  The table of moduli the library uses is extracted from the source on every run
(`Generated/C18.lean`).
-/
namespace Kaira.GF2m
open Kaira Kaira.Poly2

/-- `FiniteBifieldElement.__mul__` (with its shortcuts for 0 and 1) -/
def fmul (P a b : Nat) : Nat :=
  if a = 0 ∨ b = 0 then 0 else if a = 1 then b else if b = 1 then a
  else Poly2.mod (Poly2.mul a b) P

/-- square-and-multiply loop of `__pow__` -/
def powLoop (P : Nat) : Nat → Nat → Nat → Nat → Nat
  | 0, _, _, res => res
  | f+1, base, e, res =>
    if e = 0 then res
    else powLoop P f (fmul P base base) (e >>> 1) (if e % 2 = 1 then fmul P res base else res)

/-- `FiniteBifieldElement.__pow__` (non-negative exponent) -/
def fpow (P a e : Nat) : Nat :=
  if e = 0 then 1 else if e = 1 then a else if a = 0 then a else if a = 1 then a
  else powLoop P (bitLen e) a e 1

/-- `inverse` via Fermat: `a^(2^m - 2)`; `none` for zero (Python raises) -/
def finv? (P m a : Nat) : Option Nat :=
  if a = 0 then none else if a = 1 then some 1 else some (fpow P a (2^m - 2))

/-- `trace`: xor of `a^(2^i)`, `i < m`, lowest bit -/
def traceLoop (P : Nat) : Nat → Nat → Nat → Nat
  | 0, _, res => res
  | f+1, el, res => let el' := fmul P el el; traceLoop P f el' (res ^^^ el')
def trace (P m a : Nat) : Nat := (traceLoop P (m - 1) a a) % 2

/-- `conjugates`: a, a^2, a^4, … until the start repeats, at most `m` entries -/
def conjLoop (P a : Nat) : Nat → Nat → List Nat
  | 0, _ => []
  | f+1, el => let el' := fmul P el el; if el' = a then [] else el' :: conjLoop P a f el'
def conjugates (P m a : Nat) : List Nat := a :: conjLoop P a (m - 1) a

/-- `BinaryPolynomial.evaluate` at a field element -/
def evalLoop (P x : Nat) : Nat → Nat → Nat → Nat → Nat
  | 0, _, _, res => res
  | f+1, v, pw, res =>
    if v = 0 then res
    else evalLoop P x f (v >>> 1) (fmul P pw x) (if v % 2 = 1 then res ^^^ pw else res)
def evalAt (P p x : Nat) : Nat := if p = 0 then 0 else evalLoop P x (bitLen p) p 1 0

/-- brute-force search of `minimal_polynomial`: first `mask` such that `X^d + mask` vanishes on all
conjugates; `none` if the search is exhausted (Python raises `RuntimeError`) -/
def minPolySearch (P : Nat) (conj : List Nat) (d : Nat) : Nat → Nat → Option Nat
  | 0, _ => none
  | f+1, mask =>
    let p := (1 <<< d) ^^^ mask
    if conj.all (fun c => evalAt P p c = 0) then some p else minPolySearch P conj d f (mask + 1)
def minPoly? (P m a : Nat) : Option Nat :=
  let c := conjugates P m a
  minPolySearch P c c.length (2 ^ c.length) 0

end Kaira.GF2m
