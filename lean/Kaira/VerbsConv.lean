import Kaira.Proto
import Kaira.Conv
namespace Kaira.Verbs
open Kaira Kaira.Proto Kaira.Conv

def layer? (s : String) : Option Layer :=
  match s.splitOn "," with
  | ["c", k, st, p] => do some (.conv (← k.toNat?) (← st.toNat?) (← p.toNat?))
  | ["t", k, st, p, op] => do some (.tconv (← k.toNat?) (← st.toNat?) (← p.toNat?) (← op.toNat?))
  | ["s", r] => do some (.shuffle (← r.toNat?))
  | _ => none

def layers? (s : String) : Option (List Layer) :=
  if s = "-" then some [] else (s.splitOn ";").mapM layer?

/-- C19 verbs: `cchain layers h`, `cclass enc|dec layers`, `nfilters L num den channels complex` -/
def cconv (toks : List String) : Option String :=
  match toks with
  | ["cchain", ls, h] => do
    let ls ← layers? ls; let h ← h.toNat?
    some (toString (chain ls h))
  | ["cclass", which, ls] => do
    let ls ← layers? ls
    some (match (if which = "enc" then encClass ls else decClass ls) with
      | some a => toString a
      | none => "none")
  | ["nfilters", l, num, den, ch, cx] => do
    let l ← l.toNat?; let num ← num.toNat?; let den ← den.toNat?; let ch ← ch.toNat?
    some (match numFilters l num den ch (cx = "1") with
      | some f => toString f
      | none => "reject")
  | _ => none

end Kaira.Verbs
