import Kaira.Polar
/-!
# Soft-input decoders (C10) — models of `WagnerSoftDecisionDecoder`, `MinSumLDPCDecoder` and the
message-passing skeleton of `BeliefPropagationDecoder`, over the rationals.

A Tanner graph is given check by check: `H[c]` is the list of the variables of check `c` (the
non-zero columns of row `c` of the parity-check matrix, increasing).  An edge is a pair `(c, j)`:
the `j`-th variable of check `c`.  Messages live on edges, `M[c][j]`.
-/
namespace Kaira.Soft
open Kaira.Polar (clip rabs rsign)

/-! ## Wagner decoding of the single-parity-check code -/

def hard (r : List Rat) : List Bool := r.map (fun x => decide (x < 0))

def parity : List Bool → Bool
  | [] => false
  | b :: bs => xor b (parity bs)

/-- least `|r_i|` (0 for the empty list) -/
def minAbs : List Rat → Rat
  | [] => 0
  | [x] => rabs x
  | x :: y :: ys => if rabs x ≤ minAbs (y :: ys) then rabs x else minAbs (y :: ys)

/-- flip the first position of least `|r|` (`torch.argmin` returns the first minimum) -/
def flipMin : List Rat → List Bool → List Bool
  | [_], [c] => [!c]
  | x :: y :: ys, c :: d :: ds =>
    if rabs x ≤ minAbs (y :: ys) then (!c) :: d :: ds else c :: flipMin (y :: ys) (d :: ds)
  | _, cs => cs

/-- hard decisions; if their parity is odd, the least reliable one is flipped -/
def wagner (r : List Rat) : List Bool :=
  if parity (hard r) then flipMin r (hard r) else hard r

/-- the message is the first `n - 1` positions (systematic single-parity-check code) -/
def wagnerDecode (r : List Rat) : List Bool := (wagner r).dropLast

/-! ## flooding message passing on a Tanner graph -/

abbrev Graph := List (List Nat)
abbrev Msgs := List (List Rat)

def msgAt (M : Msgs) (c j : Nat) : Rat := (M.getD c []).getD j 0
def varAt (H : Graph) (c j : Nat) : Nat := (H.getD c []).getD j 0

def sumR : List Rat → Rat
  | [] => 0
  | x :: xs => x + sumR xs

/-- number of variables of check `c` -/
def deg (H : Graph) (c : Nat) : Nat := (H.getD c []).length

/-- sum of the check-to-variable messages arriving at variable `v`, leaving out edge `(c0, j0)`
(`c0 = H.length` leaves out nothing) -/
def inSum (H : Graph) (M : Msgs) (v c0 j0 : Nat) : Rat :=
  sumR ((List.range H.length).map fun c =>
    sumR ((List.range (deg H c)).map fun j =>
      if varAt H c j = v ∧ ¬ (c = c0 ∧ j = j0) then msgAt M c j else 0))

/-- variable-to-check message on edge `(c, j)`: channel LLR plus all *other* incoming messages,
clipped to `±cl` (the implementation computes `marginal − own message` and clamps to ±500) -/
def vc (H : Graph) (llr : List Rat) (M : Msgs) (cl : Rat) (c j : Nat) : Rat :=
  clip cl (llr.getD (varAt H c j) 0 + inSum H M (varAt H c j) c j)

/-- one flooding round with check rule `rule` (applied to the other edges of the check) -/
def step (rule : List Rat → Rat) (H : Graph) (llr : List Rat) (cl : Rat) (M : Msgs) : Msgs :=
  (List.range H.length).map fun c =>
    let ins := (List.range (deg H c)).map fun j' => vc H llr M cl c j'
    (List.range (deg H c)).map fun j => rule (ins.eraseIdx j)

def zeroMsgs (H : Graph) : Msgs := H.map fun row => row.map fun _ => 0

def iterate (rule : List Rat → Rat) (H : Graph) (llr : List Rat) (cl : Rat) : Nat → Msgs → Msgs
  | 0, M => M
  | t+1, M => iterate rule H llr cl t (step rule H llr cl M)

/-- a-posteriori LLR of variable `v`: channel LLR plus all incoming messages -/
def marginal (H : Graph) (llr : List Rat) (M : Msgs) (v : Nat) : Rat :=
  llr.getD v 0 + inSum H M v H.length 0

def softOut (rule : List Rat → Rat) (H : Graph) (n : Nat) (llr : List Rat) (cl : Rat) (iters : Nat) : List Rat :=
  (List.range n).map (marginal H llr (iterate rule H llr cl iters (zeroMsgs H)))

/-- decisions at the message positions: negative a-posteriori LLR ↦ 1 -/
def mpDecode (rule : List Rat → Rat) (H : Graph) (llr : List Rat) (cl : Rat) (iters : Nat) (msgPos : List Nat) : List Bool :=
  msgPos.map fun v => decide (marginal H llr (iterate rule H llr cl iters (zeroMsgs H)) v < 0)

/-! ## the min-sum check rule -/

def signProd : List Rat → Rat
  | [] => 1
  | x :: xs => rsign x * signProd xs

def minMag : List Rat → Rat
  | [] => 0
  | [x] => rabs x
  | x :: y :: ys => if rabs x ≤ minMag (y :: ys) then rabs x else minMag (y :: ys)

/-- sign product times minimum magnitude, scaled, then the offset subtracted from the magnitude
(never below zero); no message from a check with no other edge -/
def checkMS (scale offset : Rat) (ins : List Rat) : Rat :=
  match ins with
  | [] => 0
  | _ =>
    let v := scale * (signProd ins * minMag ins)
    rsign v * (if rabs v ≤ offset then 0 else rabs v - offset)

end Kaira.Soft
