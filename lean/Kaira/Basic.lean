def hello := "world"
