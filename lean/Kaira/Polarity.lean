/-!
# LLR consumers (C15) — decision functions that are exact over the rationals
-/
namespace Kaira.Polarity

/-- `LLRThresholder` (hard output): `(x * confidence_scaling < threshold)` -/
def llrThresh (scale thr L : Rat) : Bool := decide (L * scale < thr)

/-- `FixedThresholder` with `input_type=LLR` *as implemented*: `(x > threshold)` -/
def fixedLLR (thr L : Rat) : Bool := decide (thr < L)

/-- first index at minimum squared distance among the reference points -/
def argminRef (L : Rat) : List Rat → Nat → Nat → Rat → Nat
  | [], _, best, _ => best
  | r :: rs, i, best, bd =>
    let d := (L - r) * (L - r)
    if d < bd then argminRef L rs (i + 1) i d else argminRef L rs (i + 1) best bd

/-- `MinDistanceThresholder` with `input_type=LLR`: the sign of the nearest reference point -/
def minDistLLR (refs : List Rat) (L : Rat) : Bool :=
  match refs with
  | [] => false
  | r0 :: rs =>
    let i := argminRef L rs 1 0 ((L - r0) * (L - r0))
    decide ((refs[i]?).getD 0 < 0)

/-- consumers that compare `sigmoid(-L)` with one half (`llr_to_bits`, `WeightedThresholder` with
weight 1 / threshold 0.5, `sign_to_bin ∘ sign`): by the sigmoid law this is `L < 0` -/
def halfProb (L : Rat) : Bool := decide (L < 0)

/-- `RepetitionSoftBitDecoder` in LLR mode with the mean / sum combiner and its default
`LLRThresholder`: sign of the sum -/
def repetitionLLR (group : List Rat) : Bool := decide (group.foldl (· + ·) 0 < 0)

end Kaira.Polarity
