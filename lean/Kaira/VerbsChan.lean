import Kaira.Proto
import Kaira.BinChan
import Kaira.Additive
import Kaira.Constraint
namespace Kaira.Verbs
open Kaira Kaira.Proto Kaira.BinChan Kaira.Additive

/-- C12 verbs: `bsc p xs us`, `bec p e xs us`, `zch p xs us` -/
def cbin (toks : List String) : Option String :=
  match toks with
  | ["bsc", p, xs, us] => do
    let p ← rat? p; let xs ← intList? xs; let us ← ratList? us
    some (showInts (bsc p xs us))
  | ["bec", p, e, xs, us] => do
    let p ← rat? p; let e ← e.toInt?; let xs ← intList? xs; let us ← ratList? us
    some (showInts (bec p e xs us))
  | ["zch", p, xs, us] => do
    let p ← rat? p; let xs ← intList? xs; let us ← ratList? us
    some (showInts (zch p xs us))
  | _ => none

def kind? (s : String) : Option Kind :=
  match s with
  | "awgnReal" => some .awgnReal | "awgnComplex" => some .awgnComplex
  | "lapScaleReal" => some .lapScaleReal | "lapScaleComplex" => some .lapScaleComplex
  | "lapPowerReal" => some .lapPowerReal | "lapPowerComplex" => some .lapPowerComplex
  | _ => none

private def cpair? (s : String) : Option C :=
  match s.splitOn "," with
  | [a, b] => do let x ← rat? a; let y ← rat? b; some (x, y)
  | _ => none
private def clist? (s : String) : Option (List C) := if s = "-" then some [] else (s.splitOn ";").mapM cpair?
private def showC (l : List C) : String :=
  if l.isEmpty then "-" else ";".intercalate (l.map fun (a, b) => showRat a ++ "," ++ showRat b)

/-- C07 / C13 verbs -/
def canalog (toks : List String) : Option String :=
  match toks with
  | ["noise2", k, param, zs] => do
    let k ← kind? k; let p ← rat? param; let zs ← ratList? zs
    some (showRats (noiseSq (componentPower k p) zs))
  | ["snrp", s, j] => do
    let s ← rat? s; let j ← j.toInt?
    some (showRat (snrPower s j))
  | ["expand", t, l, h] => do
    let t ← t.toNat?; let l ← l.toNat?; let h ← natList? h
    if t = 0 then some "reject" else
    some (showNats (expandBlocks t h l) ++ " " ++ toString (numBlocks t l))
  | ["fade", h, x, n] => do
    let h ← clist? h; let x ← clist? x; let n ← clist? n
    some (showC (fadeGiven h x n))
  | _ => none

/-- C08 verbs: output powers / clamped samples -/
def cconstraint (toks : List String) : Option String :=
  match toks with
  | ["cpow", "total", p, xs] => do
    let p ← rat? p; let xs ← ratList? xs
    some (showRat (Constraint.totalPower p xs))
  | ["cpow", "avg", p, n, xs] => do
    let p ← rat? p; let n ← n.toNat?; let xs ← ratList? xs
    some (showRat (Constraint.averagePower p n xs))
  | ["cant", t, cs] => do
    let t ← rat? t; let cs ← ratList? cs
    some (showRats (cs.map (Constraint.antennaPower t)))
  | ["cclamp", a, xs] => do
    let a ← rat? a; let xs ← ratList? xs
    some (showRats (xs.map (Constraint.clamp a)))
  | _ => none

end Kaira.Verbs
