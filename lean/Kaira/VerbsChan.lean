import Kaira.Proto
import Kaira.BinChan
namespace Kaira.Verbs
open Kaira Kaira.Proto Kaira.BinChan

/-- C12 verbs: `bsc p xs us`, `bec p e xs us`, `zch p xs us` -/
def cbin (toks : List String) : Option String :=
  match toks with
  | ["bsc", p, xs, us] => do
    let p ← rat? p; let xs ← intList? xs; let us ← ratList? us
    some (showInts (bsc p xs us))
  | ["bec", p, e, xs, us] => do
    let p ← rat? p; let e ← e.toInt?; let xs ← intList? xs; let us ← ratList? us
    some (showInts (bec p e xs us))
  | ["zch", p, xs, us] => do
    let p ← rat? p; let xs ← intList? xs; let us ← ratList? us
    some (showInts (zch p xs us))
  | _ => none

end Kaira.Verbs
