import Kaira.Modem
/-!
# Noise-free round trips (C05): memoryless schemes and the schemes with memory
(differential, offset, alternating-constellation), all driven by the extracted tables.
-/
namespace Kaira.Modem

def ptAt (t : Table) (i : Nat) : Int × Int := match t.pts[i]? with
  | some p => (p.re, p.im)
  | none => (0, 0)

/-- memoryless: modulate, then hard-demodulate the very points -/
def rtMemoryless (t : Table) (byLabel : Bool) (bits : List Bool) : Option (List Bool) :=
  (modulate t byLabel bits).map fun idx => demodHard t (idx.map (ptAt t))

/-- differential PSK after a reset: symbol `s` is the phase shift `table[idx_s]` (indices taken by
binary value); detection on `y_s · conj(y_{s-1})` recovers that shift for `s ≥ 1`, decides for the
nearest table entry and emits its label.  The reference symbol's bits are not returned. -/
def rtDifferential (t : Table) (bits : List Bool) : Option (List Bool) :=
  (modulate t false bits).map fun idx => demodHard t ((idx.drop 1).map (ptAt t))

/-- alternating constellations (π/4-QPSK) after a reset: even symbols use table `A`, odd ones `B`,
on both sides (`txA/txB` the modulator's tables, `rxA/rxB` the demodulator's) -/
def altDemod (rxA rxB : Table) : Bool → List (Int × Int) → List Bool
  | _, [] => []
  | useB, (x, y) :: rest =>
    let t := if useB then rxB else rxA
    natToBits t.b (labelAt t (nearestIdx t x y)) ++ altDemod rxA rxB (!useB) rest

def altPoints (txA txB : Table) : Bool → List Nat → List (Int × Int)
  | _, [] => []
  | useB, i :: rest => ptAt (if useB then txB else txA) i :: altPoints txA txB (!useB) rest

def rtAlternating (txA txB rxA rxB : Table) (bits : List Bool) : Option (List Bool) :=
  (modulate txA false bits).map fun idx => altDemod rxA rxB false (altPoints txA txB false idx)

/-- offset QPSK after a reset: in-phase bit in place, quadrature bit delayed by one symbol; the
first quadrature decision sees the reset value 0.0, decided as bit 0 (`y < 0` is false) -/
def oqpskPairs : Bool → List Bool → List Bool
  | prevQ, i :: q :: rest => i :: prevQ :: oqpskPairs q rest
  | _, _ => []

def rtOffset (bits : List Bool) : Option (List Bool) :=
  if bits.length % 2 ≠ 0 then none else some (oqpskPairs false bits)

end Kaira.Modem
