import Kaira.GF2m
/-!
# Berlekamp–Massey decoder — model of `BerlekampMasseyDecoder` (`kaira/models/fec/decoders/berlekamp_massey.py`)
and of `BCHCodeEncoder.calculate_syndrome_polynomial`

Field elements are `Nat` below `2^m` (modulus `P`), addition is xor, multiplication `GF2m.fmul`; the
primitive element is the class of `X`, i.e. `2`.  A received word is a bit mask (bit `j` = position `j`).
The tabular algorithm of the Python code keeps dictionaries indexed from `-1`; here they are lists
with index shifted by one (`tab[i+1]` is the entry for step `i`).
-/
namespace Kaira.BM
open Kaira Kaira.GF2m

/-- `r(α^i)` as the Python loop computes it: xor of `(α^i)^j` over the set positions `j < n` -/
def syndAt (P n r i : Nat) : Nat :=
  let ai := fpow P 2 i
  (List.range n).foldl (fun acc j => if r.testBit j then acc ^^^ fpow P ai j else acc) 0

/-- `calculate_syndrome_polynomial`: `[r(α^1), …, r(α^{2t})]` -/
def synd (P t n r : Nat) : List Nat := (List.range' 1 (2 * t)).map (syndAt P n r)

structure Tab where
  sigma : List (List Nat)
  disc : List Nat
  deg : List Nat
deriving Repr

/-- the search `for i in range(-1, j)`: index (shifted) of the earlier step with non-zero discrepancy and the largest
`i - degree[i]`, first such on ties; starts from `k = -1` with bound `-1` -/
def pickK (disc deg : List Nat) (j : Nat) : Nat :=
  let rec go (idx : Nat) (fuel : Nat) (k : Nat) (best : Int) : Nat :=
    match fuel with
    | 0 => k
    | f+1 =>
      -- shifted index `idx` is step `i = idx - 1`
      let i : Int := (idx : Int) - 1
      let v : Int := i - (deg.getD idx 0 : Int)
      if disc.getD idx 0 ≠ 0 ∧ v > best then go (idx + 1) f idx v else go (idx + 1) f k best
  go 0 (j + 1) 0 (-1)

def padTo (l : List Nat) (len : Nat) : List Nat := l ++ List.replicate (len - l.length) 0

/-- one pass of the loop body for step `j` (`0 ≤ j < 2t-1`) -/
def bmStep (P m : Nat) (S : List Nat) (t : Nat) (tb : Tab) (j : Nat) : Tab :=
  let dj := tb.disc.getD (j + 1) 0
  let sj := tb.sigma.getD (j + 1) []
  let degj := tb.deg.getD (j + 1) 0
  let (degN, sigN) :=
    if dj = 0 then (degj, sj)
    else
      let kk := pickK tb.disc tb.deg j          -- shifted index of step k = kk - 1
      let degk := tb.deg.getD kk 0
      let sk := tb.sigma.getD kk []
      let shift := j + 1 - kk                   -- j - k
      let degN := max degj (degk + shift)
      let fst := padTo sj (degN + 1)
      let snd := padTo (List.replicate shift 0 ++ sk) (degN + 1)
      let coef := match finv? P m (tb.disc.getD kk 0) with
        | some iv => fmul P dj iv
        | none => 0
      (degN, (List.range (degN + 1)).map fun i => fst.getD i 0 ^^^ fmul P (snd.getD i 0) coef)
  let discN :=
    if j + 2 < 2 * t then
      (List.range degN).foldl (fun acc i => acc ^^^ fmul P (sigN.getD (i + 1) 0) (S.getD (j - i) 0)) (S.getD (j + 1) 0)
    else 0
  { sigma := tb.sigma ++ [sigN], disc := if j + 2 < 2 * t then tb.disc ++ [discN] else tb.disc, deg := tb.deg ++ [degN] }

/-- `berlekamp_massey_algorithm`: the error-locator polynomial (coefficient list, constant term first) -/
def bm (P m t : Nat) (S : List Nat) : List Nat :=
  let init : Tab := { sigma := [[1], [1]], disc := [1, S.getD 0 0], deg := [0, 0] }
  let fin := (List.range (2 * t - 1)).foldl (bmStep P m S t) init
  fin.sigma.getD (2 * t) []

/-- evaluation of a coefficient list at `x` as in `_find_error_locations` (`Σ coef_i · x^i`) -/
def evalList (P : Nat) (cs : List Nat) (x : Nat) : Nat :=
  (cs.zipIdx.foldl (fun acc (c, i) => acc ^^^ fmul P c (fpow P x i)) 0)

/-- `_find_error_locations`: positions `j < n` with `σ(α^{n-j}) = 0` (`α^0` for `j = 0`) -/
def locate (P n : Nat) (sig : List Nat) : List Nat :=
  (List.range n).filter fun j => evalList P sig (if j > 0 then fpow P 2 (n - j) else 1) == 0

def maskOfPositions (ps : List Nat) : Nat := ps.foldl (fun acc p => acc ^^^ (1 <<< p)) 0

/-- the error estimate as a function of the syndrome alone -/
def estimate (P m t n : Nat) (S : List Nat) : Nat :=
  if S.all (· == 0) then 0 else maskOfPositions (locate P n (bm P m t S))

/-- `forward` on one block, before the message extraction: the corrected word -/
def correct (P m t n r : Nat) : Nat := r ^^^ estimate P m t n (synd P t n r)

end Kaira.BM
