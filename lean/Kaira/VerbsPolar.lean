import Kaira.Proto
import Kaira.Polar
namespace Kaira.Verbs
open Kaira Kaira.Proto Kaira.Polar

/-- C11 verbs; `rank` is the reliability ranking sent by the harness (`defrank ...`) -/
def cpolar (rank : List Nat) (toks : List String) : Option String :=
  match toks with
  | ["pinfo", n, k] => do
    let n ← n.toNat?; let k ← k.toNat?
    some (showBits (infoMask rank n k))
  | ["penc", m, inter, fz, info, msg] => do
    let m ← m.toNat?; let info ← bits? info; let msg ← bits? msg
    some (showBits (polarEncode m (inter = "1") (fz = "1") info msg))
  | ["pkron", m] => do
    let m ← m.toNat?
    some (showMat (kron m))
  | ["psc", m, inter, fz, clipv, info, llrs] => do
    let m ← m.toNat?; let info ← bits? info; let c ← rat? clipv; let y ← ratList? llrs
    some (showBits (scDecode m (inter = "1") (minSumF c) (fz = "1") info y))
  | _ => none

end Kaira.Verbs
