/-!
# Spatial-size arithmetic of convolutional encoder / decoder stacks (C19)

`out` is PyTorch's output-size formula for `Conv2d`, `ConvTranspose2d` (dilation 1) and `PixelShuffle`
along one spatial axis.
-/
namespace Kaira.Conv

inductive Layer where
  | conv (k s p : Nat)
  | tconv (k s p op : Nat)
  | shuffle (r : Nat)
  deriving Repr, DecidableEq

def out : Layer → Nat → Nat
  | .conv k s p, h => (h + 2 * p - k) / s + 1
  | .tconv k s p op, h => (h - 1) * s + k + op - 2 * p
  | .shuffle r, h => h * r

/-- a sequential stack -/
def chain (ls : List Layer) (h : Nat) : Nat := ls.foldl (fun h l => out l h) h

inductive Cls where
  | same | half | double
  deriving Repr, DecidableEq

/-- the three kinds of layers the bundled architectures are built from -/
def classify : Layer → Option Cls
  | .conv k s p =>
    if s = 1 ∧ k = 2 * p + 1 then some .same
    else if s = 2 ∧ (k = 2 * p + 1 ∨ k = 2 * p + 2) then some .half
    else none
  | .tconv k s p op =>
    if s = 1 ∧ k = 2 * p + 1 ∧ op = 0 then some .same
    else if s = 2 ∧ k + op = 2 * p + 2 then some .double
    else none
  | .shuffle r => if r = 1 then some .same else if r = 2 then some .double else none

/-- encoder stacks: only size-preserving and halving layers; returns the number of halvings -/
def encClass : List Layer → Option Nat
  | [] => some 0
  | l :: ls =>
    match classify l, encClass ls with
    | some .same, some a => some a
    | some .half, some a => some (a + 1)
    | _, _ => none

/-- decoder stacks: only size-preserving and doubling layers; returns the number of doublings -/
def decClass : List Layer → Option Nat
  | [] => some 0
  | l :: ls =>
    match classify l, decClass ls with
    | some .same, some a => some a
    | some .double, some a => some (a + 1)
    | _, _ => none

/-- every layer of an architecture (in module order, branches included) is of one of the three kinds -/
def allClassified (ls : List Layer) : Bool := ls.all fun l => (classify l).isSome

/-- `calculate_num_filters_factor_image` -/
def numFilters (strided : Nat) (bwNum bwDen : Nat) (channels : Nat) (complexTx : Bool) : Option Nat :=
  let r := channels * 4 ^ strided * bwNum * (if complexTx then 2 else 1)
  if bwDen = 0 ∨ r % bwDen ≠ 0 then none else some (r / bwDen)

end Kaira.Conv
