import Kaira.Proto
import Kaira.Codes
import Kaira.Decoders
import Kaira.BM
import Kaira.Dist
import Kaira.Reed
namespace Kaira.Verbs
open Kaira Kaira.Proto Kaira.Codes Kaira.Decoders

structure CodeDef where
  n : Nat
  k : Nat
  r : Nat
  G : List Nat
  HT : List Nat
  R : List Nat

abbrev CodeTable := List (String × CodeDef)

def findCode (cs : CodeTable) (n : String) : Option CodeDef := (cs.find? (·.1 = n)).map (·.2)

/-- `defcode name n k r G HT R`: rows of generator_matrix, of check_matrixᵀ, of generator_right_inverse -/
def defCode (toks : List String) : Option (String × CodeDef) :=
  match toks with
  | ["defcode", name, n, k, r, g, ht, rr] => do
    let n ← n.toNat?; let k ← k.toNat?; let r ← r.toNat?
    let g ← natList? g; let ht ← natList? ht; let rr ← natList? rr
    some (name, ⟨n, k, r, g, ht, rr⟩)
  | _ => none

private def out (o : Option (List Bool)) : String :=
  match o with
  | some b => showBits b
  | none => "reject"

/-- `enc|syn|inv name bits`: blockwise over the last dimension -/
def cfec (cs : CodeTable) (toks : List String) : Option String :=
  match toks with
  | ["enc", c, bits] => do
    let c ← findCode cs c; let bits ← bits? bits
    some (out (blockwise c.k c.n (encode c.G) bits))
  | ["syn", c, bits] => do
    let c ← findCode cs c; let bits ← bits? bits
    some (out (blockwise c.n c.r (syndrome c.HT) bits))
  | ["inv", c, bits] => do
    let c ← findCode cs c; let bits ← bits? bits
    some (out (blockwise c.n c.k (invEncode c.R) bits))
  | ["ml", c, bits] => do
    let c ← findCode cs c; let bits ← bits? bits
    some (out (blockwise c.n c.k (mlDecode c.G c.n c.k) bits))
  | ["syndec", c, bits] => do
    let c ← findCode cs c; let bits ← bits? bits
    some (out (blockwise c.n c.k (synDecode c.HT c.R c.n) bits))
  | ["haminv", c, info, bits] => do
    let c ← findCode cs c; let bits ← bits? bits; let info ← natList? info
    some (out (blockwise c.n c.k (hammingInverse c.HT info) bits))
  | ["bmdec", c, pp, m, t, bits] => do
    -- BerlekampMasseyDecoder.forward: blockwise, corrected word then message extraction
    let c ← findCode cs c; let bits ← bits? bits
    let pp ← pp.toNat?; let m ← m.toNat?; let t ← t.toNat?
    some (out (blockwise c.n c.k (fun r => invEncode c.R (Kaira.BM.correct pp m t c.n r)) bits))
  | ["bmint", pp, m, t, n, bits] => do
    -- internals on one word: syndromes, error locator, error positions
    let bits ← bits? bits
    let pp ← pp.toNat?; let m ← m.toNat?; let t ← t.toNat?; let n ← n.toNat?
    let r := maskOf bits
    let S := Kaira.BM.synd pp t n r
    if S.all (· == 0) then some s!"S {showNats S} clean"
    else
      let sg := Kaira.BM.bm pp m t S
      some s!"S {showNats S} L {showNats sg} E {showNats (Kaira.BM.locate pp n sg)}"
  | ["bmcert", c, pp, t, outb, recvb] => do
    -- certificate of a bounded-distance decoding: the corrected word has all-zero syndromes and differs from the received word in <= t places
    let c ← findCode cs c; let outb ← bits? outb; let recvb ← bits? recvb
    let pp ← pp.toNat?; let t ← t.toNat?
    if outb.length ≠ c.n ∨ recvb.length ≠ c.n then some "reject" else
    let o := maskOf outb; let r := maskOf recvb
    let z := (Kaira.BM.synd pp t c.n o).all (· == 0)
    let d := Kaira.Dist.weight c.n (o ^^^ r)
    some (if z ∧ d ≤ t then "ok" else s!"no zero-syndromes={z} distance={d}")
  | ["synz", c, bits] => do
    let c ← findCode cs c; let bits ← bits? bits
    match blockwise c.n c.r (syndrome c.HT) bits with
    | some s => some (if s.any id then "1" else "0")
    | none => some "reject"
  | _ => none

abbrev ReedTable := List (String × List (List Nat))

/-- `defreed name g,g,..;g,g/…`: check groups (position masks) of every generator row, rows separated by `/` -/
def defReed (toks : List String) : Option (String × List (List Nat)) :=
  match toks with
  | ["defreed", name, parts] => do
    let rows ← (parts.splitOn "/").mapM natList?
    some (name, rows)
  | _ => none

/-- `reed name bits`: ReedMullerDecoder.forward (hard input), blockwise -/
def creed (cs : CodeTable) (rs : ReedTable) (toks : List String) : Option String :=
  match toks with
  | ["reed", c, bits] => do
    let parts ← (rs.find? (·.1 = c)).map (·.2)
    let c ← findCode cs c; let bits ← bits? bits
    some (out (blockwise c.n c.k (Kaira.Reed.reedDecode c.n c.G parts) bits))
  | _ => none

end Kaira.Verbs
