/-!
# Pipeline models — `SequentialModel`/`ConfigurableModel` (also `DeepJSCCModel`, `ChannelCodeModel`),
`ParallelModel`, `BranchingModel`, `FeedbackChannelModel`, `MultipleAccessChannelModel`.

Stages are opaque: a stage is a natural number `s`, its behaviour a function parameter
`f s : Val → Val` (values are naturals).  Running a stage appends `(s, input)` to a trace.
The *mechanism* (loops, dict insertion, completion order, re-ordering) is modelled exactly.
-/
namespace Kaira.Pipeline

abbrev Trace := List (Nat × Nat)

/-! ## sequential -/
/-- `for step in self.steps: result = step(result, *args, **kwargs)` -/
def runSeq (f : Nat → Nat → Nat) : List Nat → Nat → Trace → Nat × Trace
  | [], v, tr => (v, tr)
  | s :: ss, v, tr => runSeq f ss (f s v) (tr ++ [(s, v)])

inductive SeqOp
  | add (s : Nat)
  | remove (i : Nat)

/-- `add_step` appends; `remove_step(i)` pops index `i`, rejecting indices out of range -/
def seqApply (steps : List Nat) : SeqOp → Option (List Nat)
  | .add s => some (steps ++ [s])
  | .remove i => if i < steps.length then some (steps.eraseIdx i) else none

/-- a history of add/remove operations; rejected operations leave the list unchanged -/
def seqHistory (steps : List Nat) : List SeqOp → List Nat
  | [] => steps
  | op :: ops => match seqApply steps op with
    | some s' => seqHistory s' ops
    | none => seqHistory steps ops

/-! ## parallel -/
/-- Python dict as an insertion-ordered association list: assigning an existing key keeps its slot -/
def dictSet (d : List (String × Nat)) (k : String) (v : Nat) : List (String × Nat) :=
  match d with
  | [] => [(k, v)]
  | (k', v') :: rest => if k' = k then (k', v) :: rest else (k', v') :: dictSet rest k v

def dictGet (d : List (String × Nat)) (k : String) : Option Nat :=
  match d with
  | [] => none
  | (k', v') :: rest => if k' = k then some v' else dictGet rest k

/-- results gathered in *completion* order `perm` (indices into `steps`) -/
def gatherStep (f : Nat → Nat → Nat) (steps : List (String × Nat)) (v : Nat)
    (d : List (String × Nat)) (i : Nat) : List (String × Nat) :=
  match steps[i]? with
  | some q => dictSet d q.1 (f q.2 v)
  | none => d
def gather (f : Nat → Nat → Nat) (steps : List (String × Nat)) (perm : List Nat) (v : Nat) : List (String × Nat) :=
  perm.foldl (gatherStep f steps v) []

/-- `{name: results[name] for name, _ in self.step_configs if name in results}` -/
def reorderStep (results : List (String × Nat)) (d : List (String × Nat)) (q : String × Nat) :
    List (String × Nat) :=
  match dictGet results q.1 with
  | some r => dictSet d q.1 r
  | none => d
def reorder (steps : List (String × Nat)) (results : List (String × Nat)) : List (String × Nat) :=
  steps.foldl (reorderStep results) []

/-- `ParallelModel.forward` before aggregation; `perm` is the order in which the futures complete -/
def parallel (f : Nat → Nat → Nat) (steps : List (String × Nat)) (perm : List Nat) (v : Nat) : List (String × Nat) :=
  if steps.isEmpty then [] else reorder steps (gather f steps perm v)

/-! ## branching -/
structure Branch where
  name : String
  cond : Nat → Bool
  stage : Nat

/-- returns the chosen branch name, its output, and the names whose condition was evaluated -/
def branchRun (f : Nat → Nat → Nat) (bs : List Branch) (default : Option Nat) (v : Nat) :
    Option (String × Nat) × List String :=
  let rec go : List Branch → List String → Option (String × Nat) × List String
    | [], ev => (default.map (fun s => ("default", f s v)), ev)
    | b :: rest, ev => if b.cond v then (some (b.name, f b.stage v), ev ++ [b.name]) else go rest (ev ++ [b.name])
  go bs []

/-- `add_branch` (rejects an existing name), `remove_branch` (rejects a missing name) -/
def addBranch (bs : List Branch) (b : Branch) : Option (List Branch) :=
  if bs.any (fun x => x.name = b.name) then none else some (bs ++ [b])
def removeBranch (bs : List Branch) (name : String) : Option (List Branch) :=
  if bs.any (fun x => x.name = name) then some (bs.filter (fun x => x.name ≠ name)) else none

/-! ## feedback -/
/-- stage ids of the six components -/
def sProc := 1
def sEnc := 2
def sFwd := 3
def sDec := 4
def sGen := 5
def sFbk := 6

/-- one round; `g s a b` is a two-argument stage (encoder with state, feedback generator with the
original input). `fb = none` on the first round. Returns (decoded, feedback, trace of the round). -/
def fbRound (f : Nat → Nat → Nat) (g : Nat → Nat → Nat → Nat) (x : Nat) (fb : Option Nat) : Nat × Nat × Trace :=
  let (state, t0) : Option Nat × Trace := match fb with
    | none => (none, [])
    | some b => (some (f sProc b), [(sProc, b)])
  let encoded := match state with
    | none => f sEnc x
    | some st => g sEnc x st
  let received := f sFwd encoded
  let decoded := f sDec received
  let fb1 := g sGen decoded x
  let fb2 := f sFbk fb1
  (decoded, fb2, t0 ++ [(sEnc, x), (sFwd, encoded), (sDec, received), (sGen, decoded), (sFbk, fb1)])

def fbLoop (f : Nat → Nat → Nat) (g : Nat → Nat → Nat → Nat) (x : Nat) : Nat → Option Nat → Option Nat → Trace → Option Nat × Trace
  | 0, _, out, tr => (out, tr)
  | n+1, fb, _, tr =>
    let (d, fb', t) := fbRound f g x fb
    fbLoop f g x n (some fb') (some d) (tr ++ t)

/-- `FeedbackChannelModel.forward`: final output (none if zero iterations) and the trace -/
def feedback (f : Nat → Nat → Nat) (g : Nat → Nat → Nat → Nat) (x iters : Nat) : Option Nat × Trace :=
  fbLoop f g x iters none none []

/-! ## multiple access -/
/-- encoders `100+i`, constraint `200`, channel `201`, decoders `300+i` (joint: `300`) -/
def mac (f : Nat → Nat → Nat) (xs : List Nat) (joint : Bool) : List Nat × Trace :=
  let enc := xs.zipIdx.map (fun (x, i) => (f (100 + i) x, (100 + i, x)))
  let combined := (enc.map (·.1)).sum
  let constrained := f 200 combined
  let received := f 201 constrained
  let decs := if joint then [0] else List.range xs.length
  (decs.map (fun i => f (300 + i) received),
   enc.map (·.2) ++ [(200, combined), (201, constrained)] ++ decs.map (fun i => (300 + i, received)))

end Kaira.Pipeline
