/-!
# Additive-noise channels (C07) and flat fading (C13) — exact rational models.
Random draws (`z` standard normal / raw Laplacian values, fading coefficients) are *inputs*; square
roots never appear: a noise sample is characterised by its sign and its square.
-/
namespace Kaira.Additive

/-- squared noise samples: `(√P · z_i)² = P · z_i²` -/
def noiseSq (P : Rat) (z : List Rat) : List Rat := z.map fun v => P * v * v

def meanSq (l : List Rat) : Rat := if l.isEmpty then 0 else (l.map fun v => v * v).foldl (· + ·) 0 / l.length

/-- noise power for an SNR of `10·j` dB: `S / 10^j` -/
def snrPower (S : Rat) (j : Int) : Rat := if j ≥ 0 then S / (10 : Rat) ^ j.toNat else S * (10 : Rat) ^ (-j).toNat

/-- per-component power multiplier of each channel parameterisation -/
inductive Kind
  | awgnReal | awgnComplex | lapScaleReal | lapScaleComplex | lapPowerReal | lapPowerComplex
deriving DecidableEq, Repr

/-- `param` is the configured noise power (or, for the Laplacian `scale` parameterisation, the scale b) -/
def componentPower (k : Kind) (param : Rat) : Rat :=
  match k with
  | .awgnReal => param
  | .awgnComplex => param / 2
  | .lapScaleReal => param * param          -- b² (raw Laplacian has variance 2: total 2b²)
  | .lapScaleComplex => param * param / 2
  | .lapPowerReal => param / 2              -- b² = P/2
  | .lapPowerComplex => param / 4

/-! ## flat fading -/

/-- `h_exp[t] = h[t / T]` -/
def expandBlocks (T : Nat) (h : List α) (L : Nat) [Inhabited α] : List α :=
  (List.range L).map fun t => h[t / T]!

def numBlocks (T L : Nat) : Nat := (L + T - 1) / T

/-- complex numbers as pairs -/
abbrev C := Rat × Rat
def cmul (a b : C) : C := (a.1 * b.1 - a.2 * b.2, a.1 * b.2 + a.2 * b.1)
def cadd (a b : C) : C := (a.1 + b.1, a.2 + b.2)

/-- `y = h·x + n` with supplied channel state and noise -/
def fadeGiven (h x n : List C) : List C := List.zipWith cadd (List.zipWith cmul h x) n

end Kaira.Additive
