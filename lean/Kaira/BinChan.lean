/-!
# Binary channels — model of `BinarySymmetricChannel`, `BinaryErasureChannel`, `BinaryZChannel`.
The uniform draws `u` (values of `torch.rand_like`, in [0, 1)) are an *input* of the model.
-/
namespace Kaira.BinChan

/-- the bipolar format {-1,+1} is recognised by the presence of a -1 -/
def bipolar (x : List Int) : Bool := x.any (· == -1)

/-- map to {0,1}: `(x + 1) / 2` on bipolar input -/
def toBin (bip : Bool) (v : Int) : Int := if bip then (v + 1) / 2 else v
def fromBin (bip : Bool) (v : Int) : Int := if bip then 2 * v - 1 else v

/-- BSC: `y = (x + [u < p]) mod 2` on the {0,1} representation -/
def bsc (p : Rat) (x : List Int) (u : List Rat) : List Int :=
  let bip := bipolar x
  List.zipWith (fun v d => fromBin bip ((toBin bip v + (if d < p then 1 else 0)) % 2)) x u

/-- BEC: erased where `u < p`, untouched elsewhere -/
def bec (p : Rat) (e : Int) (x : List Int) (u : List Rat) : List Int :=
  List.zipWith (fun v d => if d < p then e else v) x u

/-- Z-channel: only positions holding a 1 consume a draw (in order); a 1 becomes 0 when `u < p` -/
def zLoop (p : Rat) : List Int → List Rat → List Int
  | [], _ => []
  | v :: vs, us =>
    if v = 1 then
      match us with
      | d :: ds => (if d < p then 0 else 1) :: zLoop p vs ds
      | [] => 1 :: zLoop p vs []
    else v :: zLoop p vs us

def zch (p : Rat) (x : List Int) (u : List Rat) : List Int :=
  let bip := bipolar x
  let xb := x.map (toBin bip)
  let yb := if 0 < p then zLoop p xb u else xb
  yb.map (fromBin bip)

end Kaira.BinChan
