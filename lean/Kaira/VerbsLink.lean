import Kaira.VerbsFec
import Kaira.VerbsMod
import Kaira.Link
namespace Kaira.Verbs
open Kaira Kaira.Proto Kaira.Codes Kaira.Decoders Kaira.Modem Kaira.Link

/-- C09: `link code table dec msg flips disp` — the whole chain with the harness' channel:
`flips` marks the code bits flipped by symbol substitution (`-`: none), `disp` is `dx,dy;dx,dy;...`
in table units (`-`: none) -/
def clink (cs : CodeTable) (ts : Tables) (toks : List String) : Option String :=
  match toks with
  | ["link", c, t, dec, msg, flips, disp] => do
    let c ← findCode cs c; let t ← findTable ts t
    let msg ← bits? msg; let e ← bits? flips
    let ds ← if disp = "-" then some [] else (disp.splitOn ";").mapM xy?
    let d ← match dec with
      | "ml" => some (mlDecode c.G c.n c.k)
      | "syn" => some (synDecode c.HT c.R c.n)
      | "inv" => some (invEncode c.R)
      | _ => none
    let chan := fun pts : List (Int × Int) =>
      chanSub t e (if ds.isEmpty then List.replicate pts.length (0, 0) else ds) pts
    some (match link c.k c.n c.G t d chan msg with
      | some b => showBits b
      | none => "reject")
  | _ => none

end Kaira.Verbs
