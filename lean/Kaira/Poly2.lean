/-!
# Binary polynomials as `Nat` bit masks — model of `kaira/models/fec/algebra.py: BinaryPolynomial`

Mathlib-free, executable.  Every Python `while` loop is a structurally recursive function with a
fuel argument; `Proofs/Poly2.lean` shows the fuel suffices and relates the loops to `(ZMod 2)[X]`.
-/
namespace Kaira

/-- Python `int.bit_length()` -/
def bitLen (n : Nat) : Nat := if n = 0 then 0 else Nat.log2 n + 1

namespace Poly2

/-- `BinaryPolynomial.degree`: `-1` for the zero polynomial -/
def degree (a : Nat) : Int := (bitLen a : Int) - 1

/-- loop of `__mul__`: `while b > 0: if b & 1: result ^= a; a <<= 1; b >>= 1` -/
def mulLoop : Nat → Nat → Nat → Nat → Nat
  | 0, _, _, res => res
  | f+1, a, b, res =>
    if b = 0 then res
    else mulLoop f (a <<< 1) (b >>> 1) (if b % 2 = 1 then res ^^^ a else res)

/-- `BinaryPolynomial.__mul__` -/
def mul (a b : Nat) : Nat :=
  if a = 0 ∨ b = 0 then 0 else mulLoop (bitLen b) a b 0

/-- loop of `__mod__`: xor the shifted modulus while the degree is not below the modulus' degree -/
def modLoop : Nat → Nat → Nat → Nat
  | 0, r, _ => r
  | f+1, r, m => if bitLen r < bitLen m then r else modLoop f (r ^^^ (m <<< (bitLen r - bitLen m))) m

/-- `BinaryPolynomial.__mod__` for a non-zero modulus (`m = 0` raises in Python; see `mod?`) -/
def mod (a m : Nat) : Nat := modLoop (bitLen a) a m

def mod? (a m : Nat) : Option Nat := if m = 0 then none else some (mod a m)

/-- loop of `div`: returns (quotient, remainder) -/
def divLoop : Nat → Nat → Nat → Nat → Nat × Nat
  | 0, q, r, _ => (q, r)
  | f+1, q, r, d =>
    if bitLen r < bitLen d then (q, r)
    else divLoop f (q ||| (1 <<< (bitLen r - bitLen d))) (r ^^^ (d <<< (bitLen r - bitLen d))) d

/-- `BinaryPolynomial.div` for a non-zero divisor -/
def div (a d : Nat) : Nat :=
  if a = 0 then 0 else if a = d then 1 else if bitLen a < bitLen d then 0
  else (divLoop (bitLen a) 0 a d).1

def div? (a d : Nat) : Option Nat := if d = 0 then none else some (div a d)

/-- Euclid loop of `gcd`: `while b != 0: a, b = b, a % b` -/
def gcdLoop : Nat → Nat → Nat → Nat
  | 0, a, _ => a
  | f+1, a, b => if b = 0 then a else gcdLoop f b (mod a b)

/-- `BinaryPolynomial.gcd` -/
def gcd (a b : Nat) : Nat :=
  if a = 0 then b else if b = 0 then a else if a = b then a
  else gcdLoop (bitLen b + 2) a b

/-- `BinaryPolynomial.lcm` -/
def lcm (a b : Nat) : Nat :=
  if a = 0 ∨ b = 0 then 0 else if a = b then a
  else
    let g := gcd a b
    if g = 0 then 0 else div (mul a b) g

/-- loop of `derivative` -/
def derivLoop : Nat → Nat → Nat → Nat → Nat
  | 0, _, _, res => res
  | f+1, value, power, res =>
    if value = 0 then res
    else derivLoop f (value >>> 1) (power + 1)
      (if power % 2 = 1 ∧ value % 2 = 1 then res ||| (1 <<< (power - 1)) else res)

/-- `BinaryPolynomial.derivative` -/
def derivative (a : Nat) : Nat := derivLoop (bitLen a) a 0 0

/-- `to_coefficient_list` (`[0]` for the zero polynomial) -/
def coeffLoop : Nat → Nat → List Nat
  | 0, _ => []
  | f+1, v => if v = 0 then [] else (v % 2) :: coeffLoop f (v >>> 1)
def coeffs (a : Nat) : List Nat := if a = 0 then [0] else coeffLoop (bitLen a) a

end Poly2
end Kaira
