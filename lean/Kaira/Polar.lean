/-!
# Polar codes (C11) — model of `PolarCodeEncoder` and `SuccessiveCancellationDecoder`
-/
namespace Kaira.Polar

def xorL : List Bool → List Bool → List Bool := List.zipWith xor

/-- Arikan transform `u ↦ u · F^{⊗m}`, `F = [[1,0],[1,1]]`, natural order: with `u = (a, b)`,
`(a, b) ↦ ((a ⊕ b)·F^{⊗(m-1)}, b·F^{⊗(m-1)})` -/
def enc : Nat → List Bool → List Bool
  | 0, u => u
  | m+1, u => xorL (enc m (u.take (2^m))) (enc m (u.drop (2^m))) ++ enc m (u.drop (2^m))

def interleave : List Bool → List Bool → List Bool
  | a :: as, b :: bs => a :: b :: interleave as bs
  | _, _ => []

/-- the `polar_i` variant: the two halves are interleaved (bit-reversal order) -/
def encI : Nat → List Bool → List Bool
  | 0, u => u
  | m+1, u => interleave (xorL (encI m (u.take (2^m))) (encI m (u.drop (2^m)))) (encI m (u.drop (2^m)))

/-- the m-fold Kronecker power of `[[1,0],[1,1]]` as a list of rows -/
def kron : Nat → List (List Bool)
  | 0 => [[true]]
  | m+1 => (kron m).map (fun r => r ++ List.replicate (2^m) false) ++ (kron m).map (fun r => r ++ r)

/-- `u · M` over GF(2): xor of the rows selected by `u` (rows of length `n`) -/
def vecMat (n : Nat) : List Bool → List (List Bool) → List Bool
  | b :: bs, r :: rs => xorL (if b then r else List.replicate n false) (vecMat n bs rs)
  | _, _ => List.replicate n false

/-! ## information set from the reliability ranking -/

/-- frozen positions: the first `N - K` entries below `N` of the ranking (least reliable first) -/
def frozenSet (rank : List Nat) (N K : Nat) : List Nat := ((rank.filter (· < N)).take (N - K))

/-- `info_indices`: position `p` carries a message bit iff it is not frozen -/
def infoMask (rank : List Nat) (N K : Nat) : List Bool :=
  (List.range N).map fun p => !(frozenSet rank N K).contains p

/-- place the message bits on the information positions (in increasing position order), the frozen
value elsewhere -/
def place (fz : Bool) : List Bool → List Bool → List Bool
  | [], _ => []
  | true :: info, b :: msg => b :: place fz info msg
  | true :: info, [] => fz :: place fz info []
  | false :: info, msg => fz :: place fz info msg

def polarEncode (m : Nat) (interleaved : Bool) (fz : Bool) (info msg : List Bool) : List Bool :=
  (if interleaved then encI m else enc m) (place fz info msg)

/-! ## successive cancellation over the rationals -/

def clip (c x : Rat) : Rat := if x < -c then -c else if c < x then c else x
def rabs (x : Rat) : Rat := if x < 0 then -x else x
def rsign (x : Rat) : Rat := if x < 0 then -1 else if 0 < x then 1 else 0

/-- check node, min-sum regime: `sign(a)·sign(b)·min(|a|,|b|)`, clipped -/
def minSumF (c : Rat) (a b : Rat) : Rat :=
  clip c (rsign a * rsign b * (if rabs a < rabs b then rabs a else rabs b))

/-- bit node: `y2 + (1 - 2x)·y1` -/
def g (y1 y2 : Rat) (x : Bool) : Rat := y2 + (if x then -y1 else y1)

def zipWith3' (h : Rat → Rat → Bool → Rat) : List Rat → List Rat → List Bool → List Rat
  | a :: as, b :: bs, c :: cs => h a b c :: zipWith3' h as bs cs
  | _, _, _ => []

/-- textbook successive cancellation with check rule `f`; returns (decisions `u`, re-encoded `x`).
`sign_to_bin(sign(llr))` maps a zero LLR to 0.5 in the implementation; the model decides 0 there —
ties at 0 are excluded from the correspondence. -/
def sc (f : Rat → Rat → Rat) (fz : Bool) : Nat → List Rat → List Bool → List Bool × List Bool
  | 0, y, info =>
    match y, info with
    | [l], [true] => ([decide (l < 0)], [decide (l < 0)])
    | _, _ => ([fz], [fz])
  | m+1, y, info =>
    let ya := y.take (2^m); let yb := y.drop (2^m)
    let r1 := sc f fz m (List.zipWith f ya yb) (info.take (2^m))
    let r2 := sc f fz m (zipWith3' g ya yb r1.2) (info.drop (2^m))
    (r1.1 ++ r2.1, xorL r1.2 r2.2 ++ r2.2)

def deinterleave (l : List α) : List α × List α :=
  match l with
  | a :: b :: rest => let r := deinterleave rest; (a :: r.1, b :: r.2)
  | _ => ([], [])

/-- `polar_i` variant: even / odd positions instead of halves, re-encoded word interleaved -/
def scI (f : Rat → Rat → Rat) (fz : Bool) : Nat → List Rat → List Bool → List Bool × List Bool
  | 0, y, info =>
    match y, info with
    | [l], [true] => ([decide (l < 0)], [decide (l < 0)])
    | _, _ => ([fz], [fz])
  | m+1, y, info =>
    let ya := (deinterleave y).1; let yb := (deinterleave y).2
    let r1 := scI f fz m (List.zipWith f ya yb) (info.take (2^m))
    let r2 := scI f fz m (zipWith3' g ya yb r1.2) (info.drop (2^m))
    (r1.1 ++ r2.1, interleave (xorL r1.2 r2.2) r2.2)

/-- message = decisions at the information positions -/
def extract : List Bool → List Bool → List Bool
  | true :: info, b :: us => b :: extract info us
  | false :: info, _ :: us => extract info us
  | _, _ => []

def scDecode (m : Nat) (interleaved : Bool) (f : Rat → Rat → Rat) (fz : Bool) (info : List Bool) (y : List Rat) : List Bool :=
  extract info ((if interleaved then scI f fz m y info else sc f fz m y info).1)

end Kaira.Polar
