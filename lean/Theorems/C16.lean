import Kaira.Metrics
import Mathlib.Tactic.Ring
import Mathlib.Tactic.Linarith
/-!
# C16 — error-rate metrics are exact counts; the streaming form is partition-independent

Property theorems about `Kaira.Metrics` (the executable model of `BitErrorRate`,
`BlockErrorRate`/SER/FER and the `StandardMetrics` helpers).  All statements are for every input
and every history, no bound on sizes.
-/
open Kaira.Metrics

namespace C16

/-! ## exact counts -/

theorem diffCount_le : ∀ (x y : List Bool), diffCount x y ≤ x.length
  | [], _ => by simp [diffCount]
  | _ :: _, [] => by simp [diffCount]
  | a :: as, b :: bs => by
    have := diffCount_le as bs
    simp only [diffCount, List.length_cons]; split <;> omega

/-- symmetric in its arguments -/
theorem diffCount_comm : ∀ (x y : List Bool), diffCount x y = diffCount y x
  | [], [] => rfl
  | [], _ :: _ => rfl
  | _ :: _, [] => rfl
  | a :: as, b :: bs => by
    simp only [diffCount, diffCount_comm as bs]
    cases a <;> cases b <;> rfl

/-- zero exactly when the inputs agree -/
theorem diffCount_eq_zero_iff : ∀ (x y : List Bool), x.length = y.length → (diffCount x y = 0 ↔ x = y)
  | [], [], _ => by simp [diffCount]
  | [], _ :: _, h => by simp at h
  | _ :: _, [], h => by simp at h
  | a :: as, b :: bs, h => by
    have ih := diffCount_eq_zero_iff as bs (by simpa using h)
    simp only [diffCount, List.cons.injEq]
    cases a <;> cases b <;> simp [ih]

/-- one-shot BER = (#differing bits, #bits) -/
theorem ber_exact (x y : List Bool) (h : x ≠ []) :
    Ber.oneShot x y = (diffCount x y, x.length) := by
  unfold Ber.oneShot
  have : x.length ≠ 0 := fun h0 => h (List.eq_nil_of_length_eq_zero h0)
  simp [this]

theorem diffCount_append : ∀ (x y x' y' : List Bool), x.length = y.length →
    diffCount (x ++ x') (y ++ y') = diffCount x y + diffCount x' y'
  | [], [], _, _, _ => by simp [diffCount]
  | [], _ :: _, _, _, h => by simp at h
  | _ :: _, [], _, _, h => by simp at h
  | a :: as, b :: bs, x', y', h => by
    have ih := diffCount_append as bs x' y' (by simpa using h)
    simp only [List.cons_append, diffCount, ih]; omega

/-! ## streaming = one-shot on the concatenation -/

/-- a well-formed batch: both tensors have the same number of elements -/
def WF (b : List Bool × List Bool) : Prop := b.1.length = b.2.length

def feed (s : Ber) (bs : List (List Bool × List Bool)) : Ber := bs.foldl (fun s b => s.update b.1 b.2) s

theorem feed_state (bs : List (List Bool × List Bool)) (hw : ∀ b ∈ bs, WF b) (s : Ber) :
    feed s bs = ⟨s.total + (bs.map (·.1)).flatten.length,
                 s.errors + diffCount (bs.map (·.1)).flatten (bs.map (·.2)).flatten⟩ := by
  induction bs generalizing s with
  | nil => simp [feed, diffCount]
  | cons b bs ih =>
    have hb : WF b := hw b (by simp)
    have := ih (fun c hc => hw c (by simp [hc])) (s.update b.1 b.2)
    simp only [feed, List.foldl_cons] at this ⊢
    rw [this]
    simp only [Ber.update, List.map_cons, List.flatten_cons, List.length_append,
      diffCount_append _ _ _ _ hb]
    congr 1 <;> omega

/-- **accumulated over any sequence of update calls = one-shot value on the concatenated data** -/
theorem stream_eq_oneshot (bs : List (List Bool × List Bool)) (hw : ∀ b ∈ bs, WF b)
    (hne : (bs.map (·.1)).flatten ≠ []) :
    (feed Ber.init bs).compute = Ber.oneShot (bs.map (·.1)).flatten (bs.map (·.2)).flatten := by
  rw [feed_state bs hw, ber_exact _ _ hne]
  have : (bs.map (·.1)).flatten.length ≠ 0 := fun h0 => hne (List.eq_nil_of_length_eq_zero h0)
  simp only [Ber.compute, Ber.init, Nat.zero_add]
  congr 1; omega

/-- however the data was split: two partitions of the same data give the same value -/
theorem partition_independent (bs cs : List (List Bool × List Bool))
    (hb : ∀ b ∈ bs, WF b) (hc : ∀ b ∈ cs, WF b)
    (h1 : (bs.map (·.1)).flatten = (cs.map (·.1)).flatten)
    (h2 : (bs.map (·.2)).flatten = (cs.map (·.2)).flatten) :
    feed Ber.init bs = feed Ber.init cs := by
  rw [feed_state bs hb, feed_state cs hc, h1, h2]

theorem update_comm (s : Ber) (a b : List Bool × List Bool) :
    (s.update a.1 a.2).update b.1 b.2 = (s.update b.1 b.2).update a.1 a.2 := by
  simp only [Ber.update]; congr 1 <;> omega

/-- however the batches were ordered -/
theorem order_independent {bs cs : List (List Bool × List Bool)} (h : bs.Perm cs) (s : Ber) :
    feed s bs = feed s cs := by
  induction h generalizing s with
  | nil => rfl
  | cons x _ ih => simp only [feed, List.foldl_cons] at ih ⊢; exact ih _
  | swap x y l => simp only [feed, List.foldl_cons]; rw [update_comm]
  | trans _ _ ih1 ih2 => exact (ih1 s).trans (ih2 s)

/-! ## histories of update / compute / reset refine the reference counter -/

/-- the abstract specification: the log of batches since the last reset -/
def specRun (log : List (List Bool × List Bool)) : List BerOp → List (Nat × Nat)
  | [] => []
  | .update x y :: ops => specRun (log ++ [(x, y)]) ops
  | .compute :: ops => (feed Ber.init log).compute :: specRun log ops
  | .reset :: ops => specRun [] ops

theorem feed_append (s : Ber) (bs cs : List (List Bool × List Bool)) :
    feed s (bs ++ cs) = feed (feed s bs) cs := by simp [feed, List.foldl_append]

/-- every interleaving of update/compute/reset behaves like the reference counter; `compute`
does not change the state and `reset` restores the initial state -/
theorem history_refinement (ops : List BerOp) (log : List (List Bool × List Bool)) :
    Ber.run (feed Ber.init log) ops = specRun log ops := by
  induction ops generalizing log with
  | nil => rfl
  | cons op ops ih =>
    cases op with
    | update x y =>
      simp only [Ber.run, Ber.step, specRun]
      rw [← ih (log ++ [(x, y)]), feed_append]; rfl
    | compute => simp only [Ber.run, Ber.step, specRun]; rw [ih log]
    | reset => simp only [Ber.run, Ber.step, specRun]; exact ih []

/-! ## blocks: BER ≤ BLER ≤ min(1, B·BER) -/

theorem count_le_of_any (c : List Bool) : (if c.any id then 1 else 0) ≤ (c.filter id).length := by
  induction c with
  | nil => simp
  | cons a c ih => cases a <;> simp_all

theorem chunks_spec (B : Nat) (hB : 0 < B) : ∀ (n : Nat) (l : List Bool), l.length ≤ n →
    (blockErrors B l ≤ (l.filter id).length ∧ (l.filter id).length ≤ B * blockErrors B l ∧
     (B ∣ l.length → (chunks B l).length = l.length / B) ∧ blockErrors B l ≤ (chunks B l).length) := by
  intro n
  induction n with
  | zero =>
    intro l hl
    have : l = [] := List.eq_nil_of_length_eq_zero (by omega)
    subst this
    unfold blockErrors chunks; simp
  | succ n ih =>
    intro l hl
    by_cases hnil : l = []
    · subst hnil; unfold blockErrors chunks; simp
    · have hlen : l.length ≠ 0 := fun h0 => hnil (List.eq_nil_of_length_eq_zero h0)
      have hdrop : (l.drop B).length ≤ n := by simp only [List.length_drop]; omega
      obtain ⟨i1, i2, i3, i4⟩ := ih (l.drop B) hdrop
      have hsplit : (l.filter id).length = ((l.take B).filter id).length + ((l.drop B).filter id).length := by
        conv_lhs => rw [← List.take_append_drop B l]
        rw [List.filter_append, List.length_append]
      have hch : chunks B l = l.take B :: chunks B (l.drop B) := by
        rw [chunks]; simp [hnil, Nat.pos_iff_ne_zero.mp hB]
      have hbe : blockErrors B l = (if (l.take B).any id then 1 else 0) + blockErrors B (l.drop B) := by
        unfold blockErrors; rw [hch, List.filter_cons]; split <;> simp_all <;> omega
      have h1 := count_le_of_any (l.take B)
      have h2 : ((l.take B).filter id).length ≤ B * (if (l.take B).any id then 1 else 0) := by
        by_cases ha : (l.take B).any id
        · simp only [ha, if_true, Nat.mul_one]
          calc ((l.take B).filter id).length ≤ (l.take B).length := List.length_filter_le _ _
            _ ≤ B := by simp [List.length_take]
        · have : (l.take B).filter id = [] := by
            rw [List.filter_eq_nil_iff]; intro a ha'
            simp only [List.any_eq_true, not_exists, not_and] at ha
            exact fun h => ha a ha' h
          simp [this]
      refine ⟨by omega, ?_, ?_, ?_⟩
      · rw [hbe, Nat.mul_add]; omega
      · intro hd
        rw [hch, List.length_cons]
        obtain ⟨k, hk⟩ := hd
        have hk0 : k ≠ 0 := by rintro rfl; simp at hk; exact hnil hk
        have hdl : (l.drop B).length = B * (k - 1) := by
          simp only [List.length_drop, hk]
          have : B * k = B * (k - 1) + B := by
            conv_lhs => rw [show k = (k - 1) + 1 by omega]
            ring
          omega
        rw [i3 ⟨k - 1, hdl⟩, hdl, hk, Nat.mul_div_cancel_left _ hB, Nat.mul_div_cancel_left _ hB]
        omega
      · rw [hbe, hch, List.length_cons]; split <;> omega

/-- for a row made of blocks of size `B`: #error blocks ≤ #error bits ≤ B · #error blocks, and
#error blocks ≤ #blocks — i.e. `BER ≤ BLER ≤ min(1, B·BER)` after dividing by the totals. -/
theorem ber_bler_sandwich (B : Nat) (hB : 0 < B) (mask : List Bool) (hd : B ∣ mask.length) :
    blockErrors B mask ≤ (mask.filter id).length ∧
    (mask.filter id).length ≤ B * blockErrors B mask ∧
    blockErrors B mask ≤ mask.length / B := by
  obtain ⟨h1, h2, h3, h4⟩ := chunks_spec B hB mask.length mask (le_refl _)
  exact ⟨h1, h2, by rw [← h3 hd]; exact h4⟩

/-- the BLER update rejects exactly the rows whose length is not a multiple of the block size -/
theorem bler_reject (s : Bler) (b : Nat) (rows : List (List Bool)) :
    (s.update? (some b) rows = none) ↔ (b = 0 ∨ ∃ r ∈ rows, r.length % b ≠ 0) := by
  unfold Bler.update?
  by_cases hb : b = 0
  · simp [hb]
  · simp only [hb, if_false, false_or]
    by_cases hall : rows.all (fun r => r.length % b = 0)
    · simp only [hall, if_true]
      simp only [List.all_eq_true, decide_eq_true_eq] at hall
      constructor
      · intro h; cases h
      · rintro ⟨r, hr, hne⟩; exact absurd (hall r hr) hne
    · simp only [hall]
      simp only [List.all_eq_true, decide_eq_true_eq, not_forall] at hall
      obtain ⟨r, hr, hne⟩ := hall
      simp only [Bool.false_eq_true, if_false, true_iff]
      exact ⟨r, hr, hne⟩

/-! ## complex-form symbols: the tie hands the model the real code `2·re + im` of each symbol -/
/-- the real code the tie gives a complex-form symbol `re + j·im` (`re, im ∈ {0,1}`) -/
def symCode (re im : Bool) : Nat := 2 * re.toNat + im.toNat

/-- two complex-form symbols are equal exactly when their codes are -/
theorem symCode_injective : ∀ a b c d : Bool, symCode a b = symCode c d ↔ (a = c ∧ b = d) := by decide

/-- a block of symbols differs somewhere iff the block of codes does: the BLER model, which sees only the codes, counts the
same blocks in error as a comparison of both real and imaginary parts -/
theorem symCode_blocks (xs ys : List (Bool × Bool)) :
    xs.map (fun p => symCode p.1 p.2) = ys.map (fun p => symCode p.1 p.2) ↔ xs = ys := by
  induction xs generalizing ys with
  | nil => cases ys <;> simp
  | cons x xs ih =>
    cases ys with
    | nil => simp
    | cons y ys =>
      simp only [List.map_cons, List.cons.injEq, ih, symCode_injective]
      constructor
      · rintro ⟨⟨h1, h2⟩, h3⟩; exact ⟨Prod.ext h1 h2, h3⟩
      · rintro ⟨h, h3⟩; exact ⟨⟨congrArg Prod.fst h, congrArg Prod.snd h⟩, h3⟩

/-! ## non-vacuity -/
example : WF ([true, false], [false, false]) ∧
    (feed Ber.init [([true, false], [false, false]), ([true], [true])]).compute = (1, 3) := ⟨rfl, by decide⟩
example : symCode true false ≠ symCode true true := by decide
example : blockErrors 2 [true, false, false, false, true, true] = 2 := by
  unfold blockErrors; simp [chunks]

end C16
