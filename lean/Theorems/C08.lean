import Kaira.Constraint
import Mathlib.Tactic.FieldSimp
import Mathlib.Tactic.Ring
import Mathlib.Tactic.Linarith
import Mathlib.Tactic.Positivity
import Mathlib.Algebra.Order.Field.Rat
/-!
# C08 — power, amplitude and PAPR constraints enforce their limit on every batch item

`c` is the current (total / average / per-antenna) power of an item, `P` the target, `1e-8` the
constant the implementation adds to the denominator.  The item is multiplied by a factor `s` with
`s² = P/(c + 1e-8)`.
-/
open Kaira.Constraint

namespace C08

theorem eps_pos : 0 < eps := by unfold eps; norm_num

/-- the item is multiplied by a strictly positive real factor (signs / phases preserved) -/
theorem positive_factor (P c : ℚ) (hP : 0 < P) (hc : 0 ≤ c) : 0 < factorSq P c := by
  unfold factorSq; have := eps_pos; positivity

/-- never more than the target, for every input -/
theorem power_never_exceeds (P c : ℚ) (hP : 0 ≤ P) (hc : 0 ≤ c) : powerAfter P c ≤ P := by
  unfold powerAfter factorSq
  have he := eps_pos
  have hden : 0 < c + eps := by linarith
  rw [← mul_div_assoc, div_le_iff₀ hden]
  nlinarith

/-- equal to the target within 0.1 % whenever the input power is non-negligible (c ≥ 999·1e-8) -/
theorem power_within_tenth_percent (P c : ℚ) (hP : 0 ≤ P) (hc : 999 * eps ≤ c) :
    P * (1 - 1 / 1000) ≤ powerAfter P c := by
  unfold powerAfter factorSq
  have he := eps_pos
  have hden : 0 < c + eps := by linarith
  rw [← mul_div_assoc, le_div_iff₀ hden]
  nlinarith

/-- scaling every sample by `s` scales the sum of squares by `s²` — so the output power is exactly
`c · s²` -/
theorem output_power (s : ℚ) (x : List ℚ) : sumSq (x.map fun v => s * v) = s * s * sumSq x := by
  unfold sumSq
  have key : ∀ (l : List ℚ) (a : ℚ), l.foldl (· + ·) a = a + l.sum := by
    intro l
    induction l with
    | nil => intro a; simp
    | cons y ys ih => intro a; simp [ih]; ring
  rw [key, key, List.map_map]
  simp only [zero_add]
  induction x with
  | nil => simp
  | cons a as ih => simp only [List.map_cons, List.sum_cons, Function.comp, ih]; ring

/-- the output power is monotone in the input power: rescaling the input only moves it inside
`[P·c/(c+ε), P)` -/
theorem power_monotone (P c c' : ℚ) (hP : 0 ≤ P) (hc : 0 ≤ c) (h : c ≤ c') : powerAfter P c ≤ powerAfter P c' := by
  unfold powerAfter factorSq
  have he := eps_pos
  have h1 : 0 < c + eps := by linarith
  have h2 : 0 < c' + eps := by linarith
  rw [← mul_div_assoc, ← mul_div_assoc, div_le_div_iff₀ h1 h2]
  have : c * P * (c' + eps) ≤ c' * P * (c + eps) := by
    have hx : 0 ≤ (c' - c) * P * eps := by
      apply mul_nonneg (mul_nonneg _ hP) (le_of_lt he); linarith
    nlinarith
  exact this

/-- idempotent up to the explicit factor: a second application maps power `c₁ = powerAfter P c`
to `c₁·P/(c₁+ε)`, which lies between `c₁·P/(P+ε)` and `P` -/
theorem second_application (P c : ℚ) (hP : 0 < P) (hc : 0 ≤ c) :
    powerAfter P (powerAfter P c) ≤ P ∧
    powerAfter P c * (P / (P + eps)) ≤ powerAfter P (powerAfter P c) := by
  have he := eps_pos
  have h1 := power_never_exceeds P c (le_of_lt hP) hc
  have h0 : 0 ≤ powerAfter P c := by
    unfold powerAfter
    exact mul_nonneg hc (le_of_lt (positive_factor P c hP hc))
  refine ⟨power_never_exceeds P _ (le_of_lt hP) h0, ?_⟩
  have hd1 : 0 < powerAfter P c + eps := by linarith
  have hd2 : 0 < P + eps := by linarith
  have hstep : P / (P + eps) ≤ P / (powerAfter P c + eps) := by
    rw [div_le_div_iff₀ hd2 hd1]
    nlinarith
  have : powerAfter P (powerAfter P c) = powerAfter P c * (P / (powerAfter P c + eps)) := rfl
  rw [this]
  exact mul_le_mul_of_nonneg_left hstep h0

/-- per-antenna form: every antenna of every item ends at or below its budget -/
theorem antenna_never_exceeds (t c : ℚ) (ht : 0 ≤ t) (hc : 0 ≤ c) : antennaPower t c ≤ t := by
  have := power_never_exceeds t c ht hc
  simpa [antennaPower, powerAfter, factorSq] using this

/-- peak-amplitude constraint bounds every output sample -/
theorem clamp_bound (A v : ℚ) (hA : 0 ≤ A) : -A ≤ clamp A v ∧ clamp A v ≤ A := by
  unfold clamp
  split
  · constructor <;> linarith
  · split
    · constructor <;> linarith
    · constructor <;> linarith

theorem clamp_idempotent (A v : ℚ) (hA : 0 ≤ A) : clamp A (clamp A v) = clamp A v := by
  have ⟨h1, h2⟩ := clamp_bound A v hA
  have n1 : ¬ clamp A v < -A := by linarith
  have n2 : ¬ A < clamp A v := by linarith
  show (if clamp A v < -A then -A else if A < clamp A v then A else clamp A v) = clamp A v
  rw [if_neg n1, if_neg n2]

/-- final clipping step of the PAPR constraint: a sample whose power exceeds `m = 0.98·PAPR·avg` is
rescaled to power `m·(a/(a+ε))² ≤ m`, the others are left alone — every output sample's power is ≤ m.
(`a` = magnitude of the sample, `a·a = p`.)  The full clause — output PAPR ≤ limit — additionally needs
the mean power not to drop by more than 2 % in that step; that part is tested, not proved. -/
theorem papr_final_clip_partial (m a : ℚ) (hm : 0 ≤ m) (ha : 0 ≤ a) :
    (if m < a * a then m * ((a / (a + eps)) * (a / (a + eps))) else a * a) ≤ m := by
  have he := eps_pos
  split
  · have hd : 0 < a + eps := by linarith
    have hr : a / (a + eps) ≤ 1 := by rw [div_le_one hd]; linarith
    have hr0 : 0 ≤ a / (a + eps) := div_nonneg ha (le_of_lt hd)
    have : (a / (a + eps)) * (a / (a + eps)) ≤ 1 := by nlinarith
    nlinarith
  · linarith

/-- a composite constraint, `apply_constraint_chain` and the factory helpers are the left fold of
their parts in the declared order -/
theorem composite_is_fold (parts : List (ℚ → ℚ)) (f : ℚ → ℚ) (x : ℚ) :
    composite (parts ++ [f]) x = f (composite parts x) ∧ composite ([] : List (ℚ → ℚ)) x = x := by
  simp [composite, List.foldl_append]

/-! ## non-vacuity -/
example : totalPower 2 [1, -1, 3] = 11 * (2 / (11 + 1 / 100000000)) := by
  unfold totalPower sumSq powerAfter factorSq zeroThr eps; norm_num

end C08
