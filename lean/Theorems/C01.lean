import Proofs.Codes
import Generated.C01
import Theorems.C01P0
import Theorems.C01P1
import Theorems.C01P2
import Theorems.C01P3
import Theorems.C01P4
import Theorems.C01P5
import Theorems.C01P6
import Theorems.C01P7
/-!
# C01 — encoder, generator matrix and parity-check matrix describe one and the same code

`Generated.C01.instances`: for every encoder of the catalogue (generic linear incl. non-systematic
generators, systematic with every kind of information set, Hamming incl. extended, repetition,
single-parity-check, Reed–Muller, cyclic (every divisor of X^n+1, n ≤ 15, both layouts), BCH,
Golay incl. extended, Reed–Solomon-style, LDPC from user matrices incl. rank-deficient ones) the
published `generator_matrix`, `check_matrix`, `generator_right_inverse` as read from the constructed
object on this run, plus certificates computed by the (untrusted) harness and checked by the kernel.
-/
open Kaira.Codes CodesProofs

namespace C01

/-! ## unbounded facts about the three matrix products (any matrices, any vectors) -/

/-- encoding is GF(2)-linear — for every generator matrix, all messages -/
theorem encode_linear (G : List Nat) (a b : Nat) : encode G (a ^^^ b) = encode G a ^^^ encode G b :=
  encodeFrom_xor G 0 a b

theorem encode_zero (G : List Nat) : encode G 0 = 0 := CodesProofs.encode_zero G

/-- the syndrome map is GF(2)-linear — for every check matrix -/
theorem syndrome_linear (HT : List Nat) (x y : Nat) : syndrome HT (x ^^^ y) = syndrome HT x ^^^ syndrome HT y :=
  encode_xor HT x y

/-- if `G·Hᵀ = 0` (row by row) then every codeword has zero syndrome; hence a word and the same word
plus a codeword have the same syndrome -/
theorem syndrome_coset (HT G : List Nat) (hz : ∀ g ∈ G, syndrome HT g = 0) (x m : Nat) :
    syndrome HT (x ^^^ encode G m) = syndrome HT x := by
  rw [syndrome_linear]
  have : syndrome HT (encode G m) = 0 := syndrome_codeword HT G hz m
  rw [this, Nat.xor_zero]

/-! ## the catalogue -/

theorem instances_ok : ∀ c ∈ Generated.C01.instances, codeOk c = true := by
  intro c hc
  simp only [Generated.C01.instances, List.mem_append] at hc
  rcases hc with ((((((h | h) | h) | h) | h) | h) | h) | h
  · exact part0_ok c h
  · exact part1_ok c h
  · exact part2_ok c h
  · exact part3_ok c h
  · exact part4_ok c h
  · exact part5_ok c h
  · exact part6_ok c h
  · exact part7_ok c h

/-- encoding is an injective map from k-bit messages into words of length n -/
theorem encode_injective (c : CodeInst) (hc : c ∈ Generated.C01.instances) (m1 m2 : Nat)
    (h1 : m1 < 2 ^ c.k) (h2 : m2 < 2 ^ c.k) (he : encode c.G m1 = encode c.G m2) : m1 = m2 := by
  have f := facts_of_ok c (instances_ok c hc)
  rw [← f.roundtrip m1 h1, ← f.roundtrip m2 h2, he]

theorem codeword_length (c : CodeInst) (hc : c ∈ Generated.C01.instances) (m : Nat) :
    encode c.G m < 2 ^ c.n := (facts_of_ok c (instances_ok c hc)).codeword_lt m

/-- **a word has an all-zero syndrome if and only if it is a codeword** -/
theorem syndrome_zero_iff_codeword (c : CodeInst) (hc : c ∈ Generated.C01.instances) (x : Nat)
    (hx : x < 2 ^ c.n) : syndrome c.HT x = 0 ↔ ∃ m, m < 2 ^ c.k ∧ x = encode c.G m := by
  have f := facts_of_ok c (instances_ok c hc)
  constructor
  · exact f.null_space x hx
  · rintro ⟨m, _, rfl⟩; exact f.synd_zero m

/-- the published check matrix contains n-k linearly independent rows (rank ≥ n-k; together with
`syndrome_zero_iff_codeword` and `encode_injective` — a null space of exactly 2^k words — the rank
is n-k) -/
theorem check_matrix_rank (c : CodeInst) (hc : c ∈ Generated.C01.instances) :
    c.HJ.length + c.k = c.n ∧ rowsOk c = true ∧
    ∀ a, a < 2 ^ c.HJ.length → encode c.HJ a = 0 → a = 0 :=
  (facts_of_ok c (instances_ok c hc)).indep_rows

/-! ## non-vacuity -/
example : Generated.C01.instances.length ≥ 200 := by decide +kernel
example : ∃ c ∈ Generated.C01.instances, c.n = 63 ∧ c.k = 57 := by decide +kernel

end C01
