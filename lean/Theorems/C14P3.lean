import Kaira.Modem
import Generated.C14P3
/-! C14, K obligation, part 3 of the regenerated catalogue (split so that the parts build in parallel). -/
open Kaira.Modem
namespace C14
set_option maxRecDepth 100000 in
theorem part3_ok : ∀ i ∈ Generated.C14P3.part, instOk i = true := by decide +kernel
end C14
