import Kaira.Codes
import Generated.C01P1
/-! C01/C04, K obligation, part 1 of the regenerated code catalogue (parts build in parallel). -/
open Kaira.Codes
namespace C01
set_option maxRecDepth 100000 in
theorem part1_ok : ∀ c ∈ Generated.C01P1.part, codeOk c = true := by decide +kernel
end C01
