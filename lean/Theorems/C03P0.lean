import Kaira.Dist
import Generated.C03P0
/-! C03, K obligation, part 0 of the regenerated catalogue (parts build in parallel). -/
open Kaira.Dist
namespace C03
set_option maxRecDepth 100000 in
theorem part0_ok : ∀ d ∈ Generated.C03P0.part, dinstOk d = true := by decide +kernel
end C03
