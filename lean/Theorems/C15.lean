import Proofs.MaxLog
import Kaira.Polarity
import Theorems.C14
import Mathlib.Analysis.SpecialFunctions.Sigmoid
/-!
# C15 — one LLR polarity everywhere: positive means bit 0, negative means bit 1
-/
open Kaira.Modem Kaira.Polarity NearestProofs MaxLogProofs

namespace C15

/-! ## producers: the noise-free soft output carries the strict sign of the transmitted bit -/

theorem minDist_zero_at_point (t : Table) (k : Nat) (p : Pt) (hp : p ∈ t.pts) (m : Int)
    (h : minDist p.re p.im (labBit t.b p.lab k) t.b k t.pts = some m) : m = 0 := by
  obtain ⟨⟨q, _, _, hq⟩, hmin⟩ := minDist_spec p.re p.im _ t.b k t.pts m h
  have h1 := hmin p hp rfl
  rw [(dist2_eq_zero p p.re p.im).mpr ⟨rfl, rfl⟩] at h1
  have h2 := dist2_nonneg q p.re p.im
  omega

theorem minDist_pos_other (t : Table) (k : Nat) (p : Pt) (hp : p ∈ t.pts)
    (hd : t.pts.Pairwise (fun a b => ¬ (a.re = b.re ∧ a.im = b.im))) (m : Int)
    (h : minDist p.re p.im (!labBit t.b p.lab k) t.b k t.pts = some m) : 0 < m := by
  obtain ⟨⟨q, hq, hqv, hqd⟩, _⟩ := minDist_spec p.re p.im _ t.b k t.pts m h
  have hne : q ≠ p := by
    intro e; rw [e] at hqv
    cases hb : labBit t.b p.lab k <;> simp [hb] at hqv
  haveI : Std.Symm (fun a b : Pt => ¬ (a.re = b.re ∧ a.im = b.im)) :=
    ⟨fun a b hab ⟨h1, h2⟩ => hab ⟨h1.symm, h2.symm⟩⟩
  have hco := List.Pairwise.forall hd hq hp hne
  have hnn := dist2_nonneg q p.re p.im
  rcases lt_or_eq_of_le hnn with hlt | heq
  · omega
  · exact absurd ((dist2_eq_zero q p.re p.im).mp heq.symm) hco

/-- at a constellation point itself (noise-free reception) the max-log LLR of bit `k` is strictly
positive when the label bit is 0 and strictly negative when it is 1 -/
theorem noise_free_strict_sign (t : Table) (c s2 nv : Rat) (hc : 0 < c) (hs : 0 < s2) (hnv : 0 < nv) (k : Nat)
    (p : Pt) (hp : p ∈ t.pts) (hd : t.pts.Pairwise (fun a b => ¬ (a.re = b.re ∧ a.im = b.im)))
    (L : Rat) (hL : llr t c s2 k p.re p.im nv = some L) :
    (labBit t.b p.lab k = false → 0 < L) ∧ (labBit t.b p.lab k = true → L < 0) := by
  unfold llr at hL
  cases h1 : minDist p.re p.im true t.b k t.pts with
  | none => simp [h1] at hL
  | some d1 =>
    cases h0 : minDist p.re p.im false t.b k t.pts with
    | none => simp [h1, h0] at hL
    | some d0 =>
      simp only [h1, h0, Option.some.injEq] at hL
      have hden : 0 < s2 * nv := mul_pos hs hnv
      constructor
      · intro hb
        have e0 : d0 = 0 := minDist_zero_at_point t k p hp d0 (by rw [hb]; exact h0)
        have e1 : 0 < d1 := minDist_pos_other t k p hp hd d1 (by rw [hb]; exact h1)
        rw [← hL]
        apply div_pos _ hden
        apply mul_pos hc
        have : (0 : Int) < d1 - d0 := by omega
        exact_mod_cast this
      · intro hb
        have e1 : d1 = 0 := minDist_zero_at_point t k p hp d1 (by rw [hb]; exact h1)
        have e0 : 0 < d0 := minDist_pos_other t k p hp hd d0 (by rw [hb]; exact h0)
        rw [← hL]
        apply div_neg_of_neg_of_pos _ hden
        apply mul_neg_of_pos_of_neg hc
        have : (d1 - d0 : Int) < 0 := by omega
        exact_mod_cast this

/-! ## consumers -/

/-- `LLRThresholder` (threshold 0, positive scaling): positive ↦ 0, negative ↦ 1 -/
theorem llr_thresholder_polarity (scale L : Rat) (hs : 0 < scale) :
    (0 < L → llrThresh scale 0 L = false) ∧ (L < 0 → llrThresh scale 0 L = true) := by
  unfold llrThresh
  constructor
  · intro h; simp; exact le_of_lt (mul_pos h hs)
  · intro h; simp; exact mul_neg_of_neg_of_pos h hs

theorem half_prob_polarity (L : Rat) : (0 < L → halfProb L = false) ∧ (L < 0 → halfProb L = true) := by
  unfold halfProb; constructor <;> intro h <;> simp <;> linarith

/-- `MinDistanceThresholder` with the default LLR reference points [-2, 2] -/
theorem min_distance_polarity (L : Rat) :
    (0 < L → minDistLLR [-2, 2] L = false) ∧ (L < 0 → minDistLLR [-2, 2] L = true) := by
  unfold minDistLLR
  simp only [argminRef]
  constructor
  · intro h
    have : (L - 2) * (L - 2) < (L + 2) * (L + 2) := by nlinarith
    simp [this]
  · intro h
    have : ¬ (L - 2) * (L - 2) < (L + 2) * (L + 2) := by nlinarith
    simp [this]

theorem sum_nonpos_of_neg : ∀ (l : List Rat), (∀ y ∈ l, y < 0) → l.sum ≤ 0
  | [], _ => by simp
  | x :: xs, h => by
    have := sum_nonpos_of_neg xs (fun y hy => h y (by simp [hy]))
    have hx := h x (by simp)
    simp; linarith

/-- repetition soft decoder (sum / mean combiner): all copies positive ↦ 0, all negative ↦ 1 -/
theorem repetition_polarity (g : List Rat) (hne : g ≠ []) :
    ((∀ x ∈ g, 0 < x) → repetitionLLR g = false) ∧ ((∀ x ∈ g, x < 0) → repetitionLLR g = true) := by
  have key : ∀ (l : List Rat) (a : Rat), l.foldl (· + ·) a = a + l.sum := by
    intro l
    induction l with
    | nil => intro a; simp
    | cons x xs ih => intro a; simp [ih]; ring
  unfold repetitionLLR
  rw [key g 0]
  constructor
  · intro h
    have : 0 < g.sum := by
      cases g with
      | nil => exact absurd rfl hne
      | cons x xs =>
        have hx := h x (by simp)
        have hxs : 0 ≤ xs.sum := List.sum_nonneg (fun y hy => le_of_lt (h y (by simp [hy])))
        simp; linarith
    simp; linarith
  · intro h
    have : g.sum < 0 := by
      cases g with
      | nil => exact absurd rfl hne
      | cons x xs =>
        have hx := h x (by simp)
        have hxs : xs.sum ≤ 0 := sum_nonpos_of_neg xs (fun y hy => h y (by simp [hy]))
        simp; linarith
    simp; linarith

/-- witness of the known finding F-FIXTHR: `FixedThresholder` in LLR mode decides 1 for a positive LLR -/
theorem fixed_thresholder_inverted : fixedLLR 0 1 = true ∧ fixedLLR 0 (-1) = false := by decide

/-! ## LLR ↔ probability: P(bit = 1) = sigmoid(−LLR) -/
open Real in
theorem sigmoid_law (L : ℝ) :
    sigmoid (-L) = 1 / (1 + exp L) ∧ (sigmoid (-L) > 1 / 2 ↔ L < 0) ∧ (sigmoid (-L) < 1 / 2 ↔ 0 < L) := by
  refine ⟨by simp [sigmoid_def], ?_, ?_⟩
  · have h0 : sigmoid 0 = 1 / 2 := by rw [sigmoid_zero]; norm_num
    rw [gt_iff_lt, ← h0, sigmoid_lt_iff]; constructor <;> intro h <;> linarith
  · have h0 : sigmoid 0 = 1 / 2 := by rw [sigmoid_zero]; norm_num
    rw [← h0, sigmoid_lt_iff]; constructor <;> intro h <;> linarith

open Real in
/-- the conversion is strictly decreasing in the LLR -/
theorem prob_one_strictAnti : StrictAnti (fun L : ℝ => sigmoid (-L)) := by
  intro a b hab
  exact sigmoid_strictMono (by linarith)

open Real in
/-- hysteresis / weighted / dynamic thresholders compare `sigmoid(-L)` with thresholds `hi ≥ 1/2 ≥ lo`:
a positive LLR can never be pushed to 1, a negative one never to 0 -/
theorem probability_thresholds_polarity (L hi lo : ℝ) (hhi : 1 / 2 ≤ hi) (hlo : lo ≤ 1 / 2) :
    (0 < L → ¬ sigmoid (-L) > hi) ∧ (L < 0 → ¬ sigmoid (-L) < lo) := by
  obtain ⟨_, h1, h2⟩ := sigmoid_law L
  constructor
  · intro h hc; have := h2.mpr h; linarith
  · intro h hc; have := h1.mpr h; linarith

/-! ## producer ∘ consumer -/

/-- feeding the noise-free soft output of any table-based demodulator into the LLR thresholder
reproduces the transmitted label bit -/
theorem producer_consumer (t : Table) (c s2 nv : Rat) (hc : 0 < c) (hs : 0 < s2) (hnv : 0 < nv) (k : Nat)
    (p : Pt) (hp : p ∈ t.pts) (hd : t.pts.Pairwise (fun a b => ¬ (a.re = b.re ∧ a.im = b.im)))
    (L : Rat) (hL : llr t c s2 k p.re p.im nv = some L) :
    llrThresh 1 0 L = labBit t.b p.lab k ∧ halfProb L = labBit t.b p.lab k := by
  obtain ⟨h0, h1⟩ := noise_free_strict_sign t c s2 nv hc hs hnv k p hp hd L hL
  cases hb : labBit t.b p.lab k
  · exact ⟨(llr_thresholder_polarity 1 L one_pos).1 (h0 hb), (half_prob_polarity L).1 (h0 hb)⟩
  · exact ⟨(llr_thresholder_polarity 1 L one_pos).2 (h1 hb), (half_prob_polarity L).2 (h1 hb)⟩

/-- … in particular for every catalogue table -/
theorem producer_consumer_instances (i : Inst) (hi : i ∈ Generated.C14.instances) (c s2 nv : Rat)
    (hc : 0 < c) (hs : 0 < s2) (hnv : 0 < nv) (k : Nat) (p : Pt) (hp : p ∈ i.table.pts) (L : Rat)
    (hL : llr i.table c s2 k p.re p.im nv = some L) : llrThresh 1 0 L = labBit i.table.b p.lab k :=
  (producer_consumer i.table c s2 nv hc hs hnv k p hp (C14.points_distinct i hi) L hL).1

end C15
