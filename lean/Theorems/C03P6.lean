import Kaira.Dist
import Generated.C03P6
/-! C03, K obligation, part 6 of the regenerated catalogue (parts build in parallel). -/
open Kaira.Dist
namespace C03
set_option maxRecDepth 100000 in
theorem part6_ok : ∀ d ∈ Generated.C03P6.part, dinstOk d = true := by decide +kernel
end C03
