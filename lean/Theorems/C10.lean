import Proofs.Soft
/-!
# C10 — soft-input decoders are exact where the algorithm is; clean input decodes clean

Model: `Kaira/Soft.lean` (Wagner rule; flooding message passing on a Tanner graph with a pluggable
check rule; the min-sum rule with scale and offset), all over ℚ.  Proofs: `Proofs/Soft.lean`.
-/
open Kaira.Soft Kaira.Polar SoftProofs List

namespace C10

/-! ## Wagner: maximum likelihood for the single-parity-check code, every input -/

/-- no even-parity word has a larger correlation `Σ (1-2c_i) r_i` with the received vector than the
Wagner output — for every non-empty rational vector (ties included) -/
theorem wagner_is_ml (r : List ℚ) (hr : r ≠ []) (c : List Bool) (hl : r.length = c.length)
    (hc : parity c = false) : corr r c ≤ corr r (wagner r) := SoftProofs.wagner_is_ml r hr c hl hc

/-- equivalently: it minimises the total reliability of the positions where it contradicts the signs -/
theorem wagner_min_penalty (r : List ℚ) (hr : r ≠ []) (c : List Bool) (hl : r.length = c.length)
    (hc : parity c = false) : pen r (wagner r) ≤ pen r c := SoftProofs.wagner_min_penalty r hr c hl hc

/-- the output is a code word of the right length -/
theorem wagner_parity (r : List ℚ) (hr : r ≠ []) : parity (wagner r) = false ∧ (wagner r).length = r.length :=
  ⟨SoftProofs.wagner_parity r hr, length_wagner r⟩

/-! ## min-sum: the rule, its sign law, clean decoding, rescaling -/

/-- the min-sum check update (sign product × minimum magnitude, scaled by any positive factor, any
offset taken off the magnitude and floored at zero) sends strictly consistent inputs to an output
weakly consistent with the parity of their bits -/
theorem minsum_sign_law (scale offset : ℚ) (hs : 0 < scale) : RuleLaw (checkMS scale offset) :=
  checkMS_law scale offset hs

/-- **any** Tanner graph, **any** check rule with the sign law, any number of flooding rounds, any
positive clipping level: if the channel LLRs carry the signs of a word `x` satisfying every check,
the decisions at the message positions are the bits of `x` -/
theorem message_passing_clean (rule : List ℚ → ℚ) (hrule : RuleLaw rule) (H : Graph) (llr : List ℚ) (cl : ℚ) (hcl : 0 < cl)
    (x : Nat → Bool)
    (hllr : ∀ c j, c < H.length → j < deg H c → SCons (llr.getD (varAt H c j) 0) (x (varAt H c j)))
    (hpar : ∀ c, c < H.length → parity ((H.getD c []).map x) = false)
    (t : Nat) (msgPos : List Nat) (hpos : ∀ v ∈ msgPos, SCons (llr.getD v 0) (x v)) :
    mpDecode rule H llr cl t msgPos = msgPos.map x :=
  mpDecode_clean rule hrule H llr cl hcl x hllr hpar t msgPos hpos

/-- the min-sum decoder returns the transmitted bits from noise-free LLRs of any positive magnitude
(the magnitudes may even differ from position to position) -/
theorem minsum_decodes_clean (scale offset : ℚ) (hs : 0 < scale) (H : Graph) (llr : List ℚ) (cl : ℚ) (hcl : 0 < cl)
    (x : Nat → Bool)
    (hllr : ∀ c j, c < H.length → j < deg H c → SCons (llr.getD (varAt H c j) 0) (x (varAt H c j)))
    (hpar : ∀ c, c < H.length → parity ((H.getD c []).map x) = false)
    (t : Nat) (msgPos : List Nat) (hpos : ∀ v ∈ msgPos, SCons (llr.getD v 0) (x v)) :
    mpDecode (checkMS scale offset) H llr cl t msgPos = msgPos.map x :=
  mpDecode_clean _ (checkMS_law scale offset hs) H llr cl hcl x hllr hpar t msgPos hpos

/-- rescaling input, offset and clipping level by `a > 0` rescales every a-posteriori LLR by `a` and
leaves every decision unchanged -/
theorem minsum_rescaling (scale offset a cl : ℚ) (ha : 0 < a) (H : Graph) (llr : List ℚ) (t : Nat) (msgPos : List Nat) (v : Nat) :
    marginal H (llr.map (a * ·)) (iterate (checkMS scale (a * offset)) H (llr.map (a * ·)) (a * cl) t (zeroMsgs H)) v =
      a * marginal H llr (iterate (checkMS scale offset) H llr cl t (zeroMsgs H)) v ∧
    mpDecode (checkMS scale (a * offset)) H (llr.map (a * ·)) (a * cl) t msgPos =
      mpDecode (checkMS scale offset) H llr cl t msgPos :=
  ⟨marginal_scale scale offset a cl ha H llr t v, mpDecode_scale scale offset a cl ha H llr t msgPos⟩

/-- without offset the decoder is invariant to positive rescaling of its input (clipping level
rescaled along; the implementation's fixed ±500 is never reached in the explored range) -/
theorem minsum_scale_invariant (scale a cl : ℚ) (ha : 0 < a) (H : Graph) (llr : List ℚ) (t : Nat) (msgPos : List Nat) :
    mpDecode (checkMS scale 0) H (llr.map (a * ·)) (a * cl) t msgPos = mpDecode (checkMS scale 0) H llr cl t msgPos := by
  have := mpDecode_scale scale 0 a cl ha H llr t msgPos
  rwa [mul_zero] at this

/-- the implementation computes the variable-to-check message as `marginal − own message`; the model as
`channel LLR + sum of the other messages`: the two are equal on every edge of every graph -/
theorem marginal_minus_own (H : Graph) (llr : List ℚ) (M : Msgs) (c j : Nat) (hc : c < H.length) (hj : j < deg H c) :
    llr.getD (varAt H c j) 0 + inSum H M (varAt H c j) c j = marginal H llr M (varAt H c j) - msgAt M c j :=
  SoftProofs.marginal_minus_own H llr M c j hc hj

/-! ## non-vacuity -/
example : wagnerDecode [-21/10, 3/2, -9/5, 1/5] = [true, false, true] := by decide +kernel
example : mpDecode (checkMS 1 0) [[0,1,3],[1,2,4],[0,2,5]] [1,1,-1,1,-1,-1] 500 5 [0,1,2] = [false, false, true] := by
  decide +kernel

end C10
