import Kaira.Reed
import Generated.C02R
/-! C02, K obligation: the certificate of Reed's decoder on the regenerated check groups of every Reed–Muller instance. -/
open Kaira.Reed
namespace C02
set_option maxRecDepth 100000 in
theorem reed_ok : ∀ c ∈ Generated.C02R.instances, reedOk c = true := by decide +kernel
end C02
