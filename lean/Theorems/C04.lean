import Proofs.Blocks
import Theorems.C01
/-!
# C04 — encoding followed by the encoder's own message extraction is the identity

Uses the same regenerated catalogue as C01 (`Generated.C01.instances`): `G`, `R` are the published
`generator_matrix` and `generator_right_inverse`, `HT` the columns of `check_matrix`.
-/
open Kaira.Codes CodesProofs BlocksProofs

namespace C04

/-- **any** generator matrix with a right inverse (`G·R = I`, checked row by row): extraction after
encoding returns the message, for every message — no bound on k or n -/
theorem right_inverse_roundtrip (G R : List Nat) (h : unitRows G R = true) (m : Nat)
    (hm : m < 2 ^ G.length) : invEncode R (encode G m) = m := roundtrip G R h m hm

/-- every catalogue encoder: inverse ∘ encode = id and the syndrome is all-zero -/
theorem roundtrip_instances (c : CodeInst) (hc : c ∈ Generated.C01.instances) (m : Nat) (hm : m < 2 ^ c.k) :
    invEncode c.R (encode c.G m) = m ∧ syndrome c.HT (encode c.G m) = 0 := by
  have f := facts_of_ok c (C01.instances_ok c hc)
  exact ⟨f.roundtrip m hm, f.synd_zero m⟩

/-- blockwise, for any number of blocks in the last dimension: encoding `b` blocks of `k` bits and
extracting from the `b` blocks of `n` bits returns the original `b·k` bits -/
theorem blockwise_roundtrip (c : CodeInst) (hc : c ∈ Generated.C01.instances) (hk : 0 < c.k) (hn : 0 < c.n)
    (msgs : List (List Bool)) (hm : ∀ b ∈ msgs, b.length = c.k) :
    ∃ cw, blockwise c.k c.n (encode c.G) msgs.flatten = some cw ∧ cw.length = msgs.length * c.n ∧
      blockwise c.n c.k (invEncode c.R) cw = some msgs.flatten ∧
      ∃ s, blockwise c.n c.r (syndrome c.HT) cw = some s ∧ s.all (· = false) = true := by
  have f := facts_of_ok c (C01.instances_ok c hc)
  let cws := msgs.map fun b => bitsOf c.n (encode c.G (maskOf b))
  have hcl : ∀ w ∈ cws, w.length = c.n := by
    intro w hw
    obtain ⟨b, _, rfl⟩ := List.mem_map.mp hw
    exact length_bitsOf _ _
  refine ⟨cws.flatten, blockwise_flatten c.k c.n hk _ msgs hm, ?_, ?_, ?_⟩
  · rw [length_flatten_const c.n cws hcl]; simp [cws]
  · rw [blockwise_flatten c.n c.k hn _ cws hcl]
    congr 1
    simp only [cws, List.map_map]
    congr 1
    have : List.map ((fun b => bitsOf c.k (invEncode c.R (maskOf b))) ∘ fun b => bitsOf c.n (encode c.G (maskOf b))) msgs
        = List.map id msgs := by
      apply List.map_congr_left
      intro b hb
      simp only [Function.comp, id]
      have hlt : maskOf b < 2 ^ c.k := by rw [← hm b hb]; exact maskOf_lt b
      rw [maskOf_bitsOf c.n _ (f.codeword_lt _), f.roundtrip _ hlt, ← hm b hb, bitsOf_maskOf]
    rw [this, List.map_id]
  · refine ⟨_, blockwise_flatten c.n c.r hn _ cws hcl, ?_⟩
    simp only [cws, List.map_map, List.all_eq_true, List.mem_flatten, List.mem_map]
    rintro x ⟨l, ⟨b, _, rfl⟩, hx⟩
    simp only [Function.comp] at hx
    rw [maskOf_bitsOf c.n _ (f.codeword_lt _), f.synd_zero] at hx
    simp only [bitsOf, Nat.zero_testBit, List.mem_map] at hx
    obtain ⟨_, _, rfl⟩ := hx
    simp

/-- a last dimension that is not a multiple of the block size is rejected (an error, not an answer) -/
theorem reject_non_multiple (inSize outSize : Nat) (f : Nat → Nat) (bits : List Bool)
    (h : bits.length % inSize ≠ 0) : blockwise inSize outSize f bits = none := by
  unfold blockwise; simp [h]

/-- output length scales by exactly n/k (encoding) resp. k/n (extraction) -/
theorem blockwise_length (inSize outSize : Nat) (hs : 0 < inSize) (f : Nat → Nat) (bs : List (List Bool))
    (hb : ∀ b ∈ bs, b.length = inSize) :
    ∃ out, blockwise inSize outSize f bs.flatten = some out ∧ out.length = bs.length * outSize := by
  refine ⟨_, blockwise_flatten inSize outSize hs f bs hb, ?_⟩
  rw [length_flatten_const outSize]
  · simp
  · intro w hw
    obtain ⟨b, _, rfl⟩ := List.mem_map.mp hw
    exact length_bitsOf _ _

/-! ## non-vacuity -/
example : unitRows [0b0111, 0b1110] [0b01, 0b00, 0b00, 0b10] = true := by decide

end C04
