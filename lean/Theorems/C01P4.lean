import Kaira.Codes
import Generated.C01P4
/-! C01/C04, K obligation, part 4 of the regenerated code catalogue (parts build in parallel). -/
open Kaira.Codes
namespace C01
set_option maxRecDepth 100000 in
theorem part4_ok : ∀ c ∈ Generated.C01P4.part, codeOk c = true := by decide +kernel
end C01
