import Proofs.MaxLog
import Theorems.C14
/-!
# C06 — demodulators decide for the nearest point and emit correctly signed, scaled LLRs

All statements are for an arbitrary table, an arbitrary received point (integer coordinates at the
table's scale) and arbitrary positive rational scale / variance; the catalogue tables of
`Generated.C14.instances` are instances.
-/
open Kaira.Modem NearestProofs MaxLogProofs

namespace C06

/-- hard decision = index of a constellation point at minimum Euclidean distance, for every
received point whatsoever -/
theorem hard_is_nearest (t : Table) (x y : Int) (hne : t.pts ≠ []) :
    ∃ pr, t.pts[nearestIdx t x y]? = some pr ∧ ∀ p ∈ t.pts, dist2 pr x y ≤ dist2 p x y :=
  nearest_is_min t x y hne

/-- the max-log LLR `c·(min_{b=1} d² − min_{b=0} d²)/(s²σ²)` has the sign of the hard decision:
≥ 0 when the nearest point's label has bit 0, ≤ 0 when it has bit 1 -/
theorem maxlog_sign (t : Table) (c s2 nv : Rat) (hc : 0 < c) (hs : 0 < s2) (hnv : 0 < nv) (k : Nat) (x y : Int)
    (hne : t.pts ≠ []) (L : Rat) (hL : llr t c s2 k x y nv = some L) :
    (labBit t.b (labelAt t (nearestIdx t x y)) k = false → 0 ≤ L) ∧
    (labBit t.b (labelAt t (nearestIdx t x y)) k = true → L ≤ 0) := by
  obtain ⟨pr, h1, h2⟩ := nearest_is_min t x y hne
  have hl : labelAt t (nearestIdx t x y) = pr.lab := by simp [labelAt, h1]
  rw [hl]
  exact llr_sign t c s2 nv hc hs hnv k x y pr (List.mem_of_getElem? h1) h2 L hL

/-- it scales inversely with the noise variance -/
theorem maxlog_scale (t : Table) (c s2 nv a : Rat) (ha : 0 < a) (hs : 0 < s2) (hnv : 0 < nv) (k : Nat)
    (x y : Int) (L : Rat) (hL : llr t c s2 k x y nv = some L) :
    llr t c s2 k x y (a * nv) = some (L / a) := llr_scale t c s2 nv a ha hs hnv k x y L hL

/-- BPSK closed form: with points ±s (labels 0, 1) the max-log value with c = 1/2 is 2·(x/s)/σ² -/
theorem bpsk_closed_form (s x : Int) (hs : 0 < s) (nv : Rat) (hnv : 0 < nv) :
    llr ⟨1, [⟨s, 0, 0⟩, ⟨-s, 0, 1⟩]⟩ (1 / 2) ((s : Rat) * s) 0 x 0 nv = some (2 * ((x : Rat) / s) / nv) := by
  have hs' : (s : Rat) ≠ 0 := by exact_mod_cast (ne_of_gt hs)
  have hnv' : nv ≠ 0 := ne_of_gt hnv
  simp only [llr, minDist, labBit, dist2]
  norm_num
  field_simp
  push_cast
  ring

/-! ## non-vacuity -/
example : llr ⟨1, [⟨4, 0, 0⟩, ⟨-4, 0, 1⟩]⟩ (1 / 2) 16 0 3 0 (1 / 2) = some 3 := by decide +kernel

end C06
