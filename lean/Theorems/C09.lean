import Proofs.Link
import Theorems.C01
import Theorems.C02
import Theorems.C14
/-!
# C09 — a coded, modulated link over an ideal or bounded-error channel returns the data

Model: `Kaira/Link.lean` — `link k n G t dec chan msg` is the stage order of `ChannelCodeModel`
(encoder → modulator → channel → hard demodulator → decoder) on bit lists, with the block-wise
application of C04 and the table-driven modem of C05/C06.  Proofs: `Proofs/Link.lean`.
-/
open Kaira.Codes Kaira.Modem Kaira.Link Kaira.Dist Kaira.Decoders LinkProofs List

namespace C09

/-- a received point closer than half the minimum distance to a constellation point is decided as
that point -/
theorem nearest_within_half (t : Table) (i : Nat) (p : Pt) (hi : t.pts[i]? = some p) (lo : Int)
    (hpair : t.pts.Pairwise (fun a b => lo ≤ dist2 a b.re b.im)) (x y : Int)
    (hclose : 4 * dist2 p x y < lo) : nearestIdx t x y = i :=
  LinkProofs.nearest_within_half t i p hi lo hpair x y hclose

/-- **the general statement**: any code, any table, any channel function, any number of blocks —
if every received symbol lies within half the minimum distance of the point carrying the
corresponding bit group of the code words with per-block flip patterns `es`, and the decoder
corrects those patterns, the link returns the message -/
theorem link_corrects (k n : Nat) (hk : 0 < k) (hn : 0 < n) (G : List Nat) (t : Table) (hb : 0 < t.b) (lo : Int)
    (hpair : t.pts.Pairwise (fun a b => lo ≤ dist2 a b.re b.im))
    (dec : Nat → Nat) (chan : List (Int × Int) → List (Int × Int))
    (msgs : List (List Bool)) (es : List Nat) (gs' : List (List Bool))
    (hm : ∀ b ∈ msgs, b.length = k) (hes : es.length = msgs.length)
    (hcw : ∀ m, encode G m < 2 ^ n) (hesn : ∀ e ∈ es, e < 2 ^ n)
    (hdiv : (msgs.length * n) % t.b = 0)
    (hgs' : ∀ g ∈ gs', g.length = t.b)
    (hflat : gs'.flatten = ((msgs.zip es).map fun me => bitsOf n (encode G (maskOf me.1) ^^^ me.2)).flatten)
    (hchan : ∀ idx, modulate t true ((msgs.map fun b => bitsOf n (encode G (maskOf b))).flatten) = some idx →
      Forall₂ (Close t lo) gs' (chan (idx.map (ptAt t))))
    (hdec : ∀ m e, m < 2 ^ k → e ∈ es → dec (encode G m ^^^ e) = m) :
    link k n G t dec chan msgs.flatten = some msgs.flatten :=
  LinkProofs.link_corrects k n hk hn G t hb lo hpair dec chan msgs es gs' hm hes hcw hesn hdiv hgs' hflat hchan hdec

/-- at most `tc` flipped bits per block with `2·tc < d`, nearest-codeword (hard-decision) decoding -/
theorem link_bitflips (k n d tc : Nat) (hk : 0 < k) (hn : 0 < n) (G : List Nat) (t : Table) (hb : 0 < t.b) (lo : Int)
    (hpair : t.pts.Pairwise (fun a b => lo ≤ dist2 a b.re b.im))
    (dec : Nat → Nat) (chan : List (Int × Int) → List (Int × Int))
    (msgs : List (List Bool)) (es : List Nat) (gs' : List (List Bool))
    (hm : ∀ b ∈ msgs, b.length = k) (hes : es.length = msgs.length)
    (hcw : ∀ m, encode G m < 2 ^ n) (hesn : ∀ e ∈ es, e < 2 ^ n)
    (hdiv : (msgs.length * n) % t.b = 0)
    (hgs' : ∀ g ∈ gs', g.length = t.b)
    (hflat : gs'.flatten = ((msgs.zip es).map fun me => bitsOf n (encode G (maskOf me.1) ^^^ me.2)).flatten)
    (hchan : ∀ idx, modulate t true ((msgs.map fun b => bitsOf n (encode G (maskOf b))).flatten) = some idx →
      Forall₂ (Close t lo) gs' (chan (idx.map (ptAt t))))
    (hrange : ∀ x, dec x < 2 ^ k)
    (hnear : ∀ x m', m' < 2 ^ k → weight n (x ^^^ encode G (dec x)) ≤ weight n (x ^^^ encode G m'))
    (hd : ∀ m, m ≠ 0 → m < 2 ^ k → d ≤ weight n (encode G m))
    (ht : 2 * tc < d) (hw : ∀ e ∈ es, weight n e ≤ tc) :
    link k n G t dec chan msgs.flatten = some msgs.flatten :=
  LinkProofs.link_bitflips k n d tc hk hn G t hb lo hpair dec chan msgs es gs' hm hes hcw hesn hdiv hgs' hflat hchan
    hrange hnear hd ht hw

/-- **the executable channel** used by the driver and realised by the harness with a `LambdaChannel`
(decide the transmitted symbols, flip the code bits marked by the per-block masks `es`, re-modulate,
displace every symbol by less than half the minimum distance): with a decoder that corrects the
patterns `es` the link returns the message — this discharges the channel hypothesis of
`link_corrects` for the very function the correspondence runs -/
theorem link_chanSub (k n : Nat) (hk : 0 < k) (hn : 0 < n) (G : List Nat) (t : Table) (hb : 0 < t.b) (lo : Int) (hlo : 0 < lo)
    (hpair : t.pts.Pairwise (fun a b => lo ≤ dist2 a b.re b.im)) (hlab : labelsOk t = true)
    (dec : Nat → Nat) (msgs : List (List Bool)) (es : List Nat) (ds : List (Int × Int))
    (hm : ∀ b ∈ msgs, b.length = k) (hes : es.length = msgs.length)
    (hcw : ∀ m, encode G m < 2 ^ n) (hesn : ∀ e ∈ es, e < 2 ^ n)
    (hdiv : (msgs.length * n) % t.b = 0)
    (hds : ds.length = msgs.length * n / t.b) (hsmall : ∀ d ∈ ds, 4 * (d.1 * d.1 + d.2 * d.2) < lo)
    (hdec : ∀ m e, m < 2 ^ k → e ∈ es → dec (encode G m ^^^ e) = m) :
    link k n G t dec (chanSub t ((es.map (bitsOf n)).flatten) ds) msgs.flatten = some msgs.flatten :=
  LinkProofs.link_chanSub k n hk hn G t hb lo hlo hpair hlab dec msgs es ds hm hes hcw hesn hdiv hds hsmall hdec

/-- **catalogue instances, ideal channel or bounded displacement**: every encoder of the C01
catalogue with every constellation of the C14 catalogue, any decoder that is the identity on code
words (the encoder's own inverse, or any nearest-codeword decoder), any channel that moves each
symbol by less than half the table's minimum distance `lo` (the identity included) -/
theorem link_instances (c : CodeInst) (hc : c ∈ Generated.C01.instances) (i : Inst) (hi : i ∈ Generated.C14.instances)
    (hk : 0 < c.k) (hn : 0 < c.n) (hb : 0 < i.table.b)
    (dec : Nat → Nat) (hround : ∀ m, m < 2 ^ c.k → dec (encode c.G m) = m)
    (chan : List (Int × Int) → List (Int × Int))
    (hch : ∀ pts, Forall₂ (fun p r => 4 * ((r.1 - p.1) * (r.1 - p.1) + (r.2 - p.2) * (r.2 - p.2)) < i.lo) pts (chan pts))
    (msgs : List (List Bool)) (hm : ∀ b ∈ msgs, b.length = c.k) (hdiv : (msgs.length * c.n) % i.table.b = 0) :
    link c.k c.n c.G i.table dec chan msgs.flatten = some msgs.flatten := by
  have f := CodesProofs.facts_of_ok c (C01.instances_ok c hc)
  obtain ⟨hlab, _, hpair⟩ := C14.labels_and_spacing i hi
  exact link_bounded_displacement c.k c.n hk hn c.G i.table hb i.lo hpair hlab dec chan hch msgs hm f.codeword_lt hdiv hround

/-- the identity channel satisfies the displacement hypothesis of every catalogue table -/
theorem ideal_channel_ok (i : Inst) (hi : i ∈ Generated.C14.instances) :
    ∀ pts : List (Int × Int), Forall₂ (fun p r => 4 * ((r.1 - p.1) * (r.1 - p.1) + (r.2 - p.2) * (r.2 - p.2)) < i.lo) pts (id pts) := by
  obtain ⟨_, hlo, _⟩ := C14.labels_and_spacing i hi
  intro pts
  induction pts with
  | nil => exact Forall₂.nil
  | cons p ps ih => exact Forall₂.cons (by simp; exact hlo) ih

/-- the encoder's own message extraction is a decoder that is the identity on code words -/
theorem inverse_is_decoder (c : CodeInst) (hc : c ∈ Generated.C01.instances) (m : Nat) (hm : m < 2 ^ c.k) :
    invEncode c.R (encode c.G m) = m :=
  (CodesProofs.facts_of_ok c (C01.instances_ok c hc)).roundtrip m hm

/-- the brute-force ML decoder is a nearest-codeword decoder (hypotheses `hrange`, `hnear` of
`link_bitflips`) for every generator matrix -/
theorem ml_is_nearest_decoder (G : List Nat) (n k : Nat) :
    (∀ x, mlDecode G n k x < 2 ^ k) ∧
    ∀ x m', m' < 2 ^ k → weight n (x ^^^ encode G (mlDecode G n k x)) ≤ weight n (x ^^^ encode G m') :=
  ⟨fun x => (DecProofs.ml_is_nearest G n k x).1, fun x m' hm' => (DecProofs.ml_is_nearest G n k x).2 m' hm'⟩

/-- **Reed–Muller code + Reed's majority decoder over any catalogue constellation**: at most `t` flipped code bits per block
(placed anywhere) and every symbol displaced by less than half the minimum distance — the link returns the message.  The
decoder hypothesis of `link_chanSub` is discharged by `C02.reed_decoder_corrects`. -/
theorem link_reed (c : Kaira.Reed.ReedInst) (hc : c ∈ Generated.C02R.instances) (hk : 0 < c.k) (hn : 0 < c.n)
    (i : Inst) (hi : i ∈ Generated.C14.instances) (hb : 0 < i.table.b)
    (msgs : List (List Bool)) (es : List Nat) (ds : List (Int × Int))
    (hm : ∀ b ∈ msgs, b.length = c.k) (hes : es.length = msgs.length) (hesn : ∀ e ∈ es, e < 2 ^ c.n)
    (hw : ∀ e ∈ es, weight c.n e ≤ c.t)
    (hdiv : (msgs.length * c.n) % i.table.b = 0)
    (hds : ds.length = msgs.length * c.n / i.table.b) (hsmall : ∀ d ∈ ds, 4 * (d.1 * d.1 + d.2 * d.2) < i.lo) :
    link c.k c.n c.G i.table (Kaira.Reed.reedDecode c.n c.G c.parts) (chanSub i.table ((es.map (bitsOf c.n)).flatten) ds)
      msgs.flatten = some msgs.flatten := by
  obtain ⟨hlab, hlo, hpair⟩ := C14.labels_and_spacing i hi
  have hok := C02.reed_ok c hc
  have hG : ∀ g ∈ c.G, g < 2 ^ c.n := by
    unfold Kaira.Reed.reedOk at hok
    simp only [Bool.and_eq_true, List.all_eq_true, decide_eq_true_eq] at hok
    exact hok.1.2
  exact link_chanSub c.k c.n hk hn c.G i.table hb i.lo hlo hpair hlab _ msgs es ds hm hes
    (fun m => CodesProofs.encodeFrom_lt c.G 0 m c.n hG) hesn hdiv hds hsmall
    (fun m e hm' he => C02.reed_decoder_corrects c hc m e hm' (hw e he))

/-- **BCH code (δ ≥ 3) + Berlekamp–Massey (t = 1) over any catalogue constellation**: at most one flipped code bit per block and every
symbol displaced by less than half the minimum distance — the link returns the message (decoder hypothesis: `C02.bm_corrects_t1`) -/
theorem link_bm_t1 (c : BchInst) (hc : c ∈ Generated.C03B.instances) (hd : 2 < c.delta) (hk : 0 < c.k) (hn : 0 < c.n)
    (i : Inst) (hi : i ∈ Generated.C14.instances) (hb : 0 < i.table.b)
    (msgs : List (List Bool)) (es : List Nat) (ds : List (Int × Int))
    (hm : ∀ b ∈ msgs, b.length = c.k) (hes : es.length = msgs.length) (hesn : ∀ e ∈ es, e < 2 ^ c.n)
    (hw : ∀ e ∈ es, weight c.n e ≤ 1)
    (hdiv : (msgs.length * c.n) % i.table.b = 0)
    (hds : ds.length = msgs.length * c.n / i.table.b) (hsmall : ∀ d ∈ ds, 4 * (d.1 * d.1 + d.2 * d.2) < i.lo) :
    link c.k c.n c.G i.table (fun r => invEncode c.R (Kaira.BM.correct c.P c.m 1 c.n r))
      (chanSub i.table ((es.map (bitsOf c.n)).flatten) ds) msgs.flatten = some msgs.flatten := by
  obtain ⟨hlab, hlo, hpair⟩ := C14.labels_and_spacing i hi
  have f := BCHBound.facts_of_ok c (C03.bch_ok c hc)
  exact link_chanSub c.k c.n hk hn c.G i.table hb i.lo hlo hpair hlab _ msgs es ds hm hes
    (fun m => f.codeword_lt m) hesn hdiv hds hsmall
    (fun m e hm' he => C02.bm_corrects_t1 c hc hd m e hm' (hesn e he) (hw e he))

/-- **BCH code (δ ≥ 5) + Berlekamp–Massey (t = 2) over any catalogue constellation**: at most two flipped code bits per block and every
symbol displaced by less than half the minimum distance — the link returns the message (decoder hypothesis: `C02.bm_corrects_t2`) -/
theorem link_bm_t2 (c : BchInst) (hc : c ∈ Generated.C03B.instances) (hd : 4 < c.delta) (hk : 0 < c.k) (hn : 0 < c.n)
    (i : Inst) (hi : i ∈ Generated.C14.instances) (hb : 0 < i.table.b)
    (msgs : List (List Bool)) (es : List Nat) (ds : List (Int × Int))
    (hm : ∀ b ∈ msgs, b.length = c.k) (hes : es.length = msgs.length) (hesn : ∀ e ∈ es, e < 2 ^ c.n)
    (hw : ∀ e ∈ es, weight c.n e ≤ 2)
    (hdiv : (msgs.length * c.n) % i.table.b = 0)
    (hds : ds.length = msgs.length * c.n / i.table.b) (hsmall : ∀ d ∈ ds, 4 * (d.1 * d.1 + d.2 * d.2) < i.lo) :
    link c.k c.n c.G i.table (fun r => invEncode c.R (Kaira.BM.correct c.P c.m 2 c.n r))
      (chanSub i.table ((es.map (bitsOf c.n)).flatten) ds) msgs.flatten = some msgs.flatten := by
  obtain ⟨hlab, hlo, hpair⟩ := C14.labels_and_spacing i hi
  have f := BCHBound.facts_of_ok c (C03.bch_ok c hc)
  exact link_chanSub c.k c.n hk hn c.G i.table hb i.lo hlo hpair hlab _ msgs es ds hm hes
    (fun m => f.codeword_lt m) hesn hdiv hds hsmall
    (fun m e hm' he => C02.bm_corrects_t2 c hc hd m e hm' (hesn e he) (hw e he))

/-! ## non-vacuity: (7,4) Hamming-like generator, QPSK-like table, two blocks -/
example : link 2 4 [0b0111, 0b1011] ⟨1, [⟨-1, 0, 0⟩, ⟨1, 0, 1⟩]⟩ (mlDecode [0b0111, 0b1011] 4 2) id
    [true, false, false, true] = some [true, false, false, true] := by decide +kernel

end C09
