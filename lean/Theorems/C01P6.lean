import Kaira.Codes
import Generated.C01P6
/-! C01/C04, K obligation, part 6 of the regenerated code catalogue (parts build in parallel). -/
open Kaira.Codes
namespace C01
set_option maxRecDepth 100000 in
theorem part6_ok : ∀ c ∈ Generated.C01P6.part, codeOk c = true := by decide +kernel
end C01
