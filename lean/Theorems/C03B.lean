import Proofs.BCHBound
import Generated.C03B
/-! C03, K obligation: the BCH-bound certificate (primitive modulus, rows are multiples of g, g vanishes at α … α^(δ-1)). -/
open Kaira.Dist BCHBound
namespace C03
set_option maxRecDepth 100000 in
theorem bch_ok : ∀ c ∈ Generated.C03B.instances, bchOk c = true := by decide +kernel
end C03
