import Kaira.Codes
import Generated.C01P5
/-! C01/C04, K obligation, part 5 of the regenerated code catalogue (parts build in parallel). -/
open Kaira.Codes
namespace C01
set_option maxRecDepth 100000 in
theorem part5_ok : ∀ c ∈ Generated.C01P5.part, codeOk c = true := by decide +kernel
end C01
