import Kaira.Dist
import Generated.C03I1
/-! C03, K obligation: information-set distance certificates, part 1 (parts build in parallel). -/
open Kaira.Dist
namespace C03
set_option maxRecDepth 100000 in
theorem info1_ok : ∀ c ∈ Generated.C03I1.part, infoOk c = true := by decide +kernel
end C03
