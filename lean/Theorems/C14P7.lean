import Kaira.Modem
import Generated.C14P7
/-! C14, K obligation, part 7 of the regenerated catalogue (split so that the parts build in parallel). -/
open Kaira.Modem
namespace C14
set_option maxRecDepth 100000 in
theorem part7_ok : ∀ i ∈ Generated.C14P7.part, instOk i = true := by decide +kernel
end C14
