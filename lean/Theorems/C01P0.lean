import Kaira.Codes
import Generated.C01P0
/-! C01/C04, K obligation, part 0 of the regenerated code catalogue (parts build in parallel). -/
open Kaira.Codes
namespace C01
set_option maxRecDepth 100000 in
theorem part0_ok : ∀ c ∈ Generated.C01P0.part, codeOk c = true := by decide +kernel
end C01
