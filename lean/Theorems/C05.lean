import Proofs.Roundtrip
import Theorems.C14
/-!
# C05 — noise-free modulation followed by hard demodulation returns the transmitted bits

Tables are those of `Generated.C14.instances` (read from the constructed modulators on this run).
The memoryless schemes map bits to the point carrying that label; the schemes with memory
(differential, alternating) map bit groups by their *binary value* and demap by the table's label —
so they round-trip exactly when the table is binary-labelled, which the Gray-labelled DPSK and
π/4-QPSK tables of the library are not (listed known findings, witnessed below).
-/
open Kaira.Modem NearestProofs ModemProofs RoundtripProofs

namespace C05

/-- hard decision at the i-th constellation point is i (distinct points) -/
theorem nearest_self (t : Table) (i : Nat) (p : Pt) (hi : t.pts[i]? = some p)
    (hd : t.pts.Pairwise (fun a b => ¬ (a.re = b.re ∧ a.im = b.im))) :
    nearestIdx t p.re p.im = i := NearestProofs.nearest_self t i p hi hd

/-- memoryless schemes, any table with bijective labels and distinct points, any number of symbols:
the demodulated bits are exactly the input bits and #symbols = #bits / b -/
theorem memoryless_roundtrip (t : Table) (hb : 0 < t.b) (hlab : labelsOk t = true)
    (hd : t.pts.Pairwise (fun a b => ¬ (a.re = b.re ∧ a.im = b.im)))
    (gs : List (List Bool)) (hg : ∀ g ∈ gs, g.length = t.b) :
    ∃ idx, modulate t true gs.flatten = some idx ∧ idx.length = gs.length ∧
      rtMemoryless t true gs.flatten = some gs.flatten :=
  RoundtripProofs.memoryless_roundtrip t hb hlab hd gs hg

/-- every catalogue table (BPSK, QPSK, PSK 4..64, QAM 4..256, PAM 2..64; Gray/binary; normalised or
not — and the DPSK / OQPSK / π/4 tables when used by label) -/
theorem memoryless_roundtrip_instances (i : Inst) (hi : i ∈ Generated.C14.instances) (hb : 0 < i.table.b)
    (gs : List (List Bool)) (hg : ∀ g ∈ gs, g.length = i.table.b) :
    rtMemoryless i.table true gs.flatten = some gs.flatten := by
  have h1 := C14.instances_ok i hi
  have hlab : labelsOk i.table = true := by
    unfold instOk at h1; simp only [Bool.and_eq_true] at h1; exact h1.1.1.1.1
  obtain ⟨_, _, _, h⟩ := memoryless_roundtrip i.table hb hlab (C14.points_distinct i hi) gs hg
  exact h

/-- a rejected length (not a multiple of the bits per symbol) -/
theorem reject_non_multiple (t : Table) (byLabel : Bool) (bits : List Bool) (h : bits.length % t.b ≠ 0) :
    modulate t byLabel bits = none := by unfold modulate; simp [h]

/-! ## schemes with memory -/

/-- a table is binary-labelled when point `i` carries the label `i` -/
def binaryLabelled (t : Table) : Bool := t.pts.zipIdx.all fun (p, i) => p.lab == i

/-- index-mapped symbol (DPSK phase shift, π/4-QPSK symbol): the decision at table entry `i` returns
the label of entry `i`; hence the transmitted group comes back iff that label is `i` -/
theorem index_symbol_decision (t : Table) (i : Nat) (p : Pt) (hi : t.pts[i]? = some p)
    (hd : t.pts.Pairwise (fun a b => ¬ (a.re = b.re ∧ a.im = b.im))) :
    labelAt t (nearestIdx t (ptAt t i).1 (ptAt t i).2) = p.lab := by
  have hpt : ptAt t i = (p.re, p.im) := by simp [ptAt, hi]
  rw [hpt]; simp only
  rw [NearestProofs.nearest_self t i p hi hd]; simp [labelAt, hi]

theorem index_symbol_roundtrip (t : Table) (hbin : binaryLabelled t = true) (i : Nat) (p : Pt)
    (hi : t.pts[i]? = some p) (hd : t.pts.Pairwise (fun a b => ¬ (a.re = b.re ∧ a.im = b.im))) :
    labelAt t (nearestIdx t (ptAt t i).1 (ptAt t i).2) = i := by
  rw [index_symbol_decision t i p hi hd]
  unfold binaryLabelled at hbin
  rw [List.all_eq_true] at hbin
  have := hbin (p, i) (List.mem_zipIdx_iff_getElem?.mpr hi)
  simpa using this

/-- offset QPSK after a reset: the in-phase bit of every symbol is returned in place, the quadrature
bit appears one symbol later, and the first quadrature decision is the reset value (bit 0) -/
theorem oqpsk_roundtrip : ∀ (pairs : List (Bool × Bool)) (prev : Bool),
    oqpskPairs prev (pairs.flatMap fun (i, q) => [i, q]) =
      (List.zipWith (fun (p : Bool × Bool) qd => [p.1, qd]) pairs (prev :: pairs.map (·.2))).flatten
  | [], _ => by simp [oqpskPairs]
  | (i, q) :: rest, prev => by
    simp only [List.flatMap_cons, List.cons_append, List.nil_append, oqpskPairs, List.map_cons,
      List.zipWith_cons_cons, List.flatten_cons]
    rw [oqpsk_roundtrip rest q]

/-- every catalogue table built with binary labelling is binary-labelled: the library's
differential / alternating schemes round-trip exactly on these (kernel-evaluated on the regenerated
tables) -/
theorem binary_labelled_tables :
    ∀ i ∈ Generated.C14.instances, i.gray = false → binaryLabelled i.table = true := by
  decide +kernel

/-- witness of the known findings F-DPSKMAP / F-PI4: the Gray DQPSK and π/4-QPSK tables are not
binary-labelled, so index-mapped bit groups 10 and 11 come back swapped -/
theorem gray_index_mapping_witness :
    ∀ i ∈ Generated.C14.instances, (i.name = "dqpsk" ∨ i.name = "pi4_g1_a" ∨ i.name = "dpsk8_g1") →
      binaryLabelled i.table = false ∧ labelAt i.table 2 = 3 := by decide +kernel

/-! ## non-vacuity -/
example : ∃ i ∈ Generated.C14.instances, i.name = "qam16_g1_n1" ∧ 0 < i.table.b := by decide +kernel
example : oqpskPairs false [true, true, false, false] = [true, false, false, true] := by decide

end C05
