import Proofs.Modem
import Generated.C14
import Theorems.C14P0
import Theorems.C14P1
import Theorems.C14P2
import Theorems.C14P3
import Theorems.C14P4
import Theorems.C14P5
import Theorems.C14P6
import Theorems.C14P7
/-!
# C14 — constellations are bijectively labelled, normalised, Gray-coded when requested

`Generated.C14.instances` holds, for every scheme / order / option of the catalogue, the
constellation and label table read from the constructed modulator on this run (coordinates exact,
scaled by 2^64), bounds `lo ≤ d_min² ≤ hi` supplied by the harness and *checked* here, and the
flags.  `knownNonGray` marks the listed known findings (Gray PAM, π/4-QPSK): for those the kernel
proves that the table is **not** Gray.
-/
open Kaira.Modem ModemProofs

namespace C14

/-! ## Gray conversion utilities -/

/-- mutually inverse on all naturals (the maps the functions compute everywhere except at the two
hard-coded values) -/
theorem gray_roundtrip (n : Nat) : fromGrayPure (toGrayPure n) = n ∧ toGrayPure (fromGrayPure n) = n :=
  ⟨fromGray_toGray_pure n, toGray_fromGray_pure n⟩

/-- consecutive integers map to words at Hamming distance one -/
theorem gray_adjacent (n : Nat) : ∃ j, toGrayPure n ^^^ toGrayPure (n + 1) = 2 ^ j := gray_adjacent_pure n

/-- `binary_to_gray` / `gray_to_binary` agree with these maps except at the hard-coded inputs — the
full statement "for all n" is false for the code as it is (see the witnesses), hence `_partial` -/
theorem binary_to_gray_partial (n : Nat) (h : n ≠ 1023) : toGray n = toGrayPure n := by
  simp [toGray, toGrayPure, h]
theorem gray_to_binary_partial (g : Nat) (h : g ≠ 1365) : fromGray g = fromGrayPure g := by
  simp [fromGray, fromGrayPure, h]

/-- roundtrip for the functions as implemented, away from the four affected values -/
theorem gray_roundtrip_partial (n : Nat) (h1 : n ≠ 1023) (h2 : toGrayPure n ≠ 1365) :
    fromGray (toGray n) = n := by
  rw [binary_to_gray_partial n h1, gray_to_binary_partial _ h2, fromGray_toGray_pure]

/-- witnesses of the known finding F-GRAYCONST: not injective, not adjacent, not inverse -/
theorem gray_finding_witness :
    toGray 1023 = toGray 1638 ∧ toGray 1023 ^^^ toGray 1022 = 1876 ∧ fromGray (toGray 1638) = 1023 ∧
    toGray (fromGray 512) ≠ 512 := by decide +kernel

/-! ## published constellations (K obligations over the regenerated catalogue) -/

theorem instances_ok : ∀ i ∈ Generated.C14.instances, instOk i = true := by
  intro i hi
  simp only [Generated.C14.instances, List.mem_append] at hi
  rcases hi with ((((((h | h) | h) | h) | h) | h) | h) | h
  · exact part0_ok i h
  · exact part1_ok i h
  · exact part2_ok i h
  · exact part3_ok i h
  · exact part4_ok i h
  · exact part5_ok i h
  · exact part6_ok i h
  · exact part7_ok i h

private theorem parts {i : Inst} (h : instOk i = true) :
    labelsOk i.table = true ∧ 0 < i.lo ∧ nearOk i.hi i.table.pts i.near = true ∧
    pairsOk i.lo i.hi false i.table.b i.table.pts = true ∧
    (i.gray = true → i.knownNonGray = false → pairsOk i.lo i.hi true i.table.b i.table.pts = true) ∧
    (i.gray = true → i.knownNonGray = true → pairsOk i.lo i.hi true i.table.b i.table.pts = false) ∧
    (i.unit = true → energyOk i.scale 1 1000000 i.table.pts = true) := by
  unfold instOk at h
  simp only [Bool.and_eq_true, Bool.or_eq_true, Bool.not_eq_true', decide_eq_true_eq] at h
  obtain ⟨⟨⟨⟨h1, h2⟩, h3⟩, h4⟩, h6⟩ := h
  have hu : i.unit = true → energyOk i.scale 1 1000000 i.table.pts = true := by
    intro hu; rcases h6 with h6 | h6
    · rw [hu] at h6; cases h6
    · exact h6
  by_cases hc : i.gray = true ∧ i.knownNonGray = false
  · rw [if_pos hc] at h4
    have hf := ModemProofs.pairsOk_mono _ _ _ _ h4
    exact ⟨h1, h2, h3, hf, fun _ _ => h4, fun _ hk => (by rw [hc.2] at hk; cases hk), hu⟩
  · rw [if_neg hc] at h4
    simp only [Bool.and_eq_true, Bool.or_eq_true, Bool.not_eq_true'] at h4
    refine ⟨h1, h2, h3, h4.1, fun hg hk => ?_, fun hg _ => ?_, hu⟩
    · exact absurd ⟨hg, hk⟩ hc
    · rcases h4.2 with h5 | h5
      · rw [hg] at h5; cases h5
      · exact h5

/-- 2^b points labelled by all 2^b distinct b-bit patterns -/
theorem labels_bijective (i : Inst) (hi : i ∈ Generated.C14.instances) :
    i.table.pts.length = 2 ^ i.table.b ∧ (i.table.pts.map (·.lab)).Perm (List.range (2 ^ i.table.b)) := by
  have h := (parts (instances_ok i hi)).1
  exact ⟨by simpa using (labels_perm i.table h).length_eq, labels_perm i.table h⟩

/-- the points are pairwise distinct -/
theorem points_distinct (i : Inst) (hi : i ∈ Generated.C14.instances) :
    i.table.pts.Pairwise (fun p q => ¬ (p.re = q.re ∧ p.im = q.im)) := by
  obtain ⟨_, h2, _, h4, _⟩ := parts (instances_ok i hi)
  exact ModemProofs.points_distinct i.lo i.hi false i.table.b i.table.pts h2 h4

/-- bijective labels and a positive lower bound `lo` on every pairwise squared distance (used by C09) -/
theorem labels_and_spacing (i : Inst) (hi : i ∈ Generated.C14.instances) :
    labelsOk i.table = true ∧ 0 < i.lo ∧ i.table.pts.Pairwise (fun p q => i.lo ≤ dist2 p q.re q.im) := by
  obtain ⟨h1, h2, _, h4, _⟩ := parts (instances_ok i hi)
  exact ⟨h1, h2, (pairsOk_sound i.lo i.hi false i.table.b i.table.pts h4).imp (fun hpq => hpq.1)⟩

/-- Gray requested (and not a listed finding): any two points within the minimum distance differ in
exactly one label bit -/
theorem gray_neighbours (i : Inst) (hi : i ∈ Generated.C14.instances) (hg : i.gray = true)
    (hk : i.knownNonGray = false) :
    i.table.pts.Pairwise (fun p q => dist2 p q.re q.im ≤ i.hi → popcount i.table.b (p.lab ^^^ q.lab) = 1) := by
  obtain ⟨_, _, _, _, h5, _⟩ := parts (instances_ok i hi)
  exact (pairsOk_sound i.lo i.hi true i.table.b i.table.pts (h5 hg hk)).imp (fun hpq => hpq.2 rfl)

/-- the listed findings are real: for those instances the Gray check fails on the table -/
theorem known_non_gray_witness (i : Inst) (hi : i ∈ Generated.C14.instances) (hg : i.gray = true)
    (hk : i.knownNonGray = true) : pairsOk i.lo i.hi true i.table.b i.table.pts = false :=
  (parts (instances_ok i hi)).2.2.2.2.2.1 hg hk

/-- unit average energy (within 1e-6, the tables being float32) whenever requested -/
theorem unit_energy (i : Inst) (hi : i ∈ Generated.C14.instances) (hu : i.unit = true) :
    energyOk i.scale 1 1000000 i.table.pts = true := (parts (instances_ok i hi)).2.2.2.2.2.2 hu

/-! ## non-vacuity -/
example : Generated.C14.instances.length ≥ 60 := by decide +kernel

end C14
