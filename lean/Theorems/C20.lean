import Proofs.Blocks
import Mathlib.Data.List.Perm.Basic
/-!
# C20 — per-sample components are pure: batch result equals the stack of single results

In the model every per-block component is a *function* `f : Nat → Nat` of one block (bit mask) and
the framing is `Kaira.Codes.blockwise`; a batch is a list of rows.  Purity, position independence,
independence of the other members and of the grouping of blocks along the last dimension are then
theorems about `List.map` and `blockwise` — they hold for *every* `f`.  What ties them to kaira is
the correspondence (the real components against per-member evaluation and against the model).
-/
open Kaira.Codes BlocksProofs List

namespace C20

/-- a batch is processed row by row -/
def batchApply (g : List Bool → Option (List Bool)) (rows : List (List Bool)) : List (Option (List Bool)) := rows.map g

/-- the result for member `i` is the result of that member processed alone — whatever the other
members are and wherever it stands -/
theorem member_alone (g : List Bool → Option (List Bool)) (rows : List (List Bool)) (i : Nat) :
    (batchApply g rows)[i]? = rows[i]?.map g := by
  simp [batchApply]

/-- permuting the batch permutes the results -/
theorem batch_permutation (g : List Bool → Option (List Bool)) (rows rows' : List (List Bool)) (h : rows.Perm rows') :
    (batchApply g rows).Perm (batchApply g rows') := h.map g

/-- a batch of `B` is the concatenation of batches of one -/
theorem batch_is_stack_of_singles (g : List Bool → Option (List Bool)) (rows : List (List Bool)) :
    batchApply g rows = (rows.map fun r => batchApply g [r]).flatten := by
  induction rows with
  | nil => rfl
  | cons r rs ih => simp only [batchApply, List.map_cons, List.map_nil, List.flatten_cons, List.singleton_append, List.cons.injEq, true_and] at ih ⊢; exact ih

/-- **blockwise framing is a map over the blocks**: for any per-block function, any block sizes,
any number of blocks in the last dimension -/
theorem blockwise_is_map (inSize outSize : Nat) (hs : 0 < inSize) (f : Nat → Nat) (bs : List (List Bool))
    (hb : ∀ b ∈ bs, b.length = inSize) :
    blockwise inSize outSize f bs.flatten = some ((bs.map fun b => bitsOf outSize (f (maskOf b))).flatten) :=
  blockwise_flatten inSize outSize hs f bs hb

/-- **grouping independence**: processing `b₁ ++ b₂` blocks in one row equals processing the two
groups separately and concatenating -/
theorem grouping_independent (inSize outSize : Nat) (hs : 0 < inSize) (f : Nat → Nat) (bs1 bs2 : List (List Bool))
    (h1 : ∀ b ∈ bs1, b.length = inSize) (h2 : ∀ b ∈ bs2, b.length = inSize) :
    ∃ o1 o2, blockwise inSize outSize f bs1.flatten = some o1 ∧ blockwise inSize outSize f bs2.flatten = some o2 ∧
      blockwise inSize outSize f (bs1.flatten ++ bs2.flatten) = some (o1 ++ o2) := by
  refine ⟨_, _, blockwise_flatten inSize outSize hs f bs1 h1, blockwise_flatten inSize outSize hs f bs2 h2, ?_⟩
  have := blockwise_flatten inSize outSize hs f (bs1 ++ bs2) (by
    intro b hb; rcases List.mem_append.mp hb with h | h
    · exact h1 b h
    · exact h2 b h)
  simpa using this

/-- a layout the framing cannot process is rejected, not answered -/
theorem reject_non_multiple (inSize outSize : Nat) (f : Nat → Nat) (bits : List Bool)
    (h : bits.length % inSize ≠ 0) : blockwise inSize outSize f bits = none := by
  unfold blockwise; simp [h]

/-- the answer for one block depends on that block only: replacing the other blocks leaves it unchanged -/
theorem block_alone (inSize outSize : Nat) (hs : 0 < inSize) (f : Nat → Nat) (pre pre' post post' : List (List Bool)) (b : List Bool)
    (hb : b.length = inSize) (hpre : ∀ x ∈ pre, x.length = inSize) (hpre' : ∀ x ∈ pre', x.length = inSize)
    (hpost : ∀ x ∈ post, x.length = inSize) (hpost' : ∀ x ∈ post', x.length = inSize) (hl : pre.length = pre'.length) :
    ∃ o o', blockwise inSize outSize f (pre ++ [b] ++ post).flatten = some o ∧
      blockwise inSize outSize f (pre' ++ [b] ++ post').flatten = some o' ∧
      (o.drop (pre.length * outSize)).take outSize = (o'.drop (pre'.length * outSize)).take outSize := by
  have hall : ∀ (p q : List (List Bool)), (∀ x ∈ p, x.length = inSize) → (∀ x ∈ q, x.length = inSize) →
      ∀ x ∈ p ++ [b] ++ q, x.length = inSize := by
    intro p q hp hq x hx
    simp only [List.mem_append, List.mem_singleton] at hx
    rcases hx with (h | h) | h
    · exact hp x h
    · rw [h]; exact hb
    · exact hq x h
  refine ⟨_, _, blockwise_flatten inSize outSize hs f _ (hall pre post hpre hpost),
    blockwise_flatten inSize outSize hs f _ (hall pre' post' hpre' hpost'), ?_⟩
  have key : ∀ (p q : List (List Bool)),
      (((p ++ [b] ++ q).map fun b => bitsOf outSize (f (maskOf b))).flatten.drop (p.length * outSize)).take outSize =
        bitsOf outSize (f (maskOf b)) := by
    intro p q
    simp only [List.map_append, List.flatten_append, List.map_cons, List.map_nil, List.flatten_cons, List.flatten_nil, List.append_nil,
      List.append_assoc]
    have hlen : ((p.map fun b => bitsOf outSize (f (maskOf b))).flatten).length = p.length * outSize := by
      rw [length_flatten_const outSize]
      · simp
      · intro w hw; obtain ⟨x, _, rfl⟩ := List.mem_map.mp hw; exact length_bitsOf _ _
    rw [List.drop_append_of_le_length (by rw [hlen]), ← hlen, List.drop_length, List.nil_append,
      List.take_append_of_le_length (by simp [length_bitsOf])]
    rw [List.take_of_length_le (by simp [length_bitsOf])]
  rw [key pre post, key pre' post']

/-! ## non-vacuity -/
example : blockwise 2 3 (fun m => m + 1) [true, false, false, true] = some [false, true, false, true, true, false] := by decide

end C20
