import Proofs.Pipeline
import Generated.C17
/-!
# C17 — pipeline models run their stages in declared order, independent of thread timing

The stage behaviour `f` (and `g` for two-argument stages) is universally quantified: the theorems
hold for every choice of stages.  The completion order `perm` of the thread pool is a universally
quantified permutation.
-/
open Kaira.Pipeline PipelineProofs

namespace C17

/-! ## sequential (generic, DeepJSCC, channel-code) -/

theorem runSeq_spec (f : Nat → Nat → Nat) : ∀ (steps : List Nat) (v : Nat) (tr : Trace),
    (runSeq f steps v tr).1 = steps.foldl (fun v s => f s v) v ∧
    (runSeq f steps v tr).2.map Prod.fst = tr.map Prod.fst ++ steps
  | [], v, tr => by simp [runSeq]
  | s :: ss, v, tr => by
    obtain ⟨h1, h2⟩ := runSeq_spec f ss (f s v) (tr ++ [(s, v)])
    simp only [runSeq, List.foldl_cons]
    exact ⟨h1, by rw [h2]; simp⟩

/-- stages run in the declared order, each exactly once -/
theorem sequential_trace (f : Nat → Nat → Nat) (steps : List Nat) (v : Nat) :
    (runSeq f steps v []).2.map Prod.fst = steps := by
  simpa using (runSeq_spec f steps v []).2

/-- each stage receives the previous stage's output -/
theorem sequential_value (f : Nat → Nat → Nat) (steps : List Nat) (v : Nat) :
    (runSeq f steps v []).1 = steps.foldl (fun v s => f s v) v := (runSeq_spec f steps v []).1

/-- any history of add/remove-step operations followed by a run behaves like the list model -/
theorem history_then_run (f : Nat → Nat → Nat) (init : List Nat) (ops : List SeqOp) (v : Nat) :
    (runSeq f (seqHistory init ops) v []).2.map Prod.fst = seqHistory init ops :=
  sequential_trace f _ v

theorem add_appends (steps : List Nat) (s : Nat) : seqApply steps (.add s) = some (steps ++ [s]) := rfl
theorem remove_rejects_out_of_range (steps : List Nat) (i : Nat) (h : steps.length ≤ i) :
    seqApply steps (.remove i) = none := by simp [seqApply]; omega

/-- the declared orders of the two named pipelines, read from the constructed objects -/
theorem deepjscc_order : Generated.C17.deepjsccOrder = ["encoder", "constraint", "channel", "decoder"] := by decide
theorem channel_code_order : Generated.C17.channelCodeOrder =
    ["encoder", "modulator", "constraint", "channel", "demodulator", "decoder"] := by decide

/-! ## parallel -/

/-- **for every completion order** the results are in declared branch order, each under its own
name (branch names distinct) -/
theorem parallel_declared_order (f : Nat → Nat → Nat) (steps : List (String × Nat))
    (hnd : (steps.map Prod.fst).Nodup) (perm : List Nat) (hperm : perm.Perm (List.range steps.length))
    (v : Nat) :
    parallel f steps perm v = steps.map (fun q => (q.1, f q.2 v)) := by
  unfold parallel
  split
  · next h => simp [List.isEmpty_iff.mp h]
  · unfold reorder gather
    have hgood : Good f v steps [] := by intro q _ r hr; simp [dictGet] at hr
    obtain ⟨a, _, c⟩ := gather_inv f v steps hnd perm [] hgood
    have key : ∀ q ∈ steps, dictGet (perm.foldl (gatherStep f steps v) []) q.1 = some (f q.2 v) := by
      intro q hq
      obtain ⟨i, hi, hqi⟩ := List.getElem_of_mem hq
      have hmem : i ∈ perm := hperm.symm.subset (List.mem_range.mpr hi)
      have hsome := c i hmem q (by rw [List.getElem?_eq_getElem hi, hqi])
      obtain ⟨r, hr⟩ := Option.isSome_iff_exists.mp hsome
      rw [hr, a q hq r hr]
    have := reorder_aux f v _ steps [] (by simp) hnd key
    simpa using this

/-- each branch's result is stored under that branch's own name -/
theorem parallel_named (f : Nat → Nat → Nat) (steps : List (String × Nat))
    (hnd : (steps.map Prod.fst).Nodup) (perm : List Nat) (hperm : perm.Perm (List.range steps.length))
    (v : Nat) (q : String × Nat) (hq : q ∈ steps) :
    (q.1, f q.2 v) ∈ parallel f steps perm v := by
  rw [parallel_declared_order f steps hnd perm hperm v]
  exact List.mem_map.mpr ⟨q, hq, rfl⟩

/-- in particular two different completion orders give the same aggregator input -/
theorem parallel_schedule_independent (f : Nat → Nat → Nat) (steps : List (String × Nat))
    (hnd : (steps.map Prod.fst).Nodup) (p1 p2 : List Nat)
    (h1 : p1.Perm (List.range steps.length)) (h2 : p2.Perm (List.range steps.length)) (v : Nat) :
    parallel f steps p1 v = parallel f steps p2 v := by
  rw [parallel_declared_order f steps hnd p1 h1, parallel_declared_order f steps hnd p2 h2]

/-! ## branching -/

theorem branch_go (f : Nat → Nat → Nat) (default : Option Nat) (v : Nat) :
    ∀ (pre : List Branch) (b : Branch) (post : List Branch) (ev : List String),
    (∀ x ∈ pre, x.cond v = false) → b.cond v = true →
    branchRun.go f default v (pre ++ b :: post) ev =
      (some (b.name, f b.stage v), ev ++ pre.map (·.name) ++ [b.name])
  | [], b, post, ev, _, hb => by simp [branchRun.go, hb]
  | p :: pre, b, post, ev, hpre, hb => by
    have hp : p.cond v = false := hpre p (by simp)
    simp only [List.cons_append, branchRun.go, hp]
    rw [branch_go f default v pre b post _ (fun x hx => hpre x (by simp [hx])) hb]
    simp

/-- exactly the first branch whose condition holds runs (conditions after it are not evaluated) -/
theorem branching_first_match (f : Nat → Nat → Nat) (default : Option Nat) (v : Nat)
    (pre : List Branch) (b : Branch) (post : List Branch)
    (hpre : ∀ x ∈ pre, x.cond v = false) (hb : b.cond v = true) :
    branchRun f (pre ++ b :: post) default v =
      (some (b.name, f b.stage v), pre.map (·.name) ++ [b.name]) := by
  unfold branchRun
  rw [branch_go f default v pre b post [] hpre hb]; simp

theorem branch_go_none (f : Nat → Nat → Nat) (default : Option Nat) (v : Nat) :
    ∀ (bs : List Branch) (ev : List String), (∀ x ∈ bs, x.cond v = false) →
    branchRun.go f default v bs ev = (default.map (fun s => ("default", f s v)), ev ++ bs.map (·.name))
  | [], ev, _ => by simp [branchRun.go]
  | p :: bs, ev, h => by
    have hp : p.cond v = false := h p (by simp)
    simp only [branchRun.go, hp]
    rw [branch_go_none f default v bs _ (fun x hx => h x (by simp [hx]))]
    simp

/-- else the default, else an error (`none`) -/
theorem branching_default (f : Nat → Nat → Nat) (default : Option Nat) (v : Nat) (bs : List Branch)
    (h : ∀ x ∈ bs, x.cond v = false) :
    (branchRun f bs default v).1 = default.map (fun s => ("default", f s v)) := by
  unfold branchRun; rw [branch_go_none f default v bs [] h]

/-! ## feedback: exactly the configured number of rounds -/

def encCount (tr : Trace) : Nat := (tr.filter (fun e => e.1 = sEnc)).length

theorem fbRound_enc (f : Nat → Nat → Nat) (g : Nat → Nat → Nat → Nat) (x : Nat) (fb : Option Nat) :
    encCount (fbRound f g x fb).2.2 = 1 ∧
    (fbRound f g x fb).2.2.map Prod.fst =
      (match fb with | none => [] | some _ => [sProc]) ++ [sEnc, sFwd, sDec, sGen, sFbk] := by
  unfold fbRound encCount
  cases fb <;> simp [sProc, sEnc, sFwd, sDec, sGen, sFbk]

theorem fbLoop_enc (f : Nat → Nat → Nat) (g : Nat → Nat → Nat → Nat) (x : Nat) :
    ∀ (n : Nat) (fb out : Option Nat) (tr : Trace),
    encCount (fbLoop f g x n fb out tr).2 = encCount tr + n
  | 0, _, _, _ => by simp [fbLoop]
  | n+1, fb, out, tr => by
    simp only [fbLoop]
    rw [fbLoop_enc f g x n]
    have := (fbRound_enc f g x fb).1
    unfold encCount at *
    rw [List.filter_append, List.length_append, this]; omega

/-- the encoder (hence every stage of a round) runs exactly `max_iterations` times -/
theorem feedback_rounds (f : Nat → Nat → Nat) (g : Nat → Nat → Nat → Nat) (x iters : Nat) :
    encCount (feedback f g x iters).2 = iters := by
  unfold feedback; rw [fbLoop_enc]; simp [encCount]

/-- stage order within a round: (processor, after the first round) encoder, forward channel,
decoder, feedback generator, feedback channel -/
theorem feedback_round_order (f : Nat → Nat → Nat) (g : Nat → Nat → Nat → Nat) (x : Nat) (fb : Option Nat) :
    (fbRound f g x fb).2.2.map Prod.fst =
      (match fb with | none => [] | some _ => [sProc]) ++ [sEnc, sFwd, sDec, sGen, sFbk] :=
  (fbRound_enc f g x fb).2

/-! ## multiple access: all encoders, one sum, one constraint, one channel use, then decoders -/

theorem mac_order (f : Nat → Nat → Nat) (xs : List Nat) (joint : Bool) :
    (mac f xs joint).2.map Prod.fst =
      (List.range xs.length).map (100 + ·) ++ [200, 201] ++
      (if joint then [300] else (List.range xs.length).map (300 + ·)) := by
  unfold mac
  simp only [List.map_append, List.map_map]
  congr 1
  · congr 1
    apply List.ext_getElem <;> simp
  · cases joint <;> simp [Function.comp_def]

/-- the constraint and the channel see the superposition (sum) of all users' encoded signals -/
theorem mac_superposition (f : Nat → Nat → Nat) (xs : List Nat) (joint : Bool) :
    (200, ((xs.zipIdx.map (fun (x, i) => f (100 + i) x)).sum)) ∈ (mac f xs joint).2 := by
  unfold mac; simp [Function.comp_def]

/-! ## non-vacuity -/
example : parallel (fun s v => s * 10 + v) [("a", 1), ("b", 2), ("c", 3)] [2, 0, 1] 5 =
    [("a", 15), ("b", 25), ("c", 35)] := by decide
example : ([2, 0, 1] : List Nat).Perm (List.range 3) := by decide

end C17
