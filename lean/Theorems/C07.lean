import Kaira.Additive
import Mathlib.Analysis.SpecialFunctions.Log.Base
import Mathlib.Analysis.SpecialFunctions.Pow.Real
import Mathlib.Tactic.FieldSimp
import Mathlib.Tactic.Ring
import Mathlib.Tactic.Linarith
import Mathlib.Algebra.Order.Field.Rat
/-!
# C07 — additive-noise channels deliver exactly the configured noise power / SNR

The unit draws `z` are inputs; "zero-mean, unit variance, independent" is the law of `torch.randn`
(trusted base, supported statistically).  What is proved is the deterministic part: how the configured
power enters every noise sample, for real and complex inputs and every parameterisation, and the
single SNR definition shared by channel parameters, conversion utilities and the SNR metric.
-/
open Kaira.Additive

namespace C07

/-- sum form used below -/
def sumSq (l : List ℚ) : ℚ := (l.map fun v => v * v).sum

theorem sumSq_scale (s : ℚ) (z : List ℚ) : sumSq (z.map fun v => s * v) = s * s * sumSq z := by
  unfold sumSq
  induction z with
  | nil => simp
  | cons a as ih => simp only [List.map_cons, List.sum_cons, ih]; ring

/-- real input: noise = s·z with s² = P  ⇒  Σ noise² = P · Σ z², i.e. average noise power P·mean(z²) -/
theorem additive_real (P s : ℚ) (hs : s * s = P) (z : List ℚ) :
    sumSq (z.map fun v => s * v) = P * sumSq z := by rw [sumSq_scale, hs]

/-- complex input: each component gets s'·z with s'² = P/2  ⇒  Σ|noise|² = P·(Σ z_r² + Σ z_i²)/2 -/
theorem additive_complex (P s : ℚ) (hs : s * s = P / 2) (zr zi : List ℚ) :
    sumSq (zr.map fun v => s * v) + sumSq (zi.map fun v => s * v) = P * (sumSq zr + sumSq zi) / 2 := by
  rw [sumSq_scale, sumSq_scale, hs]; ring

/-- the model's squared samples are exactly those of `s·z` -/
theorem noiseSq_spec (P s : ℚ) (hs : s * s = P) (z : List ℚ) :
    noiseSq P z = (z.map fun v => s * v).map fun n => n * n := by
  unfold noiseSq
  rw [List.map_map]
  apply List.map_congr_left
  intro v _
  simp only [Function.comp]
  rw [← hs]; ring

/-- same draws, two powers: noise(P2) = r · noise(P1) with r² = P2/P1 (the relation the check
verifies on the real channel under a re-seeded generator) -/
theorem same_seed_scaling (P1 P2 s1 s2 : ℚ) (h1 : s1 * s1 = P1) (h2 : s2 * s2 = P2) (hP : P1 ≠ 0)
    (v : ℚ) : (s2 * v) * (s2 * v) * P1 = (s1 * v) * (s1 * v) * P2 := by
  rw [← h1, ← h2]; ring

/-- per-component powers of every parameterisation add up to the configured power
(raw Laplacian draws have variance 2, Gaussian ones variance 1) -/
theorem component_powers (P b : ℚ) :
    componentPower .awgnReal P = P ∧
    componentPower .awgnComplex P + componentPower .awgnComplex P = P ∧
    2 * componentPower .lapPowerReal P = P ∧
    2 * componentPower .lapPowerComplex P + 2 * componentPower .lapPowerComplex P = P ∧
    2 * componentPower .lapScaleReal b = 2 * b * b ∧
    2 * componentPower .lapScaleComplex b + 2 * componentPower .lapScaleComplex b = 2 * b * b := by
  refine ⟨rfl, ?_, ?_, ?_, ?_, ?_⟩ <;> simp only [componentPower] <;> ring

/-- caller-supplied noise is added verbatim -/
theorem pregenerated_noise (x n : List ℚ) : List.zipWith (· + ·) x n = List.zipWith (fun a b => a + b) x n := rfl

/-! ## one SNR definition -/

/-- P = S / 10^j  ⇒  S / P = 10^j (integer decades, exact rationals) -/
theorem snrPower_ratio (S : ℚ) (hS : S ≠ 0) (j : ℤ) :
    S / snrPower S j = if j ≥ 0 then (10 : ℚ) ^ j.toNat else 1 / (10 : ℚ) ^ (-j).toNat := by
  unfold snrPower
  have h10 : ∀ n : ℕ, (10 : ℚ) ^ n ≠ 0 := fun n => pow_ne_zero n (by norm_num)
  split
  · field_simp
  · have := h10 (-j).toNat
    field_simp

open Real in
/-- for every real SNR: with P = S / 10^(snr/10) the ratio S/P in dB is the configured SNR -/
theorem snr_roundtrip (S snr : ℝ) (hS : 0 < S) :
    10 * logb 10 (S / (S / (10 : ℝ) ^ (snr / 10))) = snr := by
  have hpos : (0 : ℝ) < 10 ^ (snr / 10) := rpow_pos_of_pos (by norm_num) _
  have : S / (S / (10 : ℝ) ^ (snr / 10)) = 10 ^ (snr / 10) := by field_simp
  rw [this, logb_rpow (by norm_num) (by norm_num)]
  ring

open Real in
/-- dB ↔ linear conversions are mutually inverse on the positives -/
theorem db_linear_inverse (snr : ℝ) (lin : ℝ) (hl : 0 < lin) :
    10 * logb 10 ((10 : ℝ) ^ (snr / 10)) = snr ∧ (10 : ℝ) ^ ((10 * logb 10 lin) / 10) = lin := by
  constructor
  · rw [logb_rpow (by norm_num) (by norm_num)]; ring
  · have : (10 * logb 10 lin) / 10 = logb 10 lin := by ring
    rw [this, rpow_logb (by norm_num) (by norm_num) hl]

open Real in
/-- the measured SNR of a channel output under the deterministic relation noise = s·z:
configured SNR minus 10·log10(mean z²) — which is 0 dB exactly when the draws have unit sample power -/
theorem measured_snr (S snr mz : ℝ) (hS : 0 < S) (hmz : 0 < mz) :
    10 * logb 10 (S / ((S / (10 : ℝ) ^ (snr / 10)) * mz)) = snr - 10 * logb 10 mz := by
  have hpos : (0 : ℝ) < 10 ^ (snr / 10) := rpow_pos_of_pos (by norm_num) _
  have : S / ((S / (10 : ℝ) ^ (snr / 10)) * mz) = 10 ^ (snr / 10) / mz := by field_simp
  rw [this, logb_div (ne_of_gt hpos) (ne_of_gt hmz), logb_rpow (by norm_num) (by norm_num)]
  ring

/-! ## non-vacuity -/
example : noiseSq 4 [1/2, -3] = [1, 36] := by decide +kernel
example : snrPower 5 2 = 1/20 ∧ snrPower 5 (-1) = 50 := by decide +kernel

end C07
