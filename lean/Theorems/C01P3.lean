import Kaira.Codes
import Generated.C01P3
/-! C01/C04, K obligation, part 3 of the regenerated code catalogue (parts build in parallel). -/
open Kaira.Codes
namespace C01
set_option maxRecDepth 100000 in
theorem part3_ok : ∀ c ∈ Generated.C01P3.part, codeOk c = true := by decide +kernel
end C01
