import Kaira.BinChan
import Mathlib.Tactic.Linarith
import Mathlib.Tactic.IntervalCases
/-!
# C12 — binary channels follow their transition law and never leave their alphabet

The model takes the uniform draws as input; "each bit independently with probability p" is then the
statement that output `i` is a function of `(x_i, u_i)` only, `u_i` being independent uniform draws
of `torch.rand_like` (trusted base; supported statistically by the check).
-/
open Kaira.BinChan

namespace C12

/-- alphabets -/
def Bin (x : List Int) : Prop := ∀ v ∈ x, v = 0 ∨ v = 1
def Bip (x : List Int) : Prop := (∀ v ∈ x, v = -1 ∨ v = 1) ∧ (-1 : Int) ∈ x

theorem bipolar_of_bin (x : List Int) (h : Bin x) : bipolar x = false := by
  unfold bipolar
  rw [Bool.eq_false_iff]
  intro hc
  rw [List.any_eq_true] at hc
  obtain ⟨v, hv, he⟩ := hc
  rcases h v hv with h0 | h1 <;> simp_all

theorem bipolar_of_bip (x : List Int) (h : Bip x) : bipolar x = true := by
  unfold bipolar; rw [List.any_eq_true]; exact ⟨-1, h.2, by simp⟩

/-! ## BSC -/

/-- output `i` depends only on `(x_i, u_i)`: flipped exactly when `u_i < p` ({0,1} alphabet) -/
theorem bsc_law_bin (p : Rat) (x : List Int) (u : List Rat) (hx : Bin x) :
    bsc p x u = List.zipWith (fun v d => if d < p then 1 - v else v) x u := by
  unfold bsc
  rw [bipolar_of_bin x hx]
  simp only [toBin, fromBin, Bool.false_eq_true, if_false]
  induction x generalizing u with
  | nil => simp
  | cons v vs ih =>
    cases u with
    | nil => simp
    | cons d ds =>
      simp only [List.zipWith_cons_cons]
      rw [ih ds (fun w hw => hx w (by simp [hw]))]
      congr 1
      rcases hx v (by simp) with h | h <;> subst h <;> split <;> simp

/-- … and on the {-1,+1} alphabet: sign flipped exactly when `u_i < p` -/
theorem bsc_law_bip (p : Rat) (x : List Int) (u : List Rat) (hx : Bip x) :
    bsc p x u = List.zipWith (fun v d => if d < p then -v else v) x u := by
  unfold bsc
  rw [bipolar_of_bip x hx]
  simp only [toBin, fromBin, if_true]
  have hall := hx.1
  clear hx
  induction x generalizing u with
  | nil => simp
  | cons v vs ih =>
    cases u with
    | nil => simp
    | cons d ds =>
      simp only [List.zipWith_cons_cons]
      rw [ih ds (fun w hw => hall w (by simp [hw]))]
      congr 1
      rcases hall v (by simp) with h | h <;> subst h <;> split <;> simp

/-- probability 0 is the identity, probability 1 flips everything (draws lie in [0, 1)) -/
theorem bsc_extremes (x : List Int) (u : List Rat) (hx : Bin x) (hl : u.length = x.length)
    (hu : ∀ d ∈ u, 0 ≤ d ∧ d < 1) :
    bsc 0 x u = x ∧ bsc 1 x u = x.map (1 - ·) := by
  rw [bsc_law_bin 0 x u hx, bsc_law_bin 1 x u hx]
  constructor
  · induction x generalizing u with
    | nil => simp
    | cons v vs ih =>
      cases u with
      | nil => simp at hl
      | cons d ds =>
        have hd := hu d (by simp)
        simp only [List.zipWith_cons_cons]
        rw [ih ds (fun w hw => hx w (by simp [hw])) (by simpa using hl) (fun e he => hu e (by simp [he]))]
        simp [not_lt.mpr hd.1]
  · induction x generalizing u with
    | nil => simp
    | cons v vs ih =>
      cases u with
      | nil => simp at hl
      | cons d ds =>
        have hd := hu d (by simp)
        simp only [List.zipWith_cons_cons, List.map_cons]
        rw [ih ds (fun w hw => hx w (by simp [hw])) (by simpa using hl) (fun e he => hu e (by simp [he]))]
        simp [hd.2]

/-- outputs stay in the input's alphabet -/
theorem bsc_support (p : Rat) (x : List Int) (u : List Rat) (hx : Bin x) : Bin (bsc p x u) := by
  rw [bsc_law_bin p x u hx]
  intro w hw
  obtain ⟨i, hi, rfl⟩ := List.getElem_of_mem hw
  have hix : i < x.length := by simp at hi; omega
  simp only [List.getElem_zipWith]
  have := hx x[i] (List.getElem_mem hix)
  split <;> rcases this with h | h <;> simp [h]

/-! ## BEC -/

/-- every unerased symbol is unchanged; erased exactly where `u_i < p` -/
theorem bec_law (p : Rat) (e : Int) (x : List Int) (u : List Rat) :
    bec p e x u = List.zipWith (fun v d => if d < p then e else v) x u := rfl

theorem bec_support (p : Rat) (e : Int) (x : List Int) (u : List Rat) :
    ∀ w ∈ bec p e x u, w = e ∨ w ∈ x := by
  intro w hw
  unfold bec at hw
  obtain ⟨i, hi, rfl⟩ := List.getElem_of_mem hw
  simp only [List.getElem_zipWith]
  split
  · left; rfl
  · right; exact List.getElem_mem _

theorem bec_extremes (e : Int) (x : List Int) (u : List Rat) (hl : u.length = x.length)
    (hu : ∀ d ∈ u, 0 ≤ d ∧ d < 1) : bec 0 e x u = x ∧ bec 1 e x u = x.map (fun _ => e) := by
  unfold bec
  constructor
  · induction x generalizing u with
    | nil => simp
    | cons v vs ih =>
      cases u with
      | nil => simp at hl
      | cons d ds =>
        have hd := hu d (by simp)
        simp only [List.zipWith_cons_cons]
        rw [ih ds (by simpa using hl) (fun e' he => hu e' (by simp [he]))]
        simp [not_lt.mpr hd.1]
  · induction x generalizing u with
    | nil => simp
    | cons v vs ih =>
      cases u with
      | nil => simp at hl
      | cons d ds =>
        have hd := hu d (by simp)
        simp only [List.zipWith_cons_cons, List.map_cons]
        rw [ih ds (by simpa using hl) (fun e' he => hu e' (by simp [he]))]
        simp [hd.2]

/-! ## Z-channel -/

/-- a 0 is never turned into a 1, and nothing but 0 or the input value ever comes out -/
theorem z_never_raises (p : Rat) : ∀ (x : List Int) (u : List Rat), (∀ v ∈ x, v = 0 ∨ v = 1) →
    (zLoop p x u).length = x.length ∧
    ∀ i (hi : i < x.length) (h2 : i < (zLoop p x u).length), (x[i] = 0 → (zLoop p x u)[i] = 0) ∧
      ((zLoop p x u)[i] = 0 ∨ (zLoop p x u)[i] = 1)
  | [], u, _ => by simp [zLoop]
  | v :: vs, u, hx => by
    have hv := hx v (by simp)
    have hrest : ∀ w ∈ vs, w = 0 ∨ w = 1 := fun w hw => hx w (by simp [hw])
    by_cases h1 : v = 1
    · subst h1
      cases u with
      | nil =>
        obtain ⟨l, ih⟩ := z_never_raises p vs [] hrest
        refine ⟨by simp [zLoop, l], ?_⟩
        intro i hi h2
        cases i with
        | zero => simp [zLoop]
        | succ i => simpa [zLoop] using ih i (by simpa using hi) (by simpa [zLoop] using h2)
      | cons d ds =>
        obtain ⟨l, ih⟩ := z_never_raises p vs ds hrest
        refine ⟨by simp [zLoop, l], ?_⟩
        intro i hi h2
        cases i with
        | zero => simp only [zLoop, if_true, List.getElem_cons_zero]; split <;> simp
        | succ i => simpa [zLoop] using ih i (by simpa using hi) (by simpa [zLoop] using h2)
    · have h0 : v = 0 := by rcases hv with h | h; exact h; exact absurd h h1
      subst h0
      obtain ⟨l, ih⟩ := z_never_raises p vs u hrest
      refine ⟨by simp [zLoop, l], ?_⟩
      intro i hi h2
      cases i with
      | zero => simp [zLoop]
      | succ i => simpa [zLoop] using ih i (by simpa using hi) (by simpa [zLoop] using h2)

/-- probability 0: identity (no draw is consumed at all) -/
theorem z_zero (x : List Int) (u : List Rat) (hx : Bin x) : zch 0 x u = x := by
  unfold zch
  rw [bipolar_of_bin x hx]
  have : (fromBin false ∘ toBin false) = id := by funext v; simp [toBin, fromBin]
  simp [this]

/-! ## non-vacuity -/
example : bsc (1/4) [0, 1, 1, 0] [1/8, 1/2, 1/5, 3/4] = [1, 1, 0, 0] := by decide +kernel
example : zch (1/2) [1, 0, 1, 1] [3/4, 1/4, 1/8] = [1, 0, 0, 0] := by decide +kernel
example : bsc (1/4) [-1, 1] [1/8, 1/2] = [1, 1] := by decide +kernel

end C12
