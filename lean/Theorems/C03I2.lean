import Kaira.Dist
import Generated.C03I2
/-! C03, K obligation: information-set distance certificates, part 2 (parts build in parallel). -/
open Kaira.Dist
namespace C03
set_option maxRecDepth 100000 in
theorem info2_ok : ∀ c ∈ Generated.C03I2.part, infoOk c = true := by decide +kernel
end C03
