import Proofs.Dist
import Proofs.DistInfo
import Theorems.C03B
import Generated.C03
import Theorems.C03P0
import Theorems.C03P1
import Theorems.C03P2
import Theorems.C03P3
import Theorems.C03P4
import Theorems.C03P5
import Theorems.C03P6
import Theorems.C03P7
import Theorems.C03I0
import Theorems.C03I1
import Theorems.C03I2
import Theorems.C03I3
import Theorems.C03I4
import Theorems.C03I5
/-!
# C03 — the (n, k, d) and structure a code object advertises are its true parameters

`Generated.C03.instances`: per catalogue encoder the published generator matrix and check-matrix
columns, the parameters the object reports (`code_length`, `code_dimension`, `minimum_distance` /
`delta`), a witness message for documented exact values, and for the cyclic families the generator
polynomial and the coefficient order of the layout.  `decided = false` marks instances whose
dimension is too large for the kernel to enumerate (k > 13): their distance clause is *not* claimed
here (the check's search oracle still covers them with an independent enumeration / MacWilliams).
-/
open Kaira.Codes Kaira.Dist CodesProofs DistProofs

namespace C03

/-- for every generator matrix: `spanMin` bounds the weight of every non-zero codeword from below
(no bound on k or n — the checker is sound for any code it can be evaluated on) -/
theorem spanMin_sound (G : List Nat) (n top m : Nat) (h0 : m ≠ 0) (hm : m < 2 ^ G.length) :
    spanMin (weight n) top G 0 false ≤ weight n (encode G m) := min_weight G n top m h0 hm

theorem instances_ok : ∀ d ∈ Generated.C03.instances, dinstOk d = true := by
  intro d hd
  simp only [Generated.C03.instances, List.mem_append] at hd
  rcases hd with ((((((h | h) | h) | h) | h) | h) | h) | h
  · exact part0_ok d h
  · exact part1_ok d h
  · exact part2_ok d h
  · exact part3_ok d h
  · exact part4_ok d h
  · exact part5_ok d h
  · exact part6_ok d h
  · exact part7_ok d h

private theorem parts {d : DistInst} (h : dinstOk d = true) :
    paramsOk d = true ∧ (d.knownBad = false → distOk d = true) ∧ (d.knownBad = true → badWitness d = true) ∧
    cyclicOk d = true := by
  unfold dinstOk at h
  simp only [Bool.and_eq_true] at h
  obtain ⟨⟨h1, h2⟩, h3⟩ := h
  refine ⟨h1, ?_, ?_, h3⟩
  · intro hk; rw [hk] at h2; simpa using h2
  · intro hk; rw [hk] at h2; simpa using h2

/-- reported length and dimension are those of the published generator matrix (and of the name, for
named standard codes) -/
theorem reported_parameters (d : DistInst) (hd : d ∈ Generated.C03.instances) :
    d.advN = d.n ∧ d.advK = d.k ∧ d.G.length = d.k := by
  have := (parts (instances_ok d hd)).1
  unfold paramsOk at this
  simp only [Bool.and_eq_true, beq_iff_eq] at this
  exact ⟨this.1.1.1, this.1.1.2, this.1.2⟩

/-- **true minimum distance ≥ advertised** (every non-zero codeword), for every instance decided by full enumeration
that is not a listed finding (the others: `min_distance_large`) -/
theorem min_distance (d : DistInst) (hd : d ∈ Generated.C03.instances) (hk : d.knownBad = false)
    (hdec : d.decided = true) (hadv : d.advD ≠ 0) :
    ∀ m, m ≠ 0 → m < 2 ^ d.k → d.advD ≤ weight d.n (encode d.G m) := by
  have hp := reported_parameters d hd
  have h := (parts (instances_ok d hd)).2.1 hk
  unfold distOk at h
  simp only [Bool.or_eq_true, beq_iff_eq, Bool.not_eq_true', Bool.and_eq_true, decide_eq_true_eq] at h
  rcases h with h | h
  · exact absurd h hadv
  · rcases h.1 with h1 | h1
    · rw [hdec] at h1; cases h1
    · exact fun m h0 hm => Nat.le_trans h1 (spanMin_sound d.G d.n (d.n + 1) m h0 (by rw [hp.2.2]; exact hm))

/-- where the value is documented as exact, a codeword of exactly the advertised weight exists -/
theorem exact_distance_attained (d : DistInst) (hd : d ∈ Generated.C03.instances) (hk : d.knownBad = false)
    (hadv : d.advD ≠ 0) (hex : d.exact = true) :
    ∃ m, m ≠ 0 ∧ m < 2 ^ d.k ∧ weight d.n (encode d.G m) = d.advD := by
  have h := (parts (instances_ok d hd)).2.1 hk
  unfold distOk at h
  simp only [Bool.or_eq_true, beq_iff_eq, Bool.not_eq_true', Bool.and_eq_true, decide_eq_true_eq] at h
  rcases h with h | h
  · exact absurd h hadv
  · rcases h.2 with h2 | h2
    · rw [hex] at h2; cases h2
    · exact ⟨d.wit, by omega, h2.1.2, h2.2⟩

/-- the listed findings (RS-style codes) are real: a non-zero codeword lighter than advertised -/
theorem known_bad_witness (d : DistInst) (hd : d ∈ Generated.C03.instances) (hk : d.knownBad = true) :
    ∃ m, m ≠ 0 ∧ m < 2 ^ d.k ∧ weight d.n (encode d.G m) < d.advD := by
  have h := (parts (instances_ok d hd)).2.2.1 hk
  unfold badWitness at h
  simp only [Bool.and_eq_true, decide_eq_true_eq] at h
  exact ⟨d.wit, by omega, h.1.2, h.2⟩

/-- cyclic families: the generator polynomial divides X^n + 1, has degree n - k, every generator
row (in coefficient order) is a multiple of it, and **every** codeword's cyclic shift has zero
syndrome — i.e. (with C01) the code is closed under cyclic shifts -/
theorem cyclic_structure (d : DistInst) (hd : d ∈ Generated.C03.instances) (hc : d.cyclic = true) :
    Kaira.Poly2.mod (2 ^ d.n + 1) d.gpoly = 0 ∧ Kaira.bitLen d.gpoly + d.k = d.n + 1 ∧
    (∀ g ∈ d.G, Kaira.Poly2.mod (toPolyOrder d g) d.gpoly = 0) ∧
    (∀ m, syndrome d.HT (cshift d.n (encode d.G m)) = 0) := by
  have h := (parts (instances_ok d hd)).2.2.2
  unfold cyclicOk at h
  simp only [Bool.or_eq_true, Bool.not_eq_true', Bool.and_eq_true, decide_eq_true_eq, beq_iff_eq,
    List.all_eq_true] at h
  rcases h with h | h
  · rw [hc] at h; cases h
  · obtain ⟨⟨⟨⟨_, h1⟩, h2⟩, h3⟩, h4⟩ := h
    exact ⟨h1, h2, h4, fun m => shift_closed d.n d.HT d.G 0 m h3⟩

/-- perfect codes meet the sphere-packing bound with equality: Σ_{i ≤ t} C(n, i) = 2^(n-k) -/
theorem sphere_packing (d : DistInst) (hd : d ∈ Generated.C03.instances) (hp : d.perfect = true) :
    sphere d.n ((d.advD - 1) / 2) = 2 ^ (d.n - d.k) := by
  have : ∀ e ∈ Generated.C03.instances, e.perfect = true → sphere e.n ((e.advD - 1) / 2) = 2 ^ (e.n - e.k) := by
    decide +kernel
  exact this d hd hp

/-! ## codes too large to enumerate: information-set bound

`Generated.C03.infoInstances`: for every catalogue instance with k > 13 whose bounded enumeration fits the kernel budget, an
information set `pos` and the inverse `M` of the generator matrix restricted to it (computed by the harness, *checked* here).
`DistInfo.info_bound` is the unbounded soundness theorem: a codeword is at least as heavy as its restriction to the
information set, so only restrictions lighter than the advertised distance need enumerating (and one less when every
generator row has even weight). -/

theorem info_instances_ok : ∀ c ∈ Generated.C03.infoInstances, infoOk c = true := by
  intro c hc
  simp only [Generated.C03.infoInstances, List.mem_append] at hc
  rcases hc with ((((h | h) | h) | h) | h) | h
  · exact info0_ok c h
  · exact info1_ok c h
  · exact info2_ok c h
  · exact info3_ok c h
  · exact info4_ok c h
  · exact info5_ok c h

/-- every information-set instance is a catalogue instance: same generator matrix, same advertised distance -/
theorem info_instances_in_catalogue : ∀ c ∈ Generated.C03.infoInstances, ∃ d ∈ Generated.C03.instances,
    d.name = c.name ∧ d.n = c.n ∧ d.k = c.k ∧ d.G = c.G ∧ d.advD = c.advD ∧ d.knownBad = false := by
  decide +kernel

/-- **true minimum distance ≥ advertised** for the large instances (k > 13): every non-zero codeword of the published
generator matrix has at least the advertised weight -/
theorem min_distance_large (c : InfoInst) (hc : c ∈ Generated.C03.infoInstances) :
    ∀ m, m ≠ 0 → m < 2 ^ c.k → c.advD ≤ weight c.n (encode c.G m) :=
  fun m h0 hm => DistInfo.info_bound c (info_instances_ok c hc) m h0 hm

/-! ## BCH codes: the BCH bound

For every BCH instance in polynomial coefficient order (`Generated.C03B.instances`, regenerated from `/repo` with the field
modulus the encoder uses) the kernel checks `bchOk`: the modulus is primitive, every generator row is a multiple of the
generator polynomial `g`, and `g(α^j) = 0` for `j = 1 … δ-1`.  `BCHBound.bch_min_distance` then gives `d ≥ δ` by the BCH bound
(`BCHAbs.bch_bound`: a Lagrange-interpolation argument over the field GF(2)[X]/(P), which `Proofs/FieldInst.lean` builds on the
model's own carry-less arithmetic) — no enumeration, any length. -/

/-- every BCH-bound instance is a catalogue instance: same generator matrix, advertised distance = the design distance used -/
theorem bch_instances_in_catalogue : ∀ c ∈ Generated.C03B.instances, ∃ d ∈ Generated.C03.instances,
    d.name = c.name ∧ d.n = c.n ∧ d.k = c.k ∧ d.G = c.G ∧ d.advD = c.delta ∧ d.gpoly = c.gpoly := by
  decide +kernel

/-- **true minimum distance ≥ design distance** for every BCH instance (μ ≤ 6 in the catalogue; the theorem behind it has no
size bound) -/
theorem min_distance_bch (c : BchInst) (hc : c ∈ Generated.C03B.instances) :
    ∀ m, m ≠ 0 → m < 2 ^ c.k → c.delta ≤ weight c.n (encode c.G m) :=
  fun m h0 hm => BCHBound.bch_min_distance c (bch_ok c hc) m h0 hm

/-! ## non-vacuity -/
example : ∃ c ∈ Generated.C03B.instances, c.n = 63 ∧ c.k > 30 ∧ c.delta ≥ 11 := by decide +kernel
example : ∃ c ∈ Generated.C03.infoInstances, c.k > 20 ∧ c.advD ≥ 3 := by decide +kernel
example : ∃ d ∈ Generated.C03.instances, d.exact = true ∧ d.advD = 7 ∧ d.perfect = true := by
  decide +kernel
example : ∃ d ∈ Generated.C03.instances, d.cyclic = true ∧ d.n = 15 := by decide +kernel

end C03
