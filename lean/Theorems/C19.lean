import Proofs.Conv
import Proofs.Diff
import Generated.C19
/-!
# C19 — DeepJSCC pipelines are differentiable end to end and keep their shape contract

Model: `Kaira/Conv.lean` (PyTorch's output-size arithmetic for Conv2d / ConvTranspose2d /
PixelShuffle, the three layer classes, encoder / decoder stacks, the filter-count formula);
`Proofs/Diff.lean` (real-valued stage models over Euclidean space, Mathlib calculus).
-/
open Kaira.Conv ConvProofs

namespace C19

/-! ## layer arithmetic -/

theorem layer_same (l : Layer) (h : Nat) (hh : 0 < h) (hc : classify l = some .same) : out l h = h := out_same l h hh hc
theorem layer_half (l : Layer) (h : Nat) (hh : 0 < h) (he : h % 2 = 0) (hc : classify l = some .half) : out l h = h / 2 :=
  out_half l h hh he hc
theorem layer_double (l : Layer) (h : Nat) (hh : 0 < h) (hc : classify l = some .double) : out l h = 2 * h := out_double l h hh hc

/-- an encoder stack of size-preserving and `a` halving layers maps every positive size divisible by
`2^a` to `h / 2^a` — any depth, any kernel sizes of the three classes -/
theorem encoder_stack (ls : List Layer) (a h : Nat) (hc : encClass ls = some a) (hh : 0 < h) (hd : 2 ^ a ∣ h) :
    chain ls h = h / 2 ^ a := chain_enc ls a h hc hh hd

theorem decoder_stack (ls : List Layer) (a h : Nat) (hc : decClass ls = some a) (hh : 0 < h) : chain ls h = h * 2 ^ a :=
  chain_dec ls a h hc hh

/-- **shape contract**: decoder(encoder(·)) returns the input's spatial size for every admissible
(divisible by `2^a`) image size -/
theorem shape_roundtrip (enc dec : List Layer) (a h : Nat) (he : encClass enc = some a) (hd : decClass dec = some a)
    (hh : 0 < h) (hdiv : 2 ^ a ∣ h) : chain dec (chain enc h) = h ∧ chain enc h = h / 2 ^ a :=
  roundtrip enc dec a h he hd hh hdiv

/-- `calculate_num_filters_factor_image` yields exactly the requested bandwidth ratio -/
theorem bandwidth_ratio (L bwNum bwDen channels : Nat) (cx : Bool) (f : Nat) (hf : numFilters L bwNum bwDen channels cx = some f)
    (hq wq : Nat) (hc : 0 < channels) (hhq : 0 < hq) (hwq : 0 < wq) :
    ((f * hq * wq : Nat) : ℚ) / (if cx then 2 else 1) / ((channels * (2 ^ L * hq) * (2 ^ L * wq) : Nat) : ℚ) = (bwNum : ℚ) / bwDen :=
  ConvProofs.bandwidth_ratio L bwNum bwDen channels cx f hf hq wq hc hhq hwq

/-! ## the extracted architectures (K) -/

/-- the plain-stack architectures: the module hyper-parameters extracted from `/repo` classify as an
encoder stack and a decoder stack with the same number of halvings / doublings -/
theorem seq_archs_ok : ∀ a ∈ Generated.C19.seqArchs, encClass a.2.1 = some a.2.2.2 ∧ decClass a.2.2.1 = some a.2.2.2 := by
  decide +kernel

/-- every Conv2d / ConvTranspose2d / PixelShuffle of every bundled architecture is size-preserving,
halving or doubling on even sizes -/
theorem all_layers_classified : ∀ a ∈ Generated.C19.allArchs, allClassified a.2 = true := by decide +kernel

/-- hence (R): those architectures return the input's spatial size for every admissible image size -/
theorem seq_arch_shape (a : String × List Layer × List Layer × Nat) (ha : a ∈ Generated.C19.seqArchs) (h : Nat) (hh : 0 < h)
    (hdiv : 2 ^ a.2.2.2 ∣ h) : chain a.2.2.1 (chain a.2.1 h) = h ∧ chain a.2.1 h = h / 2 ^ a.2.2.2 :=
  roundtrip a.2.1 a.2.2.1 a.2.2.2 h (seq_archs_ok a ha).1 (seq_archs_ok a ha).2 hh hdiv

/-! ## differentiability of the stage models -/

theorem total_power_differentiable {n : ℕ} (P ε : ℝ) (hP : 0 < P) (hε : 0 < ε) :
    Differentiable ℝ (fun x : EuclideanSpace ℝ (Fin n) => Real.sqrt (P / (‖x‖ ^ 2 + ε)) • x) :=
  DiffProofs.total_power_differentiable P ε hP hε

theorem average_power_differentiable {n : ℕ} (P ε : ℝ) (m : ℕ) (hm : 0 < m) (hP : 0 < P) (hε : 0 < ε) :
    Differentiable ℝ (fun x : EuclideanSpace ℝ (Fin n) => Real.sqrt (P / (‖x‖ ^ 2 / m + ε)) • x) :=
  DiffProofs.average_power_differentiable P ε m hm hP hε

theorem additive_fixed_noise_differentiable {n : ℕ} (z : EuclideanSpace ℝ (Fin n)) :
    Differentiable ℝ (fun x : EuclideanSpace ℝ (Fin n) => x + z) := DiffProofs.additive_fixed_noise_differentiable z

theorem fading_fixed_differentiable {n : ℕ} (h : ℝ) (z : EuclideanSpace ℝ (Fin n)) :
    Differentiable ℝ (fun x : EuclideanSpace ℝ (Fin n) => h • x + z) := DiffProofs.fading_fixed_differentiable h z

/-- **closed-form derivative of the total-power normalisation**: `Df(x)·v = s·v − (s/(‖x‖²+ε))·⟪x,v⟫·x`,
`s = sqrt(P/(‖x‖²+ε))` — the value autograd's Jacobian-vector products are compared with -/
theorem total_power_hasFDerivAt {n : ℕ} (P ε : ℝ) (hP : 0 < P) (hε : 0 < ε) (x : EuclideanSpace ℝ (Fin n)) :
    HasFDerivAt (fun x : EuclideanSpace ℝ (Fin n) => Real.sqrt (P / (‖x‖ ^ 2 + ε)) • x)
      (Real.sqrt (P / (‖x‖ ^ 2 + ε)) • ContinuousLinearMap.id ℝ _ +
        ((-(Real.sqrt (P / (‖x‖ ^ 2 + ε)) / (2 * (‖x‖ ^ 2 + ε)))) • (2 • innerSL ℝ x)).smulRight x) x :=
  DiffProofs.total_power_hasFDerivAt P ε hP hε x

theorem total_power_fderiv_apply {n : ℕ} (P ε : ℝ) (x v : EuclideanSpace ℝ (Fin n)) :
    (Real.sqrt (P / (‖x‖ ^ 2 + ε)) • ContinuousLinearMap.id ℝ (EuclideanSpace ℝ (Fin n)) +
        ((-(Real.sqrt (P / (‖x‖ ^ 2 + ε)) / (2 * (‖x‖ ^ 2 + ε)))) • (2 • innerSL ℝ x)).smulRight x :
          EuclideanSpace ℝ (Fin n) →L[ℝ] EuclideanSpace ℝ (Fin n)) v =
      Real.sqrt (P / (‖x‖ ^ 2 + ε)) • v - (Real.sqrt (P / (‖x‖ ^ 2 + ε)) / (‖x‖ ^ 2 + ε) * (inner ℝ x v)) • x :=
  DiffProofs.total_power_fderiv_apply P ε x v

/-- SNR-parameterised additive noise (fixed unit draw): differentiable at every non-zero input -/
theorem awgn_snr_differentiableAt {n : ℕ} (z x : EuclideanSpace ℝ (Fin n)) (m : ℕ) (hm : 0 < m) (snr : ℝ) (hs : 0 < snr) (hx : x ≠ 0) :
    DifferentiableAt ℝ (fun x : EuclideanSpace ℝ (Fin n) => x + Real.sqrt (‖x‖ ^ 2 / (m * snr)) • z) x :=
  DiffProofs.awgn_snr_differentiableAt z x m hm snr hs hx

/-! ## non-vacuity -/
example : chain [.tconv 5 1 2 0, .tconv 5 2 2 1, .tconv 5 2 2 1] (chain [.conv 5 2 2, .conv 5 2 2, .conv 5 1 2] 48) = 48 := by decide
example : Generated.C19.seqArchs.length ≥ 1 := by decide +kernel

end C19
