import Kaira.Codes
import Generated.C01P7
/-! C01/C04, K obligation, part 7 of the regenerated code catalogue (parts build in parallel). -/
open Kaira.Codes
namespace C01
set_option maxRecDepth 100000 in
theorem part7_ok : ∀ c ∈ Generated.C01P7.part, codeOk c = true := by decide +kernel
end C01
