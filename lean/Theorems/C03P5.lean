import Kaira.Dist
import Generated.C03P5
/-! C03, K obligation, part 5 of the regenerated catalogue (parts build in parallel). -/
open Kaira.Dist
namespace C03
set_option maxRecDepth 100000 in
theorem part5_ok : ∀ d ∈ Generated.C03P5.part, dinstOk d = true := by decide +kernel
end C03
