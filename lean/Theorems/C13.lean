import Kaira.Additive
import Mathlib.Tactic.FieldSimp
import Mathlib.Tactic.Ring
import Mathlib.Tactic.Linarith
import Mathlib.Algebra.Order.Field.Rat
/-!
# C13 — fading channels apply block-constant, correctly normalised gains: y = h·x + n

The fading draws are inputs of the model.  Proved: block structure for every sequence length and
coherence time (including non-divisors), verbatim use of supplied channel state and noise, and the
normalisation algebra of Rayleigh / Rician gains.
-/
open Kaira.Additive

namespace C13

/-- `h_exp[t] = h[t / T]` for every position, any length (also non-multiples of `T`) -/
theorem expand_block_constant (T : Nat) (h : List Nat) (L t : Nat) (ht : t < L) :
    (expandBlocks T h L)[t]? = some h[t / T]! := by
  unfold expandBlocks
  simp [ht]

/-- positions of the same coherence block share one coefficient -/
theorem same_block_same_gain (T : Nat) (h : List Nat) (L s t : Nat) (hs : s < L) (ht : t < L)
    (hb : s / T = t / T) : (expandBlocks T h L)[s]? = (expandBlocks T h L)[t]? := by
  rw [expand_block_constant T h L s hs, expand_block_constant T h L t ht, hb]

/-- the number of blocks is ⌈L/T⌉: every position's block index is below it -/
theorem block_index_lt (T L t : Nat) (hT : 0 < T) (ht : t < L) : t / T < numBlocks T L := by
  unfold numBlocks
  rw [Nat.div_lt_iff_lt_mul hT]
  have h1 : (L + T - 1) / T * T + (L + T - 1) % T = L + T - 1 := Nat.div_add_mod' _ _
  have h2 : (L + T - 1) % T < T := Nat.mod_lt _ hT
  omega

theorem expand_length (T : Nat) (h : List Nat) (L : Nat) : (expandBlocks T h L).length = L := by
  simp [expandBlocks]

/-- supplied channel state and noise are used verbatim: output is exactly h·x + n, element by element -/
theorem csi_noise_verbatim (h x n : List C) (i : Nat) (hh : i < h.length) (hx : i < x.length) (hn : i < n.length) :
    (fadeGiven h x n)[i]? = some (cadd (cmul h[i] x[i]) n[i]) := by
  unfold fadeGiven
  simp [List.getElem?_zipWith, hh, hx, hn]

/-- shape: one output per input symbol -/
theorem fade_length (h x n : List C) (h1 : h.length = x.length) (h2 : n.length = x.length) :
    (fadeGiven h x n).length = x.length := by simp [fadeGiven, h1, h2]

/-- Rayleigh: h = (z_r + i z_i)/√2, so |h|² = (z_r² + z_i²)/2: unit mean-square gain for unit-variance draws -/
theorem rayleigh_norm (s zr zi : ℚ) (hs : s * s = 1 / 2) :
    (s * zr) * (s * zr) + (s * zi) * (s * zi) = (zr * zr + zi * zi) / 2 := by
  have : (s * zr) * (s * zr) + (s * zi) * (s * zi) = (s * s) * (zr * zr + zi * zi) := by ring
  rw [this, hs]; ring

/-- Rician: line-of-sight power K/(K+1), scattered power 1/(K+1) (split evenly over the two
components): they sum to 1 and their ratio is K, for every K ≥ 0 -/
theorem rician_norm (K : ℚ) (hK : 0 ≤ K) :
    K / (K + 1) + 1 / (K + 1) = 1 ∧ (K / (K + 1)) / (1 / (K + 1)) = K ∧
    2 * ((1 / (K + 1)) / 2) = 1 / (K + 1) := by
  have h1 : K + 1 ≠ 0 := by linarith
  refine ⟨by field_simp, by field_simp, by ring⟩

/-- mean-square gain of a Rician coefficient h = a + σ(z_r + i z_i) with a² = K/(K+1), σ² = 1/(2(K+1)):
|h|² = a² + 2aσ z_r + σ²(z_r² + z_i²); for draws with sample mean 0 and sample power 1 per component
the average is a² + 2σ² = 1 -/
theorem rician_gain (a sg zr zi : ℚ) :
    (a + sg * zr) * (a + sg * zr) + (sg * zi) * (sg * zi) =
      a * a + 2 * a * sg * zr + sg * sg * (zr * zr + zi * zi) := by ring

/-- noise relative to the *faded* signal in SNR mode: the power that enters `snr_to_noise_power`
is that of h·x (statement about the model's composition; tied by the correspondence) -/
theorem faded_power (h x : List C) : List.zipWith cmul h x = (fadeGiven h x (List.replicate (min h.length x.length) (0, 0))) := by
  unfold fadeGiven
  induction h generalizing x with
  | nil => simp
  | cons a as ih =>
    cases x with
    | nil => simp
    | cons b bs =>
      simp only [List.zipWith_cons_cons, List.length_cons, Nat.add_min_add_right, List.replicate_succ]
      rw [← ih bs]
      simp [cadd]

/-! ## non-vacuity -/
example : expandBlocks 3 [7, 8, 9] 8 = [7, 7, 7, 8, 8, 8, 9, 9] ∧ numBlocks 3 8 = 3 := by decide

end C13
