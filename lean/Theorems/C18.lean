import Proofs.Field18
import Generated.C18
/-!
# C18 — binary polynomial and GF(2^m) arithmetic satisfy the ring and field laws

Property theorems only.  Objects: `Kaira.Poly2.*` and `Kaira.GF2m.*` are the executable models of
`BinaryPolynomial` / `FiniteBifieldElement` (tied to the code by the correspondence check);
`Generated.C18.moduli` is the table of moduli extracted from `/repo` on this run.
-/
open Kaira GF

namespace C18

/-! ## the polynomial ring (all naturals, no size bound) -/

theorem mul_comm (a b : Nat) : Poly2.mul a b = Poly2.mul b a := by
  rw [Bridge.mul_eq_clmul, Bridge.mul_eq_clmul]
  exact toPoly_injective (by rw [toPoly_clmul, toPoly_clmul, _root_.mul_comm])

theorem mul_assoc (a b c : Nat) : Poly2.mul (Poly2.mul a b) c = Poly2.mul a (Poly2.mul b c) := by
  simp only [Bridge.mul_eq_clmul]
  exact toPoly_injective (by simp only [toPoly_clmul]; ring)

theorem mul_xor (a b c : Nat) : Poly2.mul a (b ^^^ c) = Poly2.mul a b ^^^ Poly2.mul a c := by
  simp only [Bridge.mul_eq_clmul]
  exact toPoly_injective (by simp only [toPoly_clmul, toPoly_xor]; ring)

theorem mul_one (a : Nat) : Poly2.mul a 1 = a := by
  rw [Bridge.mul_eq_clmul]; exact clmul_one a

/-- the model multiplication *is* multiplication in `(ZMod 2)[X]`, xor is addition -/
theorem mul_is_polynomial_mul (a b : Nat) : toPoly (Poly2.mul a b) = toPoly a * toPoly b := by
  rw [Bridge.mul_eq_clmul, toPoly_clmul]

/-- remainder: shorter than the modulus and congruent to the dividend -/
theorem mod_spec (a m : Nat) (hm : 0 < m) :
    bitLen (Poly2.mod a m) < bitLen m ∧ toPoly m ∣ toPoly a + toPoly (Poly2.mod a m) := by
  rw [Bridge.mod_eq_pmod, bitLen_eq_size, bitLen_eq_size]
  have h := DM.pmod_spec a m hm
  refine ⟨h.1, ?_⟩
  have := dvd_of_mult m _ h.2
  rwa [toPoly_xor] at this

/-! ## field laws for *any* modulus of degree m ≥ 1 (elements are the naturals below 2^m) -/

section field
variable {P m : Nat} (hP : bitLen P = m + 1) (hm : 1 ≤ m)
include hP hm

private theorem good : Good P := Field18.good_of_check hm hP

theorem fmul_closed (a b : Nat) (ha : a < 2 ^ m) (hb : b < 2 ^ m) : GF2m.fmul P a b < 2 ^ m := by
  have := good hP hm
  let ae : Elt P := ⟨a, (Field18.short_iff hP).mpr ha⟩
  let be : Elt P := ⟨b, (Field18.short_iff hP).mpr hb⟩
  have e : GF2m.fmul P a b = (ae * be).val := Field18.fmul_model_eq ae be
  rw [e]; exact (Field18.short_iff hP).mp (ae * be).property

theorem fmul_comm' (a b : Nat) (ha : a < 2 ^ m) (hb : b < 2 ^ m) :
    GF2m.fmul P a b = GF2m.fmul P b a := by
  have := good hP hm
  let ae : Elt P := ⟨a, (Field18.short_iff hP).mpr ha⟩
  let be : Elt P := ⟨b, (Field18.short_iff hP).mpr hb⟩
  have e1 : GF2m.fmul P a b = (ae * be).val := Field18.fmul_model_eq ae be
  have e2 : GF2m.fmul P b a = (be * ae).val := Field18.fmul_model_eq be ae
  rw [e1, e2, val_mul, val_mul]
  exact GF.fmul_comm P a b

theorem fmul_assoc' (a b c : Nat) (ha : a < 2 ^ m) (hb : b < 2 ^ m) (hc : c < 2 ^ m) :
    GF2m.fmul P (GF2m.fmul P a b) c = GF2m.fmul P a (GF2m.fmul P b c) := by
  have := good hP hm
  let ae : Elt P := ⟨a, (Field18.short_iff hP).mpr ha⟩
  let be : Elt P := ⟨b, (Field18.short_iff hP).mpr hb⟩
  let ce : Elt P := ⟨c, (Field18.short_iff hP).mpr hc⟩
  have e1 : GF2m.fmul P a b = (ae * be).val := Field18.fmul_model_eq ae be
  have e2 : GF2m.fmul P b c = (be * ce).val := Field18.fmul_model_eq be ce
  rw [e1, e2]
  have e3 := Field18.fmul_model_eq (ae * be) ce
  have e4 := Field18.fmul_model_eq ae (be * ce)
  rw [e3, e4, _root_.mul_assoc]

theorem fmul_xor (a b c : Nat) (ha : a < 2 ^ m) (hb : b < 2 ^ m) (hc : c < 2 ^ m) :
    GF2m.fmul P (a ^^^ b) c = GF2m.fmul P a c ^^^ GF2m.fmul P b c := by
  have := good hP hm
  have hab : a ^^^ b < 2 ^ m := Nat.xor_lt_two_pow ha hb
  let ae : Elt P := ⟨a, (Field18.short_iff hP).mpr ha⟩
  let be : Elt P := ⟨b, (Field18.short_iff hP).mpr hb⟩
  let ce : Elt P := ⟨c, (Field18.short_iff hP).mpr hc⟩
  let abe : Elt P := ⟨a ^^^ b, (Field18.short_iff hP).mpr hab⟩
  have e1 : GF2m.fmul P (a ^^^ b) c = (abe * ce).val := Field18.fmul_model_eq abe ce
  have e2 : GF2m.fmul P a c = (ae * ce).val := Field18.fmul_model_eq ae ce
  have e3 : GF2m.fmul P b c = (be * ce).val := Field18.fmul_model_eq be ce
  rw [e1, e2, e3, val_mul, val_mul, val_mul]
  exact fmul_xor_left P a b c Good.pos

theorem fmul_one' (a : Nat) (ha : a < 2 ^ m) : GF2m.fmul P a 1 = a := by
  have := good hP hm
  let ae : Elt P := ⟨a, (Field18.short_iff hP).mpr ha⟩
  have e := Field18.fmul_model_eq ae 1
  change GF2m.fmul P a 1 = _ at e
  rw [e, _root_.mul_one]

theorem fpow_succ (a : Nat) (ha : a < 2 ^ m) (e : Nat) :
    GF2m.fpow P a (e + 1) = GF2m.fmul P (GF2m.fpow P a e) a := by
  have := good hP hm
  let ae : Elt P := ⟨a, (Field18.short_iff hP).mpr ha⟩
  have e1 : GF2m.fpow P a (e + 1) = (ae ^ (e + 1)).val := Field18.fpow_model_eq ae _
  have e2 : GF2m.fpow P a e = (ae ^ e).val := Field18.fpow_model_eq ae _
  rw [e1, e2, pow_succ]
  exact (Field18.fmul_model_eq (ae ^ e) ae).symm

end field

/-! ## the moduli the library ships (K obligations over the table extracted from /repo) -/

/-- the table covers exactly m = 1..16 -/
theorem moduli_complete : Generated.C18.moduli.map Prod.fst = List.range' 1 16 := by decide +kernel

/-- every shipped modulus has degree m and `x` has multiplicative order 2^m - 1 modulo it -/
theorem moduli_primitive :
    ∀ mp ∈ Generated.C18.moduli, Field18.primCheck mp.1 mp.2 = true := by decide +kernel

/-- **inverse**: for every shipped field and every non-zero element the Fermat power the
implementation computes is a multiplicative inverse -/
theorem field_inverse (m P : Nat) (h : (m, P) ∈ Generated.C18.moduli)
    (a : Nat) (ha0 : 0 < a) (ha : a < 2 ^ m) :
    ∃ b, GF2m.finv? P m a = some b ∧ b < 2 ^ m ∧ GF2m.fmul P a b = 1 := by
  have hm : m ∈ List.range' 1 16 := by
    rw [← moduli_complete]; exact List.mem_map.mpr ⟨(m, P), h, rfl⟩
  exact Field18.inverse_of_check hm (moduli_primitive (m, P) h) a ha0 ha

/-- consequently no zero divisors: the shipped structures are fields -/
theorem field_no_zero_divisors (m P : Nat) (h : (m, P) ∈ Generated.C18.moduli)
    (a b : Nat) (ha0 : 0 < a) (ha : a < 2 ^ m) (hb : b < 2 ^ m) (hab : GF2m.fmul P a b = 0) : b = 0 := by
  have hm : m ∈ List.range' 1 16 := by
    rw [← moduli_complete]; exact List.mem_map.mpr ⟨(m, P), h, rfl⟩
  have hm1 : 1 ≤ m := by simp only [List.mem_range'_1] at hm; omega
  have hP : bitLen P = m + 1 := by
    have := moduli_primitive (m, P) h
    unfold Field18.primCheck at this
    simp only [Bool.and_eq_true, beq_iff_eq] at this
    exact this.1
  obtain ⟨c, _, hc, hinv⟩ := field_inverse m P h a ha0 ha
  -- b = 1*b = (c*a)*b = c*(a*b) = c*0 = 0
  have h1 : GF2m.fmul P c a = 1 := by rw [fmul_comm' hP hm1 c a hc ha]; exact hinv
  have h2 := fmul_assoc' hP hm1 c a b hc ha hb
  rw [h1, hab] at h2
  have h3 : GF2m.fmul P 1 b = b := by
    rw [fmul_comm' hP hm1 1 b (Nat.one_lt_two_pow (by omega)) hb]; exact fmul_one' hP hm1 b hb
  rw [h3] at h2
  rw [h2]; simp [GF2m.fmul]

/-! ## non-vacuity -/
example : (4, 19) ∈ Generated.C18.moduli := by decide
example : GF2m.fmul 19 7 6 = 1 ∧ GF2m.finv? 19 4 7 = some 6 := by decide
example : Poly2.mod 100 11 = 6 ∧ bitLen 6 < bitLen 11 := by decide

end C18
