import Proofs.SC
import Proofs.Rank
import Proofs.EncI
import Proofs.ScI
import Kaira.Rank5G
import Generated.C11
import Mathlib.Tactic.Linarith
/-!
# C11 — polar encoding is the Arikan transform on the 5G information set and inverts
-/
open Kaira.Polar SC List

namespace C11

/-! ## the transform is multiplication by the Kronecker power -/

theorem xorL_replicate_false (l : List Bool) (n : Nat) (h : l.length = n) :
    xorL (List.replicate n false) l = l := by
  subst h
  induction l with
  | nil => simp [xorL]
  | cons a as ih => simp only [List.length_cons, List.replicate_succ, xorL, zipWith_cons_cons]; simp; exact ih

theorem length_vecMat (n : Nat) : ∀ (u : List Bool) (M : List (List Bool)), (∀ r ∈ M, r.length = n) →
    (vecMat n u M).length = n
  | [], _, _ => by simp [vecMat]
  | _ :: _, [], _ => by simp [vecMat]
  | b :: bs, r :: rs, h => by
    have hr := h r (by simp)
    have := length_vecMat n bs rs (fun r' hr' => h r' (by simp [hr']))
    simp only [vecMat, xorL, length_zipWith, this]
    split <;> simp [hr]

theorem kron_rows (m : Nat) : (kron m).length = 2 ^ m ∧ ∀ r ∈ kron m, r.length = 2 ^ m := by
  induction m with
  | zero => simp [kron]
  | succ m ih =>
    obtain ⟨h1, h2⟩ := ih
    refine ⟨by simp [kron, h1, pow_succ]; omega, ?_⟩
    intro r hr
    simp only [kron, mem_append, mem_map] at hr
    rcases hr with ⟨r', hr', rfl⟩ | ⟨r', hr', rfl⟩
    · simp [h2 r' hr', pow_succ]; omega
    · simp [h2 r' hr', pow_succ]; omega

theorem xorL_append {a b c d : List Bool} (h : a.length = c.length) :
    xorL (a ++ b) (c ++ d) = xorL a c ++ xorL b d := by
  unfold xorL; exact List.zipWith_append h

theorem xorL_assoc4 (a b c d : List Bool) :
    xorL (xorL a b) (xorL c d) = xorL (xorL a c) (xorL b d) := by
  unfold xorL
  induction a generalizing b c d with
  | nil => simp
  | cons x xs ih =>
    cases b <;> cases c <;> cases d <;> simp_all
    rename_i y _ z _ w _
    cases x <;> cases y <;> cases z <;> cases w <;> rfl

theorem replicate_xor_replicate (n : Nat) : xorL (List.replicate n false) (List.replicate n false) = List.replicate n false := by
  exact xorL_replicate_false _ n (by simp)

/-- with rows `r ++ zeros` the product splits: left part is `u·M`, right part is zero -/
theorem vecMat_left (n : Nat) : ∀ (u : List Bool) (M : List (List Bool)), (∀ r ∈ M, r.length = n) →
    vecMat (n + n) u (M.map fun r => r ++ List.replicate n false) = vecMat n u M ++ List.replicate n false
  | [], M, _ => by simp [vecMat, ← List.replicate_add]
  | _ :: _, [], _ => by simp [vecMat, ← List.replicate_add]
  | b :: bs, r :: rs, h => by
    have hr := h r (by simp)
    have ih := vecMat_left n bs rs (fun r' hr' => h r' (by simp [hr']))
    have hl := length_vecMat n bs rs (fun r' hr' => h r' (by simp [hr']))
    simp only [List.map_cons, vecMat, ih]
    cases b
    · simp only [Bool.false_eq_true, if_false]
      rw [show List.replicate (n + n) false = List.replicate n false ++ List.replicate n false from by rw [← List.replicate_add],
        xorL_append (by simp [hl]), replicate_xor_replicate]
    · simp only [if_true]
      rw [xorL_append (by simp [hr, hl]), replicate_xor_replicate]

/-- with rows `r ++ r` both parts are `u·M` -/
theorem vecMat_both (n : Nat) : ∀ (u : List Bool) (M : List (List Bool)), (∀ r ∈ M, r.length = n) →
    vecMat (n + n) u (M.map fun r => r ++ r) = vecMat n u M ++ vecMat n u M
  | [], M, _ => by simp [vecMat, ← List.replicate_add]
  | _ :: _, [], _ => by simp [vecMat, ← List.replicate_add]
  | b :: bs, r :: rs, h => by
    have hr := h r (by simp)
    have ih := vecMat_both n bs rs (fun r' hr' => h r' (by simp [hr']))
    have hl := length_vecMat n bs rs (fun r' hr' => h r' (by simp [hr']))
    simp only [List.map_cons, vecMat, ih]
    cases b
    · simp only [Bool.false_eq_true, if_false]
      rw [show List.replicate (n + n) false = List.replicate n false ++ List.replicate n false from by rw [← List.replicate_add],
        xorL_append (by simp [hl])]
    · simp only [if_true]
      rw [xorL_append (by simp [hr, hl])]

/-- a product over a concatenated matrix = xor of the two partial products -/
theorem vecMat_append (n : Nat) : ∀ (u1 u2 : List Bool) (M1 M2 : List (List Bool)), u1.length = M1.length →
    (∀ r ∈ M1, r.length = n) → (∀ r ∈ M2, r.length = n) →
    vecMat n (u1 ++ u2) (M1 ++ M2) = xorL (vecMat n u1 M1) (vecMat n u2 M2)
  | [], u2, [], M2, _, _, h2 => by
    simp only [List.nil_append, vecMat]
    rw [xorL_replicate_false _ n (length_vecMat n u2 M2 h2)]
  | [], _, _ :: _, _, h, _, _ => by simp at h
  | _ :: _, _, [], _, h, _, _ => by simp at h
  | b :: bs, u2, r :: rs, M2, h, h1, h2 => by
    have ih := vecMat_append n bs u2 rs M2 (by simpa using h) (fun r' hr' => h1 r' (by simp [hr'])) h2
    simp only [List.cons_append, vecMat, ih]
    unfold xorL
    have la := length_vecMat n bs rs (fun r' hr' => h1 r' (by simp [hr']))
    have lb := length_vecMat n u2 M2 h2
    have hr := h1 r (by simp)
    generalize (if b = true then r else List.replicate n false) = x
    generalize vecMat n bs rs = y
    generalize vecMat n u2 M2 = z
    induction x generalizing y z with
    | nil => simp
    | cons a as iha =>
      cases y <;> cases z <;> simp_all

/-- **the encoder's transform is multiplication over GF(2) by the m-fold Kronecker power of
[[1,0],[1,1]]** — every m, every input of length 2^m -/
theorem polar_transform_eq_kron : ∀ (m : Nat) (u : List Bool), u.length = 2 ^ m →
    enc m u = vecMat (2 ^ m) u (kron m)
  | 0, u, h => by
    match u, h with
    | [b], _ => cases b <;> simp [enc, vecMat, kron, xorL]
  | m+1, u, h => by
    have h2 : 2 ^ (m + 1) = 2 ^ m + 2 ^ m := by rw [pow_succ]; omega
    have ha : (u.take (2 ^ m)).length = 2 ^ m := by rw [length_take]; omega
    have hb : (u.drop (2 ^ m)).length = 2 ^ m := by rw [length_drop]; omega
    obtain ⟨hk1, hk2⟩ := kron_rows m
    have hsplit : u = u.take (2 ^ m) ++ u.drop (2 ^ m) := (List.take_append_drop _ _).symm
    rw [enc, polar_transform_eq_kron m _ ha, polar_transform_eq_kron m _ hb]
    conv_rhs => rw [hsplit, kron, h2]
    rw [vecMat_append (2 ^ m + 2 ^ m) _ _ _ _ (by simp [ha, hk1])
      (by intro r hr; obtain ⟨r', hr', rfl⟩ := List.mem_map.mp hr; simp [hk2 r' hr'])
      (by intro r hr; obtain ⟨r', hr', rfl⟩ := List.mem_map.mp hr; simp [hk2 r' hr']),
      vecMat_left (2 ^ m) _ _ hk2, vecMat_both (2 ^ m) _ _ hk2]
    have la := length_vecMat (2 ^ m) (u.take (2 ^ m)) (kron m) hk2
    have lb := length_vecMat (2 ^ m) (u.drop (2 ^ m)) (kron m) hk2
    rw [xorL_append (by rw [la, lb])]
    congr 1
    unfold xorL
    generalize vecMat (2 ^ m) (List.drop (2 ^ m) u) (kron m) = z at lb ⊢
    clear la hsplit
    induction z generalizing m with
    | nil => simp at lb; exact absurd lb (by positivity)
    | cons _ _ _ => 
      have : ∀ (l : List Bool) (n : Nat), l.length = n → List.zipWith xor (List.replicate n false) l = l := by
        intro l n hl; exact xorL_replicate_false l n hl
      exact (this _ _ lb).symm

/-- **the `polar_i` option is bit-reversal interleaving**: entry `p` of the interleaved transform is
entry `bitrev_m(p)` of `u·F^{⊗m}` — every m, every input of length 2^m -/
theorem interleaved_is_bitreversal (m : Nat) (u : List Bool) (h : u.length = 2 ^ m) (p : Nat) (hp : p < 2 ^ m) :
    (encI m u).getD p false = (vecMat (2 ^ m) u (kron m)).getD (Kaira.Dist.revBits m p) false := by
  rw [← polar_transform_eq_kron m u h]
  exact EncIProofs.encI_eq_bitrev m u h p hp

/-! ## successive cancellation -/

theorem clip_neg_iff (c v : ℚ) (hc : 0 < c) : clip c v < 0 ↔ v < 0 := by
  unfold clip; split_ifs <;> constructor <;> intro h <;> linarith

theorem clip_ne_zero (c v : ℚ) (hc : 0 < c) (hv : v ≠ 0) : clip c v ≠ 0 := by
  unfold clip; split_ifs <;> intro h <;> first | exact hv h | linarith

theorem rabs_pos (a : ℚ) (ha : a ≠ 0) : 0 < rabs a := by
  unfold rabs; split_ifs with h
  · linarith
  · exact lt_of_le_of_ne (not_lt.mp h) (Ne.symm ha)

/-- the min-sum check rule (with clipping) has the sign law -/
theorem minSum_signLaw (c : ℚ) (hc : 0 < c) : SignLaw (minSumF c) := by
  have key : ∀ a b : ℚ, a ≠ 0 → b ≠ 0 →
      (minSumF c a b ≠ 0 ∧ (minSumF c a b < 0 ↔ ((a < 0) ↔ ¬ (b < 0)))) := by
    intro a b ha hb
    have hmin : 0 < (if rabs a < rabs b then rabs a else rabs b) := by
      split_ifs
      · exact rabs_pos a ha
      · exact rabs_pos b hb
    unfold minSumF
    rw [clip_neg_iff c _ hc]
    generalize (if rabs a < rabs b then rabs a else rabs b) = mn at hmin
    refine ⟨clip_ne_zero c _ hc ?_, ?_⟩
    · unfold rsign
      rcases lt_or_gt_of_ne ha with ha' | ha' <;> rcases lt_or_gt_of_ne hb with hb' | hb' <;>
        simp only [ha', hb', not_lt.mpr (le_of_lt ha'), not_lt.mpr (le_of_lt hb'), if_true, if_false] <;>
        intro h <;> nlinarith
    · unfold rsign
      rcases lt_or_gt_of_ne ha with ha' | ha' <;> rcases lt_or_gt_of_ne hb with hb' | hb' <;>
        simp only [ha', hb', not_lt.mpr (le_of_lt ha'), not_lt.mpr (le_of_lt hb'), if_true, if_false] <;>
        constructor <;> intro h <;> first | nlinarith | simp_all | (exfalso; nlinarith)
  exact ⟨fun a b ha hb => (key a b ha hb).1, fun a b ha hb => (key a b ha hb).2⟩

/-- **clean input decodes clean**: for every m, every information mask, either frozen value and every
check rule with the sign law, SC decoding of LLRs that carry the signs of `enc m u` returns `u` -/
theorem sc_clean (f : ℚ → ℚ → ℚ) (hf : SignLaw f) (fz : Bool) (m : Nat) (u info : List Bool) (y : List ℚ)
    (hl : u.length = 2 ^ m) (hfz : Frozen fz u info) (hc : Consistent y (enc m u)) :
    sc f fz m y info = (u, enc m u) := SC.sc_clean f hf fz m u info y hl hfz hc

/-- reading the decisions at the information positions returns the message that was placed there -/
theorem extract_place (fz : Bool) : ∀ (info msg : List Bool), msg.length = (info.filter id).length →
    Kaira.Polar.extract info (place fz info msg) = msg
  | [], [], _ => by simp [Kaira.Polar.extract, place]
  | [], _ :: _, h => by simp at h
  | true :: info, b :: msg, h => by
    simp only [place, Kaira.Polar.extract]
    rw [extract_place fz info msg (by simpa using h)]
  | true :: info, [], h => by simp at h
  | false :: info, msg, h => by
    simp only [place, Kaira.Polar.extract]
    exact extract_place fz info msg (by simpa using h)

theorem place_frozen (fz : Bool) : ∀ (info msg : List Bool), Frozen fz (place fz info msg) info
  | [], _ => by simp [place]
  | true :: info, b :: msg => by
    simp only [place]; exact Forall₂.cons (fun h => by cases h) (place_frozen fz info msg)
  | true :: info, [] => by
    simp only [place]; exact Forall₂.cons (fun h => by cases h) (place_frozen fz info [])
  | false :: info, msg => by
    simp only [place]; exact Forall₂.cons (fun _ => rfl) (place_frozen fz info msg)

theorem length_place (fz : Bool) : ∀ (info msg : List Bool), (place fz info msg).length = info.length
  | [], _ => by simp [place]
  | true :: info, b :: msg => by simp [place, length_place fz info msg]
  | true :: info, [] => by simp [place, length_place fz info []]
  | false :: info, msg => by simp [place, length_place fz info msg]

/-- end to end (natural order, min-sum regime): SC decoding of any noise-free LLR vector of the
encoded message returns the message -/
theorem sc_decodes_clean (c : ℚ) (hc : 0 < c) (fz : Bool) (m : Nat) (info msg : List Bool) (y : List ℚ)
    (hi : info.length = 2 ^ m) (hm : msg.length = (info.filter id).length)
    (hy : Consistent y (polarEncode m false fz info msg)) :
    scDecode m false (minSumF c) fz info y = msg := by
  unfold scDecode polarEncode at *
  simp only [Bool.false_eq_true, if_false] at *
  rw [sc_clean (minSumF c) (minSum_signLaw c hc) fz m (place fz info msg) info y
    (by rw [length_place, hi]) (place_frozen fz info msg) hy]
  exact extract_place fz info msg hm

/-- the same for the interleaved (`polar_i`) variant: SC decoding of any noise-free LLR vector of the
interleaved encoding returns the message -/
theorem sc_decodes_clean_interleaved (c : ℚ) (hc : 0 < c) (fz : Bool) (m : Nat) (info msg : List Bool) (y : List ℚ)
    (hi : info.length = 2 ^ m) (hm : msg.length = (info.filter id).length)
    (hy : Consistent y (polarEncode m true fz info msg)) :
    scDecode m true (minSumF c) fz info y = msg := by
  unfold scDecode polarEncode at *
  simp only [if_true] at *
  rw [ScIProofs.scI_clean (minSumF c) (minSum_signLaw c hc) fz m (place fz info msg) info y
    (by rw [length_place, hi]) (place_frozen fz info msg) hy]
  exact extract_place fz info msg hm

/-! ## the sum-product regime

`kaira.models.fec.utils.sum_product` computes a transcendental inner value (2·atanh(tanh(x/2)·tanh(y/2)) for weak inputs, the
log1p form for strong ones) and then, for non-zero inputs, returns `sign(x)·sign(y)·max(|inner|, tiny)`; the SC check node clips
the result to ±c.  The inner value is not modelled (floating-point transcendental functions): it is an arbitrary function `h`
here, so the theorems below hold for whatever it returns — the sign of the rule, and with it clean decoding, rests on the final
re-imposition of the sign alone.  (The *values* of the rule are compared with the float64 definition by the check.) -/

def sumProductF (h : ℚ → ℚ → ℚ) (tiny c : ℚ) (x y : ℚ) : ℚ :=
  clip c (if x ≠ 0 ∧ y ≠ 0 then rsign x * rsign y * (if rabs (h x y) < tiny then tiny else rabs (h x y)) else h x y)

/-- the sum-product check rule as implemented has the sign law, for every inner formula `h` -/
theorem sumProduct_signLaw (h : ℚ → ℚ → ℚ) (tiny c : ℚ) (ht : 0 < tiny) (hc : 0 < c) : SignLaw (sumProductF h tiny c) := by
  have key : ∀ a b : ℚ, a ≠ 0 → b ≠ 0 →
      (sumProductF h tiny c a b ≠ 0 ∧ (sumProductF h tiny c a b < 0 ↔ ((a < 0) ↔ ¬ (b < 0)))) := by
    intro a b ha hb
    have hmin : 0 < (if rabs (h a b) < tiny then tiny else rabs (h a b)) := by
      split_ifs with hlt
      · exact ht
      · exact lt_of_lt_of_le ht (not_lt.mp hlt)
    unfold sumProductF
    rw [if_pos ⟨ha, hb⟩, clip_neg_iff c _ hc]
    generalize (if rabs (h a b) < tiny then tiny else rabs (h a b)) = mn at hmin
    refine ⟨clip_ne_zero c _ hc ?_, ?_⟩
    · unfold rsign
      rcases lt_or_gt_of_ne ha with ha' | ha' <;> rcases lt_or_gt_of_ne hb with hb' | hb' <;>
        simp only [ha', hb', not_lt.mpr (le_of_lt ha'), not_lt.mpr (le_of_lt hb'), if_true, if_false] <;>
        intro h' <;> nlinarith
    · unfold rsign
      rcases lt_or_gt_of_ne ha with ha' | ha' <;> rcases lt_or_gt_of_ne hb with hb' | hb' <;>
        simp only [ha', hb', not_lt.mpr (le_of_lt ha'), not_lt.mpr (le_of_lt hb'), if_true, if_false] <;>
        constructor <;> intro h' <;> first | nlinarith | simp_all | (exfalso; nlinarith)
  exact ⟨fun a b ha hb => (key a b ha hb).1, fun a b ha hb => (key a b ha hb).2⟩

/-- **sum-product regime, clean input decodes clean** (natural order and `polar_i`), every m, mask, frozen value, inner formula -/
theorem sc_decodes_clean_sum_product (h : ℚ → ℚ → ℚ) (tiny c : ℚ) (ht : 0 < tiny) (hc : 0 < c) (inter fz : Bool) (m : Nat)
    (info msg : List Bool) (y : List ℚ) (hi : info.length = 2 ^ m) (hm : msg.length = (info.filter id).length)
    (hy : Consistent y (polarEncode m inter fz info msg)) :
    scDecode m inter (sumProductF h tiny c) fz info y = msg := by
  cases inter with
  | false =>
    unfold scDecode polarEncode at *
    simp only [Bool.false_eq_true, if_false] at *
    rw [sc_clean _ (sumProduct_signLaw h tiny c ht hc) fz m (place fz info msg) info y
      (by rw [length_place, hi]) (place_frozen fz info msg) hy]
    exact extract_place fz info msg hm
  | true =>
    unfold scDecode polarEncode at *
    simp only [if_true] at *
    rw [ScIProofs.scI_clean _ (sumProduct_signLaw h tiny c ht hc) fz m (place fz info msg) info y
      (by rw [length_place, hi]) (place_frozen fz info msg) hy]
    exact extract_place fz info msg hm

/-! ## the 5G reliability ranking (K obligations on the extracted CSV, U theorem for the cardinality) -/

/-- the ranking extracted from `rank_polar.csv` **is** the 5G NR sequence (TS 38.212 Table 5.3.1.2-1,
held in `Kaira/Rank5G.lean`) -/
theorem rank_is_5G : Generated.C11.rank = rank5G := by decide +kernel

/-- the ranking has 1024 entries, all below 1024, and every value 0..1023 occurs (OR-mask of
`1 <<< r` is all ones) -/
theorem rank_is_permutation :
    Generated.C11.rank.length = 1024 ∧ Generated.C11.rank.all (· < 1024) = true ∧
    Generated.C11.rank.foldl (fun m r => m ||| (1 <<< r)) 0 = 2 ^ 1024 - 1 := by decide +kernel

theorem rank_perm : Generated.C11.rank.Perm (List.range 1024) :=
  Rank.perm_of_mask _ 1024 rank_is_permutation.1 rank_is_permutation.2.2

/-- **exactly k information positions for every code length N ≤ 1024 and every k ≤ N** (in
particular every admissible (k, N = 2^m)) -/
theorem info_set_card (N K : Nat) (hN : N ≤ 1024) (hK : K ≤ N) :
    ((infoMask Generated.C11.rank N K).filter id).length = K :=
  Rank.info_set_card _ 1024 N K rank_perm hN hK

/-- the information mask has length N -/
theorem info_mask_length (N K : Nat) : (infoMask Generated.C11.rank N K).length = N := by
  simp [infoMask]

/-! ## non-vacuity -/
example : enc 2 [true, false, true, true] = [true, true, false, true] := by decide

end C11
