import Proofs.Decoders
import Theorems.C03
/-!
# C02 — hard-decision decoders correct every error pattern within advertised capability

Proved here: the nearest-codeword argument (any code, any decoder), that the model of the brute-force
ML decoder returns a nearest codeword for every received word, and their combination with the
kernel-checked distances of C03 for the catalogue instances.  The syndrome-table decoder, the Hamming
single-error inverse and the Reed–Muller nearest-codeword inverse are tied to their models by the
correspondence; Berlekamp–Massey and the Reed majority decoder are exercised exhaustively on the
implementation by the check's oracle (a test, labelled as such) — see DESIGN.md.
-/
open Kaira.Codes Kaira.Dist Kaira.Decoders CodesProofs DecProofs

namespace C02

/-- triangle inequality for the Hamming weight of masks -/
theorem weight_triangle (n a b : Nat) : weight n (a ^^^ b) ≤ weight n a + weight n b := weight_xor_le n a b

/-- any decoder that returns a nearest codeword corrects every error pattern of weight ≤ t when
2t < d — for every generator matrix, every length -/
theorem nearest_decoder_corrects (G : List Nat) (n k d t : Nat) (dec : Nat → Nat)
    (hrange : ∀ x, dec x < 2 ^ k)
    (hnear : ∀ x m', m' < 2 ^ k → weight n (x ^^^ encode G (dec x)) ≤ weight n (x ^^^ encode G m'))
    (hd : ∀ m, m ≠ 0 → m < 2 ^ k → d ≤ weight n (encode G m))
    (ht : 2 * t < d) (m e : Nat) (hm : m < 2 ^ k) (he : weight n e ≤ t) :
    dec (encode G m ^^^ e) = m :=
  DecProofs.nearest_decoder_corrects G n k d t dec hrange hnear hd ht m e hm he

/-- the exhaustive ML decoder (first arg-min over the codebook in message order) returns, for every
received word whatsoever, a message whose codeword is at minimum Hamming distance -/
theorem ml_is_nearest (G : List Nat) (n k x : Nat) :
    mlDecode G n k x < 2 ^ k ∧
    ∀ m', m' < 2 ^ k → weight n (x ^^^ encode G (mlDecode G n k x)) ≤ weight n (x ^^^ encode G m') :=
  DecProofs.ml_is_nearest G n k x

/-- catalogue instances (distance decided in C03): ML decoding returns the transmitted message for
every message and every error pattern of weight ≤ t = ⌊(d-1)/2⌋, d the advertised distance -/
theorem ml_corrects (d : DistInst) (hd : d ∈ Generated.C03.instances) (hk : d.knownBad = false)
    (hdec : d.decided = true) (hadv : d.advD ≠ 0) (m e : Nat) (hm : m < 2 ^ d.k)
    (he : weight d.n e ≤ (d.advD - 1) / 2) :
    mlDecode d.G d.n d.k (encode d.G m ^^^ e) = m := by
  have hmin := (C03.min_distance d hd hk hdec hadv).1
  exact DecProofs.nearest_decoder_corrects d.G d.n d.k d.advD ((d.advD - 1) / 2) (mlDecode d.G d.n d.k)
    (fun x => (DecProofs.ml_is_nearest d.G d.n d.k x).1)
    (fun x m' hm' => (DecProofs.ml_is_nearest d.G d.n d.k x).2 m' hm')
    hmin (by omega) m e hm he

/-! ## non-vacuity -/
example : mlDecode [0b0001111, 0b0110011, 0b1010101] 7 3 0b0001110 = 0b001 := by decide +kernel

end C02
