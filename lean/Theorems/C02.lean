import Proofs.Decoders
import Proofs.Syndrome
import Proofs.Hamming
import Theorems.C03
import Theorems.C01
import Proofs.BM
import Proofs.Reed
import Theorems.C02R
/-!
# C02 — hard-decision decoders correct every error pattern within advertised capability

Proved here: the nearest-codeword argument (any code, any decoder), that the model of the brute-force
ML decoder returns a nearest codeword for every received word, and their combination with the
kernel-checked distances of C03 for the catalogue instances.  The syndrome-table decoder, the Hamming
single-error inverse and the Reed–Muller nearest-codeword inverse are tied to their models by the
correspondence; Berlekamp–Massey and the Reed majority decoder are exercised exhaustively on the
implementation by the check's oracle (a test, labelled as such) — see DESIGN.md.
-/
open Kaira.Codes Kaira.Dist Kaira.Decoders CodesProofs DecProofs

namespace C02

/-- triangle inequality for the Hamming weight of masks -/
theorem weight_triangle (n a b : Nat) : weight n (a ^^^ b) ≤ weight n a + weight n b := weight_xor_le n a b

/-- any decoder that returns a nearest codeword corrects every error pattern of weight ≤ t when
2t < d — for every generator matrix, every length -/
theorem nearest_decoder_corrects (G : List Nat) (n k d t : Nat) (dec : Nat → Nat)
    (hrange : ∀ x, dec x < 2 ^ k)
    (hnear : ∀ x m', m' < 2 ^ k → weight n (x ^^^ encode G (dec x)) ≤ weight n (x ^^^ encode G m'))
    (hd : ∀ m, m ≠ 0 → m < 2 ^ k → d ≤ weight n (encode G m))
    (ht : 2 * t < d) (m e : Nat) (hm : m < 2 ^ k) (he : weight n e ≤ t) :
    dec (encode G m ^^^ e) = m :=
  DecProofs.nearest_decoder_corrects G n k d t dec hrange hnear hd ht m e hm he

/-- the exhaustive ML decoder (first arg-min over the codebook in message order) returns, for every
received word whatsoever, a message whose codeword is at minimum Hamming distance -/
theorem ml_is_nearest (G : List Nat) (n k x : Nat) :
    mlDecode G n k x < 2 ^ k ∧
    ∀ m', m' < 2 ^ k → weight n (x ^^^ encode G (mlDecode G n k x)) ≤ weight n (x ^^^ encode G m') :=
  DecProofs.ml_is_nearest G n k x

/-- catalogue instances (distance decided in C03): ML decoding returns the transmitted message for
every message and every error pattern of weight ≤ t = ⌊(d-1)/2⌋, d the advertised distance -/
theorem ml_corrects (d : DistInst) (hd : d ∈ Generated.C03.instances) (hk : d.knownBad = false)
    (hdec : d.decided = true) (hadv : d.advD ≠ 0) (m e : Nat) (hm : m < 2 ^ d.k)
    (he : weight d.n e ≤ (d.advD - 1) / 2) :
    mlDecode d.G d.n d.k (encode d.G m ^^^ e) = m := by
  have hmin := (C03.min_distance d hd hk hdec hadv)
  exact DecProofs.nearest_decoder_corrects d.G d.n d.k d.advD ((d.advD - 1) / 2) (mlDecode d.G d.n d.k)
    (fun x => (DecProofs.ml_is_nearest d.G d.n d.k x).1)
    (fun x m' hm' => (DecProofs.ml_is_nearest d.G d.n d.k x).2 m' hm')
    hmin (by omega) m e hm he

/-- the same for the catalogue instances whose distance is decided by an information-set certificate
(k > 13, or wherever that certificate is cheaper than enumerating the code) -/
theorem ml_corrects_large (c : InfoInst) (hc : c ∈ Generated.C03.infoInstances) (hadv : c.advD ≠ 0) (m e : Nat)
    (hm : m < 2 ^ c.k) (he : weight c.n e ≤ (c.advD - 1) / 2) :
    mlDecode c.G c.n c.k (encode c.G m ^^^ e) = m :=
  DecProofs.nearest_decoder_corrects c.G c.n c.k c.advD ((c.advD - 1) / 2) (mlDecode c.G c.n c.k)
    (fun x => (DecProofs.ml_is_nearest c.G c.n c.k x).1)
    (fun x m' hm' => (DecProofs.ml_is_nearest c.G c.n c.k x).2 m' hm')
    (C03.min_distance_large c hc) (by omega) m e hm he

/-- **the syndrome-table decoder** (first error pattern, by increasing weight, whose syndrome equals the
received one; then the encoder's extraction) **returns the message for every error pattern of weight
≤ t when 2t < d** — any parity-check matrix whose null space is the code, any n and k.  The pattern
search is proved sound (what it returns has the requested syndrome) and complete (it cannot miss a
pattern of the weight it is exploring). -/
theorem syndrome_decoder_corrects (G HT R : List Nat) (n k d t : Nat)
    (hsyn : ∀ m, encode HT (encode G m) = 0)
    (hnull : ∀ x, x < 2 ^ n → encode HT x = 0 → ∃ m, m < 2 ^ k ∧ x = encode G m)
    (hround : ∀ m, m < 2 ^ k → invEncode R (encode G m) = m)
    (hd : ∀ m, m ≠ 0 → m < 2 ^ k → d ≤ weight n (encode G m))
    (ht : 2 * t < d) (m e : Nat) (hm : m < 2 ^ k) (he : e < 2 ^ n) (hw : weight n e ≤ t) :
    synDecode HT R n (encode G m ^^^ e) = m :=
  SynProofs.syn_corrects G HT R n k d t hsyn hnull hround hd ht m e hm he hw

/-- the table entry for any syndrome that occurs has that syndrome and minimum weight in its coset -/
theorem syndrome_table_entry (HT : List Nat) (n e : Nat) (he : e < 2 ^ n) :
    encode HT (tableLookup HT n (encode HT e)) = encode HT e ∧ tableLookup HT n (encode HT e) < 2 ^ n ∧
      weight n (tableLookup HT n (encode HT e)) ≤ weight n e := SynProofs.tableLookup_spec HT n e he

/-- catalogue instances (C01 certificates give the null-space and round-trip facts) -/
theorem syndrome_decoder_instances (c : CodeInst) (hc : c ∈ Generated.C01.instances) (d t : Nat)
    (hd : ∀ m, m ≠ 0 → m < 2 ^ c.k → d ≤ weight c.n (encode c.G m)) (ht : 2 * t < d)
    (m e : Nat) (hm : m < 2 ^ c.k) (he : e < 2 ^ c.n) (hw : weight c.n e ≤ t) :
    synDecode c.HT c.R c.n (encode c.G m ^^^ e) = m := by
  have f := facts_of_ok c (C01.instances_ok c hc)
  exact SynProofs.syn_corrects c.G c.HT c.R c.n c.k d t f.synd_zero f.null_space f.roundtrip hd ht m e hm he hw

/-- **Hamming extraction corrects every single error**: whenever the columns of `H` are non-zero
and pairwise distinct, code words have zero syndrome and message bit `i` sits at position `info[i]`,
`inverse_encode` returns the message from the code word and from the code word with any one
position flipped — any length (every μ), any information set -/
theorem hamming_inverse_corrects (G HT info : List Nat) (k : Nat)
    (hsyn : ∀ m, encode HT (encode G m) = 0)
    (hcols : ∀ (i j a b : Nat), HT[i]? = some a → HT[j]? = some b → i ≠ j → a ≠ b)
    (hnz : ∀ x ∈ HT, x ≠ 0)
    (hlen : info.length = k)
    (hinfo : ∀ (m i p : Nat), i < k → info[i]? = some p → (encode G m).testBit p = m.testBit i)
    (m : Nat) (hm : m < 2 ^ k) :
    hammingInverse HT info (encode G m) = m ∧
    ∀ j, j < HT.length → hammingInverse HT info (encode G m ^^^ (1 <<< j)) = m :=
  HamProofs.hamming_inverse_corrects G HT info k hsyn hcols hnz hlen hinfo m hm

/-! ## Berlekamp–Massey (model `Kaira/BM.lean` of `BerlekampMasseyDecoder` and `calculate_syndrome_polynomial`)

The decoder's correction is a function of the syndromes alone, the syndromes are additive, and the syndromes of every code
word of a certified BCH instance (`bchOk`, C03) vanish — so decoding `(code word ⊕ e)` is decoding `e` on the zero code word,
for every instance, every message, every `e` (`bm_reduction`).  Where the kernel can also evaluate the decoder on every
pattern of weight ≤ t (`lightOk`, small instances), this is full correctness within capability (`bm_corrects_small`). -/

theorem bm_reduction (c : BchInst) (hc : c ∈ Generated.C03B.instances) (t : Nat) (ht : 2 * t < c.delta) (msg e : Nat) :
    Kaira.BM.correct c.P c.m t c.n (encode c.G msg ^^^ e) = encode c.G msg ^^^ Kaira.BM.correct c.P c.m t c.n e :=
  BMProofs.bm_reduction c t (C03.bch_ok c hc) ht msg e

/-- **certified output** (every certified BCH instance, any `t` with `2t < δ`): a word with all-zero syndromes within distance `t`
of the received word `code word ⊕ e` (weight `e ≤ t`) IS the transmitted code word, whatever produced it.  The check evaluates
the two conditions on every corrected word the implementation returns (`bmcert` lines). -/
theorem bm_output_certified (c : BchInst) (hc : c ∈ Generated.C03B.instances) (t : Nat) (ht : 2 * t < c.delta) (msg e out : Nat)
    (he : e < 2 ^ c.n) (hw : weight c.n e ≤ t) (hout : out < 2 ^ c.n)
    (hz : ∀ i ∈ List.range' 1 (2 * t), Kaira.BM.syndAt c.P c.n out i = 0)
    (hd : weight c.n (out ^^^ (encode c.G msg ^^^ e)) ≤ t) : out = encode c.G msg :=
  BMProofs.bm_output_certified c (C03.bch_ok c hc) t ht msg e out he hw hout hz hd

/-- **single-error-correcting regime (t = 1), every certified BCH instance with δ ≥ 3 — every length, message, pattern of weight ≤ 1**:
the tabular recursion returns `1 + S₁x` (symbolic evaluation of the model), the root search finds exactly the error position
(order of `α`), code words are left untouched -/
theorem bm_corrects_t1 (c : BchInst) (hc : c ∈ Generated.C03B.instances) (hd : 2 < c.delta) (msg e : Nat) (hm : msg < 2 ^ c.k)
    (he : e < 2 ^ c.n) (hw : weight c.n e ≤ 1) :
    invEncode c.R (Kaira.BM.correct c.P c.m 1 c.n (encode c.G msg ^^^ e)) = msg := by
  rw [BMProofs.bm_corrects_t1 c (C03.bch_ok c hc) hd msg e he hw]
  have f := BCHBound.facts_of_ok c (C03.bch_ok c hc)
  exact roundtrip c.G c.R f.hunit msg (by rwa [f.hGl])

/-- **double-error-correcting regime (t = 2), every certified BCH instance with δ ≥ 5 — every length, message, pattern of weight ≤ 2**:
the recursion is evaluated symbolically on syndromes with S₂ = S₁² (σ = 1 + S₁x + ((S₃ + S₁³)/S₁)x², or 1 + S₁x when S₃ = S₁³), the
characteristic-2 identities a³ + b³ + (a+b)³ = ab(a+b) and (a+b)^(2^m-1) = 1 turn the last coefficient into ab, the locator factors as
(1 + ax)(1 + bx), and the root search returns exactly the two error positions -/
theorem bm_corrects_t2 (c : BchInst) (hc : c ∈ Generated.C03B.instances) (hd : 4 < c.delta) (msg e : Nat) (hm : msg < 2 ^ c.k)
    (he : e < 2 ^ c.n) (hw : weight c.n e ≤ 2) :
    invEncode c.R (Kaira.BM.correct c.P c.m 2 c.n (encode c.G msg ^^^ e)) = msg := by
  rw [BMProofs.bm_corrects_t2 c (C03.bch_ok c hc) hd msg e he hw]
  have f := BCHBound.facts_of_ok c (C03.bch_ok c hc)
  exact roundtrip c.G c.R f.hunit msg (by rwa [f.hGl])

/-- the root search is exact for ANY error set: a coefficient list that evaluates like `∏_{l ∈ E} (1 + α^l x)` makes it return exactly
the positions in `E` (so for t ≥ 3 what remains unproved is only that the tabular recursion produces that polynomial) -/
theorem bm_root_search_exact (c : BchInst) (hc : c ∈ Generated.C03B.instances) (E : Finset Nat) (hE : ∀ l ∈ E, l < c.n) (sig : List Nat) :
    haveI := (BCHBound.facts_of_ok c (C03.bch_ok c hc)).good
    (∀ x : GF.Elt c.P, Kaira.BM.evalList c.P sig x.val =
        (∏ l ∈ E, (1 + BCHBound.alpha (BCHBound.facts_of_ok c (C03.bch_ok c hc)) ^ l * x)).val) →
      Kaira.BM.locate c.P c.n sig = (List.range c.n).filter (fun j => decide (j ∈ E)) := by
  haveI := (BCHBound.facts_of_ok c (C03.bch_ok c hc)).good
  exact BMProofs.locate_exact (BCHBound.facts_of_ok c (C03.bch_ok c hc)) E hE sig

/-- the even-indexed syndromes of a binary word are the squares of the lower ones (`S_{2i} = S_i²`, Frobenius), for every received word -/
theorem bm_syndromes_conjugate (c : BchInst) (hc : c ∈ Generated.C03B.instances) (r i : Nat) :
    Kaira.BM.syndAt c.P c.n r (2 * i) = Kaira.GF2m.fmul c.P (Kaira.BM.syndAt c.P c.n r i) (Kaira.BM.syndAt c.P c.n r i) :=
  BMProofs.syndAt_double (BCHBound.facts_of_ok c (C03.bch_ok c hc)) r i

/-- code words are left untouched for every `t` within the design distance -/
theorem bm_no_error (c : BchInst) (hc : c ∈ Generated.C03B.instances) (t : Nat) (ht : 2 * t < c.delta) (msg : Nat) :
    Kaira.BM.correct c.P c.m t c.n (encode c.G msg) = encode c.G msg :=
  BMProofs.bm_no_error c (C03.bch_ok c hc) t ht msg

/-- instances small enough for the kernel to run the decoder on every light pattern -/
def bmSmall (c : BchInst) : Bool := decide (c.n ≤ 15) && decide ((c.delta - 1) / 2 ≤ 1) && decide (1 ≤ c.delta)

set_option maxRecDepth 100000 in
theorem bm_light_small : ∀ c ∈ Generated.C03B.instances, bmSmall c = true → BMProofs.lightOk c ((c.delta - 1) / 2) = true := by
  decide +kernel

/-- **Berlekamp–Massey returns the transmitted message for every message and every error pattern of weight ≤ t** on the
small instances (for the others: `bm_reduction` + the compiled model run on every light pattern by the check) -/
theorem bm_corrects_small (c : BchInst) (hc : c ∈ Generated.C03B.instances) (hs : bmSmall c = true)
    (msg e : Nat) (hm : msg < 2 ^ c.k) (he : e < 2 ^ c.n) (hw : weight c.n e ≤ (c.delta - 1) / 2) :
    invEncode c.R (Kaira.BM.correct c.P c.m ((c.delta - 1) / 2) c.n (encode c.G msg ^^^ e)) = msg :=
  BMProofs.bm_decodes c ((c.delta - 1) / 2) (C03.bch_ok c hc)
    (by unfold bmSmall at hs; simp only [Bool.and_eq_true, decide_eq_true_eq] at hs; omega) (bm_light_small c hc hs) msg e hm he hw

/-! ## Reed's majority-logic decoder (model `Kaira/Reed.lean` of `ReedMullerDecoder`, hard input)

`Generated.C02R.instances`: generator rows and the check groups `get_reed_partitions()` publishes, regenerated from `/repo`.
`ReedProofs.reed_corrects` is the unbounded theorem (any rows, any groups passing the certificate: each group sees its own row
with odd parity and every row still to be peeled with even parity, groups disjoint, more than 2t of them); the kernel
evaluates the certificate on every Reed–Muller instance of the catalogue. -/

/-- **the Reed decoder returns the message for every message and every error pattern of weight ≤ t** on every catalogue
Reed–Muller code -/
theorem reed_decoder_corrects (c : Kaira.Reed.ReedInst) (hc : c ∈ Generated.C02R.instances) (u e : Nat) (hu : u < 2 ^ c.k)
    (hw : weight c.n e ≤ c.t) : Kaira.Reed.reedDecode c.n c.G c.parts (encode c.G u ^^^ e) = u :=
  ReedProofs.reed_corrects c (reed_ok c hc) u e hu hw

/-- the Reed instances are catalogue instances with `t = ⌊(d-1)/2⌋` of the advertised distance -/
theorem reed_instances_in_catalogue : ∀ c ∈ Generated.C02R.instances, ∃ d ∈ Generated.C03.instances,
    d.name = c.name ∧ d.n = c.n ∧ d.k = c.k ∧ d.G = c.G ∧ c.t = (d.advD - 1) / 2 := by
  decide +kernel

/-! ## non-vacuity -/
example : ∃ c ∈ Generated.C02R.instances, c.n = 32 ∧ c.t = 3 := by decide +kernel
example : ∃ c ∈ Generated.C03B.instances, 4 < c.delta ∧ c.n = 63 := by decide +kernel
example : ∃ c ∈ Generated.C03B.instances, bmSmall c = true ∧ c.n = 15 ∧ c.delta = 3 := by decide +kernel
example : hammingInverse [0b011, 0b101, 0b110, 0b111, 0b001, 0b010, 0b100] [0, 1, 2, 3]
    (encode [0b0110001, 0b1010010, 0b1100100, 0b1111000] 0b1011 ^^^ (1 <<< 5)) = 0b1011 := by decide +kernel
example : mlDecode [0b0001111, 0b0110011, 0b1010101] 7 3 0b0001110 = 0b001 := by decide +kernel

end C02
