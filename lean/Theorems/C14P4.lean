import Kaira.Modem
import Generated.C14P4
/-! C14, K obligation, part 4 of the regenerated catalogue (split so that the parts build in parallel). -/
open Kaira.Modem
namespace C14
set_option maxRecDepth 100000 in
theorem part4_ok : ∀ i ∈ Generated.C14P4.part, instOk i = true := by decide +kernel
end C14
