import Kaira.Modem
import Generated.C14P2
/-! C14, K obligation, part 2 of the regenerated catalogue (split so that the parts build in parallel). -/
open Kaira.Modem
namespace C14
set_option maxRecDepth 100000 in
theorem part2_ok : ∀ i ∈ Generated.C14P2.part, instOk i = true := by decide +kernel
end C14
