import Kaira.Dist
import Generated.C03I3
/-! C03, K obligation: information-set distance certificates, part 3 (parts build in parallel). -/
open Kaira.Dist
namespace C03
set_option maxRecDepth 100000 in
theorem info3_ok : ∀ c ∈ Generated.C03I3.part, infoOk c = true := by decide +kernel
end C03
