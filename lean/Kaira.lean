import Kaira.Poly2
import Kaira.GF2m
import Kaira.Proto
