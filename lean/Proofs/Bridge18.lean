import Proofs.GF
import Kaira.GF2m
/-!
Bridge between the executable model (`Kaira.Poly2`, `Kaira.GF2m`: fuelled loops over core `Nat`
operations, exactly the Python control flow) and the algebraic definitions of `Proofs/GF.lean`
(`clmul` by binary recursion, `pmod` over `Nat.size`).
-/
open Kaira

theorem bitLen_eq_size (n : Nat) : bitLen n = Nat.size n := by
  unfold bitLen
  split
  · next h => subst h; simp
  · next h =>
    have hpos : 0 < n := Nat.pos_of_ne_zero h
    apply le_antisymm
    · have : 2 ^ (Nat.log2 n) ≤ n := Nat.log2_self_le h
      have := Nat.lt_size.mpr this
      omega
    · apply Nat.size_le.mpr
      exact Nat.lt_log2_self

namespace Bridge
open GF

theorem bitLen_zero_iff (n : Nat) : bitLen n = 0 ↔ n = 0 := by
  rw [bitLen_eq_size]; exact Nat.size_eq_zero

theorem bitLen_half_le (b f : Nat) (h : bitLen b ≤ f + 1) : bitLen (b >>> 1) ≤ f := by
  rw [bitLen_eq_size] at *
  rw [Nat.size_le] at *
  rw [Nat.shiftRight_eq_div_pow]
  have : 2 ^ (f + 1) = 2 ^ f * 2 := by ring
  omega

theorem bit_decomp' (b : Nat) : b = Nat.bit (decide (b % 2 = 1)) (b >>> 1) := by
  rw [Nat.bit_val, Nat.shiftRight_eq_div_pow]
  by_cases h : b % 2 = 1 <;> simp [h] <;> omega

theorem clmul_shift1 (a n : Nat) : clmul (a <<< 1) n = (clmul a n) <<< 1 :=
  toPoly_injective (by rw [toPoly_clmul, toPoly_shift1, toPoly_shift1, toPoly_clmul]; ring)

theorem clmul_zero_right (a : Nat) : clmul a 0 = 0 := by simp [clmul]

theorem mulLoop_eq (f : Nat) : ∀ a b res, bitLen b ≤ f →
    Poly2.mulLoop f a b res = res ^^^ clmul a b := by
  induction f with
  | zero =>
    intro a b res h
    have : b = 0 := (bitLen_zero_iff b).mp (by omega)
    subst this; simp [Poly2.mulLoop, clmul_zero_right]
  | succ f ih =>
    intro a b res h
    simp only [Poly2.mulLoop]
    split
    · next hb => subst hb; simp [clmul_zero_right]
    · next hb =>
      rw [ih _ _ _ (bitLen_half_le b f h)]
      conv_rhs => rw [bit_decomp' b, clmul_bit]
      rw [clmul_shift1]
      by_cases h1 : b % 2 = 1 <;> simp [h1, Nat.xor_assoc]

theorem mul_eq_clmul (a b : Nat) : Poly2.mul a b = clmul a b := by
  unfold Poly2.mul
  split
  · next h =>
    rcases h with h | h
    · subst h; exact (clmul_zero_left b).symm
    · subst h; exact (clmul_zero_right a).symm
  · rw [mulLoop_eq _ _ _ _ (le_refl _)]; simp

theorem modLoop_eq (f r m : Nat) : Poly2.modLoop f r m = DM.pmodAux f r m := by
  induction f generalizing r with
  | zero => rfl
  | succ f ih => simp only [Poly2.modLoop, DM.pmodAux, bitLen_eq_size, ih]

theorem mod_eq_pmod (a m : Nat) : Poly2.mod a m = DM.pmod a m := by
  unfold Poly2.mod DM.pmod; rw [modLoop_eq, bitLen_eq_size]

end Bridge
