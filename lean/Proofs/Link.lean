import Kaira.Link
import Proofs.Blocks
import Proofs.Nearest
import Proofs.Roundtrip
import Proofs.Modem
import Proofs.Decoders
import Mathlib.Tactic.Linarith
import Mathlib.Tactic.Ring
/-!
# C09 proofs: the coded, modulated link returns the message
-/
namespace LinkProofs
open Kaira.Codes Kaira.Modem Kaira.Link List BlocksProofs NearestProofs RoundtripProofs ModemProofs

/-- two vectors with `4|a|² < lo ≤ |b|²` cannot satisfy `|a − b|² ≤ |a|²` (Cauchy–Schwarz) -/
theorem half_dist_core (a1 a2 b1 b2 lo : Int)
    (hD : lo ≤ b1 * b1 + b2 * b2) (hA : 4 * (a1 * a1 + a2 * a2) < lo)
    (hle : (a1 - b1) * (a1 - b1) + (a2 - b2) * (a2 - b2) ≤ a1 * a1 + a2 * a2) : False := by
  set A := a1 * a1 + a2 * a2 with hAdef
  set D := b1 * b1 + b2 * b2 with hDdef
  set s := a1 * b1 + a2 * b2 with hsdef
  have hA0 : 0 ≤ A := by have := mul_self_nonneg a1; have := mul_self_nonneg a2; linarith
  have hDpos : 0 < D := by linarith
  have h1 : D ≤ 2 * s := by
    have : (a1 - b1) * (a1 - b1) + (a2 - b2) * (a2 - b2) = A + D - 2 * s := by ring
    linarith
  have hcs : s * s ≤ A * D := by
    have : A * D - s * s = (a1 * b2 - a2 * b1) * (a1 * b2 - a2 * b1) := by ring
    nlinarith [mul_self_nonneg (a1 * b2 - a2 * b1)]
  have hs : 0 < s := by linarith
  have h2 : D * D ≤ 4 * (s * s) := by nlinarith
  have h3 : D * D ≤ 4 * A * D := by nlinarith
  have h4 : D ≤ 4 * A := by
    by_contra h
    have : 4 * A < D := not_le.mp h
    nlinarith
  linarith

theorem dist2_symm (p q : Pt) : dist2 p q.re q.im = dist2 q p.re p.im := by unfold dist2; ring

/-- **a received point closer than half the minimum distance to constellation point `i` is decided
as `i`** (squared form: `4·d² < lo ≤ d_min²`) -/
theorem nearest_within_half (t : Table) (i : Nat) (p : Pt) (hi : t.pts[i]? = some p) (lo : Int)
    (hpair : t.pts.Pairwise (fun a b => lo ≤ dist2 a b.re b.im)) (x y : Int)
    (hclose : 4 * dist2 p x y < lo) : nearestIdx t x y = i := by
  have hne : t.pts ≠ [] := by intro h; rw [h] at hi; simp at hi
  obtain ⟨pr, h1, h2⟩ := nearest_is_min t x y hne
  have hmem : p ∈ t.pts := List.mem_of_getElem? hi
  have hle := h2 p hmem
  by_contra hne'
  have hlt1 : nearestIdx t x y < t.pts.length := (List.getElem?_eq_some_iff.mp h1).1
  have hlt2 : i < t.pts.length := (List.getElem?_eq_some_iff.mp hi).1
  have e1 : t.pts[nearestIdx t x y] = pr := (List.getElem?_eq_some_iff.mp h1).2
  have e2 : t.pts[i] = p := (List.getElem?_eq_some_iff.mp hi).2
  have hfar : lo ≤ dist2 pr p.re p.im := by
    rcases Nat.lt_or_gt_of_ne hne' with hlt | hgt
    · have := List.pairwise_iff_getElem.mp hpair _ _ hlt1 hlt2 hlt
      rwa [e1, e2] at this
    · have := List.pairwise_iff_getElem.mp hpair _ _ hlt2 hlt1 hgt
      rw [e1, e2] at this
      rwa [dist2_symm]
  apply half_dist_core (x - p.re) (y - p.im) (pr.re - p.re) (pr.im - p.im) lo
  · unfold dist2 at hfar; linarith
  · unfold dist2 at hclose; nlinarith
  · unfold dist2 at hle; nlinarith

/-- the received point `r` is within half the minimum distance of the point labelled by group `g` -/
def Close (t : Table) (lo : Int) (g : List Bool) (r : Int × Int) : Prop :=
  ∃ (i : Nat) (p : Pt), t.pts[i]? = some p ∧ p.lab = bitsToNat g ∧ 4 * dist2 p r.1 r.2 < lo

/-- hard demodulation of points that are each within half the minimum distance of the point
carrying a bit group returns exactly those groups -/
theorem demod_close (t : Table) (lo : Int)
    (hpair : t.pts.Pairwise (fun a b => lo ≤ dist2 a b.re b.im)) :
    ∀ (gs : List (List Bool)) (rx : List (Int × Int)), (∀ g ∈ gs, g.length = t.b) →
      Forall₂ (Close t lo) gs rx → demodHard t rx = gs.flatten
  | [], [], _, _ => by simp [demodHard]
  | g :: gs, r :: rs, hg, Forall₂.cons h hrest => by
    obtain ⟨i, p, hi, hlab, hcl⟩ := h
    have ih := demod_close t lo hpair gs rs (fun g' hg' => hg g' (by simp [hg'])) hrest
    unfold demodHard at ih ⊢
    simp only [List.flatMap_cons, List.flatten_cons, ih]
    congr 1
    rw [nearest_within_half t i p hi lo hpair r.1 r.2 hcl]
    simp only [labelAt, hi, Option.map_some, Option.getD_some, hlab]
    rw [← hg g (by simp)]
    exact natToBits_bitsToNat g

/-- every bit list whose length is a multiple of `b` is a concatenation of groups of `b` bits -/
theorem exists_groups (b : Nat) (hb : 0 < b) : ∀ (n : Nat) (l : List Bool), l.length = n * b →
    ∃ gs : List (List Bool), (∀ g ∈ gs, g.length = b) ∧ gs.flatten = l ∧ gs.length = n
  | 0, l, h => ⟨[], by simp, by simp at h; simp [h], rfl⟩
  | n+1, l, h => by
    have hd : (l.drop b).length = n * b := by rw [List.length_drop, h]; rw [Nat.succ_mul]; omega
    obtain ⟨gs, h1, h2, h3⟩ := exists_groups b hb n (l.drop b) hd
    refine ⟨l.take b :: gs, ?_, ?_, by simp [h3]⟩
    · intro g hg
      rcases List.mem_cons.mp hg with rfl | hg
      · rw [List.length_take, h, Nat.succ_mul]; omega
      · exact h1 g hg
    · simp [h2]

/-- **the link returns the message** whenever every received symbol lies within half the minimum
distance of the constellation point carrying the corresponding bit group of the (possibly
bit-flipped) code words, and the decoder corrects the flip patterns `es` (one per block).
Any code, any table, any channel function, any number of blocks. -/
theorem link_corrects (k n : Nat) (hk : 0 < k) (hn : 0 < n) (G : List Nat) (t : Table) (hb : 0 < t.b) (lo : Int)
    (hpair : t.pts.Pairwise (fun a b => lo ≤ dist2 a b.re b.im))
    (dec : Nat → Nat) (chan : List (Int × Int) → List (Int × Int))
    (msgs : List (List Bool)) (es : List Nat) (gs' : List (List Bool))
    (hm : ∀ b ∈ msgs, b.length = k) (hes : es.length = msgs.length)
    (hcw : ∀ m, encode G m < 2 ^ n) (hesn : ∀ e ∈ es, e < 2 ^ n)
    (hdiv : (msgs.length * n) % t.b = 0)
    (hgs' : ∀ g ∈ gs', g.length = t.b)
    (hflat : gs'.flatten = ((msgs.zip es).map fun me => bitsOf n (encode G (maskOf me.1) ^^^ me.2)).flatten)
    (hchan : ∀ idx, modulate t true ((msgs.map fun b => bitsOf n (encode G (maskOf b))).flatten) = some idx →
      Forall₂ (Close t lo) gs' (chan (idx.map (ptAt t))))
    (hdec : ∀ m e, m < 2 ^ k → e ∈ es → dec (encode G m ^^^ e) = m) :
    link k n G t dec chan msgs.flatten = some msgs.flatten := by
  unfold link
  rw [blockwise_flatten k n hk _ msgs hm]
  simp only
  have hcl : ∀ w ∈ (msgs.map fun b => bitsOf n (encode G (maskOf b))), w.length = n := by
    intro w hw; obtain ⟨b, _, rfl⟩ := List.mem_map.mp hw; exact length_bitsOf _ _
  have hlen : ((msgs.map fun b => bitsOf n (encode G (maskOf b))).flatten).length = msgs.length * n := by
    rw [length_flatten_const n _ hcl]; simp
  have hmod : ∃ idx, modulate t true ((msgs.map fun b => bitsOf n (encode G (maskOf b))).flatten) = some idx := by
    unfold modulate
    have : ¬ (t.b = 0 ∨ ((msgs.map fun b => bitsOf n (encode G (maskOf b))).flatten).length % t.b ≠ 0) := by
      rw [hlen]; simp [hdiv]; omega
    rw [if_neg this]; exact ⟨_, rfl⟩
  obtain ⟨idx, hidx⟩ := hmod
  rw [hidx]
  simp only
  rw [demod_close t lo hpair gs' _ hgs' (hchan idx hidx), hflat]
  have hrl : ∀ w ∈ ((msgs.zip es).map fun me => bitsOf n (encode G (maskOf me.1) ^^^ me.2)), w.length = n := by
    intro w hw; obtain ⟨b, _, rfl⟩ := List.mem_map.mp hw; exact length_bitsOf _ _
  rw [blockwise_flatten n k hn dec _ hrl]
  congr 1
  rw [List.map_map]
  have : List.map ((fun b => bitsOf k (dec (maskOf b))) ∘ fun me : List Bool × Nat => bitsOf n (encode G (maskOf me.1) ^^^ me.2)) (msgs.zip es)
      = List.map (fun me => me.1) (msgs.zip es) := by
    apply List.map_congr_left
    intro me hme
    simp only [Function.comp]
    have hm1 : me.1 ∈ msgs := (List.of_mem_zip hme).1
    have he1 : me.2 ∈ es := (List.of_mem_zip hme).2
    have hlt : maskOf me.1 < 2 ^ k := by rw [← hm me.1 hm1]; exact maskOf_lt _
    rw [maskOf_bitsOf n _ (Nat.xor_lt_two_pow (hcw _) (hesn _ he1)), hdec _ _ hlt he1, ← hm me.1 hm1, bitsOf_maskOf]
  rw [this, List.map_fst_zip (by omega)]

theorem forall₂_close_of (t : Table) (lo : Int) (hlab : labelsOk t = true) :
    ∀ (gs : List (List Bool)) (rx : List (Int × Int)), (∀ g ∈ gs, g.length = t.b) →
      Forall₂ (fun p r => 4 * ((r.1 - p.1) * (r.1 - p.1) + (r.2 - p.2) * (r.2 - p.2)) < lo)
        ((gs.map fun g => idxByLabel t (bitsToNat g)).map (ptAt t)) rx →
      Forall₂ (Close t lo) gs rx
  | [], [], _, _ => Forall₂.nil
  | g :: gs, r :: rs, hg, h => by
    simp only [List.map_cons] at h
    cases h with
    | cons h1 hrest =>
      refine Forall₂.cons ?_ (forall₂_close_of t lo hlab gs rs (fun g' hg' => hg g' (by simp [hg'])) hrest)
      have hlt : bitsToNat g < 2 ^ t.b := by rw [← hg g (by simp)]; exact bitsToNat_lt g
      obtain ⟨p, hp, hpl⟩ := labels_surj t hlab _ hlt
      obtain ⟨i, hi, hpi⟩ := List.getElem_of_mem hp
      have hi' : t.pts[i]? = some p := by simp [hi, hpi]
      have hidx : idxByLabel t (bitsToNat g) = i := by
        rw [← hpl]; exact idxByLabel_spec t i p hi' (labels_nodup t hlab)
      refine ⟨i, p, hi', hpl, ?_⟩
      rw [hidx] at h1
      have hpt : ptAt t i = (p.re, p.im) := by simp [ptAt, hi']
      rw [hpt] at h1
      simp only at h1
      unfold dist2
      nlinarith [h1]

theorem zip_replicate_zero (n : Nat) (G : List Nat) : ∀ (msgs : List (List Bool)),
    ((msgs.zip (List.replicate msgs.length 0)).map fun me => bitsOf n (encode G (maskOf me.1) ^^^ me.2)) =
      msgs.map fun b => bitsOf n (encode G (maskOf b))
  | [] => rfl
  | m :: ms => by
    simp only [List.length_cons, List.replicate_succ, List.zip_cons_cons, List.map_cons, Nat.xor_zero]
    rw [zip_replicate_zero n G ms]

/-- **ideal channel or bounded symbol displacement**: if the channel moves every symbol by less than
half the constellation's minimum distance (in any direction; the identity channel included) and
the decoder inverts the encoder on code words, the link returns the message — any code, any table
with bijective labels, any number of blocks whose total length the modulator accepts -/
theorem link_bounded_displacement (k n : Nat) (hk : 0 < k) (hn : 0 < n) (G : List Nat) (t : Table) (hb : 0 < t.b) (lo : Int)
    (hpair : t.pts.Pairwise (fun a b => lo ≤ dist2 a b.re b.im)) (hlab : labelsOk t = true)
    (dec : Nat → Nat) (chan : List (Int × Int) → List (Int × Int))
    (hch : ∀ pts, Forall₂ (fun p r => 4 * ((r.1 - p.1) * (r.1 - p.1) + (r.2 - p.2) * (r.2 - p.2)) < lo) pts (chan pts))
    (msgs : List (List Bool)) (hm : ∀ b ∈ msgs, b.length = k)
    (hcw : ∀ m, encode G m < 2 ^ n) (hdiv : (msgs.length * n) % t.b = 0)
    (hround : ∀ m, m < 2 ^ k → dec (encode G m) = m) :
    link k n G t dec chan msgs.flatten = some msgs.flatten := by
  have hcl : ∀ w ∈ (msgs.map fun b => bitsOf n (encode G (maskOf b))), w.length = n := by
    intro w hw; obtain ⟨b, _, rfl⟩ := List.mem_map.mp hw; exact length_bitsOf _ _
  have hlen : ((msgs.map fun b => bitsOf n (encode G (maskOf b))).flatten).length = (msgs.length * n / t.b) * t.b := by
    rw [length_flatten_const n _ hcl, List.length_map]
    exact (Nat.div_mul_cancel (Nat.dvd_of_mod_eq_zero hdiv)).symm
  obtain ⟨gs, hgs, hgf, _⟩ := exists_groups t.b hb _ _ hlen
  apply link_corrects k n hk hn G t hb lo hpair dec chan msgs (List.replicate msgs.length 0) gs hm (by simp) hcw
    (by intro e he; rw [List.eq_of_mem_replicate he]; exact Nat.two_pow_pos n) hdiv hgs
  · rw [hgf, zip_replicate_zero]
  · intro idx hidx
    rw [← hgf] at hidx
    have hmod : modulate t true gs.flatten = some (gs.map fun g => idxByLabel t (bitsToNat g)) := by
      unfold modulate
      have hl := length_flatten_groups t.b gs hgs
      have : ¬ (t.b = 0 ∨ gs.flatten.length % t.b ≠ 0) := by rw [hl]; simp; omega
      rw [if_neg this, groups_flatten t.b hb gs hgs _ (by rw [hl]; exact Nat.le_mul_of_pos_right _ hb)]
      simp
    rw [hmod] at hidx
    cases hidx
    exact forall₂_close_of t lo hlab gs _ hgs (hch _)
  · intro m e hm' he
    rw [List.eq_of_mem_replicate he, Nat.xor_zero]; exact hround m hm'

/-- **at most `tc` flipped bits per block, hard-decision nearest-codeword decoding, `2·tc < d`**:
the link returns the message (the flips reach the demodulator as substituted symbols) -/
theorem link_bitflips (k n d tc : Nat) (hk : 0 < k) (hn : 0 < n) (G : List Nat) (t : Table) (hb : 0 < t.b) (lo : Int)
    (hpair : t.pts.Pairwise (fun a b => lo ≤ dist2 a b.re b.im))
    (dec : Nat → Nat) (chan : List (Int × Int) → List (Int × Int))
    (msgs : List (List Bool)) (es : List Nat) (gs' : List (List Bool))
    (hm : ∀ b ∈ msgs, b.length = k) (hes : es.length = msgs.length)
    (hcw : ∀ m, encode G m < 2 ^ n) (hesn : ∀ e ∈ es, e < 2 ^ n)
    (hdiv : (msgs.length * n) % t.b = 0)
    (hgs' : ∀ g ∈ gs', g.length = t.b)
    (hflat : gs'.flatten = ((msgs.zip es).map fun me => bitsOf n (encode G (maskOf me.1) ^^^ me.2)).flatten)
    (hchan : ∀ idx, modulate t true ((msgs.map fun b => bitsOf n (encode G (maskOf b))).flatten) = some idx →
      Forall₂ (Close t lo) gs' (chan (idx.map (ptAt t))))
    (hrange : ∀ x, dec x < 2 ^ k)
    (hnear : ∀ x m', m' < 2 ^ k → Kaira.Dist.weight n (x ^^^ encode G (dec x)) ≤ Kaira.Dist.weight n (x ^^^ encode G m'))
    (hd : ∀ m, m ≠ 0 → m < 2 ^ k → d ≤ Kaira.Dist.weight n (encode G m))
    (ht : 2 * tc < d) (hw : ∀ e ∈ es, Kaira.Dist.weight n e ≤ tc) :
    link k n G t dec chan msgs.flatten = some msgs.flatten :=
  link_corrects k n hk hn G t hb lo hpair dec chan msgs es gs' hm hes hcw hesn hdiv hgs' hflat hchan
    (fun m e hm' he => DecProofs.nearest_decoder_corrects G n k d tc dec hrange hnear hd ht m e hm' (hw e he))

theorem xorBits_bitsOf (n a b : Nat) : xorBits (bitsOf n a) (bitsOf n b) = bitsOf n (a ^^^ b) := by
  unfold bitsOf
  generalize List.range n = l
  induction l with
  | nil => simp [xorBits]
  | cons i is ih => simp only [List.map_cons, xorBits, Nat.testBit_xor, ih]

theorem xorBits_append : ∀ (a c b d : List Bool), a.length = c.length →
    xorBits (a ++ b) (c ++ d) = xorBits a c ++ xorBits b d
  | [], [], b, d, _ => by simp [xorBits]
  | x :: xs, y :: ys, b, d, h => by
    simp only [List.cons_append, xorBits]
    rw [xorBits_append xs ys b d (by simpa using h)]
  | [], _ :: _, _, _, h => by simp at h
  | _ :: _, [], _, _, h => by simp at h

/-- flipping the code bits marked by the per-block masks `es` gives the blocks `c_i ⊕ e_i` -/
theorem xorBits_blocks (n : Nat) (G : List Nat) : ∀ (msgs : List (List Bool)) (es : List Nat), es.length = msgs.length →
    xorBits ((msgs.map fun b => bitsOf n (encode G (maskOf b))).flatten) ((es.map (bitsOf n)).flatten) =
      ((msgs.zip es).map fun me => bitsOf n (encode G (maskOf me.1) ^^^ me.2)).flatten
  | [], [], _ => by simp [xorBits]
  | m :: ms, e :: es, h => by
    simp only [List.map_cons, List.flatten_cons, List.zip_cons_cons]
    rw [xorBits_append _ _ _ _ (by simp [length_bitsOf]), xorBits_bitsOf, xorBits_blocks n G ms es (by simpa using h)]
  | [], _ :: _, h => by simp at h
  | _ :: _, [], h => by simp at h

theorem forall₂_displace (t : Table) (lo : Int) : ∀ (pts : List (Int × Int)) (ds : List (Int × Int)), ds.length = pts.length →
    (∀ d ∈ ds, 4 * (d.1 * d.1 + d.2 * d.2) < lo) →
    Forall₂ (fun p r => 4 * ((r.1 - p.1) * (r.1 - p.1) + (r.2 - p.2) * (r.2 - p.2)) < lo) pts (displace ds pts)
  | [], [], _, _ => by simp [displace]
  | p :: ps, d :: ds, h, hs => by
    simp only [displace, List.zipWith_cons_cons]
    refine Forall₂.cons ?_ (forall₂_displace t lo ps ds (by simpa using h) (fun d' hd' => hs d' (by simp [hd'])))
    have := hs d (by simp)
    simp only [add_sub_cancel_left]
    exact this
  | [], _ :: _, h, _ => by simp at h
  | _ :: _, [], h, _ => by simp at h

/-- **the executable channel of the driver / harness** (decide the transmitted symbols, flip the code
bits marked by the per-block masks `es`, re-modulate, displace every symbol by less than half the
minimum distance) followed by a decoder that corrects the patterns `es` returns the message -/
theorem link_chanSub (k n : Nat) (hk : 0 < k) (hn : 0 < n) (G : List Nat) (t : Table) (hb : 0 < t.b) (lo : Int) (hlo : 0 < lo)
    (hpair : t.pts.Pairwise (fun a b => lo ≤ dist2 a b.re b.im)) (hlab : labelsOk t = true)
    (dec : Nat → Nat) (msgs : List (List Bool)) (es : List Nat) (ds : List (Int × Int))
    (hm : ∀ b ∈ msgs, b.length = k) (hes : es.length = msgs.length)
    (hcw : ∀ m, encode G m < 2 ^ n) (hesn : ∀ e ∈ es, e < 2 ^ n)
    (hdiv : (msgs.length * n) % t.b = 0)
    (hds : ds.length = msgs.length * n / t.b) (hsmall : ∀ d ∈ ds, 4 * (d.1 * d.1 + d.2 * d.2) < lo)
    (hdec : ∀ m e, m < 2 ^ k → e ∈ es → dec (encode G m ^^^ e) = m) :
    link k n G t dec (chanSub t ((es.map (bitsOf n)).flatten) ds) msgs.flatten = some msgs.flatten := by
  -- the clean code bits and the flipped ones, as groups of `b` bits
  set cw := (msgs.map fun b => bitsOf n (encode G (maskOf b))).flatten with hcwdef
  set cw' := ((msgs.zip es).map fun me => bitsOf n (encode G (maskOf me.1) ^^^ me.2)).flatten with hcw'def
  have hcl : ∀ w ∈ (msgs.map fun b => bitsOf n (encode G (maskOf b))), w.length = n := by
    intro w hw; obtain ⟨b, _, rfl⟩ := List.mem_map.mp hw; exact length_bitsOf _ _
  have hcl' : ∀ w ∈ ((msgs.zip es).map fun me => bitsOf n (encode G (maskOf me.1) ^^^ me.2)), w.length = n := by
    intro w hw; obtain ⟨b, _, rfl⟩ := List.mem_map.mp hw; exact length_bitsOf _ _
  have hq : msgs.length * n = (msgs.length * n / t.b) * t.b := (Nat.div_mul_cancel (Nat.dvd_of_mod_eq_zero hdiv)).symm
  have hlen : cw.length = (msgs.length * n / t.b) * t.b := by
    rw [hcwdef, length_flatten_const n _ hcl, List.length_map]; exact hq
  have hlen' : cw'.length = (msgs.length * n / t.b) * t.b := by
    rw [hcw'def, length_flatten_const n _ hcl', List.length_map, List.length_zip, hes, Nat.min_self]; exact hq
  obtain ⟨gs, hgs, hgf, hgl⟩ := exists_groups t.b hb _ cw hlen
  obtain ⟨gs', hgs', hgf', hgl'⟩ := exists_groups t.b hb _ cw' hlen'
  have hmodOf : ∀ (g : List (List Bool)), (∀ x ∈ g, x.length = t.b) →
      modulate t true g.flatten = some (g.map fun x => idxByLabel t (bitsToNat x)) := by
    intro g hg
    unfold modulate
    have hl := length_flatten_groups t.b g hg
    have : ¬ (t.b = 0 ∨ g.flatten.length % t.b ≠ 0) := by rw [hl]; simp; omega
    rw [if_neg this, groups_flatten t.b hb g hg _ (by rw [hl]; exact Nat.le_mul_of_pos_right _ hb)]
    simp
  have hzero : ∀ pts : List (Int × Int), Forall₂ (fun p r => 4 * ((r.1 - p.1) * (r.1 - p.1) + (r.2 - p.2) * (r.2 - p.2)) < lo) pts pts := by
    intro pts
    induction pts with
    | nil => exact Forall₂.nil
    | cons p ps ih => exact Forall₂.cons (by simp; exact hlo) ih
  apply link_corrects k n hk hn G t hb lo hpair dec _ msgs es gs' hm hes hcw hesn hdiv hgs' hgf'
  · intro idx hidx
    rw [← hcwdef, ← hgf, hmodOf gs hgs] at hidx
    cases hidx
    -- the channel first decides the clean symbols: that gives back the code bits
    have hclean : demodHard t ((gs.map fun x => idxByLabel t (bitsToNat x)).map (ptAt t)) = cw := by
      rw [← hgf]
      exact demod_close t lo hpair gs _ hgs (forall₂_close_of t lo hlab gs _ hgs (hzero _))
    unfold chanSub
    rw [hclean, hcwdef, xorBits_blocks n G msgs es hes, ← hcw'def, ← hgf', hmodOf gs' hgs']
    simp only
    refine forall₂_close_of t lo hlab gs' _ hgs' (forall₂_displace t lo _ ds ?_ hsmall)
    simp [hds, hgl']
  · exact hdec

end LinkProofs
