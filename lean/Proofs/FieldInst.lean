import Proofs.Field18
import Mathlib.Algebra.Ring.Defs
import Mathlib.Algebra.CharP.Defs
import Mathlib.Algebra.CharP.Two

open Kaira GF

namespace GF
variable {P : Nat}

theorem xor_short (a b : Elt P) : Nat.size (a.val ^^^ b.val) < Nat.size P := by
  have ha := elt_lt a
  have hb := elt_lt b
  have h2 := Nat.size_le.mpr (Nat.xor_lt_two_pow ha hb)
  have := a.property
  omega

instance : Add (Elt P) := ⟨fun a b => ⟨a.val ^^^ b.val, xor_short a b⟩⟩
instance : Neg (Elt P) := ⟨fun a => a⟩

instance [Good P] : AddCommGroup (Elt P) where
  zero := 0
  add_assoc := fun a b c => Subtype.ext (Nat.xor_assoc _ _ _)
  zero_add := fun a => Subtype.ext (Nat.zero_xor _)
  add_zero := fun a => Subtype.ext (Nat.xor_zero _)
  add_comm := fun a b => Subtype.ext (Nat.xor_comm _ _)
  neg_add_cancel := fun a => Subtype.ext (Nat.xor_self _)
  nsmul := nsmulRec
  zsmul := zsmulRec

instance [Good P] : CommRing (Elt P) :=
  { (inferInstance : MonoidWithZero (Elt P)), (inferInstance : AddCommGroup (Elt P)) with
    left_distrib := fun a b c => Subtype.ext (by
      show fmul P a.val (b.val ^^^ c.val) = fmul P a.val b.val ^^^ fmul P a.val c.val
      rw [fmul_comm, fmul_xor_left P _ _ _ Good.pos, fmul_comm P b.val, fmul_comm P c.val])
    right_distrib := fun a b c => Subtype.ext (fmul_xor_left P _ _ _ Good.pos)
    mul_comm := fun a b => Subtype.ext (fmul_comm P _ _) }

theorem val_add [Good P] (a b : Elt P) : (a + b).val = a.val ^^^ b.val := rfl
theorem val_zero [Good P] : (0 : Elt P).val = 0 := rfl
theorem add_self_elt [Good P] (a : Elt P) : a + a = 0 := Subtype.ext (Nat.xor_self _)

instance [Good P] : CharP (Elt P) 2 := CharTwo.of_one_ne_zero_of_two_eq_zero one_ne_zero (by
  have : (2 : Elt P) = 1 + 1 := by norm_num
  rw [this]; exact add_self_elt 1)

end GF
