import Kaira.Modem
import Proofs.Gray
import Mathlib.Data.List.Perm.Subperm
import Mathlib.Data.List.Range
import Mathlib.Data.List.Nodup
/-! Soundness of the kernel-evaluated constellation checkers and the Gray-map theorems for the
model's definitions. -/
open Kaira.Modem

namespace ModemProofs

/-! ### Gray -/
theorem toGrayPure_eq (n : Nat) : toGrayPure n = Gray.toGray n := rfl

theorem fromGrayLoop_eq (f mask res : Nat) : fromGrayLoop f mask res = Gray.fromGrayAux f mask res := by
  induction f generalizing mask res with
  | zero => rfl
  | succ f ih => simp only [fromGrayLoop, Gray.fromGrayAux, ih]

theorem fromGrayPure_eq (g : Nat) : fromGrayPure g = Gray.fromGray g := by
  unfold fromGrayPure Gray.fromGray; exact fromGrayLoop_eq _ _ _

theorem toGray_fromGray_pure (g : Nat) : toGrayPure (fromGrayPure g) = g := by
  rw [toGrayPure_eq, fromGrayPure_eq]; exact Gray.toGray_fromGray g

theorem fromGray_toGray_pure (n : Nat) : fromGrayPure (toGrayPure n) = n := by
  apply Gray.toGray_injective
  rw [← toGrayPure_eq, toGray_fromGray_pure]; rfl

theorem gray_adjacent_pure (n : Nat) : ∃ j, toGrayPure n ^^^ toGrayPure (n + 1) = 2 ^ j :=
  Gray.gray_adjacent n

/-! ### labels -/
theorem testBit_foldl_or (pts : List Pt) (m j : Nat) :
    (pts.foldl (fun m p => m ||| (1 <<< p.lab)) m).testBit j = (m.testBit j || pts.any (fun p => p.lab == j)) := by
  induction pts generalizing m with
  | nil => simp
  | cons p ps ih =>
    simp only [List.foldl_cons, ih, Nat.testBit_or, List.any_cons]
    have : (1 <<< p.lab).testBit j = (p.lab == j) := by
      rw [Nat.one_shiftLeft, Nat.testBit_two_pow]
      by_cases hpj : p.lab = j
      · subst hpj; simp
      · have : ¬ j = p.lab := fun h => hpj h.symm
        simp [hpj, this]
    rw [this, Bool.or_assoc]

theorem labels_perm (t : Table) (h : labelsOk t = true) :
    (t.pts.map (·.lab)).Perm (List.range (2 ^ t.b)) := by
  unfold labelsOk at h
  simp only [Bool.and_eq_true, beq_iff_eq, List.all_eq_true, decide_eq_true_eq] at h
  obtain ⟨⟨hlen, _⟩, hmask⟩ := h
  have hsub : List.range (2 ^ t.b) ⊆ t.pts.map (·.lab) := by
    intro j hj
    have hj' : j < 2 ^ t.b := List.mem_range.mp hj
    have hb := testBit_foldl_or t.pts 0 j
    rw [hmask, Nat.testBit_two_pow_sub_one] at hb
    simp only [hj', decide_true, Nat.zero_testBit, Bool.false_or] at hb
    have := hb.symm
    rw [List.any_eq_true] at this
    obtain ⟨p, hp, hpl⟩ := this
    exact List.mem_map.mpr ⟨p, hp, by simpa using hpl⟩
  have hsp : List.Subperm (List.range (2 ^ t.b)) (t.pts.map (·.lab)) :=
    List.subperm_of_subset (List.nodup_range) hsub
  exact (hsp.perm_of_length_le (by simp [hlen])).symm

/-- the labelling is a bijection between symbol indices and `b`-bit patterns -/
theorem labels_nodup (t : Table) (h : labelsOk t = true) : (t.pts.map (·.lab)).Nodup :=
  (labels_perm t h).nodup_iff.mpr List.nodup_range

theorem labels_surj (t : Table) (h : labelsOk t = true) (lab : Nat) (hl : lab < 2 ^ t.b) :
    ∃ p ∈ t.pts, p.lab = lab := by
  have : lab ∈ t.pts.map (·.lab) := (labels_perm t h).symm.subset (List.mem_range.mpr hl)
  obtain ⟨p, hp, hpl⟩ := List.mem_map.mp this
  exact ⟨p, hp, hpl⟩

/-! ### pairs -/
def PairProp (lo hi : Int) (gray : Bool) (b : Nat) (p q : Pt) : Prop :=
  lo ≤ dist2 p q.re q.im ∧ (gray = true → dist2 p q.re q.im ≤ hi → popcount b (p.lab ^^^ q.lab) = 1)

theorem rowOk_sound (lo hi : Int) (gray : Bool) (b : Nat) (p : Pt) (qs : List Pt)
    (h : rowOk lo hi gray b p qs = true) : ∀ q ∈ qs, PairProp lo hi gray b p q := by
  induction qs with
  | nil => intro q hq; simp at hq
  | cons q qs ih =>
    simp only [rowOk, Bool.and_eq_true, Bool.or_eq_true, decide_eq_true_eq, Bool.not_eq_true',
      beq_iff_eq] at h
    obtain ⟨⟨h1, h2⟩, h3⟩ := h
    intro q' hq'
    rcases List.mem_cons.mp hq' with rfl | hq'
    · refine ⟨h1, fun hg hd => ?_⟩
      rcases h2 with (h2 | h2) | h2
      · rw [hg] at h2; cases h2
      · omega
      · exact h2
    · exact ih h3 q' hq'

theorem pairsOk_sound (lo hi : Int) (gray : Bool) (b : Nat) (pts : List Pt)
    (h : pairsOk lo hi gray b pts = true) : pts.Pairwise (PairProp lo hi gray b) := by
  induction pts with
  | nil => exact List.Pairwise.nil
  | cons p ps ih =>
    simp only [pairsOk, Bool.and_eq_true] at h
    exact List.Pairwise.cons (rowOk_sound lo hi gray b p ps h.1) (ih h.2)

theorem rowOk_mono (lo hi : Int) (b : Nat) (p : Pt) (qs : List Pt)
    (h : rowOk lo hi true b p qs = true) : rowOk lo hi false b p qs = true := by
  induction qs with
  | nil => rfl
  | cons q qs ih =>
    simp only [rowOk, Bool.and_eq_true, decide_eq_true_eq] at h ⊢
    exact ⟨⟨h.1.1, by simp⟩, ih h.2⟩

/-- the Gray pass implies the plain distance pass -/
theorem pairsOk_mono (lo hi : Int) (b : Nat) (pts : List Pt)
    (h : pairsOk lo hi true b pts = true) : pairsOk lo hi false b pts = true := by
  induction pts with
  | nil => rfl
  | cons p ps ih =>
    simp only [pairsOk, Bool.and_eq_true] at h ⊢
    exact ⟨rowOk_mono lo hi b p ps h.1, ih h.2⟩

/-- with a positive lower bound the points are pairwise distinct -/
theorem points_distinct (lo hi : Int) (gray : Bool) (b : Nat) (pts : List Pt) (hlo : 0 < lo)
    (h : pairsOk lo hi gray b pts = true) :
    pts.Pairwise (fun p q => ¬ (p.re = q.re ∧ p.im = q.im)) := by
  refine (pairsOk_sound lo hi gray b pts h).imp ?_
  intro p q hpq ⟨h1, h2⟩
  have := hpq.1
  unfold dist2 at this
  rw [h1, h2] at this
  simp at this
  omega

end ModemProofs
