import Kaira.Reed
import Proofs.Codes
import Proofs.DistInfo
import Proofs.Syndrome
/-! Reed's majority-logic decoder corrects every pattern within capability — for any rows and check groups that pass `reedOk`. -/
open Kaira.Codes Kaira.Dist Kaira.Reed CodesProofs

namespace ReedProofs

theorem weight_zero (n : Nat) : weight n 0 = 0 := by
  induction n with
  | zero => rfl
  | succ n ih => simp [weight, ih]

theorem par_zero (n : Nat) : par n 0 = false := by simp [par, weight_zero]

theorem par_xor (n a b : Nat) : par n (a ^^^ b) = (par n a != par n b) := by
  unfold par
  have := DistInfo.weight_xor_parity n a b
  rcases Nat.mod_two_eq_zero_or_one (weight n a) with ha | ha <;>
    rcases Nat.mod_two_eq_zero_or_one (weight n b) with hb | hb <;>
    rcases Nat.mod_two_eq_zero_or_one (weight n (a ^^^ b)) with hc | hc <;>
    simp [ha, hb, hc] <;> omega

theorem and_xor (a b M : Nat) : (a ^^^ b) &&& M = (a &&& M) ^^^ (b &&& M) := Nat.and_xor_distrib_right ..

/-- rows that every group sees with even parity add up to a word the group sees with even parity -/
theorem par_encodeFrom_even (n M : Nat) : ∀ (gs : List Nat) (i u : Nat), (∀ g ∈ gs, par n (g &&& M) = false) →
    par n (encodeFrom gs i u &&& M) = false
  | [], _, _, _ => by simp [encodeFrom, par_zero]
  | g :: gs, i, u, h => by
    simp only [encodeFrom, and_xor, par_xor]
    rw [par_encodeFrom_even n M gs (i + 1) u (fun g' hg' => h g' (by simp [hg']))]
    split
    · rw [h g (by simp)]; rfl
    · simp [par_zero]

/-! ### counting: disjoint groups hit by an error pattern -/
theorem weight_xor_disjoint : ∀ (n a b : Nat), a &&& b = 0 → weight n (a ^^^ b) = weight n a + weight n b
  | 0, _, _, _ => rfl
  | n+1, a, b, h => by
    simp only [weight, Nat.testBit_xor]
    rw [weight_xor_disjoint n a b h]
    have hb : (a.testBit n && b.testBit n) = false := by
      rw [← Nat.testBit_and, h, Nat.zero_testBit]
    cases ha : a.testBit n <;> cases hb' : b.testBit n <;> simp_all <;> omega

theorem count_hits_le (n : Nat) : ∀ (p : List Nat) (e : Nat), disjointAll p = true →
    (p.map fun M => par n (e &&& M)).count true ≤ weight n e
  | [], _, _ => by simp
  | M :: ms, e, h => by
    simp only [disjointAll, Bool.and_eq_true, List.all_eq_true, beq_iff_eq] at h
    obtain ⟨hdis, hrest⟩ := h
    set e1 := e &&& M with he1
    set e2 := e ^^^ e1 with he2
    have hsplit : e = e1 ^^^ e2 := by
      apply Nat.eq_of_testBit_eq
      intro i
      simp only [he2, Nat.testBit_xor]
      cases e1.testBit i <;> cases e.testBit i <;> rfl
    have hdisj : e1 &&& e2 = 0 := by
      apply Nat.eq_of_testBit_eq
      intro i
      simp only [he2, he1, Nat.testBit_and, Nat.testBit_xor, Nat.zero_testBit]
      cases e.testBit i <;> cases M.testBit i <;> rfl
    have hw : weight n e = weight n e1 + weight n e2 := by
      conv_lhs => rw [hsplit]
      exact weight_xor_disjoint n e1 e2 hdisj
    have hsame : ∀ M' ∈ ms, e &&& M' = e2 &&& M' := by
      intro M' hM'
      have hd := hdis M' hM'
      apply Nat.eq_of_testBit_eq
      intro i
      have hbit : (M.testBit i && M'.testBit i) = false := by
        rw [← Nat.testBit_and, hd, Nat.zero_testBit]
      simp only [he2, he1, Nat.testBit_and, Nat.testBit_xor]
      revert hbit
      cases e.testBit i <;> cases M.testBit i <;> cases M'.testBit i <;> simp
    have hmap : (ms.map fun M' => par n (e &&& M')) = ms.map fun M' => par n (e2 &&& M') :=
      List.map_congr_left (fun M' hM' => by rw [hsame M' hM'])
    have ih := count_hits_le n ms e2 hrest
    have hhead : (if par n e1 = true then 1 else 0) ≤ weight n e1 := by
      unfold par
      split
      · next h1 => simp only [decide_eq_true_eq] at h1; omega
      · omega
    rw [List.map_cons, List.count_cons, hmap]
    have hbeq : (if (par n (e &&& M) == true) = true then 1 else 0) = (if par n e1 = true then 1 else 0) := by
      rw [he1]; simp
    rw [hbeq]
    omega

/-! ### the majority vote -/
theorem count_not (l : List Bool) : (l.map (!·)).count true = l.length - l.count true := by
  induction l with
  | nil => rfl
  | cons b l ih =>
    have := List.count_le_length (a := true) (l := l)
    cases b <;> simp [List.count_cons, ih] <;> omega

theorem majority_correct (n t : Nat) (p : List Nat) (c e : Nat) (b : Bool) (hdis : disjointAll p = true)
    (hc : ∀ M ∈ p, par n (c &&& M) = b) (ht : 2 * t < p.length) (hw : weight n e ≤ t) :
    majority (p.map fun M => par n ((c ^^^ e) &&& M)) = b := by
  have hcnt := count_hits_le n p e hdis
  have hmap : (p.map fun M => par n ((c ^^^ e) &&& M)) = p.map fun M => (b != par n (e &&& M)) :=
    List.map_congr_left (fun M hM => by rw [and_xor, par_xor, hc M hM])
  rw [hmap]
  unfold majority
  cases b with
  | false =>
    have : (p.map fun M => (false != par n (e &&& M))) = p.map fun M => par n (e &&& M) :=
      List.map_congr_left (fun M _ => by simp)
    rw [this]
    simp only [List.length_map, decide_eq_false_iff_not, not_lt]
    omega
  | true =>
    have : (p.map fun M => (true != par n (e &&& M))) = (p.map fun M => par n (e &&& M)).map (!·) := by
      rw [List.map_map]
      exact List.map_congr_left (fun M _ => by simp only [Function.comp]; cases par n (e &&& M) <;> rfl)
    rw [this, count_not]
    simp only [List.length_map, decide_eq_true_eq]
    omega

/-! ### peeling -/
theorem reedLoop_correct (n t : Nat) : ∀ (gs : List Nat) (ps : List (List Nat)) (j e u acc : Nat),
    Kaira.Reed.rowsOk n t gs ps = true → weight n e ≤ t →
    reedLoop n gs ps j (encodeFrom gs j u ^^^ e) acc =
      acc ^^^ encodeFrom ((List.range' j gs.length).map (1 <<< ·)) j u
  | [], [], j, e, u, acc, _, _ => by simp [reedLoop, encodeFrom]
  | [], _ :: _, _, _, _, _, h, _ => by simp [Kaira.Reed.rowsOk] at h
  | _ :: _, [], _, _, _, _, h, _ => by simp [Kaira.Reed.rowsOk] at h
  | g :: gs, p :: ps, j, e, u, acc, h, hw => by
    simp only [Kaira.Reed.rowsOk, rowOk, Bool.and_eq_true, List.all_eq_true, decide_eq_true_eq, Bool.not_eq_true'] at h
    obtain ⟨⟨⟨hp, hdis⟩, hlen⟩, hrest⟩ := h
    have hmaj : majority (p.map fun M => par n ((encodeFrom (g :: gs) j u ^^^ e) &&& M)) = u.testBit j := by
      apply majority_correct n t p _ e _ hdis _ hlen hw
      intro M hM
      obtain ⟨⟨hg, hlater⟩, _⟩ := hp M hM
      simp only [encodeFrom, and_xor, par_xor]
      rw [par_encodeFrom_even n M gs (j + 1) u hlater]
      split
      · next hb => rw [hg, hb]; rfl
      · next hb => simp [par_zero, hb]
    simp only [reedLoop]
    rw [hmaj]
    simp only [List.length_cons, List.range'_succ, List.map_cons, encodeFrom]
    have ih := fun acc' => reedLoop_correct n t gs ps (j + 1) e u acc' hrest hw
    cases hb : u.testBit j with
    | true =>
      simp only [if_true]
      have hx : (g ^^^ encodeFrom gs (j + 1) u ^^^ e) ^^^ g = encodeFrom gs (j + 1) u ^^^ e := by
        apply Nat.eq_of_testBit_eq; intro i
        simp only [Nat.testBit_xor]
        cases g.testBit i <;> cases (encodeFrom gs (j + 1) u).testBit i <;> cases e.testBit i <;> rfl
      rw [hx, ih, Nat.xor_assoc]
    | false =>
      simp only [Bool.false_eq_true, if_false, Nat.zero_xor]
      rw [ih]

/-- **Reed's decoder returns the message for every message and every error pattern of weight ≤ t**, for any rows and check
groups passing `reedOk` (each group sees its own row with odd and every later row with even parity, groups are disjoint, more
than 2t of them) — any length, any order -/
theorem reed_corrects (c : ReedInst) (h : reedOk c = true) (u e : Nat) (hu : u < 2 ^ c.k) (hw : weight c.n e ≤ c.t) :
    reedDecode c.n c.G c.parts (encode c.G u ^^^ e) = u := by
  unfold reedOk at h
  simp only [Bool.and_eq_true, beq_iff_eq] at h
  obtain ⟨⟨hk, _⟩, hrows⟩ := h
  unfold reedDecode encode
  rw [reedLoop_correct c.n c.t c.G c.parts 0 e u 0 hrows hw, Nat.zero_xor]
  apply Nat.eq_of_testBit_eq
  intro i
  rw [testBit_encodeFrom_units]
  by_cases hi : i < c.G.length
  · simp [hi]
  · have : u < 2 ^ i := lt_of_lt_of_le hu (Nat.pow_le_pow_right (by decide) (by omega))
    simp [hi, Nat.testBit_lt_two_pow this]

end ReedProofs
