import Proofs.Codes
/-! Blockwise framing: bit lists <-> masks, splitting the last dimension into blocks. -/
open Kaira.Codes

namespace BlocksProofs

theorem testBit_maskOf (l : List Bool) (i : Nat) : (maskOf l).testBit i = l.getD i false := by
  induction l generalizing i with
  | nil => simp [maskOf]
  | cons b bs ih =>
    cases i with
    | zero =>
      simp only [maskOf, Nat.testBit_zero, List.getD_cons_zero]
      cases b <;> simp <;> omega
    | succ i =>
      rw [Nat.testBit_succ]
      have : ((if b then 1 else 0) + 2 * maskOf bs) / 2 = maskOf bs := by cases b <;> simp <;> omega
      simp only [maskOf, this, ih, List.getD_cons_succ]

theorem maskOf_lt (l : List Bool) : maskOf l < 2 ^ l.length := by
  induction l with
  | nil => simp [maskOf]
  | cons b bs ih =>
    simp only [maskOf, List.length_cons, Nat.pow_succ]
    cases b <;> simp <;> omega

theorem bitsOf_maskOf (l : List Bool) : bitsOf l.length (maskOf l) = l := by
  apply List.ext_getElem
  · simp [bitsOf]
  · intro i h1 h2
    simp only [bitsOf, List.getElem_map, List.getElem_range, testBit_maskOf]
    rw [List.getD_eq_getElem _ _ h2]

theorem length_bitsOf (n x : Nat) : (bitsOf n x).length = n := by simp [bitsOf]

theorem maskOf_bitsOf (n x : Nat) (hx : x < 2 ^ n) : maskOf (bitsOf n x) = x := by
  apply Nat.eq_of_testBit_eq
  intro i
  rw [testBit_maskOf]
  by_cases hi : i < n
  · rw [List.getD_eq_getElem _ _ (by simp [bitsOf, hi])]
    simp [bitsOf]
  · have : x < 2 ^ i := lt_of_lt_of_le hx (Nat.pow_le_pow_right (by decide) (by omega))
    rw [Nat.testBit_lt_two_pow this, List.getD_eq_default _ _ (by simp [bitsOf]; omega)]

/-- splitting the concatenation of equally long blocks gives the blocks back -/
theorem splitBlocks_flatten (size : Nat) (hs : 0 < size) (bs : List (List Bool))
    (hb : ∀ b ∈ bs, b.length = size) (fuel : Nat) (hf : bs.length ≤ fuel) :
    splitBlocks size fuel bs.flatten = bs := by
  induction bs generalizing fuel with
  | nil => cases fuel <;> simp [splitBlocks]
  | cons b bs ih =>
    cases fuel with
    | zero => simp at hf
    | succ fuel =>
      have hbl : b.length = size := hb b (by simp)
      have hne : ¬ ((b ++ bs.flatten).isEmpty = true ∨ size = 0) := by
        rintro (h | h)
        · have : b = [] := by
            cases b with
            | nil => rfl
            | cons x xs => simp at h
          subst this; simp at hbl; omega
        · omega
      simp only [List.flatten_cons, splitBlocks, hne, if_false]
      have h1 : (b ++ bs.flatten).take size = b := by rw [← hbl]; simp
      have h2 : (b ++ bs.flatten).drop size = bs.flatten := by rw [← hbl]; simp
      rw [h1, h2, ih (fun b' hb' => hb b' (by simp [hb'])) fuel (by simpa using hf)]

theorem length_flatten_const (size : Nat) (bs : List (List Bool)) (hb : ∀ b ∈ bs, b.length = size) :
    bs.flatten.length = bs.length * size := by
  induction bs with
  | nil => simp
  | cons b bs ih =>
    simp only [List.flatten_cons, List.length_append, List.length_cons, hb b (by simp),
      ih (fun b' hb' => hb b' (by simp [hb']))]
    ring

/-- `blockwise` on a concatenation of blocks is the map over the blocks -/
theorem blockwise_flatten (inSize outSize : Nat) (hs : 0 < inSize) (f : Nat → Nat) (bs : List (List Bool))
    (hb : ∀ b ∈ bs, b.length = inSize) :
    blockwise inSize outSize f bs.flatten = some ((bs.map fun b => bitsOf outSize (f (maskOf b))).flatten) := by
  unfold blockwise
  have hlen := length_flatten_const inSize bs hb
  have : ¬ (inSize = 0 ∨ bs.flatten.length % inSize ≠ 0) := by
    rw [hlen]; simp; omega
  rw [if_neg this, splitBlocks_flatten inSize hs bs hb _ (by
    rw [hlen]; exact Nat.le_mul_of_pos_right _ hs)]
  simp [List.flatMap]

end BlocksProofs
