import Mathlib.Data.Nat.Bitwise
import Mathlib.Data.Nat.Log
import Mathlib.Tactic.Ring
/-! Gray code: toGray n = n ^^^ (n >>> 1); fromGray by prefix xor loop. -/
namespace Gray
def toGray (n : Nat) : Nat := n ^^^ (n >>> 1)

/-- python: mask = num; result = num; while mask > 0: mask >>= 1; result ^= mask -/
def fromGrayAux : Nat → Nat → Nat → Nat
  | 0, _, res => res
  | f+1, mask, res => if mask = 0 then res else
      let mask' := mask >>> 1
      fromGrayAux f mask' (res ^^^ mask')
def fromGray (g : Nat) : Nat := fromGrayAux (g + 1) g g

theorem testBit_toGray (n i : Nat) : (toGray n).testBit i = xor (n.testBit i) (n.testBit (i+1)) := by
  simp [toGray, Nat.testBit_xor, Nat.testBit_shiftRight, Nat.add_comm]

/-- xor of bits i, i+1, …, i+t of g -/
def bitsXor (g i : Nat) : Nat → Bool
  | 0 => g.testBit i
  | t+1 => xor (bitsXor g i t) (g.testBit (i + t + 1))

/-- loop invariant: running the loop from (mask = g >>> t, res with bits = bitsXor g · t) -/
theorem aux_spec (g : Nat) : ∀ (f t res : Nat),
    (∀ i, res.testBit i = bitsXor g i t) → g >>> t < 2 ^ f →
    ∃ T, (∀ i, (fromGrayAux f (g >>> t) res).testBit i = bitsXor g i T) ∧ g >>> T = 0 := by
  intro f
  induction f with
  | zero =>
    intro t res hres hlt
    refine ⟨t, ?_, ?_⟩
    · intro i; simp [fromGrayAux, hres]
    · simpa using hlt
  | succ f ih =>
    intro t res hres hlt
    unfold fromGrayAux
    by_cases h0 : g >>> t = 0
    · simp only [h0, if_true]
      exact ⟨t, hres, h0⟩
    · simp only [h0, if_false]
      have hshift : (g >>> t) >>> 1 = g >>> (t+1) := by rw [Nat.shiftRight_add]
      rw [hshift]
      apply ih (t+1)
      · intro i
        rw [Nat.testBit_xor, hres, Nat.testBit_shiftRight]
        simp only [bitsXor]
        congr 2
        omega
      · rw [← hshift, Nat.shiftRight_one]
        omega

theorem bitsXor_tail (g i T : Nat) (hT : g >>> T = 0) :
    xor (bitsXor g i T) (bitsXor g (i+1) T) = g.testBit i := by
  -- telescoping: the two sums differ by g_i and g_{i+T+1}; the latter is 0
  have hz : ∀ j, T ≤ j → g.testBit j = false := by
    intro j hj
    have : g < 2 ^ T := by
      have := Nat.shiftRight_eq_div_pow g T
      rw [hT] at this
      exact (Nat.div_eq_zero_iff_lt (Nat.two_pow_pos T)).mp this.symm
    exact Nat.testBit_lt_two_pow (lt_of_lt_of_le this (Nat.pow_le_pow_right (by decide) hj))
  have key : ∀ t, xor (bitsXor g i t) (bitsXor g (i+1) t) = xor (g.testBit i) (g.testBit (i + t + 1)) := by
    intro t
    induction t with
    | zero => simp [bitsXor]
    | succ t ih =>
      simp only [bitsXor]
      have e : i + 1 + t + 1 = i + (t+1) + 1 := by omega
      have e2 : i + t + 1 = i + (t + 1) := by omega
      rw [e]
      generalize bitsXor g i t = A at ih ⊢
      generalize bitsXor g (i+1) t = B at ih ⊢
      rw [e2] at ih ⊢
      generalize g.testBit (i + (t+1)) = C at ih ⊢
      generalize g.testBit (i + (t+1) + 1) = D
      generalize g.testBit i = E at ih ⊢
      revert ih; cases A <;> cases B <;> cases C <;> cases D <;> cases E <;> simp
  rw [key T, hz (i + T + 1) (by omega)]; simp

theorem toGray_fromGray (g : Nat) : toGray (fromGray g) = g := by
  obtain ⟨T, hbits, hT⟩ := aux_spec g (g+1) 0 g (by intro i; simp [bitsXor])
    (by simpa using Nat.lt_two_pow_self.trans_le (Nat.pow_le_pow_right (by decide) (Nat.le_succ g)))
  apply Nat.eq_of_testBit_eq
  intro i
  rw [testBit_toGray]
  have h1 := hbits i
  have h2 := hbits (i+1)
  simp only [Nat.shiftRight_zero] at h1 h2
  unfold fromGray
  rw [h1, h2, bitsXor_tail g i T hT]



theorem toGray_bit (b : Bool) (n : Nat) :
    toGray (Nat.bit b n) = Nat.bit (xor b (n.testBit 0)) (toGray n) := by
  apply Nat.eq_of_testBit_eq
  intro i
  unfold toGray
  cases i with
  | zero =>
    simp only [Nat.testBit_xor, Nat.testBit_shiftRight, Nat.testBit_bit_zero]
    simp [Nat.testBit_bit_succ]
  | succ i =>
    simp only [Nat.testBit_xor, Nat.testBit_shiftRight, Nat.testBit_bit_succ]
    have : 1 + (i + 1) = (i + 1) + 1 := by ring
    rw [this, Nat.testBit_bit_succ]
    simp [Nat.add_comm]

theorem toGray_zero : toGray 0 = 0 := by simp [toGray]

theorem toGray_injective : ∀ a b : Nat, toGray a = toGray b → a = b := by
  intro a
  induction a using Nat.binaryRec with
  | zero =>
    intro b h
    induction b using Nat.binaryRec with
    | zero => rfl
    | bit bb b ihb =>
      rw [toGray_zero, toGray_bit] at h
      have h' := h.symm
      rw [Nat.bit_eq_zero_iff] at h'
      have hb0 : b = 0 := (ihb (by rw [toGray_zero]; exact h'.1.symm)).symm
      subst hb0
      simp at h'
      simp [h']
  | bit ba a iha =>
    intro b h
    induction b using Nat.binaryRec with
    | zero =>
      rw [toGray_zero, toGray_bit, Nat.bit_eq_zero_iff] at h
      have ha0 : a = 0 := iha 0 (by rw [toGray_zero]; exact h.1)
      subst ha0
      simp at h
      simp [h]
    | bit bb b _ =>
      rw [toGray_bit, toGray_bit] at h
      have h1 : (ba ^^ a.testBit 0) = (bb ^^ b.testBit 0) := by
        have := congrArg (fun x => x.testBit 0) h
        simp only [Nat.testBit_bit_zero] at this
        exact this
      have h2 : toGray a = toGray b := by
        apply Nat.eq_of_testBit_eq; intro i
        have := congrArg (fun x => x.testBit (i + 1)) h
        simpa [Nat.testBit_bit_succ] using this
      have hab : a = b := iha b h2
      subst hab
      have : ba = bb := by
        cases ba <;> cases bb <;> cases a.testBit 0 <;> simp_all
      rw [this]

/-- n xor (n+1) is a block of ones: 2^(j+1) - 1 -/
theorem xor_succ (n : Nat) : ∃ j, n ^^^ (n + 1) = 2 ^ (j + 1) - 1 := by
  induction n using Nat.binaryRec with
  | zero => exact ⟨0, by decide⟩
  | bit b n ih =>
    cases b with
    | false =>
      refine ⟨0, ?_⟩
      have : Nat.bit false n + 1 = Nat.bit true n := by simp [Nat.bit_val]
      rw [this, Nat.xor_bit]; simp [Nat.bit_val]
    | true =>
      obtain ⟨j, hj⟩ := ih
      refine ⟨j + 1, ?_⟩
      have : Nat.bit true n + 1 = Nat.bit false (n + 1) := by simp [Nat.bit_val]; ring
      rw [this, Nat.xor_bit, hj]
      simp only [Bool.true_bne, Bool.not_false, Nat.bit_val]
      have hp : 1 ≤ 2 ^ (j + 1) := Nat.one_le_two_pow
      have : 2 ^ (j + 1 + 1) = 2 * 2 ^ (j + 1) := by ring
      simp; omega

/-- Gray images of consecutive integers differ in exactly one bit (a power of two) -/
theorem gray_adjacent (n : Nat) : ∃ j, toGray n ^^^ toGray (n + 1) = 2 ^ j := by
  obtain ⟨j, hj⟩ := xor_succ n
  refine ⟨j, ?_⟩
  unfold toGray
  have e : (n ^^^ n >>> 1) ^^^ ((n + 1) ^^^ (n + 1) >>> 1) = (n ^^^ (n + 1)) ^^^ ((n ^^^ (n + 1)) >>> 1) := by
    apply Nat.eq_of_testBit_eq; intro i
    simp only [Nat.testBit_xor, Nat.testBit_shiftRight]
    cases n.testBit i <;> cases n.testBit (1 + i) <;> cases (n+1).testBit i <;> cases (n+1).testBit (1+i) <;> rfl
  rw [e, hj]
  -- (2^(j+1) - 1) xor (2^j - 1) = 2^j
  apply Nat.eq_of_testBit_eq; intro i
  rw [Nat.testBit_xor, Nat.testBit_shiftRight, Nat.testBit_two_pow_sub_one, Nat.testBit_two_pow_sub_one,
    Nat.testBit_two_pow]
  by_cases h1 : i < j
  · have : 1 + i < j + 1 := by omega
    have : i < j + 1 := by omega
    have : j ≠ i := by omega
    simp [*]
  · by_cases h2 : i = j
    · subst h2; simp; omega
    · have : ¬ i < j + 1 := by omega
      have : ¬ 1 + i < j + 1 := by omega
      have : j ≠ i := fun h => h2 h.symm
      simp [*]


end Gray
