import Proofs.Modem
import Mathlib.Tactic.Linarith
import Mathlib.Tactic.Positivity
/-! `torch.argmin` over squared distances: the scan returns a minimiser, and returns `i` itself at
the `i`-th constellation point when the points are pairwise distinct. -/
open Kaira.Modem

namespace NearestProofs

theorem dist2_nonneg (p : Pt) (x y : Int) : 0 ≤ dist2 p x y := by
  unfold dist2; nlinarith [mul_self_nonneg (p.re - x), mul_self_nonneg (p.im - y)]

theorem dist2_eq_zero (p : Pt) (x y : Int) : dist2 p x y = 0 ↔ (p.re = x ∧ p.im = y) := by
  unfold dist2
  constructor
  · intro h
    have h1 := mul_self_nonneg (p.re - x)
    have h2 := mul_self_nonneg (p.im - y)
    have e1 : (p.re - x) * (p.re - x) = 0 := by nlinarith
    have e2 : (p.im - y) * (p.im - y) = 0 := by nlinarith
    exact ⟨by have := mul_self_eq_zero.mp e1; omega, by have := mul_self_eq_zero.mp e2; omega⟩
  · rintro ⟨rfl, rfl⟩; simp

/-- general specification of the scan: the result is `best` or an index of `ps`, and its distance
is ≤ every distance seen -/
theorem nearestFrom_min (x y : Int) : ∀ (ps : List Pt) (i best : Nat) (bd : Int) (all : List Pt),
    (∀ (j : Nat) (p : Pt), ps[j]? = some p → all[i + j]? = some p) →
    (∃ pb, all[best]? = some pb ∧ dist2 pb x y = bd) →
    ∃ pr, all[nearestFrom x y ps i best bd]? = some pr ∧ dist2 pr x y ≤ bd ∧
      ∀ (j : Nat) (p : Pt), ps[j]? = some p → dist2 pr x y ≤ dist2 p x y
  | [], i, best, bd, all, _, ⟨pb, hb1, hb2⟩ => by
    refine ⟨pb, by simpa [nearestFrom] using hb1, by omega, ?_⟩
    intro j p hp; simp at hp
  | q :: qs, i, best, bd, all, hall, ⟨pb, hb1, hb2⟩ => by
    simp only [nearestFrom]
    have hq : all[i]? = some q := by simpa using hall 0 q (by simp)
    have hrest : ∀ (j : Nat) (p : Pt), qs[j]? = some p → all[i + 1 + j]? = some p := by
      intro j p hp
      have := hall (j + 1) p (by simpa using hp)
      rwa [show i + (j + 1) = i + 1 + j by omega] at this
    split
    · next hlt =>
      obtain ⟨pr, h1, h2, h3⟩ := nearestFrom_min x y qs (i + 1) i (dist2 q x y) all hrest ⟨q, hq, rfl⟩
      refine ⟨pr, h1, by omega, ?_⟩
      intro j p hp
      cases j with
      | zero => simp at hp; subst hp; exact h2
      | succ j => exact h3 j p (by simpa using hp)
    · next hge =>
      obtain ⟨pr, h1, h2, h3⟩ := nearestFrom_min x y qs (i + 1) best bd all hrest ⟨pb, hb1, hb2⟩
      refine ⟨pr, h1, h2, ?_⟩
      intro j p hp
      cases j with
      | zero => simp at hp; subst hp; omega
      | succ j => exact h3 j p (by simpa using hp)

/-- **hard decision = a constellation point at minimum Euclidean distance**, for every received point -/
theorem nearest_is_min (t : Table) (x y : Int) (hne : t.pts ≠ []) :
    ∃ pr, t.pts[nearestIdx t x y]? = some pr ∧ ∀ p ∈ t.pts, dist2 pr x y ≤ dist2 p x y := by
  unfold nearestIdx
  cases hp : t.pts with
  | nil => exact absurd hp hne
  | cons p0 ps =>
    simp only []
    obtain ⟨pr, h1, h2, h3⟩ := nearestFrom_min x y ps 1 0 (dist2 p0 x y) (p0 :: ps)
      (fun j p hj => by simpa [Nat.add_comm] using hj) ⟨p0, by simp, rfl⟩
    refine ⟨pr, h1, ?_⟩
    intro p hp'
    rcases List.mem_cons.mp hp' with rfl | hp'
    · exact h2
    · obtain ⟨j, hj, rfl⟩ := List.getElem_of_mem hp'
      exact h3 j _ (by simp [hj])

/-- at the `i`-th point itself the decision is `i`, when the points are pairwise distinct -/
theorem nearest_self (t : Table) (i : Nat) (p : Pt) (hi : t.pts[i]? = some p)
    (hd : t.pts.Pairwise (fun a b => ¬ (a.re = b.re ∧ a.im = b.im))) :
    nearestIdx t p.re p.im = i := by
  have hne : t.pts ≠ [] := by intro h; rw [h] at hi; simp at hi
  obtain ⟨pr, h1, h2⟩ := nearest_is_min t p.re p.im hne
  have hmem : p ∈ t.pts := List.mem_of_getElem? hi
  have h0 : dist2 pr p.re p.im ≤ 0 := by
    have := h2 p hmem
    rwa [(dist2_eq_zero p p.re p.im).mpr ⟨rfl, rfl⟩] at this
  have hz : dist2 pr p.re p.im = 0 := le_antisymm h0 (dist2_nonneg _ _ _)
  have hco := (dist2_eq_zero pr p.re p.im).mp hz
  -- two indices carrying coordinate-equal points must coincide
  by_contra hne'
  have hlt1 : nearestIdx t p.re p.im < t.pts.length := (List.getElem?_eq_some_iff.mp h1).1
  have hlt2 : i < t.pts.length := (List.getElem?_eq_some_iff.mp hi).1
  have e1 : t.pts[nearestIdx t p.re p.im] = pr := (List.getElem?_eq_some_iff.mp h1).2
  have e2 : t.pts[i] = p := (List.getElem?_eq_some_iff.mp hi).2
  rcases Nat.lt_or_gt_of_ne hne' with hlt | hgt
  · have := List.pairwise_iff_getElem.mp hd _ _ hlt1 hlt2 hlt
    rw [e1, e2] at this
    exact this hco
  · have := List.pairwise_iff_getElem.mp hd _ _ hlt2 hlt1 hgt
    rw [e1, e2] at this
    exact this ⟨hco.1.symm, hco.2.symm⟩

end NearestProofs
