import Kaira.Decoders
import Proofs.Dist
/-! Hamming weight on masks, the nearest-codeword argument, and the brute-force ML search. -/
open Kaira.Codes Kaira.Dist Kaira.Decoders CodesProofs

namespace DecProofs

theorem weight_xor_le (n a b : Nat) : weight n (a ^^^ b) ≤ weight n a + weight n b := by
  induction n with
  | zero => simp [weight]
  | succ n ih =>
    simp only [weight, Nat.testBit_xor]
    cases a.testBit n <;> cases b.testBit n <;> simp <;> omega

theorem xor_cancel_left (a e : Nat) : a ^^^ (a ^^^ e) = e := by
  rw [← Nat.xor_assoc, Nat.xor_self, Nat.zero_xor]

theorem xor_mid (a x b : Nat) : a ^^^ b = (a ^^^ x) ^^^ (x ^^^ b) := by
  apply Nat.eq_of_testBit_eq; intro t
  simp only [Nat.testBit_xor]
  cases a.testBit t <;> cases x.testBit t <;> cases b.testBit t <;> rfl

theorem weight_xor_comm (n a b : Nat) : weight n (a ^^^ b) = weight n (b ^^^ a) := by rw [Nat.xor_comm]

/-- **a nearest-codeword decoder corrects every error pattern of weight ≤ t when 2t < d** —
any generator matrix, any decoder function, any length -/
theorem nearest_decoder_corrects (G : List Nat) (n k d t : Nat) (dec : Nat → Nat)
    (hrange : ∀ x, dec x < 2 ^ k)
    (hnear : ∀ x m', m' < 2 ^ k → weight n (x ^^^ encode G (dec x)) ≤ weight n (x ^^^ encode G m'))
    (hd : ∀ m, m ≠ 0 → m < 2 ^ k → d ≤ weight n (encode G m))
    (ht : 2 * t < d) (m e : Nat) (hm : m < 2 ^ k) (he : weight n e ≤ t) :
    dec (encode G m ^^^ e) = m := by
  by_contra hne
  set x := encode G m ^^^ e with hx
  have h1 : weight n (x ^^^ encode G m) = weight n e := by
    rw [hx, Nat.xor_comm, xor_cancel_left]
  have h2 := hnear x m hm
  have hdiff : dec x ^^^ m ≠ 0 := fun h0 => hne (Nat.xor_eq_zero_iff.mp h0)
  have hlt : dec x ^^^ m < 2 ^ k := Nat.xor_lt_two_pow (hrange x) hm
  have h3 := hd _ hdiff hlt
  rw [encode_xor] at h3
  have h4 : weight n (encode G (dec x) ^^^ encode G m) ≤
      weight n (encode G (dec x) ^^^ x) + weight n (x ^^^ encode G m) := by
    rw [xor_mid (encode G (dec x)) x (encode G m)]; exact weight_xor_le n _ _
  rw [weight_xor_comm n (encode G (dec x)) x] at h4
  omega

/-! ### the brute-force search returns a minimiser over the whole codebook -/
theorem mlLoop_spec (G : List Nat) (n k x : Nat) : ∀ (f i best bd : Nat),
    best < i → bd = weight n (x ^^^ encode G (mlMessage k best)) →
    (∀ j, j < i → bd ≤ weight n (x ^^^ encode G (mlMessage k j))) →
    mlLoop G n k x f i best bd < i + f ∧
    ∀ j, j < i + f → weight n (x ^^^ encode G (mlMessage k (mlLoop G n k x f i best bd))) ≤
      weight n (x ^^^ encode G (mlMessage k j))
  | 0, i, best, bd, hb, hbd, hmin => by
    simp only [mlLoop, Nat.add_zero]
    exact ⟨hb, fun j hj => by rw [← hbd]; exact hmin j hj⟩
  | f+1, i, best, bd, hb, hbd, hmin => by
    simp only [mlLoop]
    split
    · next hlt =>
      have := mlLoop_spec G n k x f (i + 1) i _ (by omega) rfl (fun j hj => by
        rcases Nat.lt_succ_iff_lt_or_eq.mp hj with h | h
        · exact Nat.le_trans (Nat.le_of_lt hlt) (hmin j h)
        · subst h; exact Nat.le_refl _)
      refine ⟨by omega, fun j hj => this.2 j (by omega)⟩
    · next hge =>
      have := mlLoop_spec G n k x f (i + 1) best bd (by omega) hbd (fun j hj => by
        rcases Nat.lt_succ_iff_lt_or_eq.mp hj with h | h
        · exact hmin j h
        · subst h; omega)
      refine ⟨by omega, fun j hj => this.2 j (by omega)⟩

theorem mlIndex_spec (G : List Nat) (n k x : Nat) :
    mlIndex G n k x < 2 ^ k ∧
    ∀ j, j < 2 ^ k → weight n (x ^^^ encode G (mlMessage k (mlIndex G n k x))) ≤
      weight n (x ^^^ encode G (mlMessage k j)) := by
  have hpos : 0 < 2 ^ k := Nat.two_pow_pos k
  have := mlLoop_spec G n k x (2 ^ k - 1) 1 0 _ (by omega) rfl (fun j hj => by
    have : j = 0 := by omega
    subst this; exact Nat.le_refl _)
  unfold mlIndex
  have e : 1 + (2 ^ k - 1) = 2 ^ k := by omega
  rw [e] at this
  exact this

/-! ### bit reversal is a bijection of the k-bit numbers -/
theorem testBit_revBits : ∀ (k x j : Nat), (revBits k x).testBit j = (decide (j < k) && x.testBit (k - 1 - j))
  | 0, x, j => by simp [revBits]
  | k+1, x, j => by
    simp only [revBits, Nat.testBit_or, testBit_revBits k (x / 2) j]
    have hb : ((x % 2) <<< k).testBit j = (decide (j = k) && x.testBit 0) := by
      rw [Nat.testBit_shiftLeft]
      by_cases hjk : j = k
      · subst hjk; simp [Nat.testBit_zero]
      · by_cases hge : k ≤ j
        · have : j - k = (j - k - 1) + 1 := by omega
          have h2 : (x % 2).testBit (j - k) = false := by
            rw [this, Nat.testBit_succ]
            have : x % 2 / 2 = 0 := by omega
            simp [this]
          simp [hge, hjk, h2]
        · simp [hge, hjk]
    rw [hb]
    by_cases hjk : j = k
    · subst hjk; simp
    · by_cases hlt : j < k
      · have e : k + 1 - 1 - j = (k - 1 - j) + 1 := by omega
        rw [e, Nat.testBit_succ]
        simp [hjk, hlt, show j < k + 1 by omega]
      · simp [hjk, hlt, show ¬ j < k + 1 by omega]

theorem revBits_lt (k x : Nat) : revBits k x < 2 ^ k := by
  apply Nat.lt_pow_two_of_testBit
  intro j hj
  rw [testBit_revBits]; simp; omega

theorem revBits_involutive (k x : Nat) (hx : x < 2 ^ k) : revBits k (revBits k x) = x := by
  apply Nat.eq_of_testBit_eq
  intro j
  rw [testBit_revBits, testBit_revBits]
  by_cases hj : j < k
  · have h1 : k - 1 - j < k := by omega
    have h2 : k - 1 - (k - 1 - j) = j := by omega
    simp [hj, h1, h2]
  · have : x < 2 ^ j := lt_of_lt_of_le hx (Nat.pow_le_pow_right (by decide) (by omega))
    simp [hj, Nat.testBit_lt_two_pow this]

/-- **the brute-force ML decoder returns, for every received word whatsoever, a message whose
codeword is at minimum Hamming distance** -/
theorem ml_is_nearest (G : List Nat) (n k x : Nat) :
    mlDecode G n k x < 2 ^ k ∧
    ∀ m', m' < 2 ^ k → weight n (x ^^^ encode G (mlDecode G n k x)) ≤ weight n (x ^^^ encode G m') := by
  obtain ⟨_, h2⟩ := mlIndex_spec G n k x
  refine ⟨revBits_lt k _, fun m' hm' => ?_⟩
  have := h2 (revBits k m') (revBits_lt k m')
  unfold mlMessage at this
  rw [revBits_involutive k m' hm'] at this
  exact this

end DecProofs
