import Proofs.Nearest
import Mathlib.Tactic.FieldSimp
import Mathlib.Tactic.Ring
import Mathlib.Algebra.Order.Field.Rat
/-! Max-log LLR: sign agrees with the nearest-point decision, scales inversely with the variance. -/
open Kaira.Modem NearestProofs

namespace MaxLogProofs

theorem minDist_spec (x y : Int) (v : Bool) (b k : Nat) : ∀ (pts : List Pt) (m : Int),
    minDist x y v b k pts = some m →
    (∃ p ∈ pts, labBit b p.lab k = v ∧ dist2 p x y = m) ∧
    ∀ p ∈ pts, labBit b p.lab k = v → m ≤ dist2 p x y
  | [], m, h => by simp [minDist] at h
  | p :: ps, m, h => by
    simp only [minDist] at h
    by_cases hp : labBit b p.lab k = v
    · simp only [hp, if_true] at h
      cases hr : minDist x y v b k ps with
      | none =>
        rw [hr] at h
        simp only [Option.some.injEq] at h
        subst h
        refine ⟨⟨p, by simp, hp, rfl⟩, ?_⟩
        intro q hq hqv
        rcases List.mem_cons.mp hq with rfl | hq
        · exact le_refl _
        · -- no element of the class in ps
          exfalso
          have : ∀ (l : List Pt), minDist x y v b k l = none → ∀ q ∈ l, labBit b q.lab k ≠ v := by
            intro l
            induction l with
            | nil => intro _ q hq; simp at hq
            | cons a l ih =>
              intro hnone q hq
              simp only [minDist] at hnone
              by_cases ha : labBit b a.lab k = v
              · simp only [ha, if_true] at hnone
                cases hl : minDist x y v b k l <;> simp [hl] at hnone
              · simp only [ha, if_false] at hnone
                rcases List.mem_cons.mp hq with rfl | hq
                · exact ha
                · exact ih hnone q hq
          exact this ps hr q hq hqv
      | some r =>
        rw [hr] at h
        simp only [Option.some.injEq] at h
        obtain ⟨⟨q, hq, hqv, hqd⟩, hmin⟩ := minDist_spec x y v b k ps r hr
        by_cases hlt : dist2 p x y < r
        · simp only [hlt, if_true] at h
          subst h
          refine ⟨⟨p, by simp, hp, rfl⟩, ?_⟩
          intro q' hq' hq'v
          rcases List.mem_cons.mp hq' with rfl | hq'
          · exact le_refl _
          · exact le_trans (le_of_lt hlt) (hmin q' hq' hq'v)
        · simp only [hlt, if_false] at h
          subst h
          refine ⟨⟨q, by simp [hq], hqv, hqd⟩, ?_⟩
          intro q' hq' hq'v
          rcases List.mem_cons.mp hq' with rfl | hq'
          · omega
          · exact hmin q' hq' hq'v
    · simp only [hp, if_false] at h
      obtain ⟨⟨q, hq, hqv, hqd⟩, hmin⟩ := minDist_spec x y v b k ps m h
      refine ⟨⟨q, by simp [hq], hqv, hqd⟩, ?_⟩
      intro q' hq' hq'v
      rcases List.mem_cons.mp hq' with rfl | hq'
      · exact absurd hq'v hp
      · exact hmin q' hq' hq'v

/-- **sign**: if the nearest point's label has bit `k` equal to 0 the max-log LLR is ≥ 0, if it is 1
the LLR is ≤ 0 — for every table, every received point, every positive scale and variance -/
theorem llr_sign (t : Table) (c s2 nv : Rat) (hc : 0 < c) (hs : 0 < s2) (hnv : 0 < nv) (k : Nat) (x y : Int)
    (pr : Pt) (hpr : pr ∈ t.pts) (hmin : ∀ p ∈ t.pts, dist2 pr x y ≤ dist2 p x y) (L : Rat)
    (hL : llr t c s2 k x y nv = some L) :
    (labBit t.b pr.lab k = false → 0 ≤ L) ∧ (labBit t.b pr.lab k = true → L ≤ 0) := by
  unfold llr at hL
  cases h1 : minDist x y true t.b k t.pts with
  | none => simp [h1] at hL
  | some d1 =>
    cases h0 : minDist x y false t.b k t.pts with
    | none => simp [h1, h0] at hL
    | some d0 =>
      simp only [h1, h0, Option.some.injEq] at hL
      obtain ⟨⟨p1, hp1, _, hd1⟩, hm1⟩ := minDist_spec x y true t.b k t.pts d1 h1
      obtain ⟨⟨p0, hp0, _, hd0⟩, hm0⟩ := minDist_spec x y false t.b k t.pts d0 h0
      have hden : 0 < s2 * nv := mul_pos hs hnv
      constructor
      · intro hb
        have : d0 ≤ d1 := by
          have a := hm0 pr hpr hb
          have b' := hmin p1 hp1
          omega
        rw [← hL]
        apply div_nonneg _ (le_of_lt hden)
        apply mul_nonneg (le_of_lt hc)
        have : (0 : Int) ≤ d1 - d0 := by omega
        exact_mod_cast this
      · intro hb
        have : d1 ≤ d0 := by
          have a := hm1 pr hpr hb
          have b' := hmin p0 hp0
          omega
        rw [← hL]
        apply div_nonpos_of_nonpos_of_nonneg _ (le_of_lt hden)
        apply mul_nonpos_of_nonneg_of_nonpos (le_of_lt hc)
        have : (d1 - d0 : Int) ≤ 0 := by omega
        exact_mod_cast this

/-- **scale**: multiplying the noise variance by `a > 0` divides the LLR by `a` -/
theorem llr_scale (t : Table) (c s2 nv a : Rat) (ha : 0 < a) (hs : 0 < s2) (hnv : 0 < nv) (k : Nat) (x y : Int)
    (L : Rat) (hL : llr t c s2 k x y nv = some L) : llr t c s2 k x y (a * nv) = some (L / a) := by
  unfold llr at hL ⊢
  cases h1 : minDist x y true t.b k t.pts with
  | none => simp [h1] at hL
  | some d1 =>
    cases h0 : minDist x y false t.b k t.pts with
    | none => simp [h1, h0] at hL
    | some d0 =>
      simp only [h1, h0, Option.some.injEq] at hL ⊢
      rw [← hL]
      field_simp

end MaxLogProofs
