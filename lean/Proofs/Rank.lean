import Kaira.Polar
import Mathlib.Data.List.Perm.Basic
import Mathlib.Data.List.Range
import Mathlib.Data.List.Perm.Subperm
import Mathlib.Data.List.Nodup
import Mathlib.Tactic.Linarith
open Kaira.Polar List

namespace Rank

/-- every bit set in the OR of `1 <<< r` over a list comes from the start value or from an entry -/
theorem mem_of_testBit : ∀ (l : List Nat) (m0 i : Nat),
    (l.foldl (fun m r => m ||| (1 <<< r)) m0).testBit i = true → m0.testBit i = true ∨ i ∈ l
  | [], m0, i, h => Or.inl h
  | r :: rs, m0, i, h => by
    rcases mem_of_testBit rs _ i h with h' | h'
    · rw [Nat.testBit_or, Nat.one_shiftLeft, Nat.testBit_two_pow, Bool.or_eq_true] at h'
      rcases h' with h' | h'
      · exact Or.inl h'
      · right; simp at h'; simp [h']
    · right; simp [h']

/-- the mask certificate: length M, OR-mask all ones ⇒ the list is a permutation of 0..M-1 -/
theorem perm_of_mask (rank : List Nat) (M : Nat) (hl : rank.length = M)
    (hm : rank.foldl (fun m r => m ||| (1 <<< r)) 0 = 2 ^ M - 1) : rank.Perm (List.range M) := by
  have hsub : List.range M ⊆ rank := by
    intro i hi
    have hi' : i < M := List.mem_range.mp hi
    have : (rank.foldl (fun m r => m ||| (1 <<< r)) 0).testBit i = true := by
      rw [hm, Nat.testBit_two_pow_sub_one]; simpa using hi'
    rcases mem_of_testBit rank 0 i this with h | h
    · simp at h
    · exact h
  have hsp : List.range M <+~ rank := List.Nodup.subperm List.nodup_range hsub
  exact (hsp.perm_of_length_le (by simp [hl])).symm

/-- **exactly K information positions** for every ranking that is a permutation of 0..M-1, every
N ≤ M and every K ≤ N -/
theorem info_set_card (rank : List Nat) (M N K : Nat) (hp : rank.Perm (List.range M)) (hN : N ≤ M) (hK : K ≤ N) :
    ((infoMask rank N K).filter id).length = K := by
  have hnd : rank.Nodup := hp.nodup_iff.mpr List.nodup_range
  set L := rank.filter (· < N) with hL
  have hLnd : L.Nodup := hnd.filter _
  have hLperm : L.Perm (List.range N) := by
    refine (List.perm_ext_iff_of_nodup hLnd List.nodup_range).mpr (fun a => ?_)
    simp only [hL, List.mem_filter, List.mem_range, decide_eq_true_eq]
    constructor
    · exact fun h => h.2
    · intro h; exact ⟨hp.mem_iff.mpr (List.mem_range.mpr (lt_of_lt_of_le h hN)), h⟩
  have hLlen : L.length = N := by rw [hLperm.length_eq, List.length_range]
  set F := L.take (N - K) with hF
  have hFlen : F.length = N - K := by rw [hF, List.length_take, hLlen]; omega
  have hFnd : F.Nodup := hLnd.sublist (List.take_sublist _ _)
  have hFlt : ∀ x ∈ F, x < N := by
    intro x hx
    have := List.mem_of_mem_take hx
    simp only [hL, List.mem_filter, decide_eq_true_eq] at this
    exact this.2
  have hin : ((List.range N).filter (fun p => F.contains p)).Perm F := by
    refine (List.perm_ext_iff_of_nodup (List.nodup_range.filter _) hFnd).mpr (fun a => ?_)
    simp only [List.mem_filter, List.mem_range, List.contains_iff_mem]
    exact ⟨fun h => h.2, fun h => ⟨hFlt a h, h⟩⟩
  have hsplit := List.length_eq_length_filter_add (l := List.range N) (fun p => F.contains p)
  rw [hin.length_eq, hFlen, List.length_range] at hsplit
  unfold infoMask frozenSet
  rw [List.filter_map, List.length_map]
  have : (List.filter (id ∘ fun p => !(List.take (N - K) (List.filter (fun x => decide (x < N)) rank)).contains p) (List.range N))
      = List.filter (fun x => !F.contains x) (List.range N) := rfl
  rw [this]; omega

end Rank
