import Mathlib.Algebra.Polynomial.BigOperators
import Mathlib.Algebra.Polynomial.Eval.Degree
import Mathlib.GroupTheory.OrderOfElement
import Mathlib.Algebra.Polynomial.Roots

open Polynomial Finset

namespace BCHAbs

/-- **BCH bound**, abstract form: in a commutative domain let `α` have multiplicative order `n`.  A non-empty set `S` of
exponents below `n` whose power sums `∑_{i∈S} (α^i)^j` vanish for `j = 1 … δ-1` has at least `δ` elements. -/
theorem bch_bound {R : Type*} [CommRing R] [IsDomain R] (α : R) (n δ : ℕ) (hord : orderOf α = n)
    (S : Finset ℕ) (hS : ∀ i ∈ S, i < n) (hne : S.Nonempty)
    (hroots : ∀ j, 1 ≤ j → j < δ → ∑ i ∈ S, (α ^ i) ^ j = 0) : δ ≤ S.card := by
  by_contra hlt
  push Not at hlt
  obtain ⟨i0, hi0⟩ := hne
  have hn : 0 < n := lt_of_le_of_lt (Nat.zero_le _) (hS i0 hi0)
  have hαn : α ^ n = 1 := by rw [← hord]; exact pow_orderOf_eq_one α
  have hα0 : ∀ i, α ^ i ≠ 0 := by
    intro i h0
    have : (α ^ i) ^ n = 0 := by rw [h0, zero_pow (by omega)]
    rw [← pow_mul, mul_comm, pow_mul, hαn, one_pow] at this
    exact one_ne_zero this
  have hinj : ∀ i ∈ S, ∀ j ∈ S, α ^ i = α ^ j → i = j := by
    intro i hi j hj h
    exact pow_injOn_Iio_orderOf (by simpa [hord] using hS i hi) (by simpa [hord] using hS j hj) h
  set T := S.erase i0 with hT
  set q : R[X] := ∏ i ∈ T, (X - C (α ^ i)) with hq
  have hdeg : q.natDegree = T.card := natDegree_finsetProd_X_sub_C_eq_card T _
  have hTcard : T.card + 1 = S.card := Finset.card_erase_add_one hi0
  -- Σ_{i∈S} x_i q(x_i) computed from the coefficients of q vanishes
  have hzero : ∑ i ∈ S, α ^ i * q.eval (α ^ i) = 0 := by
    have hexp : ∀ i ∈ S, α ^ i * q.eval (α ^ i) = ∑ t ∈ range S.card, q.coeff t * (α ^ i) ^ (t + 1) := by
      intro i _
      rw [eval_eq_sum_range' (show q.natDegree < S.card by omega), Finset.mul_sum]
      apply Finset.sum_congr rfl
      intro t _
      ring
    rw [Finset.sum_congr rfl hexp, Finset.sum_comm]
    apply Finset.sum_eq_zero
    intro t ht
    rw [← Finset.mul_sum, hroots (t + 1) (by omega) (by have := Finset.mem_range.mp ht; omega), mul_zero]
  -- but only the term i0 survives, and it is non-zero
  have hone : ∑ i ∈ S, α ^ i * q.eval (α ^ i) = α ^ i0 * q.eval (α ^ i0) := by
    apply Finset.sum_eq_single_of_mem i0 hi0
    intro j hj hne
    have : q.eval (α ^ j) = 0 := by
      rw [hq, eval_prod]
      apply Finset.prod_eq_zero (Finset.mem_erase.mpr ⟨hne, hj⟩)
      simp
    rw [this, mul_zero]
  have hq0 : q.eval (α ^ i0) ≠ 0 := by
    rw [hq, eval_prod]
    apply Finset.prod_ne_zero_iff.mpr
    intro j hj
    have hjS := (Finset.mem_erase.mp hj)
    simp only [eval_sub, eval_X, eval_C]
    intro h
    exact hjS.1 (hinj j hjS.2 i0 hi0 (sub_eq_zero.mp h).symm)
  rw [hone] at hzero
  exact (mul_ne_zero (hα0 i0) hq0) hzero

end BCHAbs
