import Proofs.FieldInst
import Proofs.BCHAbs
import Proofs.Codes
import Proofs.DistInfo
import Mathlib.Algebra.Polynomial.Eval.Coeff
import Mathlib.Algebra.Polynomial.Eval.Degree
import Mathlib.Data.ZMod.Basic

open Kaira GF Polynomial Finset Kaira.Codes Kaira.Dist CodesProofs

namespace BCHBound
variable {P : Nat}

/-- bits as a sum of powers -/
noncomputable def bitSum [Good P] (x : Elt P) (v n : Nat) : Elt P := ∑ i ∈ range n, if v.testBit i then x ^ i else 0

theorem bitSum_succ' [Good P] (x : Elt P) (v n : Nat) :
    bitSum x v (n + 1) = (if v.testBit 0 then (1 : Elt P) else 0) + x * bitSum x (v >>> 1) n := by
  unfold bitSum
  rw [Finset.sum_range_succ', Finset.mul_sum, add_comm]
  have h0 : (if v.testBit 0 then x ^ 0 else 0) = (if v.testBit 0 then (1 : Elt P) else 0) := by simp
  rw [h0]
  congr 1
  apply Finset.sum_congr rfl
  intro i _
  rw [Nat.testBit_shiftRight, Nat.add_comm 1 i]
  split
  · rw [pow_succ']
  · rw [mul_zero]

theorem bitSum_zero_bits [Good P] (x : Elt P) (n : Nat) : bitSum x 0 n = 0 := by
  unfold bitSum; simp

theorem evalLoop_eq [Good P] (x : Elt P) : ∀ (f v : Nat) (pw res : Elt P), bitLen v ≤ f →
    GF2m.evalLoop P x.val f v pw.val res.val = (res + pw * bitSum x v f).val
  | 0, v, pw, res, h => by
    have : v = 0 := (Bridge.bitLen_zero_iff v).mp (by omega)
    subst this
    simp [GF2m.evalLoop, bitSum]
  | f+1, v, pw, res, h => by
    simp only [GF2m.evalLoop]
    split
    · next hv => subst hv; simp [bitSum_zero_bits]
    · next hv =>
      rw [Field18.fmul_model_eq pw x]
      have hb : v.testBit 0 = decide (v % 2 = 1) := by
        rw [Nat.testBit_zero]
      have hres : (if v % 2 = 1 then res.val ^^^ pw.val else res.val) = (res + (if v.testBit 0 then pw else 0)).val := by
        by_cases h1 : v % 2 = 1
        · simp [h1, hb, val_add]
        · simp [h1, hb]
      rw [hres, evalLoop_eq x f (v >>> 1) (pw * x) _ (Bridge.bitLen_half_le v f h), bitSum_succ']
      have key : res + (if v.testBit 0 then pw else 0) + pw * x * bitSum x (v >>> 1) f =
          res + pw * ((if v.testBit 0 then (1 : Elt P) else 0) + x * bitSum x (v >>> 1) f) := by
        split
        · rw [mul_add, mul_one, mul_assoc, add_assoc]
        · rw [add_zero, zero_add, mul_assoc]
      rw [key]

theorem evalAt_eq [Good P] (x : Elt P) (p : Nat) : GF2m.evalAt P p x.val = (bitSum x p (bitLen p)).val := by
  unfold GF2m.evalAt
  split
  · next h => subst h; simp [bitSum_zero_bits, val_zero]
  · have h1 : (1 : Elt P).val = 1 := rfl
    have h0 : (0 : Elt P).val = 0 := rfl
    have := evalLoop_eq x (bitLen p) p 1 0 (le_refl _)
    rw [h1, h0] at this
    rw [this]; simp

theorem bitSum_extend [Good P] (x : Elt P) (p n : Nat) (hn : bitLen p ≤ n) :
    bitSum x p n = bitSum x p (bitLen p) := by
  unfold bitSum
  symm
  apply Finset.sum_subset (by simpa using hn)
  intro i _ hi
  have hi' : bitLen p ≤ i := by simpa using hi
  have : p < 2 ^ i := by
    rw [_root_.bitLen_eq_size] at hi'
    exact Nat.size_le.mp hi'
  simp [Nat.testBit_lt_two_pow this]

/-- the evaluation homomorphism `(ZMod 2)[X] → GF(2^m)` at `x` -/
noncomputable def phi [Good P] (x : Elt P) : (ZMod 2)[X] →+* Elt P :=
  eval₂RingHom (ZMod.castHom (dvd_refl 2) (Elt P)) x

theorem phi_toPoly [Good P] (x : Elt P) (p n : Nat) (hp : p < 2 ^ n) : phi x (toPoly p) = bitSum x p n := by
  unfold phi bitSum
  rw [coe_eval₂RingHom]
  have hdeg : (toPoly p).natDegree < n ∨ n = 0 := by
    rcases Nat.eq_zero_or_pos n with h | h
    · exact Or.inr h
    · left
      have := degree_toPoly_lt p n hp
      rcases eq_or_ne (toPoly p) 0 with h0 | h0
      · rw [h0]; simpa using h
      · exact (natDegree_lt_iff_degree_lt h0).mpr this
  rcases hdeg with h | h
  · rw [eval₂_eq_sum_range' _ h]
    apply Finset.sum_congr rfl
    intro i _
    rw [coeff_toPoly]
    split <;> simp
  · subst h
    have : p = 0 := by omega
    subst this
    simp

end BCHBound

namespace BCHBound
open BCHAbs

/-- the checker the kernel evaluates on every regenerated BCH instance: the modulus is primitive, the length is `2^m - 1`,
the generator matrix has a right inverse (so encoding is injective), every generator row is a multiple of the generator
polynomial, and the generator polynomial vanishes at `α, α², …, α^(δ-1)` (α = the class of X) -/
def bchOk (c : BchInst) : Bool :=
  Field18.primCheck c.m c.P && decide (2 ≤ c.m) && decide (c.m ≤ 16) && c.n == 2 ^ c.m - 1 && c.G.length == c.k &&
  c.G.all (· < 2 ^ c.n) && unitRows c.G c.R && decide (0 < c.gpoly) && c.G.all (fun g => Poly2.mod g c.gpoly == 0) &&
  (List.range' 1 (c.delta - 1)).all (fun j => GF2m.evalAt c.P c.gpoly (GF2m.fpow c.P 2 j) == 0)

theorem dvd_encodeFrom (g : Nat) : ∀ (G : List Nat) (i m : Nat), (∀ r ∈ G, toPoly g ∣ toPoly r) →
    toPoly g ∣ toPoly (encodeFrom G i m)
  | [], _, _, _ => by simp [encodeFrom]
  | r :: rs, i, m, h => by
    simp only [encodeFrom, toPoly_xor]
    apply dvd_add
    · split
      · exact h r (by simp)
      · simp
    · exact dvd_encodeFrom g rs (i + 1) m (fun r' hr' => h r' (by simp [hr']))

theorem card_support : ∀ (n x : Nat), ((range n).filter (fun i => x.testBit i = true)).card = weight n x
  | 0, _ => rfl
  | n+1, x => by
    rw [Finset.range_add_one, Finset.filter_insert, weight]
    by_cases hb : x.testBit n = true
    · rw [if_pos hb, Finset.card_insert_of_notMem (by simp), card_support n x, if_pos hb]
    · rw [if_neg hb, card_support n x, if_neg hb, Nat.add_zero]

/-! ### facts a successful check provides -/
structure OkFacts (c : BchInst) : Prop where
  prim : Field18.primCheck c.m c.P = true
  m2 : 2 ≤ c.m
  m16 : c.m ≤ 16
  hn : c.n = 2 ^ c.m - 1
  hGl : c.G.length = c.k
  hGlt : ∀ g ∈ c.G, g < 2 ^ c.n
  hunit : unitRows c.G c.R = true
  hg0 : 0 < c.gpoly
  hrows : ∀ g ∈ c.G, Poly2.mod g c.gpoly = 0
  hroots : ∀ j ∈ List.range' 1 (c.delta - 1), GF2m.evalAt c.P c.gpoly (GF2m.fpow c.P 2 j) = 0

theorem facts_of_ok (c : BchInst) (h : bchOk c = true) : OkFacts c := by
  unfold bchOk at h
  simp only [Bool.and_eq_true, decide_eq_true_eq, beq_iff_eq, List.all_eq_true] at h
  obtain ⟨⟨⟨⟨⟨⟨⟨⟨⟨hprim, hm2⟩, hm16⟩, hn⟩, hGl⟩, hGlt⟩, hunit⟩, hg0⟩, hrows⟩, hroots⟩ := h
  exact ⟨hprim, hm2, hm16, hn, hGl, fun g hg => by simpa using hGlt g hg, hunit, hg0, hrows, hroots⟩

theorem OkFacts.hP {c : BchInst} (f : OkFacts c) : bitLen c.P = c.m + 1 := by
  have := f.prim
  unfold Field18.primCheck at this
  simp only [Bool.and_eq_true, beq_iff_eq] at this
  exact this.1

theorem OkFacts.good {c : BchInst} (f : OkFacts c) : Good c.P := Field18.good_of_check (by have := f.m2; omega) f.hP

theorem OkFacts.two_short {c : BchInst} (f : OkFacts c) : Nat.size 2 < Nat.size c.P :=
  (Field18.short_iff f.hP).mpr (by
    calc 2 = 2 ^ 1 := rfl
      _ < 2 ^ c.m := Nat.pow_lt_pow_right (by decide) (by have := f.m2; omega))

/-- the class of `X` -/
def alpha {c : BchInst} (f : OkFacts c) : Elt c.P := ⟨2, f.two_short⟩

theorem OkFacts.order {c : BchInst} (f : OkFacts c) [Good c.P] : orderOf (alpha f) = c.n := by
  have hmem : c.m ∈ List.range' 1 16 := by
    simp only [List.mem_range'_1]; have := f.m2; have := f.m16; omega
  rw [f.hn]
  exact Field18.order_of_check hmem f.m2 f.prim f.hP (alpha f) rfl

theorem OkFacts.noZeroDivisors {c : BchInst} (f : OkFacts c) [Good c.P] : NoZeroDivisors (Elt c.P) := by
  have hm2 := f.m2
  have hN : 0 < 2 ^ c.m - 1 := by
    have : 2 ^ 2 ≤ 2 ^ c.m := Nat.pow_le_pow_right (by decide) hm2
    omega
  have hcard : Fintype.card (Elt c.P) = (2 ^ c.m - 1) + 1 := by
    rw [card_elt, ← bitLen_eq_size, f.hP]
    have : 0 < 2 ^ c.m := Nat.two_pow_pos c.m
    simp only [Nat.add_sub_cancel]; omega
  have hord := f.order
  rw [f.hn] at hord
  exact ⟨by
    intro a b hab
    by_contra hne
    push Not at hne
    have hinv := Prim.inverse_exists (alpha f) (2 ^ c.m - 1) hN hcard hord a hne.1
    have : b = 0 := by
      calc b = (a * a ^ (2 ^ c.m - 1 - 1)) * b := by rw [hinv, one_mul]
        _ = a ^ (2 ^ c.m - 1 - 1) * (a * b) := by rw [mul_comm a, mul_assoc]
        _ = 0 := by rw [hab, mul_zero]
    exact hne.2 this⟩

theorem OkFacts.codeword_lt {c : BchInst} (f : OkFacts c) (msg : Nat) : encode c.G msg < 2 ^ c.n :=
  encodeFrom_lt c.G 0 msg c.n f.hGlt

theorem OkFacts.codeword_ne_zero {c : BchInst} (f : OkFacts c) (msg : Nat) (h0 : msg ≠ 0) (hm : msg < 2 ^ c.k) :
    encode c.G msg ≠ 0 := by
  intro hz
  have := roundtrip c.G c.R f.hunit msg (by rwa [f.hGl])
  rw [hz, encode_zero] at this
  exact h0 this.symm

/-- every code word vanishes at `α, α², …, α^(δ-1)` -/
theorem OkFacts.codeword_roots {c : BchInst} (f : OkFacts c) [Good c.P] (msg j : Nat) (h1 : 1 ≤ j) (h2 : j < c.delta) :
    bitSum (alpha f ^ j) (encode c.G msg) c.n = 0 := by
  have hdvd : toPoly c.gpoly ∣ toPoly (encode c.G msg) := by
    apply dvd_encodeFrom
    intro r hr
    have := f.hrows r hr
    rw [Bridge.mod_eq_pmod] at this
    have sp := (DM.pmod_spec r c.gpoly f.hg0).2
    rw [this, Nat.xor_zero] at sp
    exact dvd_of_mult _ _ sp
  have hev := f.hroots j (by simp only [List.mem_range'_1]; omega)
  have e : GF2m.fpow c.P 2 j = (alpha f ^ j).val := Field18.fpow_model_eq (alpha f) j
  rw [e, evalAt_eq] at hev
  have hg : phi (alpha f ^ j) (toPoly c.gpoly) = 0 := by
    rw [phi_toPoly (alpha f ^ j) c.gpoly (bitLen c.gpoly) (by rw [bitLen_eq_size]; exact Nat.lt_size_self _)]
    exact Subtype.ext hev
  obtain ⟨q, hq⟩ := hdvd
  rw [← phi_toPoly (alpha f ^ j) _ c.n (f.codeword_lt msg), hq, map_mul, hg, zero_mul]

/-- the same at the level of the model's own `evaluate`: `c(α^j) = 0` -/
theorem OkFacts.codeword_evalAt {c : BchInst} (f : OkFacts c) (msg j : Nat) (h1 : 1 ≤ j) (h2 : j < c.delta) :
    GF2m.evalAt c.P (encode c.G msg) (GF2m.fpow c.P 2 j) = 0 := by
  have := f.good
  have e : GF2m.fpow c.P 2 j = (alpha f ^ j).val := Field18.fpow_model_eq (alpha f) j
  have hb : bitLen (encode c.G msg) ≤ c.n := by
    rw [bitLen_eq_size]; exact Nat.size_le.mpr (f.codeword_lt msg)
  rw [e, evalAt_eq, ← bitSum_extend _ _ c.n hb, f.codeword_roots msg j h1 h2]
  rfl

/-- **BCH bound for the regenerated instances**: every non-zero code word has at least `δ` ones -/
theorem bch_min_distance (c : BchInst) (h : bchOk c = true) (msg : Nat) (h0 : msg ≠ 0) (hm : msg < 2 ^ c.k) :
    c.delta ≤ weight c.n (encode c.G msg) := by
  have f := facts_of_ok c h
  have := f.good
  have := f.noZeroDivisors
  have : IsDomain (Elt c.P) := NoZeroDivisors.to_isDomain _
  set cw := encode c.G msg with hcw
  have hcwlt : cw < 2 ^ c.n := f.codeword_lt msg
  have hcw0 : cw ≠ 0 := f.codeword_ne_zero msg h0 hm
  set S := (range c.n).filter (fun i => cw.testBit i = true) with hS
  have hSne : S.Nonempty := by
    obtain ⟨i, hi⟩ := Nat.exists_testBit_of_ne_zero hcw0
    refine ⟨i, Finset.mem_filter.mpr ⟨Finset.mem_range.mpr ?_, hi⟩⟩
    by_contra hge
    have : cw < 2 ^ i := lt_of_lt_of_le hcwlt (Nat.pow_le_pow_right (by decide) (by omega))
    rw [Nat.testBit_lt_two_pow this] at hi
    cases hi
  have hsum : ∀ j, 1 ≤ j → j < c.delta → ∑ i ∈ S, (alpha f ^ i) ^ j = 0 := by
    intro j h1 h2
    have := f.codeword_roots msg j h1 h2
    unfold bitSum at this
    rw [← Finset.sum_filter] at this
    rw [← this]
    apply Finset.sum_congr rfl
    intro i _
    rw [← pow_mul, ← pow_mul, mul_comm]
  have := bch_bound (alpha f) c.n c.delta f.order S (fun i hi => Finset.mem_range.mp (Finset.mem_filter.mp hi).1) hSne hsum
  rwa [hS, card_support] at this

end BCHBound
