import Proofs.FieldInst
import Proofs.BCHAbs
import Proofs.Codes
import Proofs.DistInfo
import Mathlib.Algebra.Polynomial.Eval.Coeff
import Mathlib.Algebra.Polynomial.Eval.Degree
import Mathlib.Data.ZMod.Basic

open Kaira GF Polynomial Finset Kaira.Codes Kaira.Dist CodesProofs

namespace BCHBound
variable {P : Nat}

/-- bits as a sum of powers -/
noncomputable def bitSum [Good P] (x : Elt P) (v n : Nat) : Elt P := ∑ i ∈ range n, if v.testBit i then x ^ i else 0

theorem bitSum_succ' [Good P] (x : Elt P) (v n : Nat) :
    bitSum x v (n + 1) = (if v.testBit 0 then (1 : Elt P) else 0) + x * bitSum x (v >>> 1) n := by
  unfold bitSum
  rw [Finset.sum_range_succ', Finset.mul_sum, add_comm]
  have h0 : (if v.testBit 0 then x ^ 0 else 0) = (if v.testBit 0 then (1 : Elt P) else 0) := by simp
  rw [h0]
  congr 1
  apply Finset.sum_congr rfl
  intro i _
  rw [Nat.testBit_shiftRight, Nat.add_comm 1 i]
  split
  · rw [pow_succ']
  · rw [mul_zero]

theorem bitSum_zero_bits [Good P] (x : Elt P) (n : Nat) : bitSum x 0 n = 0 := by
  unfold bitSum; simp

theorem evalLoop_eq [Good P] (x : Elt P) : ∀ (f v : Nat) (pw res : Elt P), bitLen v ≤ f →
    GF2m.evalLoop P x.val f v pw.val res.val = (res + pw * bitSum x v f).val
  | 0, v, pw, res, h => by
    have : v = 0 := (Bridge.bitLen_zero_iff v).mp (by omega)
    subst this
    simp [GF2m.evalLoop, bitSum]
  | f+1, v, pw, res, h => by
    simp only [GF2m.evalLoop]
    split
    · next hv => subst hv; simp [bitSum_zero_bits]
    · next hv =>
      rw [Field18.fmul_model_eq pw x]
      have hb : v.testBit 0 = decide (v % 2 = 1) := by
        rw [Nat.testBit_zero]
      have hres : (if v % 2 = 1 then res.val ^^^ pw.val else res.val) = (res + (if v.testBit 0 then pw else 0)).val := by
        by_cases h1 : v % 2 = 1
        · simp [h1, hb, val_add]
        · simp [h1, hb]
      rw [hres, evalLoop_eq x f (v >>> 1) (pw * x) _ (Bridge.bitLen_half_le v f h), bitSum_succ']
      have key : res + (if v.testBit 0 then pw else 0) + pw * x * bitSum x (v >>> 1) f =
          res + pw * ((if v.testBit 0 then (1 : Elt P) else 0) + x * bitSum x (v >>> 1) f) := by
        split
        · rw [mul_add, mul_one, mul_assoc, add_assoc]
        · rw [add_zero, zero_add, mul_assoc]
      rw [key]

theorem evalAt_eq [Good P] (x : Elt P) (p : Nat) : GF2m.evalAt P p x.val = (bitSum x p (bitLen p)).val := by
  unfold GF2m.evalAt
  split
  · next h => subst h; simp [bitSum_zero_bits, val_zero]
  · have h1 : (1 : Elt P).val = 1 := rfl
    have h0 : (0 : Elt P).val = 0 := rfl
    have := evalLoop_eq x (bitLen p) p 1 0 (le_refl _)
    rw [h1, h0] at this
    rw [this]; simp

theorem bitSum_extend [Good P] (x : Elt P) (p n : Nat) (hn : bitLen p ≤ n) :
    bitSum x p n = bitSum x p (bitLen p) := by
  unfold bitSum
  symm
  apply Finset.sum_subset (by simpa using hn)
  intro i _ hi
  have hi' : bitLen p ≤ i := by simpa using hi
  have : p < 2 ^ i := by
    rw [_root_.bitLen_eq_size] at hi'
    exact Nat.size_le.mp hi'
  simp [Nat.testBit_lt_two_pow this]

/-- the evaluation homomorphism `(ZMod 2)[X] → GF(2^m)` at `x` -/
noncomputable def phi [Good P] (x : Elt P) : (ZMod 2)[X] →+* Elt P :=
  eval₂RingHom (ZMod.castHom (dvd_refl 2) (Elt P)) x

theorem phi_toPoly [Good P] (x : Elt P) (p n : Nat) (hp : p < 2 ^ n) : phi x (toPoly p) = bitSum x p n := by
  unfold phi bitSum
  rw [coe_eval₂RingHom]
  have hdeg : (toPoly p).natDegree < n ∨ n = 0 := by
    rcases Nat.eq_zero_or_pos n with h | h
    · exact Or.inr h
    · left
      have := degree_toPoly_lt p n hp
      rcases eq_or_ne (toPoly p) 0 with h0 | h0
      · rw [h0]; simpa using h
      · exact (natDegree_lt_iff_degree_lt h0).mpr this
  rcases hdeg with h | h
  · rw [eval₂_eq_sum_range' _ h]
    apply Finset.sum_congr rfl
    intro i _
    rw [coeff_toPoly]
    split <;> simp
  · subst h
    have : p = 0 := by omega
    subst this
    simp

end BCHBound

namespace BCHBound
open BCHAbs

/-- the checker the kernel evaluates on every regenerated BCH instance: the modulus is primitive, the length is `2^m - 1`,
the generator matrix has a right inverse (so encoding is injective), every generator row is a multiple of the generator
polynomial, and the generator polynomial vanishes at `α, α², …, α^(δ-1)` (α = the class of X) -/
def bchOk (c : BchInst) : Bool :=
  Field18.primCheck c.m c.P && decide (2 ≤ c.m) && decide (c.m ≤ 16) && c.n == 2 ^ c.m - 1 && c.G.length == c.k &&
  c.G.all (· < 2 ^ c.n) && unitRows c.G c.R && decide (0 < c.gpoly) && c.G.all (fun g => Poly2.mod g c.gpoly == 0) &&
  (List.range' 1 (c.delta - 1)).all (fun j => GF2m.evalAt c.P c.gpoly (GF2m.fpow c.P 2 j) == 0)

theorem dvd_encodeFrom (g : Nat) : ∀ (G : List Nat) (i m : Nat), (∀ r ∈ G, toPoly g ∣ toPoly r) →
    toPoly g ∣ toPoly (encodeFrom G i m)
  | [], _, _, _ => by simp [encodeFrom]
  | r :: rs, i, m, h => by
    simp only [encodeFrom, toPoly_xor]
    apply dvd_add
    · split
      · exact h r (by simp)
      · simp
    · exact dvd_encodeFrom g rs (i + 1) m (fun r' hr' => h r' (by simp [hr']))

theorem card_support : ∀ (n x : Nat), ((range n).filter (fun i => x.testBit i = true)).card = weight n x
  | 0, _ => rfl
  | n+1, x => by
    rw [Finset.range_add_one, Finset.filter_insert, weight]
    by_cases hb : x.testBit n = true
    · rw [if_pos hb, Finset.card_insert_of_notMem (by simp), card_support n x, if_pos hb]
    · rw [if_neg hb, card_support n x, if_neg hb, Nat.add_zero]

/-- **BCH bound for the regenerated instances**: every non-zero code word has at least `δ` ones -/
theorem bch_min_distance (c : BchInst) (h : bchOk c = true) (msg : Nat) (h0 : msg ≠ 0) (hm : msg < 2 ^ c.k) :
    c.delta ≤ weight c.n (encode c.G msg) := by
  unfold bchOk at h
  simp only [Bool.and_eq_true, decide_eq_true_eq, beq_iff_eq, List.all_eq_true] at h
  obtain ⟨⟨⟨⟨⟨⟨⟨⟨⟨hprim, hm2⟩, hm16⟩, hn⟩, hGl⟩, hGlt⟩, hunit⟩, hg0⟩, hrows⟩, hroots⟩ := h
  have hmem : c.m ∈ List.range' 1 16 := by
    simp only [List.mem_range'_1]; omega
  have hP : bitLen c.P = c.m + 1 := by
    unfold Field18.primCheck at hprim
    simp only [Bool.and_eq_true, beq_iff_eq] at hprim
    exact hprim.1
  have : Good c.P := Field18.good_of_check (by omega) hP
  have hx2 : Nat.size 2 < Nat.size c.P := (Field18.short_iff hP).mpr (by
    calc 2 = 2 ^ 1 := rfl
      _ < 2 ^ c.m := Nat.pow_lt_pow_right (by decide) (by omega))
  let α : Elt c.P := ⟨2, hx2⟩
  have hord : orderOf α = 2 ^ c.m - 1 := Field18.order_of_check hmem hm2 hprim hP α rfl
  have hN : 0 < 2 ^ c.m - 1 := by
    have : 2 ^ 2 ≤ 2 ^ c.m := Nat.pow_le_pow_right (by decide) hm2
    omega
  have hcard : Fintype.card (Elt c.P) = (2 ^ c.m - 1) + 1 := by
    rw [card_elt, ← bitLen_eq_size, hP]
    have : 0 < 2 ^ c.m := Nat.two_pow_pos c.m
    simp only [Nat.add_sub_cancel]; omega
  have : NoZeroDivisors (Elt c.P) := ⟨by
    intro a b hab
    by_contra hne
    push Not at hne
    have hinv := Prim.inverse_exists α (2 ^ c.m - 1) hN hcard hord a hne.1
    have : b = 0 := by
      calc b = (a * a ^ (2 ^ c.m - 1 - 1)) * b := by rw [hinv, one_mul]
        _ = a ^ (2 ^ c.m - 1 - 1) * (a * b) := by rw [mul_comm a, mul_assoc]
        _ = 0 := by rw [hab, mul_zero]
    exact hne.2 this⟩
  have : IsDomain (Elt c.P) := NoZeroDivisors.to_isDomain _
  set cw := encode c.G msg with hcw
  have hcwlt : cw < 2 ^ c.n := encodeFrom_lt c.G 0 msg c.n (fun g hg => by simpa using hGlt g hg)
  have hcw0 : cw ≠ 0 := by
    intro hz
    have := roundtrip c.G c.R hunit msg (by rwa [hGl])
    rw [← hcw, hz, encode_zero] at this
    exact h0 this.symm
  have hdvd : toPoly c.gpoly ∣ toPoly cw := by
    apply dvd_encodeFrom
    intro r hr
    have := hrows r hr
    rw [Bridge.mod_eq_pmod] at this
    have sp := (DM.pmod_spec r c.gpoly hg0).2
    rw [this, Nat.xor_zero] at sp
    exact dvd_of_mult _ _ sp
  have hroot : ∀ j, 1 ≤ j → j < c.delta → bitSum (α ^ j) cw c.n = 0 := by
    intro j h1 h2
    have hev := hroots j (by simp only [List.mem_range'_1]; omega)
    have e : GF2m.fpow c.P 2 j = (α ^ j).val := Field18.fpow_model_eq α j
    rw [e, evalAt_eq] at hev
    have hg : phi (α ^ j) (toPoly c.gpoly) = 0 := by
      rw [phi_toPoly (α ^ j) c.gpoly (bitLen c.gpoly) (by rw [bitLen_eq_size]; exact Nat.lt_size_self _)]
      exact Subtype.ext hev
    obtain ⟨q, hq⟩ := hdvd
    rw [← phi_toPoly (α ^ j) cw c.n hcwlt, hq, map_mul, hg, zero_mul]
  set S := (range c.n).filter (fun i => cw.testBit i = true) with hS
  have hSne : S.Nonempty := by
    obtain ⟨i, hi⟩ := Nat.exists_testBit_of_ne_zero hcw0
    refine ⟨i, Finset.mem_filter.mpr ⟨Finset.mem_range.mpr ?_, hi⟩⟩
    by_contra hge
    have : cw < 2 ^ i := lt_of_lt_of_le hcwlt (Nat.pow_le_pow_right (by decide) (by omega))
    rw [Nat.testBit_lt_two_pow this] at hi
    cases hi
  have hsum : ∀ j, 1 ≤ j → j < c.delta → ∑ i ∈ S, (α ^ i) ^ j = 0 := by
    intro j h1 h2
    have := hroot j h1 h2
    unfold bitSum at this
    rw [← Finset.sum_filter] at this
    rw [← this]
    apply Finset.sum_congr rfl
    intro i _
    rw [← pow_mul, ← pow_mul, mul_comm]
  have := bch_bound α c.n c.delta (by rw [hord, hn]) S (fun i hi => Finset.mem_range.mp (Finset.mem_filter.mp hi).1) hSne hsum
  rwa [hS, card_support] at this

end BCHBound
