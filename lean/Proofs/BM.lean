import Proofs.BCHBound
import Kaira.BM
import Proofs.Decoders
import Proofs.Syndrome

/-! # Berlekamp–Massey decoder: what can be said for every code word -/
namespace BMProofs
open Kaira Kaira.BM Kaira.GF2m GF BCHBound Kaira.Codes Kaira.Dist CodesProofs Finset BCHAbs

/-! ### syndromes are additive -/
theorem foldl_synd_xor (P ai : Nat) (a b : Nat) : ∀ (l : List Nat) (x y : Nat),
    l.foldl (fun acc j => if (a ^^^ b).testBit j then acc ^^^ fpow P ai j else acc) (x ^^^ y) =
      l.foldl (fun acc j => if a.testBit j then acc ^^^ fpow P ai j else acc) x ^^^
      l.foldl (fun acc j => if b.testBit j then acc ^^^ fpow P ai j else acc) y
  | [], _, _ => rfl
  | j :: l, x, y => by
    simp only [List.foldl_cons]
    have hx : (a ^^^ b).testBit j = (a.testBit j ^^ b.testBit j) := Nat.testBit_xor _ _ _
    rw [hx]
    cases ha : a.testBit j <;> cases hb : b.testBit j <;> simp only [Bool.xor_false, Bool.xor_true, Bool.not_false,
      Bool.not_true, Bool.false_eq_true, if_false, if_true]
    · exact foldl_synd_xor P ai a b l x y
    · rw [show x ^^^ y ^^^ fpow P ai j = x ^^^ (y ^^^ fpow P ai j) from Nat.xor_assoc _ _ _]
      exact foldl_synd_xor P ai a b l x _
    · rw [show x ^^^ y ^^^ fpow P ai j = (x ^^^ fpow P ai j) ^^^ y by
        rw [Nat.xor_assoc, Nat.xor_comm y, ← Nat.xor_assoc]]
      exact foldl_synd_xor P ai a b l _ y
    · have hxy : x ^^^ y = (x ^^^ fpow P ai j) ^^^ (y ^^^ fpow P ai j) := by
        apply Nat.eq_of_testBit_eq
        intro i
        simp only [Nat.testBit_xor]
        cases x.testBit i <;> cases y.testBit i <;> cases (fpow P ai j).testBit i <;> rfl
      rw [hxy]
      exact foldl_synd_xor P ai a b l _ _

theorem syndAt_xor (P n a b i : Nat) : syndAt P n (a ^^^ b) i = syndAt P n a i ^^^ syndAt P n b i := by
  unfold syndAt
  have := foldl_synd_xor P (fpow P 2 i) a b (List.range n) 0 0
  simpa using this

/-- a word all of whose syndromes vanish does not change the syndromes of what it is added to -/
theorem synd_add_of_zero (P t n c e : Nat) (hc : ∀ i ∈ List.range' 1 (2 * t), syndAt P n c i = 0) :
    synd P t n (c ^^^ e) = synd P t n e := by
  unfold synd
  apply List.map_congr_left
  intro i hi
  rw [syndAt_xor, hc i hi, Nat.zero_xor]

/-- **the decoder's correction depends on the received word only through its syndromes**: adding a word with all-zero
syndromes to the input adds the same word to the output -/
theorem correct_add_of_zero (P m t n c e : Nat) (hc : ∀ i ∈ List.range' 1 (2 * t), syndAt P n c i = 0) :
    correct P m t n (c ^^^ e) = c ^^^ correct P m t n e := by
  unfold correct
  rw [synd_add_of_zero P t n c e hc, Nat.xor_assoc]

/-! ### the syndromes of a code word vanish -/
theorem foldl_eq_bitSum {P : Nat} [Good P] (x : Elt P) (r : Nat) : ∀ n,
    (List.range n).foldl (fun acc j => if r.testBit j then acc ^^^ fpow P x.val j else acc) 0 = (bitSum x r n).val
  | 0 => by simp [bitSum]; rfl
  | n+1 => by
    rw [List.range_succ, List.foldl_append, foldl_eq_bitSum x r n]
    unfold bitSum
    rw [Finset.sum_range_succ]
    simp only [List.foldl_cons, List.foldl_nil]
    split
    · rw [Field18.fpow_model_eq x n]; rfl
    · rw [add_zero]

theorem syndAt_codeword {c : BchInst} (f : OkFacts c) (msg i : Nat) (h1 : 1 ≤ i) (h2 : i < c.delta) :
    syndAt c.P c.n (encode c.G msg) i = 0 := by
  have := f.good
  unfold syndAt
  have e : fpow c.P 2 i = (alpha f ^ i).val := Field18.fpow_model_eq (alpha f) i
  simp only [e]
  rw [foldl_eq_bitSum (alpha f ^ i) (encode c.G msg) c.n, f.codeword_roots msg i h1 h2]
  rfl

/-! ### every light pattern -/
/-- `f` holds on `acc ⊕ e` for every `e` below `2^n` with at most `t` ones -/
def allLight (f : Nat → Bool) : Nat → Nat → Nat → Bool
  | 0, _, acc => f acc
  | n+1, t, acc => allLight f n t acc && (t == 0 || allLight f n (t - 1) (acc ^^^ (1 <<< n)))

theorem allLight_sound (f : Nat → Bool) : ∀ (n t acc e : Nat), allLight f n t acc = true → e < 2 ^ n → weight n e ≤ t →
    f (acc ^^^ e) = true
  | 0, t, acc, e, h, he, _ => by
    have : e = 0 := by omega
    subst this; simpa [allLight] using h
  | n+1, t, acc, e, h, he, hw => by
    simp only [allLight, Bool.and_eq_true, Bool.or_eq_true, beq_iff_eq] at h
    simp only [weight] at hw
    cases hb : e.testBit n with
    | false =>
      have he' : e < 2 ^ n := by
        apply Nat.lt_pow_two_of_testBit
        intro i hi
        rcases Nat.lt_or_ge i (n + 1) with h1 | h1
        · have : i = n := by omega
          rw [this, hb]
        · exact Nat.testBit_lt_two_pow (lt_of_lt_of_le he (Nat.pow_le_pow_right (by decide) h1))
      rw [hb] at hw
      exact allLight_sound f n t acc e h.1 he' (by simpa using hw)
    | true =>
      rw [hb] at hw
      simp only [if_true] at hw
      rcases h.2 with h0 | h2
      · omega
      · set e' := e ^^^ (1 <<< n) with he'
        have hlt : e' < 2 ^ n := by
          apply Nat.lt_pow_two_of_testBit
          intro i hi
          rw [he', Nat.testBit_xor, Nat.one_shiftLeft, Nat.testBit_two_pow]
          rcases Nat.lt_or_ge i (n + 1) with h1 | h1
          · have : i = n := by omega
            rw [this, hb]; simp
          · rw [Nat.testBit_lt_two_pow (lt_of_lt_of_le he (Nat.pow_le_pow_right (by decide) h1))]
            have : n ≠ i := by omega
            simp [this]
        have hwe : weight n e' = weight n e := by
          rw [he', ← DistInfo.weight_mod n n (e ^^^ 1 <<< n) (le_refl _), ← DistInfo.weight_mod n n e (le_refl _)]
          congr 1
          apply Nat.eq_of_testBit_eq
          intro i
          simp only [Nat.testBit_mod_two_pow, Nat.testBit_xor, Nat.one_shiftLeft, Nat.testBit_two_pow]
          by_cases hi : i < n
          · have : n ≠ i := by omega
            simp [hi, this]
          · simp [hi]
        have := allLight_sound f n (t - 1) (acc ^^^ (1 <<< n)) e' h2 hlt (by omega)
        rw [Nat.xor_assoc, he', ← Nat.xor_assoc (1 <<< n), Nat.xor_comm (1 <<< n) e, Nat.xor_assoc, Nat.xor_self, Nat.xor_zero] at this
        exact this

/-- the kernel-evaluated obligation for one instance: the decoder returns the all-zero word from every error pattern of
weight at most `t` -/
def lightOk (c : BchInst) (t : Nat) : Bool := allLight (fun e => correct c.P c.m t c.n e == 0) c.n t 0

/-- **Berlekamp–Massey corrects every pattern within capability on every code word** of an instance whose certificate
(`bchOk`) holds and whose light patterns decode to zero: the reduction to the zero code word is a theorem
(`correct_add_of_zero` + the syndromes of code words vanish), the light patterns are evaluated by the kernel -/
theorem bm_corrects (c : BchInst) (t : Nat) (hok : bchOk c = true) (ht : 2 * t < c.delta) (hl : lightOk c t = true)
    (msg e : Nat) (he : e < 2 ^ c.n) (hw : weight c.n e ≤ t) :
    correct c.P c.m t c.n (encode c.G msg ^^^ e) = encode c.G msg := by
  have f := facts_of_ok c hok
  rw [correct_add_of_zero c.P c.m t c.n (encode c.G msg) e (fun i hi => by
    simp only [List.mem_range'_1] at hi
    exact syndAt_codeword f msg i hi.1 (by omega))]
  have := allLight_sound _ c.n t 0 e hl he hw
  rw [Nat.zero_xor] at this
  rw [beq_iff_eq.mp this, Nat.xor_zero]

/-- … and the message extraction then returns the message -/
theorem bm_decodes (c : BchInst) (t : Nat) (hok : bchOk c = true) (ht : 2 * t < c.delta) (hl : lightOk c t = true)
    (msg e : Nat) (hm : msg < 2 ^ c.k) (he : e < 2 ^ c.n) (hw : weight c.n e ≤ t) :
    invEncode c.R (correct c.P c.m t c.n (encode c.G msg ^^^ e)) = msg := by
  have f := facts_of_ok c hok
  rw [bm_corrects c t hok ht hl msg e he hw]
  exact roundtrip c.G c.R f.hunit msg (by rwa [f.hGl])

/-- for ANY instance with a valid certificate (no enumeration): correcting `(code word, e)` is the same as correcting `(0, e)` -/
theorem bm_reduction (c : BchInst) (t : Nat) (hok : bchOk c = true) (ht : 2 * t < c.delta) (msg e : Nat) :
    correct c.P c.m t c.n (encode c.G msg ^^^ e) = encode c.G msg ^^^ correct c.P c.m t c.n e := by
  have f := facts_of_ok c hok
  exact correct_add_of_zero c.P c.m t c.n (encode c.G msg) e (fun i hi => by
    simp only [List.mem_range'_1] at hi
    exact syndAt_codeword f msg i hi.1 (by omega))

/-- a word below `2^n` with at most `2t` ones whose syndromes `w(α^j)`, `j = 1 … 2t`, all vanish is the zero word
(the BCH-bound argument applied to the support of the word itself — it need not be a code word) -/
theorem light_zero_syndromes_zero {c : BchInst} (f : OkFacts c) (t w : Nat) (hw : w < 2 ^ c.n) (hl : weight c.n w ≤ 2 * t)
    (hz : ∀ i ∈ List.range' 1 (2 * t), syndAt c.P c.n w i = 0) : w = 0 := by
  have := f.good
  have := f.noZeroDivisors
  have : IsDomain (Elt c.P) := NoZeroDivisors.to_isDomain _
  by_contra hne
  set S := (range c.n).filter (fun i => w.testBit i = true) with hS
  have hSne : S.Nonempty := by
    obtain ⟨i, hi⟩ := Nat.exists_testBit_of_ne_zero hne
    refine ⟨i, Finset.mem_filter.mpr ⟨Finset.mem_range.mpr ?_, hi⟩⟩
    by_contra hge
    have : w < 2 ^ i := lt_of_lt_of_le hw (Nat.pow_le_pow_right (by decide) (by omega))
    rw [Nat.testBit_lt_two_pow this] at hi
    cases hi
  have hsum : ∀ j, 1 ≤ j → j < 2 * t + 1 → ∑ i ∈ S, (alpha f ^ i) ^ j = 0 := by
    intro j h1 h2
    have hzj := hz j (by simp only [List.mem_range'_1]; omega)
    unfold syndAt at hzj
    have e : fpow c.P 2 j = (alpha f ^ j).val := Field18.fpow_model_eq (alpha f) j
    simp only [e] at hzj
    rw [foldl_eq_bitSum (alpha f ^ j) w c.n] at hzj
    have hb : bitSum (alpha f ^ j) w c.n = 0 := Subtype.ext hzj
    unfold bitSum at hb
    rw [← Finset.sum_filter] at hb
    rw [← hb]
    apply Finset.sum_congr rfl
    intro i _
    rw [← pow_mul, ← pow_mul, mul_comm]
  have := bch_bound (alpha f) c.n (2 * t + 1) f.order S (fun i hi => Finset.mem_range.mp (Finset.mem_filter.mp hi).1) hSne hsum
  rw [hS, card_support] at this
  omega

/-- **certified output**: for a certified BCH instance and `2t < δ`, ANY word `out` that has all-zero syndromes and lies within
distance `t` of the received word `code word ⊕ e` (weight of `e` at most `t`) is the transmitted code word — whatever produced
it.  The check evaluates these two conditions on the implementation's corrected words; together with this theorem each such
answer is correct without relying on the model of the Berlekamp–Massey recursion. -/
theorem bm_output_certified (c : BchInst) (hok : bchOk c = true) (t : Nat) (ht : 2 * t < c.delta) (msg e out : Nat)
    (he : e < 2 ^ c.n) (hw : weight c.n e ≤ t) (hout : out < 2 ^ c.n)
    (hz : ∀ i ∈ List.range' 1 (2 * t), syndAt c.P c.n out i = 0)
    (hd : weight c.n (out ^^^ (encode c.G msg ^^^ e)) ≤ t) : out = encode c.G msg := by
  have f := facts_of_ok c hok
  set cw := encode c.G msg with hcw
  have hcwlt : cw < 2 ^ c.n := f.codeword_lt msg
  have hwz : out ^^^ cw = 0 := by
    apply light_zero_syndromes_zero f t (out ^^^ cw) (Nat.xor_lt_two_pow hout hcwlt)
    · have e1 : out ^^^ cw = (out ^^^ (cw ^^^ e)) ^^^ e := by
        apply Nat.eq_of_testBit_eq; intro i
        simp only [Nat.testBit_xor]
        cases out.testBit i <;> cases cw.testBit i <;> cases e.testBit i <;> rfl
      rw [e1]
      have := DecProofs.weight_xor_le c.n (out ^^^ (cw ^^^ e)) e
      omega
    · intro i hi
      rw [syndAt_xor, hz i hi, Nat.zero_xor]
      simp only [List.mem_range'_1] at hi
      exact syndAt_codeword f msg i hi.1 (by omega)
  apply Nat.eq_of_testBit_eq
  intro i
  have := congrArg (fun x => x.testBit i) hwz
  simp only [Nat.testBit_xor, Nat.zero_testBit] at this
  cases h1 : out.testBit i <;> cases h2 : cw.testBit i <;> simp_all



/-- the tabular recursion for `t = 1` with a non-zero first syndrome: `σ(x) = 1 + S₁ x` -/
theorem bm_t1 (P m S1 S2 : Nat) (h1 : S1 ≠ 0) : bm P m 1 [S1, S2] = [1, S1] := by
  have hf1 : GF2m.fmul P S1 1 = S1 := by
    unfold GF2m.fmul
    by_cases h : S1 = 1
    · simp [h]
    · simp [h1, h]
  have hf2 : GF2m.fmul P 1 S1 = S1 := by
    unfold GF2m.fmul
    simp [h1]
  have hf0 : GF2m.fmul P 0 S1 = 0 := by unfold GF2m.fmul; simp
  simp [bm, bmStep, pickK, pickK.go, padTo, finv?, h1, hf1, hf2, hf0, List.range_succ]





theorem filter_range_single (n p : Nat) (hp : p < n) (f : Nat → Bool) (hf : ∀ j, j < n → (f j = true ↔ j = p)) :
    (List.range n).filter f = [p] := by
  induction n with
  | zero => omega
  | succ n ih =>
    rw [List.range_succ, List.filter_append]
    by_cases hpn : p = n
    · subst hpn
      have h1 : (List.range p).filter f = [] := by
        apply List.filter_eq_nil_iff.mpr
        intro j hj
        have hj' := List.mem_range.mp hj
        have := hf j (by omega)
        intro hfj
        have := this.mp hfj
        omega
      have h2 : f p = true := (hf p (by omega)).mpr rfl
      simp [h1, h2]
    · have hlt : p < n := by omega
      have h1 := ih hlt (fun j hj => hf j (by omega))
      have h2 : f n = false := by
        cases hfn : f n
        · rfl
        · have := (hf n (by omega)).mp hfn
          omega
      simp [h1, h2]

theorem bitSum_unit {P : Nat} [Good P] (x : Elt P) (p n : Nat) (hp : p < n) : bitSum x (1 <<< p) n = x ^ p := by
  unfold bitSum
  rw [Finset.sum_eq_single p]
  · rw [if_pos (by rw [Nat.one_shiftLeft, Nat.testBit_two_pow]; simp)]
  · intro j _ hj
    rw [if_neg]
    rw [Nat.one_shiftLeft, Nat.testBit_two_pow]
    simp; omega
  · intro hnot
    exact absurd (Finset.mem_range.mpr hp) hnot

theorem syndAt_unit {c : BchInst} (f : OkFacts c) [Good c.P] (p i : Nat) (hp : p < c.n) :
    syndAt c.P c.n (1 <<< p) i = ((alpha f ^ i) ^ p).val := by
  unfold syndAt
  have e : fpow c.P 2 i = (alpha f ^ i).val := Field18.fpow_model_eq (alpha f) i
  simp only [e]
  rw [foldl_eq_bitSum (alpha f ^ i) (1 <<< p) c.n, bitSum_unit _ p c.n hp]

theorem syndAt_zero_word (P n i : Nat) : syndAt P n 0 i = 0 := by
  unfold syndAt
  induction List.range n with
  | nil => rfl
  | cons j l ih => simp

/-- powers of `α` below the order: `α^a = 1 ↔ n ∣ a` -/
theorem pow_eq_one_iff {c : BchInst} (f : OkFacts c) [Good c.P] (a : Nat) : alpha f ^ a = 1 ↔ c.n ∣ a := by
  rw [← f.order]; exact (orderOf_dvd_iff_pow_eq_one).symm

/-- **Chien-style search on the locator `1 + α^p x`** finds exactly position `p` -/
theorem locate_single {c : BchInst} (f : OkFacts c) [Good c.P] (p : Nat) (hp : p < c.n) :
    locate c.P c.n [1, (alpha f ^ p).val] = [p] := by
  have hn : 0 < c.n := by omega
  apply filter_range_single c.n p hp
  intro j hj
  -- the evaluation point as a field element
  set x : Elt c.P := if j > 0 then alpha f ^ (c.n - j) else 1 with hx
  have hxv : (if j > 0 then fpow c.P 2 (c.n - j) else 1) = x.val := by
    rw [hx]; split
    · exact Field18.fpow_model_eq (alpha f) _
    · rfl
  have hev : evalList c.P [(1 : Elt c.P).val, (alpha f ^ p).val] x.val = (1 + alpha f ^ p * x).val := by
    unfold evalList
    simp only [List.zipIdx_cons, List.zipIdx_nil, List.foldl_cons, List.foldl_nil, Nat.zero_add, Nat.zero_xor]
    rw [Field18.fpow_model_eq x 0, Field18.fpow_model_eq x 1, Field18.fmul_model_eq 1 (x ^ 0),
      Field18.fmul_model_eq (alpha f ^ p) (x ^ 1), pow_zero, pow_one, mul_one]
    rfl
  have hlist : ([1, (alpha f ^ p).val] : List Nat) = [(1 : Elt c.P).val, (alpha f ^ p).val] := rfl
  rw [hlist]
  simp only [hxv, hev, beq_iff_eq]
  have hzero : (1 + alpha f ^ p * x).val = 0 ↔ alpha f ^ p * x = 1 := by
    constructor
    · intro h
      have h0 : (1 : Elt c.P) + alpha f ^ p * x = 0 := Subtype.ext h
      have := congrArg (fun z => 1 + z) h0
      simp only [← add_assoc, add_self_elt, zero_add, add_zero] at this
      exact this
    · intro h; rw [h, add_self_elt]; rfl
  rw [hzero, hx]
  by_cases hj0 : j > 0
  · simp only [hj0, if_true]
    rw [← pow_add, pow_eq_one_iff f]
    constructor
    · intro hd
      obtain ⟨q, hq⟩ := hd
      have h1 : 0 < p + (c.n - j) := by omega
      have h2 : p + (c.n - j) < 2 * c.n := by omega
      have hq1 : q = 1 := by
        rcases Nat.lt_or_ge q 1 with h | h
        · have : q = 0 := by omega
          subst this; omega
        · rcases Nat.lt_or_ge q 2 with h' | h'
          · omega
          · have : c.n * 2 ≤ c.n * q := Nat.mul_le_mul_left _ h'
            omega
      subst hq1; omega
    · intro hjp; subst hjp
      exact ⟨1, by omega⟩
  · have hj00 : j = 0 := by omega
    simp only [hj0, if_false, mul_one]
    rw [pow_eq_one_iff f]
    constructor
    · intro hd
      have : p = 0 := Nat.eq_zero_of_dvd_of_lt hd hp
      omega
    · intro hjp
      rw [← hjp, hj00]; exact dvd_zero _

/-- **Berlekamp–Massey corrects every single error** — every certified BCH instance with design distance `δ ≥ 3`, every
length, every message, every position -/
theorem bm_single_error (c : BchInst) (hok : bchOk c = true) (hd : 2 < c.delta) (msg p : Nat) (hp : p < c.n) :
    correct c.P c.m 1 c.n (encode c.G msg ^^^ (1 <<< p)) = encode c.G msg := by
  have f := facts_of_ok c hok
  have := f.good
  rw [bm_reduction c 1 hok (by omega) msg (1 <<< p)]
  suffices h : correct c.P c.m 1 c.n (1 <<< p) = 0 by rw [h, Nat.xor_zero]
  unfold correct estimate synd
  have hS : (List.range' 1 (2 * 1)).map (syndAt c.P c.n (1 <<< p)) = [(alpha f ^ p).val, ((alpha f ^ 2) ^ p).val] := by
    simp only [List.range'_succ, List.range'_zero, List.map_cons, List.map_nil, Nat.mul_one,
      show (2 : Nat) = 1 + 1 from rfl]
    rw [syndAt_unit f p 1 hp, syndAt_unit f p (1 + 1) hp, pow_one]
  rw [hS]
  have hne : (alpha f ^ p).val ≠ 0 := by
    intro h0
    have hz : alpha f ^ p = 0 := Subtype.ext h0
    have hone : alpha f ^ c.n = 1 := by rw [pow_eq_one_iff f]
    have : (alpha f ^ p) ^ c.n = 0 := by rw [hz, zero_pow (by omega)]
    rw [← pow_mul, mul_comm, pow_mul, hone, one_pow] at this
    exact one_ne_zero this
  have hall : ([(alpha f ^ p).val, ((alpha f ^ 2) ^ p).val].all (· == 0)) = false := by
    simp [hne]
  rw [hall]
  simp only [Bool.false_eq_true, if_false]
  rw [bm_t1 _ _ _ _ hne, locate_single f p hp]
  simp [maskOfPositions]

/-- … and leaves every code word untouched -/
theorem bm_no_error (c : BchInst) (hok : bchOk c = true) (t : Nat) (ht : 2 * t < c.delta) (msg : Nat) :
    correct c.P c.m t c.n (encode c.G msg) = encode c.G msg := by
  have h := bm_reduction c t hok ht msg 0
  rw [Nat.xor_zero] at h
  rw [h]
  have : correct c.P c.m t c.n 0 = 0 := by
    unfold correct estimate synd
    have : ((List.range' 1 (2 * t)).map (syndAt c.P c.n 0)).all (· == 0) = true := by
      simp [syndAt_zero_word]
    rw [this]; simp
  rw [this, Nat.xor_zero]



/-- a word below `2^n` with at most one 1 is zero or a single bit -/
theorem light_one (n e : Nat) (he : e < 2 ^ n) (hw : weight n e ≤ 1) : e = 0 ∨ ∃ p, p < n ∧ e = 1 <<< p := by
  by_cases h0 : e = 0
  · exact Or.inl h0
  · right
    have hL : e.log2 < n := (Nat.log2_lt h0).mpr he
    refine ⟨e.log2, hL, ?_⟩
    have hw' := DistInfo.weight_clear_top n e h0 he
    have hz : weight n (e % 2 ^ e.log2) = 0 := by omega
    have hr : e % 2 ^ e.log2 = 0 := by
      apply SynProofs.eq_zero_of_sub_weight 0 n _ _ hz
      intro i hi
      refine ⟨Nat.zero_le _, ?_⟩
      by_contra hge
      have : e % 2 ^ e.log2 < 2 ^ i := lt_of_lt_of_le (lt_of_le_of_lt (Nat.mod_le _ _) he) (Nat.pow_le_pow_right (by decide) (by omega))
      rw [Nat.testBit_lt_two_pow this] at hi
      cases hi
    have hlt : e < 2 ^ (e.log2 + 1) := (Nat.log2_lt h0).mp (Nat.lt_succ_self _)
    have hge : 2 ^ e.log2 ≤ e := Nat.log2_self_le h0
    have hdiv : e = 2 ^ e.log2 * (e / 2 ^ e.log2) := by
      have := Nat.div_add_mod e (2 ^ e.log2)
      omega
    have hq : e / 2 ^ e.log2 = 1 := by
      have hpos : 0 < 2 ^ e.log2 := Nat.two_pow_pos _
      have h1 : e / 2 ^ e.log2 < 2 := by
        rw [Nat.div_lt_iff_lt_mul hpos]
        rw [pow_succ] at hlt
        omega
      have h2 : 0 < e / 2 ^ e.log2 := Nat.div_pos hge hpos
      omega
    rw [hq, Nat.mul_one] at hdiv
    rw [Nat.one_shiftLeft]
    exact hdiv

/-- **t = 1: every error pattern of weight ≤ 1 on every code word, every certified BCH instance with δ ≥ 3, every length** -/
theorem bm_corrects_t1 (c : BchInst) (hok : bchOk c = true) (hd : 2 < c.delta) (msg e : Nat) (he : e < 2 ^ c.n)
    (hw : weight c.n e ≤ 1) : correct c.P c.m 1 c.n (encode c.G msg ^^^ e) = encode c.G msg := by
  rcases light_one c.n e he hw with h0 | ⟨p, hp, rfl⟩
  · subst h0
    rw [Nat.xor_zero]
    exact bm_no_error c hok 1 (by omega) msg
  · exact bm_single_error c hok hd msg p hp

end BMProofs
