import Proofs.BCHBound
import Kaira.BM
import Proofs.Decoders
import Proofs.Syndrome
import Mathlib.Tactic.LinearCombination
import Mathlib.Tactic.Ring
import Mathlib.Algebra.CharP.Lemmas

/-! # Berlekamp–Massey decoder: what can be said for every code word -/
namespace BMProofs
open Kaira Kaira.BM Kaira.GF2m GF BCHBound Kaira.Codes Kaira.Dist CodesProofs Finset BCHAbs

/-! ### syndromes are additive -/
theorem foldl_synd_xor (P ai : Nat) (a b : Nat) : ∀ (l : List Nat) (x y : Nat),
    l.foldl (fun acc j => if (a ^^^ b).testBit j then acc ^^^ fpow P ai j else acc) (x ^^^ y) =
      l.foldl (fun acc j => if a.testBit j then acc ^^^ fpow P ai j else acc) x ^^^
      l.foldl (fun acc j => if b.testBit j then acc ^^^ fpow P ai j else acc) y
  | [], _, _ => rfl
  | j :: l, x, y => by
    simp only [List.foldl_cons]
    have hx : (a ^^^ b).testBit j = (a.testBit j ^^ b.testBit j) := Nat.testBit_xor _ _ _
    rw [hx]
    cases ha : a.testBit j <;> cases hb : b.testBit j <;> simp only [Bool.xor_false, Bool.xor_true, Bool.not_false,
      Bool.not_true, Bool.false_eq_true, if_false, if_true]
    · exact foldl_synd_xor P ai a b l x y
    · rw [show x ^^^ y ^^^ fpow P ai j = x ^^^ (y ^^^ fpow P ai j) from Nat.xor_assoc _ _ _]
      exact foldl_synd_xor P ai a b l x _
    · rw [show x ^^^ y ^^^ fpow P ai j = (x ^^^ fpow P ai j) ^^^ y by
        rw [Nat.xor_assoc, Nat.xor_comm y, ← Nat.xor_assoc]]
      exact foldl_synd_xor P ai a b l _ y
    · have hxy : x ^^^ y = (x ^^^ fpow P ai j) ^^^ (y ^^^ fpow P ai j) := by
        apply Nat.eq_of_testBit_eq
        intro i
        simp only [Nat.testBit_xor]
        cases x.testBit i <;> cases y.testBit i <;> cases (fpow P ai j).testBit i <;> rfl
      rw [hxy]
      exact foldl_synd_xor P ai a b l _ _

theorem syndAt_xor (P n a b i : Nat) : syndAt P n (a ^^^ b) i = syndAt P n a i ^^^ syndAt P n b i := by
  unfold syndAt
  have := foldl_synd_xor P (fpow P 2 i) a b (List.range n) 0 0
  simpa using this

/-- a word all of whose syndromes vanish does not change the syndromes of what it is added to -/
theorem synd_add_of_zero (P t n c e : Nat) (hc : ∀ i ∈ List.range' 1 (2 * t), syndAt P n c i = 0) :
    synd P t n (c ^^^ e) = synd P t n e := by
  unfold synd
  apply List.map_congr_left
  intro i hi
  rw [syndAt_xor, hc i hi, Nat.zero_xor]

/-- **the decoder's correction depends on the received word only through its syndromes**: adding a word with all-zero
syndromes to the input adds the same word to the output -/
theorem correct_add_of_zero (P m t n c e : Nat) (hc : ∀ i ∈ List.range' 1 (2 * t), syndAt P n c i = 0) :
    correct P m t n (c ^^^ e) = c ^^^ correct P m t n e := by
  unfold correct
  rw [synd_add_of_zero P t n c e hc, Nat.xor_assoc]

/-! ### the syndromes of a code word vanish -/
theorem foldl_eq_bitSum {P : Nat} [Good P] (x : Elt P) (r : Nat) : ∀ n,
    (List.range n).foldl (fun acc j => if r.testBit j then acc ^^^ fpow P x.val j else acc) 0 = (bitSum x r n).val
  | 0 => by simp [bitSum]; rfl
  | n+1 => by
    rw [List.range_succ, List.foldl_append, foldl_eq_bitSum x r n]
    unfold bitSum
    rw [Finset.sum_range_succ]
    simp only [List.foldl_cons, List.foldl_nil]
    split
    · rw [Field18.fpow_model_eq x n]; rfl
    · rw [add_zero]

theorem syndAt_codeword {c : BchInst} (f : OkFacts c) (msg i : Nat) (h1 : 1 ≤ i) (h2 : i < c.delta) :
    syndAt c.P c.n (encode c.G msg) i = 0 := by
  have := f.good
  unfold syndAt
  have e : fpow c.P 2 i = (alpha f ^ i).val := Field18.fpow_model_eq (alpha f) i
  simp only [e]
  rw [foldl_eq_bitSum (alpha f ^ i) (encode c.G msg) c.n, f.codeword_roots msg i h1 h2]
  rfl

/-! ### every light pattern -/
/-- `f` holds on `acc ⊕ e` for every `e` below `2^n` with at most `t` ones -/
def allLight (f : Nat → Bool) : Nat → Nat → Nat → Bool
  | 0, _, acc => f acc
  | n+1, t, acc => allLight f n t acc && (t == 0 || allLight f n (t - 1) (acc ^^^ (1 <<< n)))

theorem allLight_sound (f : Nat → Bool) : ∀ (n t acc e : Nat), allLight f n t acc = true → e < 2 ^ n → weight n e ≤ t →
    f (acc ^^^ e) = true
  | 0, t, acc, e, h, he, _ => by
    have : e = 0 := by omega
    subst this; simpa [allLight] using h
  | n+1, t, acc, e, h, he, hw => by
    simp only [allLight, Bool.and_eq_true, Bool.or_eq_true, beq_iff_eq] at h
    simp only [weight] at hw
    cases hb : e.testBit n with
    | false =>
      have he' : e < 2 ^ n := by
        apply Nat.lt_pow_two_of_testBit
        intro i hi
        rcases Nat.lt_or_ge i (n + 1) with h1 | h1
        · have : i = n := by omega
          rw [this, hb]
        · exact Nat.testBit_lt_two_pow (lt_of_lt_of_le he (Nat.pow_le_pow_right (by decide) h1))
      rw [hb] at hw
      exact allLight_sound f n t acc e h.1 he' (by simpa using hw)
    | true =>
      rw [hb] at hw
      simp only [if_true] at hw
      rcases h.2 with h0 | h2
      · omega
      · set e' := e ^^^ (1 <<< n) with he'
        have hlt : e' < 2 ^ n := by
          apply Nat.lt_pow_two_of_testBit
          intro i hi
          rw [he', Nat.testBit_xor, Nat.one_shiftLeft, Nat.testBit_two_pow]
          rcases Nat.lt_or_ge i (n + 1) with h1 | h1
          · have : i = n := by omega
            rw [this, hb]; simp
          · rw [Nat.testBit_lt_two_pow (lt_of_lt_of_le he (Nat.pow_le_pow_right (by decide) h1))]
            have : n ≠ i := by omega
            simp [this]
        have hwe : weight n e' = weight n e := by
          rw [he', ← DistInfo.weight_mod n n (e ^^^ 1 <<< n) (le_refl _), ← DistInfo.weight_mod n n e (le_refl _)]
          congr 1
          apply Nat.eq_of_testBit_eq
          intro i
          simp only [Nat.testBit_mod_two_pow, Nat.testBit_xor, Nat.one_shiftLeft, Nat.testBit_two_pow]
          by_cases hi : i < n
          · have : n ≠ i := by omega
            simp [hi, this]
          · simp [hi]
        have := allLight_sound f n (t - 1) (acc ^^^ (1 <<< n)) e' h2 hlt (by omega)
        rw [Nat.xor_assoc, he', ← Nat.xor_assoc (1 <<< n), Nat.xor_comm (1 <<< n) e, Nat.xor_assoc, Nat.xor_self, Nat.xor_zero] at this
        exact this

/-- the kernel-evaluated obligation for one instance: the decoder returns the all-zero word from every error pattern of
weight at most `t` -/
def lightOk (c : BchInst) (t : Nat) : Bool := allLight (fun e => correct c.P c.m t c.n e == 0) c.n t 0

/-- **Berlekamp–Massey corrects every pattern within capability on every code word** of an instance whose certificate
(`bchOk`) holds and whose light patterns decode to zero: the reduction to the zero code word is a theorem
(`correct_add_of_zero` + the syndromes of code words vanish), the light patterns are evaluated by the kernel -/
theorem bm_corrects (c : BchInst) (t : Nat) (hok : bchOk c = true) (ht : 2 * t < c.delta) (hl : lightOk c t = true)
    (msg e : Nat) (he : e < 2 ^ c.n) (hw : weight c.n e ≤ t) :
    correct c.P c.m t c.n (encode c.G msg ^^^ e) = encode c.G msg := by
  have f := facts_of_ok c hok
  rw [correct_add_of_zero c.P c.m t c.n (encode c.G msg) e (fun i hi => by
    simp only [List.mem_range'_1] at hi
    exact syndAt_codeword f msg i hi.1 (by omega))]
  have := allLight_sound _ c.n t 0 e hl he hw
  rw [Nat.zero_xor] at this
  rw [beq_iff_eq.mp this, Nat.xor_zero]

/-- … and the message extraction then returns the message -/
theorem bm_decodes (c : BchInst) (t : Nat) (hok : bchOk c = true) (ht : 2 * t < c.delta) (hl : lightOk c t = true)
    (msg e : Nat) (hm : msg < 2 ^ c.k) (he : e < 2 ^ c.n) (hw : weight c.n e ≤ t) :
    invEncode c.R (correct c.P c.m t c.n (encode c.G msg ^^^ e)) = msg := by
  have f := facts_of_ok c hok
  rw [bm_corrects c t hok ht hl msg e he hw]
  exact roundtrip c.G c.R f.hunit msg (by rwa [f.hGl])

/-- for ANY instance with a valid certificate (no enumeration): correcting `(code word, e)` is the same as correcting `(0, e)` -/
theorem bm_reduction (c : BchInst) (t : Nat) (hok : bchOk c = true) (ht : 2 * t < c.delta) (msg e : Nat) :
    correct c.P c.m t c.n (encode c.G msg ^^^ e) = encode c.G msg ^^^ correct c.P c.m t c.n e := by
  have f := facts_of_ok c hok
  exact correct_add_of_zero c.P c.m t c.n (encode c.G msg) e (fun i hi => by
    simp only [List.mem_range'_1] at hi
    exact syndAt_codeword f msg i hi.1 (by omega))

/-- a word below `2^n` with at most `2t` ones whose syndromes `w(α^j)`, `j = 1 … 2t`, all vanish is the zero word
(the BCH-bound argument applied to the support of the word itself — it need not be a code word) -/
theorem light_zero_syndromes_zero {c : BchInst} (f : OkFacts c) (t w : Nat) (hw : w < 2 ^ c.n) (hl : weight c.n w ≤ 2 * t)
    (hz : ∀ i ∈ List.range' 1 (2 * t), syndAt c.P c.n w i = 0) : w = 0 := by
  have := f.good
  have := f.noZeroDivisors
  have : IsDomain (Elt c.P) := NoZeroDivisors.to_isDomain _
  by_contra hne
  set S := (range c.n).filter (fun i => w.testBit i = true) with hS
  have hSne : S.Nonempty := by
    obtain ⟨i, hi⟩ := Nat.exists_testBit_of_ne_zero hne
    refine ⟨i, Finset.mem_filter.mpr ⟨Finset.mem_range.mpr ?_, hi⟩⟩
    by_contra hge
    have : w < 2 ^ i := lt_of_lt_of_le hw (Nat.pow_le_pow_right (by decide) (by omega))
    rw [Nat.testBit_lt_two_pow this] at hi
    cases hi
  have hsum : ∀ j, 1 ≤ j → j < 2 * t + 1 → ∑ i ∈ S, (alpha f ^ i) ^ j = 0 := by
    intro j h1 h2
    have hzj := hz j (by simp only [List.mem_range'_1]; omega)
    unfold syndAt at hzj
    have e : fpow c.P 2 j = (alpha f ^ j).val := Field18.fpow_model_eq (alpha f) j
    simp only [e] at hzj
    rw [foldl_eq_bitSum (alpha f ^ j) w c.n] at hzj
    have hb : bitSum (alpha f ^ j) w c.n = 0 := Subtype.ext hzj
    unfold bitSum at hb
    rw [← Finset.sum_filter] at hb
    rw [← hb]
    apply Finset.sum_congr rfl
    intro i _
    rw [← pow_mul, ← pow_mul, mul_comm]
  have := bch_bound (alpha f) c.n (2 * t + 1) f.order S (fun i hi => Finset.mem_range.mp (Finset.mem_filter.mp hi).1) hSne hsum
  rw [hS, card_support] at this
  omega

/-- **certified output**: for a certified BCH instance and `2t < δ`, ANY word `out` that has all-zero syndromes and lies within
distance `t` of the received word `code word ⊕ e` (weight of `e` at most `t`) is the transmitted code word — whatever produced
it.  The check evaluates these two conditions on the implementation's corrected words; together with this theorem each such
answer is correct without relying on the model of the Berlekamp–Massey recursion. -/
theorem bm_output_certified (c : BchInst) (hok : bchOk c = true) (t : Nat) (ht : 2 * t < c.delta) (msg e out : Nat)
    (he : e < 2 ^ c.n) (hw : weight c.n e ≤ t) (hout : out < 2 ^ c.n)
    (hz : ∀ i ∈ List.range' 1 (2 * t), syndAt c.P c.n out i = 0)
    (hd : weight c.n (out ^^^ (encode c.G msg ^^^ e)) ≤ t) : out = encode c.G msg := by
  have f := facts_of_ok c hok
  set cw := encode c.G msg with hcw
  have hcwlt : cw < 2 ^ c.n := f.codeword_lt msg
  have hwz : out ^^^ cw = 0 := by
    apply light_zero_syndromes_zero f t (out ^^^ cw) (Nat.xor_lt_two_pow hout hcwlt)
    · have e1 : out ^^^ cw = (out ^^^ (cw ^^^ e)) ^^^ e := by
        apply Nat.eq_of_testBit_eq; intro i
        simp only [Nat.testBit_xor]
        cases out.testBit i <;> cases cw.testBit i <;> cases e.testBit i <;> rfl
      rw [e1]
      have := DecProofs.weight_xor_le c.n (out ^^^ (cw ^^^ e)) e
      omega
    · intro i hi
      rw [syndAt_xor, hz i hi, Nat.zero_xor]
      simp only [List.mem_range'_1] at hi
      exact syndAt_codeword f msg i hi.1 (by omega)
  apply Nat.eq_of_testBit_eq
  intro i
  have := congrArg (fun x => x.testBit i) hwz
  simp only [Nat.testBit_xor, Nat.zero_testBit] at this
  cases h1 : out.testBit i <;> cases h2 : cw.testBit i <;> simp_all



/-- the tabular recursion for `t = 1` with a non-zero first syndrome: `σ(x) = 1 + S₁ x` -/
theorem bm_t1 (P m S1 S2 : Nat) (h1 : S1 ≠ 0) : bm P m 1 [S1, S2] = [1, S1] := by
  have hf1 : GF2m.fmul P S1 1 = S1 := by
    unfold GF2m.fmul
    by_cases h : S1 = 1
    · simp [h]
    · simp [h1, h]
  have hf2 : GF2m.fmul P 1 S1 = S1 := by
    unfold GF2m.fmul
    simp [h1]
  have hf0 : GF2m.fmul P 0 S1 = 0 := by unfold GF2m.fmul; simp
  simp [bm, bmStep, pickK, pickK.go, padTo, finv?, h1, hf1, hf2, hf0, List.range_succ]





theorem filter_range_single (n p : Nat) (hp : p < n) (f : Nat → Bool) (hf : ∀ j, j < n → (f j = true ↔ j = p)) :
    (List.range n).filter f = [p] := by
  induction n with
  | zero => omega
  | succ n ih =>
    rw [List.range_succ, List.filter_append]
    by_cases hpn : p = n
    · subst hpn
      have h1 : (List.range p).filter f = [] := by
        apply List.filter_eq_nil_iff.mpr
        intro j hj
        have hj' := List.mem_range.mp hj
        have := hf j (by omega)
        intro hfj
        have := this.mp hfj
        omega
      have h2 : f p = true := (hf p (by omega)).mpr rfl
      simp [h1, h2]
    · have hlt : p < n := by omega
      have h1 := ih hlt (fun j hj => hf j (by omega))
      have h2 : f n = false := by
        cases hfn : f n
        · rfl
        · have := (hf n (by omega)).mp hfn
          omega
      simp [h1, h2]

theorem bitSum_unit {P : Nat} [Good P] (x : Elt P) (p n : Nat) (hp : p < n) : bitSum x (1 <<< p) n = x ^ p := by
  unfold bitSum
  rw [Finset.sum_eq_single p]
  · rw [if_pos (by rw [Nat.one_shiftLeft, Nat.testBit_two_pow]; simp)]
  · intro j _ hj
    rw [if_neg]
    rw [Nat.one_shiftLeft, Nat.testBit_two_pow]
    simp; omega
  · intro hnot
    exact absurd (Finset.mem_range.mpr hp) hnot

theorem syndAt_unit {c : BchInst} (f : OkFacts c) [Good c.P] (p i : Nat) (hp : p < c.n) :
    syndAt c.P c.n (1 <<< p) i = ((alpha f ^ i) ^ p).val := by
  unfold syndAt
  have e : fpow c.P 2 i = (alpha f ^ i).val := Field18.fpow_model_eq (alpha f) i
  simp only [e]
  rw [foldl_eq_bitSum (alpha f ^ i) (1 <<< p) c.n, bitSum_unit _ p c.n hp]

theorem syndAt_zero_word (P n i : Nat) : syndAt P n 0 i = 0 := by
  unfold syndAt
  induction List.range n with
  | nil => rfl
  | cons j l ih => simp

/-- powers of `α` below the order: `α^a = 1 ↔ n ∣ a` -/
theorem pow_eq_one_iff {c : BchInst} (f : OkFacts c) [Good c.P] (a : Nat) : alpha f ^ a = 1 ↔ c.n ∣ a := by
  rw [← f.order]; exact (orderOf_dvd_iff_pow_eq_one).symm

/-- **Chien-style search on the locator `1 + α^p x`** finds exactly position `p` -/
theorem locate_single {c : BchInst} (f : OkFacts c) [Good c.P] (p : Nat) (hp : p < c.n) :
    locate c.P c.n [1, (alpha f ^ p).val] = [p] := by
  have hn : 0 < c.n := by omega
  apply filter_range_single c.n p hp
  intro j hj
  -- the evaluation point as a field element
  set x : Elt c.P := if j > 0 then alpha f ^ (c.n - j) else 1 with hx
  have hxv : (if j > 0 then fpow c.P 2 (c.n - j) else 1) = x.val := by
    rw [hx]; split
    · exact Field18.fpow_model_eq (alpha f) _
    · rfl
  have hev : evalList c.P [(1 : Elt c.P).val, (alpha f ^ p).val] x.val = (1 + alpha f ^ p * x).val := by
    unfold evalList
    simp only [List.zipIdx_cons, List.zipIdx_nil, List.foldl_cons, List.foldl_nil, Nat.zero_add, Nat.zero_xor]
    rw [Field18.fpow_model_eq x 0, Field18.fpow_model_eq x 1, Field18.fmul_model_eq 1 (x ^ 0),
      Field18.fmul_model_eq (alpha f ^ p) (x ^ 1), pow_zero, pow_one, mul_one]
    rfl
  have hlist : ([1, (alpha f ^ p).val] : List Nat) = [(1 : Elt c.P).val, (alpha f ^ p).val] := rfl
  rw [hlist]
  simp only [hxv, hev, beq_iff_eq]
  have hzero : (1 + alpha f ^ p * x).val = 0 ↔ alpha f ^ p * x = 1 := by
    constructor
    · intro h
      have h0 : (1 : Elt c.P) + alpha f ^ p * x = 0 := Subtype.ext h
      have := congrArg (fun z => 1 + z) h0
      simp only [← add_assoc, add_self_elt, zero_add, add_zero] at this
      exact this
    · intro h; rw [h, add_self_elt]; rfl
  rw [hzero, hx]
  by_cases hj0 : j > 0
  · simp only [hj0, if_true]
    rw [← pow_add, pow_eq_one_iff f]
    constructor
    · intro hd
      obtain ⟨q, hq⟩ := hd
      have h1 : 0 < p + (c.n - j) := by omega
      have h2 : p + (c.n - j) < 2 * c.n := by omega
      have hq1 : q = 1 := by
        rcases Nat.lt_or_ge q 1 with h | h
        · have : q = 0 := by omega
          subst this; omega
        · rcases Nat.lt_or_ge q 2 with h' | h'
          · omega
          · have : c.n * 2 ≤ c.n * q := Nat.mul_le_mul_left _ h'
            omega
      subst hq1; omega
    · intro hjp; subst hjp
      exact ⟨1, by omega⟩
  · have hj00 : j = 0 := by omega
    simp only [hj0, if_false, mul_one]
    rw [pow_eq_one_iff f]
    constructor
    · intro hd
      have : p = 0 := Nat.eq_zero_of_dvd_of_lt hd hp
      omega
    · intro hjp
      rw [← hjp, hj00]; exact dvd_zero _

/-- **Berlekamp–Massey corrects every single error** — every certified BCH instance with design distance `δ ≥ 3`, every
length, every message, every position -/
theorem bm_single_error (c : BchInst) (hok : bchOk c = true) (hd : 2 < c.delta) (msg p : Nat) (hp : p < c.n) :
    correct c.P c.m 1 c.n (encode c.G msg ^^^ (1 <<< p)) = encode c.G msg := by
  have f := facts_of_ok c hok
  have := f.good
  rw [bm_reduction c 1 hok (by omega) msg (1 <<< p)]
  suffices h : correct c.P c.m 1 c.n (1 <<< p) = 0 by rw [h, Nat.xor_zero]
  unfold correct estimate synd
  have hS : (List.range' 1 (2 * 1)).map (syndAt c.P c.n (1 <<< p)) = [(alpha f ^ p).val, ((alpha f ^ 2) ^ p).val] := by
    simp only [List.range'_succ, List.range'_zero, List.map_cons, List.map_nil, Nat.mul_one,
      show (2 : Nat) = 1 + 1 from rfl]
    rw [syndAt_unit f p 1 hp, syndAt_unit f p (1 + 1) hp, pow_one]
  rw [hS]
  have hne : (alpha f ^ p).val ≠ 0 := by
    intro h0
    have hz : alpha f ^ p = 0 := Subtype.ext h0
    have hone : alpha f ^ c.n = 1 := by rw [pow_eq_one_iff f]
    have : (alpha f ^ p) ^ c.n = 0 := by rw [hz, zero_pow (by omega)]
    rw [← pow_mul, mul_comm, pow_mul, hone, one_pow] at this
    exact one_ne_zero this
  have hall : ([(alpha f ^ p).val, ((alpha f ^ 2) ^ p).val].all (· == 0)) = false := by
    simp [hne]
  rw [hall]
  simp only [Bool.false_eq_true, if_false]
  rw [bm_t1 _ _ _ _ hne, locate_single f p hp]
  simp [maskOfPositions]

/-- … and leaves every code word untouched -/
theorem bm_no_error (c : BchInst) (hok : bchOk c = true) (t : Nat) (ht : 2 * t < c.delta) (msg : Nat) :
    correct c.P c.m t c.n (encode c.G msg) = encode c.G msg := by
  have h := bm_reduction c t hok ht msg 0
  rw [Nat.xor_zero] at h
  rw [h]
  have : correct c.P c.m t c.n 0 = 0 := by
    unfold correct estimate synd
    have : ((List.range' 1 (2 * t)).map (syndAt c.P c.n 0)).all (· == 0) = true := by
      simp [syndAt_zero_word]
    rw [this]; simp
  rw [this, Nat.xor_zero]



/-- a word below `2^n` with at most one 1 is zero or a single bit -/
theorem light_one (n e : Nat) (he : e < 2 ^ n) (hw : weight n e ≤ 1) : e = 0 ∨ ∃ p, p < n ∧ e = 1 <<< p := by
  by_cases h0 : e = 0
  · exact Or.inl h0
  · right
    have hL : e.log2 < n := (Nat.log2_lt h0).mpr he
    refine ⟨e.log2, hL, ?_⟩
    have hw' := DistInfo.weight_clear_top n e h0 he
    have hz : weight n (e % 2 ^ e.log2) = 0 := by omega
    have hr : e % 2 ^ e.log2 = 0 := by
      apply SynProofs.eq_zero_of_sub_weight 0 n _ _ hz
      intro i hi
      refine ⟨Nat.zero_le _, ?_⟩
      by_contra hge
      have : e % 2 ^ e.log2 < 2 ^ i := lt_of_lt_of_le (lt_of_le_of_lt (Nat.mod_le _ _) he) (Nat.pow_le_pow_right (by decide) (by omega))
      rw [Nat.testBit_lt_two_pow this] at hi
      cases hi
    have hlt : e < 2 ^ (e.log2 + 1) := (Nat.log2_lt h0).mp (Nat.lt_succ_self _)
    have hge : 2 ^ e.log2 ≤ e := Nat.log2_self_le h0
    have hdiv : e = 2 ^ e.log2 * (e / 2 ^ e.log2) := by
      have := Nat.div_add_mod e (2 ^ e.log2)
      omega
    have hq : e / 2 ^ e.log2 = 1 := by
      have hpos : 0 < 2 ^ e.log2 := Nat.two_pow_pos _
      have h1 : e / 2 ^ e.log2 < 2 := by
        rw [Nat.div_lt_iff_lt_mul hpos]
        rw [pow_succ] at hlt
        omega
      have h2 : 0 < e / 2 ^ e.log2 := Nat.div_pos hge hpos
      omega
    rw [hq, Nat.mul_one] at hdiv
    rw [Nat.one_shiftLeft]
    exact hdiv

/-- **t = 1: every error pattern of weight ≤ 1 on every code word, every certified BCH instance with δ ≥ 3, every length** -/
theorem bm_corrects_t1 (c : BchInst) (hok : bchOk c = true) (hd : 2 < c.delta) (msg e : Nat) (he : e < 2 ^ c.n)
    (hw : weight c.n e ≤ 1) : correct c.P c.m 1 c.n (encode c.G msg ^^^ e) = encode c.G msg := by
  rcases light_one c.n e he hw with h0 | ⟨p, hp, rfl⟩
  · subst h0
    rw [Nat.xor_zero]
    exact bm_no_error c hok 1 (by omega) msg
  · exact bm_single_error c hok hd msg p hp


/-! ## t = 2: symbolic evaluation of the recursion, algebra in characteristic 2, the quadratic locator -/


theorem fmul_zero_l (P b : Nat) : GF2m.fmul P 0 b = 0 := by unfold GF2m.fmul; simp
theorem fmul_one_l (P b : Nat) : GF2m.fmul P 1 b = b := by
  unfold GF2m.fmul
  by_cases hb : b = 0
  · simp [hb]
  · simp [hb]

/-- the tabular recursion for `t = 2` on syndromes with `S₁ ≠ 0`, `S₂ = S₁²` -/
theorem bm_t2 (P m S1 S2 S3 S4 iv : Nat) (h1 : S1 ≠ 0) (h2 : S2 = GF2m.fmul P S1 S1) (hiv : finv? P m S1 = some iv) :
    bm P m 2 [S1, S2, S3, S4] =
      if S3 ^^^ GF2m.fmul P S1 S2 = 0 then [1, S1]
      else [1, S1, GF2m.fmul P (S3 ^^^ GF2m.fmul P S1 S2) iv] := by
  have hf1 : GF2m.fmul P S1 1 = S1 := by
    unfold GF2m.fmul
    by_cases h : S1 = 1
    · simp [h]
    · simp [h1, h]
  have hd1 : S2 ^^^ GF2m.fmul P S1 S1 = 0 := by rw [h2, Nat.xor_self]
  have hinv1 : finv? P m 1 = some 1 := by simp [finv?]
  by_cases hd2 : S3 ^^^ GF2m.fmul P S1 S2 = 0
  · simp [bm, bmStep, pickK, pickK.go, padTo, hinv1, hiv, h1, hf1, fmul_one_l, fmul_zero_l, List.range_succ, hd1, hd2, ← h2]
  · simp [bm, bmStep, pickK, pickK.go, padTo, hinv1, hiv, h1, hf1, fmul_one_l, fmul_zero_l, List.range_succ, hd1, hd2, ← h2]





/-! ### algebra in characteristic 2 (stated for any commutative ring, applied to `Elt P`) -/
section Char2
variable {R : Type*} [CommRing R] (h2 : ∀ x : R, x + x = 0)
include h2

theorem sq_add_char2 (a b : R) : (a + b) * (a + b) = a ^ 2 + b ^ 2 := by
  have := h2 (a * b)
  linear_combination this

theorem disc2_char2 (a b : R) : (a ^ 3 + b ^ 3) + (a + b) * (a ^ 2 + b ^ 2) = a * b * (a + b) := by
  have := h2 (a ^ 3 + b ^ 3)
  linear_combination this

theorem add_eq_zero_char2 (x y : R) : x + y = 0 ↔ x = y := by
  constructor
  · intro h
    have := h2 y
    linear_combination h - this
  · intro h; rw [h]; exact h2 y

end Char2

theorem quad_factor {R : Type*} [CommRing R] (a b x : R) :
    1 * x ^ 0 + (a + b) * x ^ 1 + a * b * x ^ 2 = (1 + a * x) * (1 + b * x) := by ring

/-- inverse by the Fermat power, as the model computes it -/
theorem OkFacts.mul_pow_inv {c : BchInst} (f : OkFacts c) [Good c.P] (a : Elt c.P) (ha : a ≠ 0) : a * a ^ (c.n - 1) = 1 := by
  have hm2 := f.m2
  have hN : 0 < 2 ^ c.m - 1 := by
    have : 2 ^ 2 ≤ 2 ^ c.m := Nat.pow_le_pow_right (by decide) hm2
    omega
  have hcard : Fintype.card (Elt c.P) = (2 ^ c.m - 1) + 1 := by
    rw [card_elt, ← bitLen_eq_size, f.hP]
    have : 0 < 2 ^ c.m := Nat.two_pow_pos c.m
    simp only [Nat.add_sub_cancel]; omega
  have hord := f.order
  rw [f.hn] at hord ⊢
  exact Prim.inverse_exists (alpha f) (2 ^ c.m - 1) hN hcard hord a ha

theorem alpha_pow_ne_zero {c : BchInst} (f : OkFacts c) [Good c.P] (p : Nat) : alpha f ^ p ≠ 0 := by
  intro hz
  have hn : 0 < c.n := by
    have := f.hn; have := f.m2
    have : 2 ^ 2 ≤ 2 ^ c.m := Nat.pow_le_pow_right (by decide) f.m2
    omega
  have hone : alpha f ^ c.n = 1 := by rw [pow_eq_one_iff f]
  have : (alpha f ^ p) ^ c.n = 0 := by rw [hz, zero_pow (by omega)]
  rw [← pow_mul, mul_comm, pow_mul, hone, one_pow] at this
  exact one_ne_zero this

/-- the evaluation point of position `j` in the root search, as a field element -/
def xAt {c : BchInst} (f : OkFacts c) [Good c.P] (j : Nat) : Elt c.P := if j > 0 then alpha f ^ (c.n - j) else 1

theorem xAt_val {c : BchInst} (f : OkFacts c) [Good c.P] (j : Nat) :
    (if j > 0 then fpow c.P 2 (c.n - j) else 1) = (xAt f j).val := by
  unfold xAt; split
  · exact Field18.fpow_model_eq (alpha f) _
  · rfl

/-- `α^p · x_j = 1` exactly at `j = p` -/
theorem root_iff {c : BchInst} (f : OkFacts c) [Good c.P] (p j : Nat) (hp : p < c.n) (hj : j < c.n) :
    alpha f ^ p * xAt f j = 1 ↔ j = p := by
  unfold xAt
  by_cases hj0 : j > 0
  · simp only [hj0, if_true]
    rw [← pow_add, pow_eq_one_iff f]
    constructor
    · intro hd
      obtain ⟨q, hq⟩ := hd
      have hq1 : q = 1 := by
        rcases Nat.lt_or_ge q 1 with h | h
        · have : q = 0 := by omega
          subst this; omega
        · rcases Nat.lt_or_ge q 2 with h' | h'
          · omega
          · have : c.n * 2 ≤ c.n * q := Nat.mul_le_mul_left _ h'
            omega
      subst hq1; omega
    · intro hjp; subst hjp
      exact ⟨1, by omega⟩
  · have hj00 : j = 0 := by omega
    simp only [hj0, if_false, mul_one]
    rw [pow_eq_one_iff f]
    constructor
    · intro hd
      have : p = 0 := Nat.eq_zero_of_dvd_of_lt hd hp
      omega
    · intro hjp
      rw [← hjp, hj00]; exact dvd_zero _





theorem filter_range_pair (n p q : Nat) (hpq : p < q) (hq : q < n) (f : Nat → Bool)
    (hf : ∀ j, j < n → (f j = true ↔ (j = p ∨ j = q))) : (List.range n).filter f = [p, q] := by
  induction n with
  | zero => omega
  | succ n ih =>
    rw [List.range_succ, List.filter_append]
    by_cases hqn : q = n
    · subst hqn
      have h1 : (List.range q).filter f = [p] := by
        apply filter_range_single q p hpq
        intro j hj
        rw [hf j (by omega)]
        constructor
        · rintro (h | h)
          · exact h
          · omega
        · intro h; exact Or.inl h
      have h2 : f q = true := (hf q (by omega)).mpr (Or.inr rfl)
      simp [h1, h2]
    · have hlt : q < n := by omega
      have h1 := ih hlt (fun j hj => hf j (by omega))
      have h2 : f n = false := by
        cases hfn : f n
        · rfl
        · have := (hf n (by omega)).mp hfn
          omega
      simp [h1, h2]

/-- syndromes of a two-bit word -/
theorem syndAt_two {c : BchInst} (f : OkFacts c) [Good c.P] (p q i : Nat) (hp : p < c.n) (hq : q < c.n) :
    syndAt c.P c.n ((1 <<< p) ^^^ (1 <<< q)) i = ((alpha f ^ p) ^ i + (alpha f ^ q) ^ i).val := by
  rw [syndAt_xor, syndAt_unit f p i hp, syndAt_unit f q i hq, val_add]
  congr 1
  · rw [← pow_mul, ← pow_mul, mul_comm]
  · rw [← pow_mul, ← pow_mul, mul_comm]

/-- evaluation of a quadratic locator in the model -/
theorem evalList_quad {P : Nat} [Good P] (s c x : Elt P) :
    evalList P [(1 : Elt P).val, s.val, c.val] x.val = (1 * x ^ 0 + s * x ^ 1 + c * x ^ 2).val := by
  unfold evalList
  simp only [List.zipIdx_cons, List.zipIdx_nil, List.foldl_cons, List.foldl_nil, Nat.zero_add, Nat.zero_xor]
  rw [Field18.fpow_model_eq x 0, Field18.fpow_model_eq x 1, Field18.fpow_model_eq x (1 + 1), Field18.fmul_model_eq 1 (x ^ 0),
    Field18.fmul_model_eq s (x ^ 1), Field18.fmul_model_eq c (x ^ (1 + 1))]
  rfl

/-- **the root search on the locator `(1 + α^p x)(1 + α^q x)`** finds exactly the positions `p` and `q` -/
theorem locate_pair {c : BchInst} (f : OkFacts c) [Good c.P] (p q : Nat) (hpq : p < q) (hq : q < c.n) :
    locate c.P c.n [1, (alpha f ^ p + alpha f ^ q).val, (alpha f ^ p * alpha f ^ q).val] = [p, q] := by
  have hnz := f.noZeroDivisors
  have hchar : ∀ x : Elt c.P, x + x = 0 := add_self_elt
  apply filter_range_pair c.n p q hpq hq
  intro j hj
  have hlist : ([1, (alpha f ^ p + alpha f ^ q).val, (alpha f ^ p * alpha f ^ q).val] : List Nat) =
      [(1 : Elt c.P).val, (alpha f ^ p + alpha f ^ q).val, (alpha f ^ p * alpha f ^ q).val] := rfl
  rw [xAt_val f j, hlist, evalList_quad, quad_factor]
  simp only [beq_iff_eq]
  have hz : ((1 + alpha f ^ p * xAt f j) * (1 + alpha f ^ q * xAt f j)).val = 0 ↔
      (1 + alpha f ^ p * xAt f j) * (1 + alpha f ^ q * xAt f j) = 0 :=
    ⟨fun h => Subtype.ext h, fun h => by rw [h]; rfl⟩
  rw [hz, mul_eq_zero, add_eq_zero_char2 hchar, add_eq_zero_char2 hchar, eq_comm, root_iff f p j (by omega) hj,
    eq_comm (a := (1 : Elt c.P)), root_iff f q j hq hj]





theorem finv_model {c : BchInst} (f : OkFacts c) [Good c.P] (s : Elt c.P) (hs : s ≠ 0) :
    finv? c.P c.m s.val = some (s ^ (c.n - 1)).val := by
  have hsv : s.val ≠ 0 := fun h => hs (Subtype.ext h)
  unfold finv?
  rw [if_neg hsv]
  by_cases h1 : s.val = 1
  · rw [if_pos h1]
    have : s = 1 := Subtype.ext h1
    rw [this, one_pow]; rfl
  · rw [if_neg h1]
    have hn : c.n - 1 = 2 ^ c.m - 2 := by rw [f.hn]; omega
    rw [hn, Field18.fpow_model_eq s (2 ^ c.m - 2)]

/-- **two errors**: the decoder model (t = 2) removes every pattern of exactly two errors from every code word -/
theorem bm_double_error (c : BchInst) (hok : bchOk c = true) (hd : 4 < c.delta) (msg p q : Nat) (hpq : p < q) (hq : q < c.n) :
    correct c.P c.m 2 c.n (encode c.G msg ^^^ ((1 <<< p) ^^^ (1 <<< q))) = encode c.G msg := by
  have f := facts_of_ok c hok
  have := f.good
  have hnz := f.noZeroDivisors
  have hchar : ∀ x : Elt c.P, x + x = 0 := add_self_elt
  have hp : p < c.n := by omega
  rw [bm_reduction c 2 hok (by omega) msg _]
  suffices h : correct c.P c.m 2 c.n ((1 <<< p) ^^^ (1 <<< q)) = 0 by rw [h, Nat.xor_zero]
  set a := alpha f ^ p with ha
  set b := alpha f ^ q with hb
  have ha0 : a ≠ 0 := alpha_pow_ne_zero f p
  have hb0 : b ≠ 0 := alpha_pow_ne_zero f q
  have hab : a ≠ b := by
    intro h
    have := pow_injOn_Iio_orderOf (x := alpha f) (by rw [f.order]; exact hp) (by rw [f.order]; exact hq) h
    omega
  have hs0 : a + b ≠ 0 := fun h => hab ((add_eq_zero_char2 hchar a b).mp h)
  unfold correct estimate synd
  have hS : (List.range' 1 (2 * 2)).map (syndAt c.P c.n ((1 <<< p) ^^^ (1 <<< q))) =
      [(a + b).val, (a ^ 2 + b ^ 2).val, (a ^ 3 + b ^ 3).val, (a ^ 4 + b ^ 4).val] := by
    simp only [show (2 * 2 : Nat) = 1 + 1 + 1 + 1 from rfl, List.range'_succ, List.range'_zero, List.map_cons, List.map_nil]
    rw [syndAt_two f p q 1 hp hq, syndAt_two f p q (1 + 1) hp hq, syndAt_two f p q (1 + 1 + 1) hp hq,
      syndAt_two f p q (1 + 1 + 1 + 1) hp hq, pow_one, pow_one]
  rw [hS]
  have hS1 : (a + b).val ≠ 0 := fun h => hs0 (Subtype.ext h)
  have hall : ([(a + b).val, (a ^ 2 + b ^ 2).val, (a ^ 3 + b ^ 3).val, (a ^ 4 + b ^ 4).val].all (· == 0)) = false := by
    simp [hS1]
  rw [hall]
  simp only [Bool.false_eq_true, if_false]
  have h2 : (a ^ 2 + b ^ 2).val = GF2m.fmul c.P (a + b).val (a + b).val := by
    rw [Field18.fmul_model_eq (a + b) (a + b), sq_add_char2 hchar a b]
  have hd2 : (a ^ 3 + b ^ 3).val ^^^ GF2m.fmul c.P (a + b).val (a ^ 2 + b ^ 2).val = (a * b * (a + b)).val := by
    rw [Field18.fmul_model_eq (a + b) (a ^ 2 + b ^ 2), ← val_add, disc2_char2 hchar a b]
  have hd2ne : (a * b * (a + b)).val ≠ 0 := by
    intro h
    have : a * b * (a + b) = 0 := Subtype.ext h
    rcases mul_eq_zero.mp this with h' | h'
    · rcases mul_eq_zero.mp h' with h'' | h''
      · exact ha0 h''
      · exact hb0 h''
    · exact hs0 h'
  rw [bm_t2 c.P c.m _ _ _ _ _ hS1 h2 (finv_model f (a + b) hs0), hd2, if_neg hd2ne]
  have hc : GF2m.fmul c.P (a * b * (a + b)).val ((a + b) ^ (c.n - 1)).val = (a * b).val := by
    rw [Field18.fmul_model_eq (a * b * (a + b)) ((a + b) ^ (c.n - 1)), mul_assoc, OkFacts.mul_pow_inv f (a + b) hs0, mul_one]
  rw [hc, locate_pair f p q hpq hq]
  simp [maskOfPositions]





/-- one error, decoder configured for t = 2 -/
theorem bm_single_error_t2 (c : BchInst) (hok : bchOk c = true) (hd : 4 < c.delta) (msg p : Nat) (hp : p < c.n) :
    correct c.P c.m 2 c.n (encode c.G msg ^^^ (1 <<< p)) = encode c.G msg := by
  have f := facts_of_ok c hok
  have := f.good
  have hchar : ∀ x : Elt c.P, x + x = 0 := add_self_elt
  rw [bm_reduction c 2 hok (by omega) msg _]
  suffices h : correct c.P c.m 2 c.n (1 <<< p) = 0 by rw [h, Nat.xor_zero]
  set a := alpha f ^ p with ha
  have ha0 : a ≠ 0 := alpha_pow_ne_zero f p
  unfold correct estimate synd
  have hS : (List.range' 1 (2 * 2)).map (syndAt c.P c.n (1 <<< p)) = [a.val, (a ^ 2).val, (a ^ 3).val, (a ^ 4).val] := by
    simp only [show (2 * 2 : Nat) = 1 + 1 + 1 + 1 from rfl, List.range'_succ, List.range'_zero, List.map_cons, List.map_nil]
    rw [syndAt_unit f p 1 hp, syndAt_unit f p (1 + 1) hp, syndAt_unit f p (1 + 1 + 1) hp, syndAt_unit f p (1 + 1 + 1 + 1) hp]
    simp only [← pow_mul, Nat.one_mul, ha]
    congr 1 <;> (try congr 1) <;> (try congr 1) <;> (try rw [mul_comm])
  rw [hS]
  have hS1 : a.val ≠ 0 := fun h => ha0 (Subtype.ext h)
  have hall : ([a.val, (a ^ 2).val, (a ^ 3).val, (a ^ 4).val].all (· == 0)) = false := by simp [hS1]
  rw [hall]
  simp only [Bool.false_eq_true, if_false]
  have h2 : (a ^ 2).val = GF2m.fmul c.P a.val a.val := by
    rw [Field18.fmul_model_eq a a, pow_two]
  have hd2 : (a ^ 3).val ^^^ GF2m.fmul c.P a.val (a ^ 2).val = 0 := by
    rw [Field18.fmul_model_eq a (a ^ 2), ← pow_succ', ← val_add, hchar]; rfl
  rw [bm_t2 c.P c.m _ _ _ _ _ hS1 h2 (finv_model f a ha0), if_pos hd2, ha, locate_single f p hp]
  simp [maskOfPositions]

/-- a word below `2^n` with at most two 1s is zero, a single bit, or two distinct bits -/
theorem light_two (n e : Nat) (he : e < 2 ^ n) (hw : weight n e ≤ 2) :
    e = 0 ∨ (∃ p, p < n ∧ e = 1 <<< p) ∨ ∃ p q, p < q ∧ q < n ∧ e = (1 <<< p) ^^^ (1 <<< q) := by
  by_cases h0 : e = 0
  · exact Or.inl h0
  · right
    have hL : e.log2 < n := (Nat.log2_lt h0).mpr he
    have hw' := DistInfo.weight_clear_top n e h0 he
    set r := e % 2 ^ e.log2 with hr
    have hrlt : r < 2 ^ e.log2 := Nat.mod_lt _ (Nat.two_pow_pos _)
    have hrn : r < 2 ^ n := lt_of_lt_of_le hrlt (Nat.pow_le_pow_right (by decide) (by omega))
    have hlt : e < 2 ^ (e.log2 + 1) := (Nat.log2_lt h0).mp (Nat.lt_succ_self _)
    have hsplit : e = r ^^^ (1 <<< e.log2) := by
      apply Nat.eq_of_testBit_eq
      intro i
      rw [Nat.testBit_xor, hr, Nat.testBit_mod_two_pow, Nat.one_shiftLeft, Nat.testBit_two_pow]
      rcases Nat.lt_trichotomy i e.log2 with hi | hi | hi
      · have : e.log2 ≠ i := by omega
        simp [hi, this]
      · subst hi; simp [Nat.testBit_log2 h0]
      · have h1 : e.testBit i = false :=
          Nat.testBit_lt_two_pow (lt_of_lt_of_le hlt (Nat.pow_le_pow_right (by decide) (by omega)))
        have h2 : ¬ i < e.log2 := by omega
        have h3 : e.log2 ≠ i := by omega
        simp [h1, h2, h3]
    rcases light_one n r hrn (by omega) with hr0 | ⟨p, hp, hrp⟩
    · left
      refine ⟨e.log2, hL, ?_⟩
      exact hsplit.trans (by rw [hr0, Nat.zero_xor])
    · right
      have hpL : p < e.log2 := by
        by_contra hge
        have : 2 ^ e.log2 ≤ 2 ^ p := Nat.pow_le_pow_right (by decide) (by omega)
        rw [hrp, Nat.one_shiftLeft] at hrlt
        omega
      exact ⟨p, e.log2, hpL, hL, hsplit.trans (by rw [hrp])⟩

/-- **t = 2: every error pattern of weight ≤ 2 on every code word, every certified BCH instance with δ ≥ 5, every length** -/
theorem bm_corrects_t2 (c : BchInst) (hok : bchOk c = true) (hd : 4 < c.delta) (msg e : Nat) (he : e < 2 ^ c.n)
    (hw : weight c.n e ≤ 2) : correct c.P c.m 2 c.n (encode c.G msg ^^^ e) = encode c.G msg := by
  rcases light_two c.n e he hw with h0 | ⟨p, hp, rfl⟩ | ⟨p, q, hpq, hq, rfl⟩
  · subst h0
    rw [Nat.xor_zero]
    exact bm_no_error c hok 2 (by omega) msg
  · exact bm_single_error_t2 c hok hd msg p hp
  · exact bm_double_error c hok hd msg p q hpq hq



/-- **the root search is exact for every error set** (any number of errors): if the coefficient list evaluates like the
error-locator polynomial `∏_{l ∈ E} (1 + α^l x)` of a set `E` of positions below `n`, the search returns exactly the positions
in `E`, in increasing order -/
theorem locate_exact {c : BchInst} (f : OkFacts c) [Good c.P] (E : Finset Nat) (hE : ∀ l ∈ E, l < c.n) (sig : List Nat)
    (hsig : ∀ x : Elt c.P, evalList c.P sig x.val = (∏ l ∈ E, (1 + alpha f ^ l * x)).val) :
    locate c.P c.n sig = (List.range c.n).filter (fun j => decide (j ∈ E)) := by
  have hnz := f.noZeroDivisors
  have hchar : ∀ x : Elt c.P, x + x = 0 := add_self_elt
  unfold locate
  apply List.filter_congr
  intro j hj
  have hjn : j < c.n := List.mem_range.mp hj
  rw [xAt_val f j, hsig]
  have hz : (∏ l ∈ E, (1 + alpha f ^ l * xAt f j)).val = 0 ↔ ∏ l ∈ E, (1 + alpha f ^ l * xAt f j) = 0 :=
    ⟨fun h => Subtype.ext h, fun h => by rw [h]; rfl⟩
  have : ((∏ l ∈ E, (1 + alpha f ^ l * xAt f j)).val == 0) = decide (j ∈ E) := by
    rw [Bool.eq_iff_iff, beq_iff_eq, decide_eq_true_iff, hz, Finset.prod_eq_zero_iff]
    constructor
    · rintro ⟨l, hl, h0⟩
      rw [add_eq_zero_char2 hchar, eq_comm, root_iff f l j (hE l hl) hjn] at h0
      rw [h0]; exact hl
    · intro hjE
      refine ⟨j, hjE, ?_⟩
      rw [add_eq_zero_char2 hchar, eq_comm, root_iff f j j hjn hjn]
  exact this


/-- **conjugacy of the syndromes of a binary word**: `S_{2i} = S_i²` (Frobenius in characteristic 2) — the even-indexed syndromes carry no
information beyond the odd-indexed ones -/
theorem syndAt_double {c : BchInst} (f : OkFacts c) (r i : Nat) :
    syndAt c.P c.n r (2 * i) = GF2m.fmul c.P (syndAt c.P c.n r i) (syndAt c.P c.n r i) := by
  have := f.good
  have hs : ∀ j, syndAt c.P c.n r j = (bitSum (alpha f ^ j) r c.n).val := by
    intro j
    unfold syndAt
    have e : fpow c.P 2 j = (alpha f ^ j).val := Field18.fpow_model_eq (alpha f) j
    simp only [e]
    exact foldl_eq_bitSum (alpha f ^ j) r c.n
  have key : bitSum (alpha f ^ (2 * i)) r c.n = bitSum (alpha f ^ i) r c.n * bitSum (alpha f ^ i) r c.n := by
    unfold bitSum
    have : Fact (Nat.Prime 2) := ⟨Nat.prime_two⟩
    rw [← pow_two, sum_pow_char 2]
    apply Finset.sum_congr rfl
    intro j _
    split
    · rw [← pow_mul, ← pow_mul, ← pow_mul]; congr 1; ring
    · rw [zero_pow (by decide)]
  rw [hs, hs, Field18.fmul_model_eq, key]


end BMProofs
