import Proofs.BCHBound
import Kaira.BM
import Proofs.Decoders

/-! # Berlekamp–Massey decoder: what can be said for every code word -/
namespace BMProofs
open Kaira Kaira.BM Kaira.GF2m GF BCHBound Kaira.Codes Kaira.Dist CodesProofs Finset BCHAbs

/-! ### syndromes are additive -/
theorem foldl_synd_xor (P ai : Nat) (a b : Nat) : ∀ (l : List Nat) (x y : Nat),
    l.foldl (fun acc j => if (a ^^^ b).testBit j then acc ^^^ fpow P ai j else acc) (x ^^^ y) =
      l.foldl (fun acc j => if a.testBit j then acc ^^^ fpow P ai j else acc) x ^^^
      l.foldl (fun acc j => if b.testBit j then acc ^^^ fpow P ai j else acc) y
  | [], _, _ => rfl
  | j :: l, x, y => by
    simp only [List.foldl_cons]
    have hx : (a ^^^ b).testBit j = (a.testBit j ^^ b.testBit j) := Nat.testBit_xor _ _ _
    rw [hx]
    cases ha : a.testBit j <;> cases hb : b.testBit j <;> simp only [Bool.xor_false, Bool.xor_true, Bool.not_false,
      Bool.not_true, Bool.false_eq_true, if_false, if_true]
    · exact foldl_synd_xor P ai a b l x y
    · rw [show x ^^^ y ^^^ fpow P ai j = x ^^^ (y ^^^ fpow P ai j) from Nat.xor_assoc _ _ _]
      exact foldl_synd_xor P ai a b l x _
    · rw [show x ^^^ y ^^^ fpow P ai j = (x ^^^ fpow P ai j) ^^^ y by
        rw [Nat.xor_assoc, Nat.xor_comm y, ← Nat.xor_assoc]]
      exact foldl_synd_xor P ai a b l _ y
    · have hxy : x ^^^ y = (x ^^^ fpow P ai j) ^^^ (y ^^^ fpow P ai j) := by
        apply Nat.eq_of_testBit_eq
        intro i
        simp only [Nat.testBit_xor]
        cases x.testBit i <;> cases y.testBit i <;> cases (fpow P ai j).testBit i <;> rfl
      rw [hxy]
      exact foldl_synd_xor P ai a b l _ _

theorem syndAt_xor (P n a b i : Nat) : syndAt P n (a ^^^ b) i = syndAt P n a i ^^^ syndAt P n b i := by
  unfold syndAt
  have := foldl_synd_xor P (fpow P 2 i) a b (List.range n) 0 0
  simpa using this

/-- a word all of whose syndromes vanish does not change the syndromes of what it is added to -/
theorem synd_add_of_zero (P t n c e : Nat) (hc : ∀ i ∈ List.range' 1 (2 * t), syndAt P n c i = 0) :
    synd P t n (c ^^^ e) = synd P t n e := by
  unfold synd
  apply List.map_congr_left
  intro i hi
  rw [syndAt_xor, hc i hi, Nat.zero_xor]

/-- **the decoder's correction depends on the received word only through its syndromes**: adding a word with all-zero
syndromes to the input adds the same word to the output -/
theorem correct_add_of_zero (P m t n c e : Nat) (hc : ∀ i ∈ List.range' 1 (2 * t), syndAt P n c i = 0) :
    correct P m t n (c ^^^ e) = c ^^^ correct P m t n e := by
  unfold correct
  rw [synd_add_of_zero P t n c e hc, Nat.xor_assoc]

/-! ### the syndromes of a code word vanish -/
theorem foldl_eq_bitSum {P : Nat} [Good P] (x : Elt P) (r : Nat) : ∀ n,
    (List.range n).foldl (fun acc j => if r.testBit j then acc ^^^ fpow P x.val j else acc) 0 = (bitSum x r n).val
  | 0 => by simp [bitSum]; rfl
  | n+1 => by
    rw [List.range_succ, List.foldl_append, foldl_eq_bitSum x r n]
    unfold bitSum
    rw [Finset.sum_range_succ]
    simp only [List.foldl_cons, List.foldl_nil]
    split
    · rw [Field18.fpow_model_eq x n]; rfl
    · rw [add_zero]

theorem syndAt_codeword {c : BchInst} (f : OkFacts c) (msg i : Nat) (h1 : 1 ≤ i) (h2 : i < c.delta) :
    syndAt c.P c.n (encode c.G msg) i = 0 := by
  have := f.good
  unfold syndAt
  have e : fpow c.P 2 i = (alpha f ^ i).val := Field18.fpow_model_eq (alpha f) i
  simp only [e]
  rw [foldl_eq_bitSum (alpha f ^ i) (encode c.G msg) c.n, f.codeword_roots msg i h1 h2]
  rfl

/-! ### every light pattern -/
/-- `f` holds on `acc ⊕ e` for every `e` below `2^n` with at most `t` ones -/
def allLight (f : Nat → Bool) : Nat → Nat → Nat → Bool
  | 0, _, acc => f acc
  | n+1, t, acc => allLight f n t acc && (t == 0 || allLight f n (t - 1) (acc ^^^ (1 <<< n)))

theorem allLight_sound (f : Nat → Bool) : ∀ (n t acc e : Nat), allLight f n t acc = true → e < 2 ^ n → weight n e ≤ t →
    f (acc ^^^ e) = true
  | 0, t, acc, e, h, he, _ => by
    have : e = 0 := by omega
    subst this; simpa [allLight] using h
  | n+1, t, acc, e, h, he, hw => by
    simp only [allLight, Bool.and_eq_true, Bool.or_eq_true, beq_iff_eq] at h
    simp only [weight] at hw
    cases hb : e.testBit n with
    | false =>
      have he' : e < 2 ^ n := by
        apply Nat.lt_pow_two_of_testBit
        intro i hi
        rcases Nat.lt_or_ge i (n + 1) with h1 | h1
        · have : i = n := by omega
          rw [this, hb]
        · exact Nat.testBit_lt_two_pow (lt_of_lt_of_le he (Nat.pow_le_pow_right (by decide) h1))
      rw [hb] at hw
      exact allLight_sound f n t acc e h.1 he' (by simpa using hw)
    | true =>
      rw [hb] at hw
      simp only [if_true] at hw
      rcases h.2 with h0 | h2
      · omega
      · set e' := e ^^^ (1 <<< n) with he'
        have hlt : e' < 2 ^ n := by
          apply Nat.lt_pow_two_of_testBit
          intro i hi
          rw [he', Nat.testBit_xor, Nat.one_shiftLeft, Nat.testBit_two_pow]
          rcases Nat.lt_or_ge i (n + 1) with h1 | h1
          · have : i = n := by omega
            rw [this, hb]; simp
          · rw [Nat.testBit_lt_two_pow (lt_of_lt_of_le he (Nat.pow_le_pow_right (by decide) h1))]
            have : n ≠ i := by omega
            simp [this]
        have hwe : weight n e' = weight n e := by
          rw [he', ← DistInfo.weight_mod n n (e ^^^ 1 <<< n) (le_refl _), ← DistInfo.weight_mod n n e (le_refl _)]
          congr 1
          apply Nat.eq_of_testBit_eq
          intro i
          simp only [Nat.testBit_mod_two_pow, Nat.testBit_xor, Nat.one_shiftLeft, Nat.testBit_two_pow]
          by_cases hi : i < n
          · have : n ≠ i := by omega
            simp [hi, this]
          · simp [hi]
        have := allLight_sound f n (t - 1) (acc ^^^ (1 <<< n)) e' h2 hlt (by omega)
        rw [Nat.xor_assoc, he', ← Nat.xor_assoc (1 <<< n), Nat.xor_comm (1 <<< n) e, Nat.xor_assoc, Nat.xor_self, Nat.xor_zero] at this
        exact this

/-- the kernel-evaluated obligation for one instance: the decoder returns the all-zero word from every error pattern of
weight at most `t` -/
def lightOk (c : BchInst) (t : Nat) : Bool := allLight (fun e => correct c.P c.m t c.n e == 0) c.n t 0

/-- **Berlekamp–Massey corrects every pattern within capability on every code word** of an instance whose certificate
(`bchOk`) holds and whose light patterns decode to zero: the reduction to the zero code word is a theorem
(`correct_add_of_zero` + the syndromes of code words vanish), the light patterns are evaluated by the kernel -/
theorem bm_corrects (c : BchInst) (t : Nat) (hok : bchOk c = true) (ht : 2 * t < c.delta) (hl : lightOk c t = true)
    (msg e : Nat) (he : e < 2 ^ c.n) (hw : weight c.n e ≤ t) :
    correct c.P c.m t c.n (encode c.G msg ^^^ e) = encode c.G msg := by
  have f := facts_of_ok c hok
  rw [correct_add_of_zero c.P c.m t c.n (encode c.G msg) e (fun i hi => by
    simp only [List.mem_range'_1] at hi
    exact syndAt_codeword f msg i hi.1 (by omega))]
  have := allLight_sound _ c.n t 0 e hl he hw
  rw [Nat.zero_xor] at this
  rw [beq_iff_eq.mp this, Nat.xor_zero]

/-- … and the message extraction then returns the message -/
theorem bm_decodes (c : BchInst) (t : Nat) (hok : bchOk c = true) (ht : 2 * t < c.delta) (hl : lightOk c t = true)
    (msg e : Nat) (hm : msg < 2 ^ c.k) (he : e < 2 ^ c.n) (hw : weight c.n e ≤ t) :
    invEncode c.R (correct c.P c.m t c.n (encode c.G msg ^^^ e)) = msg := by
  have f := facts_of_ok c hok
  rw [bm_corrects c t hok ht hl msg e he hw]
  exact roundtrip c.G c.R f.hunit msg (by rwa [f.hGl])

/-- for ANY instance with a valid certificate (no enumeration): correcting `(code word, e)` is the same as correcting `(0, e)` -/
theorem bm_reduction (c : BchInst) (t : Nat) (hok : bchOk c = true) (ht : 2 * t < c.delta) (msg e : Nat) :
    correct c.P c.m t c.n (encode c.G msg ^^^ e) = encode c.G msg ^^^ correct c.P c.m t c.n e := by
  have f := facts_of_ok c hok
  exact correct_add_of_zero c.P c.m t c.n (encode c.G msg) e (fun i hi => by
    simp only [List.mem_range'_1] at hi
    exact syndAt_codeword f msg i hi.1 (by omega))

/-- a word below `2^n` with at most `2t` ones whose syndromes `w(α^j)`, `j = 1 … 2t`, all vanish is the zero word
(the BCH-bound argument applied to the support of the word itself — it need not be a code word) -/
theorem light_zero_syndromes_zero {c : BchInst} (f : OkFacts c) (t w : Nat) (hw : w < 2 ^ c.n) (hl : weight c.n w ≤ 2 * t)
    (hz : ∀ i ∈ List.range' 1 (2 * t), syndAt c.P c.n w i = 0) : w = 0 := by
  have := f.good
  have := f.noZeroDivisors
  have : IsDomain (Elt c.P) := NoZeroDivisors.to_isDomain _
  by_contra hne
  set S := (range c.n).filter (fun i => w.testBit i = true) with hS
  have hSne : S.Nonempty := by
    obtain ⟨i, hi⟩ := Nat.exists_testBit_of_ne_zero hne
    refine ⟨i, Finset.mem_filter.mpr ⟨Finset.mem_range.mpr ?_, hi⟩⟩
    by_contra hge
    have : w < 2 ^ i := lt_of_lt_of_le hw (Nat.pow_le_pow_right (by decide) (by omega))
    rw [Nat.testBit_lt_two_pow this] at hi
    cases hi
  have hsum : ∀ j, 1 ≤ j → j < 2 * t + 1 → ∑ i ∈ S, (alpha f ^ i) ^ j = 0 := by
    intro j h1 h2
    have hzj := hz j (by simp only [List.mem_range'_1]; omega)
    unfold syndAt at hzj
    have e : fpow c.P 2 j = (alpha f ^ j).val := Field18.fpow_model_eq (alpha f) j
    simp only [e] at hzj
    rw [foldl_eq_bitSum (alpha f ^ j) w c.n] at hzj
    have hb : bitSum (alpha f ^ j) w c.n = 0 := Subtype.ext hzj
    unfold bitSum at hb
    rw [← Finset.sum_filter] at hb
    rw [← hb]
    apply Finset.sum_congr rfl
    intro i _
    rw [← pow_mul, ← pow_mul, mul_comm]
  have := bch_bound (alpha f) c.n (2 * t + 1) f.order S (fun i hi => Finset.mem_range.mp (Finset.mem_filter.mp hi).1) hSne hsum
  rw [hS, card_support] at this
  omega

/-- **certified output**: for a certified BCH instance and `2t < δ`, ANY word `out` that has all-zero syndromes and lies within
distance `t` of the received word `code word ⊕ e` (weight of `e` at most `t`) is the transmitted code word — whatever produced
it.  The check evaluates these two conditions on the implementation's corrected words; together with this theorem each such
answer is correct without relying on the model of the Berlekamp–Massey recursion. -/
theorem bm_output_certified (c : BchInst) (hok : bchOk c = true) (t : Nat) (ht : 2 * t < c.delta) (msg e out : Nat)
    (he : e < 2 ^ c.n) (hw : weight c.n e ≤ t) (hout : out < 2 ^ c.n)
    (hz : ∀ i ∈ List.range' 1 (2 * t), syndAt c.P c.n out i = 0)
    (hd : weight c.n (out ^^^ (encode c.G msg ^^^ e)) ≤ t) : out = encode c.G msg := by
  have f := facts_of_ok c hok
  set cw := encode c.G msg with hcw
  have hcwlt : cw < 2 ^ c.n := f.codeword_lt msg
  have hwz : out ^^^ cw = 0 := by
    apply light_zero_syndromes_zero f t (out ^^^ cw) (Nat.xor_lt_two_pow hout hcwlt)
    · have e1 : out ^^^ cw = (out ^^^ (cw ^^^ e)) ^^^ e := by
        apply Nat.eq_of_testBit_eq; intro i
        simp only [Nat.testBit_xor]
        cases out.testBit i <;> cases cw.testBit i <;> cases e.testBit i <;> rfl
      rw [e1]
      have := DecProofs.weight_xor_le c.n (out ^^^ (cw ^^^ e)) e
      omega
    · intro i hi
      rw [syndAt_xor, hz i hi, Nat.zero_xor]
      simp only [List.mem_range'_1] at hi
      exact syndAt_codeword f msg i hi.1 (by omega)
  apply Nat.eq_of_testBit_eq
  intro i
  have := congrArg (fun x => x.testBit i) hwz
  simp only [Nat.testBit_xor, Nat.zero_testBit] at this
  cases h1 : out.testBit i <;> cases h2 : cw.testBit i <;> simp_all

end BMProofs
