import Kaira.Conv
import Mathlib.Tactic.Ring
import Mathlib.Tactic.Linarith
import Mathlib.Algebra.Order.Field.Rat
open Kaira.Conv

namespace ConvProofs

theorem out_same (l : Layer) (h : Nat) (hh : 0 < h) (hc : classify l = some .same) : out l h = h := by
  cases l with
  | conv k s p =>
    simp only [classify] at hc
    split_ifs at hc with h1 h2 <;> first
      | (obtain ⟨rfl, rfl⟩ := h1; simp only [out]; omega)
      | (cases hc)
  | tconv k s p op =>
    simp only [classify] at hc
    split_ifs at hc with h1 h2 <;> first
      | (obtain ⟨rfl, rfl, rfl⟩ := h1; simp only [out]; omega)
      | (cases hc)
  | shuffle r =>
    simp only [classify] at hc
    split_ifs at hc with h1 h2 <;> first
      | (subst h1; simp [out])
      | (cases hc)

theorem out_half (l : Layer) (h : Nat) (hh : 0 < h) (he : h % 2 = 0) (hc : classify l = some .half) : out l h = h / 2 := by
  cases l with
  | conv k s p =>
    simp only [classify] at hc
    split_ifs at hc with h1 h2 <;> first
      | (obtain ⟨rfl, hk⟩ := h2; simp only [out]; rcases hk with rfl | rfl <;> omega)
      | (cases hc)
  | tconv k s p op =>
    simp only [classify] at hc
    split_ifs at hc <;> cases hc
  | shuffle r =>
    simp only [classify] at hc
    split_ifs at hc <;> cases hc

theorem out_double (l : Layer) (h : Nat) (hh : 0 < h) (hc : classify l = some .double) : out l h = 2 * h := by
  cases l with
  | conv k s p =>
    simp only [classify] at hc
    split_ifs at hc <;> cases hc
  | tconv k s p op =>
    simp only [classify] at hc
    split_ifs at hc with h1 h2 <;> first
      | (obtain ⟨rfl, hk⟩ := h2; simp only [out]; omega)
      | (cases hc)
  | shuffle r =>
    simp only [classify] at hc
    split_ifs at hc with h1 h2 <;> first
      | (subst h2; simp only [out]; omega)
      | (cases hc)

/-- an encoder stack with `a` halving layers maps every positive size divisible by `2^a` to `h / 2^a` -/
theorem chain_enc : ∀ (ls : List Layer) (a h : Nat), encClass ls = some a → 0 < h → 2 ^ a ∣ h →
    chain ls h = h / 2 ^ a
  | [], a, h, hc, _, _ => by simp [encClass] at hc; subst hc; simp [chain]
  | l :: ls, a, h, hc, hh, hd => by
    simp only [encClass] at hc
    cases hcl : classify l with
    | none => simp [hcl] at hc
    | some c =>
      cases hr : encClass ls with
      | none => cases c <;> simp [hcl, hr] at hc
      | some a' =>
        cases c with
        | same =>
          simp [hcl, hr] at hc; subst hc
          have := chain_enc ls a' h hr hh hd
          simp only [chain, List.foldl_cons, out_same l h hh hcl] at this ⊢
          exact this
        | half =>
          simp [hcl, hr] at hc; subst hc
          obtain ⟨q, rfl⟩ := hd
          have hq : 0 < q := by
            rcases Nat.eq_zero_or_pos q with h0 | h0
            · subst h0; simp at hh
            · exact h0
          have e : 2 ^ (a' + 1) * q = 2 * (2 ^ a' * q) := by rw [pow_succ]; ring
          have he : (2 ^ (a' + 1) * q) % 2 = 0 := by rw [e]; omega
          have hhalf : 2 ^ (a' + 1) * q / 2 = 2 ^ a' * q := by rw [e]; omega
          have := chain_enc ls a' (2 ^ a' * q) hr (by positivity) ⟨q, rfl⟩
          simp only [chain, List.foldl_cons, out_half l _ hh he hcl, hhalf] at this ⊢
          rw [this, Nat.mul_div_cancel_left _ (by positivity), Nat.mul_div_cancel_left _ (by positivity)]
        | double => simp [hcl, hr] at hc

/-- a decoder stack with `a` doubling layers maps every positive size `h` to `h · 2^a` -/
theorem chain_dec : ∀ (ls : List Layer) (a h : Nat), decClass ls = some a → 0 < h → chain ls h = h * 2 ^ a
  | [], a, h, hc, _ => by simp [decClass] at hc; subst hc; simp [chain]
  | l :: ls, a, h, hc, hh => by
    simp only [decClass] at hc
    cases hcl : classify l with
    | none => simp [hcl] at hc
    | some c =>
      cases hr : decClass ls with
      | none => cases c <;> simp [hcl, hr] at hc
      | some a' =>
        cases c with
        | same =>
          simp [hcl, hr] at hc; subst hc
          have := chain_dec ls a' h hr hh
          simp only [chain, List.foldl_cons, out_same l h hh hcl] at this ⊢
          exact this
        | half => simp [hcl, hr] at hc
        | double =>
          simp [hcl, hr] at hc; subst hc
          have := chain_dec ls a' (2 * h) hr (by omega)
          simp only [chain, List.foldl_cons, out_double l h hh hcl] at this ⊢
          rw [this, pow_succ]; ring

/-- **shape contract**: encoder with `a` halvings then decoder with `a` doublings returns the input
size, for every positive size divisible by `2^a` -/
theorem roundtrip (enc dec : List Layer) (a h : Nat) (he : encClass enc = some a) (hd : decClass dec = some a)
    (hh : 0 < h) (hdiv : 2 ^ a ∣ h) : chain dec (chain enc h) = h ∧ chain enc h = h / 2 ^ a := by
  have h1 := chain_enc enc a h he hh hdiv
  obtain ⟨q, rfl⟩ := hdiv
  have hq : 0 < q := by
    rcases Nat.eq_zero_or_pos q with h0 | h0
    · subst h0; simp at hh
    · exact h0
  rw [h1, Nat.mul_div_cancel_left _ (by positivity)]
  refine ⟨?_, rfl⟩
  rw [chain_dec dec a q hd hq]; ring

/-- **bandwidth ratio**: with `numFilters` output channels after `L` halvings, (channel uses) /
(image dimensions) is exactly the requested ratio — real transmission: one use per latent
element; complex: one use per pair -/
theorem bandwidth_ratio (L bwNum bwDen channels : Nat) (cx : Bool) (f : Nat) (hf : numFilters L bwNum bwDen channels cx = some f)
    (hq wq : Nat) (hc : 0 < channels) (hhq : 0 < hq) (hwq : 0 < wq) :
    ((f * hq * wq : Nat) : ℚ) / (if cx then 2 else 1) / ((channels * (2 ^ L * hq) * (2 ^ L * wq) : Nat) : ℚ) = (bwNum : ℚ) / bwDen := by
  have h4 : (4 : ℚ) ^ L = 2 ^ L * 2 ^ L := by rw [← mul_pow]; norm_num
  have hc' : (channels : ℚ) ≠ 0 := by exact_mod_cast (ne_of_gt hc)
  have hh' : (hq : ℚ) ≠ 0 := by exact_mod_cast (ne_of_gt hhq)
  have hw' : (wq : ℚ) ≠ 0 := by exact_mod_cast (ne_of_gt hwq)
  have h2 : ((2 : ℚ) ^ L) ≠ 0 := by positivity
  cases cx
  · simp only [numFilters, Bool.false_eq_true, if_false, Nat.mul_one] at hf
    split_ifs at hf with h1
    have hden : bwDen ≠ 0 := fun h => h1 (Or.inl h)
    have hmod : (channels * 4 ^ L * bwNum) % bwDen = 0 := by
      by_contra h; exact h1 (Or.inr h)
    simp only [Option.some.injEq] at hf
    have hfd : f * bwDen = channels * 4 ^ L * bwNum := by
      rw [← hf]; exact Nat.div_mul_cancel (Nat.dvd_of_mod_eq_zero hmod)
    have hfq : (f : ℚ) * bwDen = channels * 4 ^ L * bwNum := by exact_mod_cast hfd
    have hd' : (bwDen : ℚ) ≠ 0 := by exact_mod_cast hden
    push_cast
    simp only [Bool.false_eq_true, if_false, div_one]
    rw [div_eq_div_iff (by positivity) hd']
    rw [h4] at hfq
    have : (f : ℚ) * hq * wq * bwDen = (f * bwDen) * hq * wq := by ring
    rw [this, hfq]; ring
  · simp only [numFilters, if_true] at hf
    split_ifs at hf with h1
    have hden : bwDen ≠ 0 := fun h => h1 (Or.inl h)
    have hmod : (channels * 4 ^ L * bwNum * 2) % bwDen = 0 := by
      by_contra h; exact h1 (Or.inr h)
    simp only [Option.some.injEq] at hf
    have hfd : f * bwDen = channels * 4 ^ L * bwNum * 2 := by
      rw [← hf]; exact Nat.div_mul_cancel (Nat.dvd_of_mod_eq_zero hmod)
    have hfq : (f : ℚ) * bwDen = channels * 4 ^ L * bwNum * 2 := by exact_mod_cast hfd
    have hd' : (bwDen : ℚ) ≠ 0 := by exact_mod_cast hden
    push_cast
    simp only [if_true]
    rw [div_div, div_eq_div_iff (by positivity) hd']
    rw [h4] at hfq
    have : (f : ℚ) * hq * wq * bwDen = (f * bwDen) * hq * wq := by ring
    rw [this, hfq]; ring

end ConvProofs
