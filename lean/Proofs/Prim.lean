import Mathlib.GroupTheory.OrderOfElement
import Mathlib.Algebra.GroupWithZero.Basic
import Mathlib.Data.Fintype.Card
import Mathlib.Tactic.Ring
import Mathlib.Tactic.Linarith
/-! C18 core: in a finite commutative monoid with zero, an element whose order is (card - 1)
    makes every non-zero element invertible ⇒ field. -/
namespace Prim
variable {M : Type*} [MonoidWithZero M] [Nontrivial M] [Fintype M] [DecidableEq M]

theorem all_nonzero_are_powers (x : M) (N : ℕ) (hN : 0 < N) (hcard : Fintype.card M = N + 1)
    (hord : orderOf x = N) : ∀ a : M, a ≠ 0 → ∃ i, i < N ∧ x ^ i = a := by
  have hxN : x ^ N = 1 := by rw [← hord]; exact pow_orderOf_eq_one x
  have hne : ∀ i, x ^ i ≠ 0 := by
    intro i h0
    have h1 : x ^ (N * (i + 1)) = 1 := by rw [pow_mul, hxN, one_pow]
    have hle : i ≤ N * (i + 1) := by nlinarith
    have h3 : x ^ (N * (i + 1)) = x ^ i * x ^ (N * (i + 1) - i) := by
      rw [← pow_add]; congr 1; omega
    rw [h0, zero_mul] at h3
    rw [h3] at h1
    exact zero_ne_one h1
  let S : Finset M := (Finset.range N).image (fun i => x ^ i)
  have hinj : Set.InjOn (fun i => x ^ i) (Finset.range N : Set ℕ) := by
    intro i hi j hj hij
    have hi' : i < orderOf x := by rw [hord]; simpa using hi
    have hj' : j < orderOf x := by rw [hord]; simpa using hj
    exact pow_injOn_Iio_orderOf hi' hj' hij
  have hcardS : S.card = N := by
    rw [Finset.card_image_of_injOn hinj, Finset.card_range]
  have hsub : S ⊆ Finset.univ.erase 0 := by
    intro a ha
    obtain ⟨i, _, rfl⟩ := Finset.mem_image.mp ha
    exact Finset.mem_erase.mpr ⟨hne i, Finset.mem_univ _⟩
  have hcardE : (Finset.univ.erase (0:M)).card = N := by
    rw [Finset.card_erase_of_mem (Finset.mem_univ _), Finset.card_univ, hcard]; rfl
  have heq : S = Finset.univ.erase 0 := Finset.eq_of_subset_of_card_le hsub (by rw [hcardS, hcardE])
  intro a ha
  have : a ∈ S := by rw [heq]; exact Finset.mem_erase.mpr ⟨ha, Finset.mem_univ _⟩
  obtain ⟨i, hi, rfl⟩ := Finset.mem_image.mp this
  exact ⟨i, by simpa using hi, rfl⟩

theorem inverse_exists (x : M) (N : ℕ) (hN : 0 < N) (hcard : Fintype.card M = N + 1)
    (hord : orderOf x = N) (a : M) (ha : a ≠ 0) : a * a ^ (N - 1) = 1 := by
  obtain ⟨i, hi, rfl⟩ := all_nonzero_are_powers x N hN hcard hord a ha
  have hxN : x ^ N = 1 := by rw [← hord]; exact pow_orderOf_eq_one x
  rw [← pow_succ', ← pow_mul]
  have : i * (N - 1 + 1) = N * i := by
    have : N - 1 + 1 = N := by omega
    rw [this, Nat.mul_comm]
  rw [this, pow_mul, hxN, one_pow]
end Prim
