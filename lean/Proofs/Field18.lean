import Proofs.Bridge18
import Proofs.Prim
import Mathlib.Tactic.NormNum.Prime
import Mathlib.Tactic.IntervalCases
import Mathlib.Algebra.BigOperators.Group.List.Basic
import Mathlib.Algebra.BigOperators.Associated
/-!
Model `fmul`/`fpow`/`finv?` of `Kaira.GF2m` agree with the monoid structure on short
representatives (`GF.Elt P`), and a successful primitivity check makes every non-zero element
invertible by the Fermat power the implementation uses.
-/
open Kaira GF

namespace Field18
variable {P : Nat}

theorem fmul_model_eq [Good P] (a b : Elt P) :
    GF2m.fmul P a.val b.val = (a * b).val := by
  rw [val_mul]
  unfold GF2m.fmul
  split
  · next h =>
    rcases h with h | h
    · rw [h, fmul_zero_left P _ Good.pos]
    · rw [h, fmul_comm, fmul_zero_left P _ Good.pos]
  · split
    · next h => rw [h, fmul_comm, fmul_one P _ b.property]
    · split
      · next h => rw [h, fmul_one P _ a.property]
      · rw [Bridge.mul_eq_clmul, Bridge.mod_eq_pmod]; rfl

theorem half_decomp (e : Nat) : e = 2 * (e >>> 1) + e % 2 := by
  rw [Nat.shiftRight_eq_div_pow]; omega

theorem powLoop_eq [Good P] (f : Nat) : ∀ (base res : Elt P) (e : Nat), bitLen e ≤ f →
    GF2m.powLoop P f base.val e res.val = (res * base ^ e).val := by
  induction f with
  | zero =>
    intro base res e h
    have : e = 0 := (Bridge.bitLen_zero_iff e).mp (by omega)
    subst this; simp [GF2m.powLoop]
  | succ f ih =>
    intro base res e h
    simp only [GF2m.powLoop]
    split
    · next he => subst he; simp
    · next he =>
      rw [fmul_model_eq base base]
      by_cases h1 : e % 2 = 1
      · simp only [h1, if_true]
        rw [fmul_model_eq res base, ih _ _ _ (Bridge.bitLen_half_le e f h)]
        congr 1
        conv_rhs => rw [half_decomp e, h1, pow_add, pow_mul, pow_one]
        rw [mul_assoc, ← pow_two]
        have hc : base * (base ^ 2) ^ (e >>> 1) = (base ^ 2) ^ (e >>> 1) * base := by
          rw [← pow_mul, ← pow_succ, ← pow_succ']
        rw [hc]
      · have h0 : e % 2 = 0 := by omega
        simp only [h0]
        rw [if_neg (by decide), ih _ _ _ (Bridge.bitLen_half_le e f h)]
        congr 1
        conv_rhs => rw [half_decomp e, h0, Nat.add_zero, pow_mul]
        rw [← pow_two]

theorem fpow_model_eq [Good P] (a : Elt P) (e : Nat) : GF2m.fpow P a.val e = (a ^ e).val := by
  unfold GF2m.fpow
  split
  · next h => subst h; simp; rfl
  · split
    · next h => subst h; simp
    · split
      · next h0 h1 h =>
        have : a = 0 := Subtype.ext h
        subst this
        rw [zero_pow h0]
      · split
        · next h =>
          have : a = 1 := Subtype.ext h
          subst this; simp
        · have := powLoop_eq (bitLen e) a 1 e (le_refl _)
          rw [one_mul] at this
          exact this

/-- prime divisors of `2^m - 1`, with multiplicity, `1 ≤ m ≤ 16` (a fact of arithmetic, not data of
the library) -/
def factors : Nat → List Nat
  | 1 => [] | 2 => [3] | 3 => [7] | 4 => [3, 5] | 5 => [31] | 6 => [3, 3, 7] | 7 => [127]
  | 8 => [3, 5, 17] | 9 => [7, 73] | 10 => [3, 11, 31] | 11 => [23, 89] | 12 => [3, 3, 5, 7, 13]
  | 13 => [8191] | 14 => [3, 43, 127] | 15 => [7, 31, 151] | 16 => [3, 5, 17, 257]
  | _ => []

theorem factors_prod : ∀ m ∈ List.range' 1 16, (factors m).prod = 2 ^ m - 1 := by decide

theorem factors_prime : ∀ m ∈ List.range' 1 16, ∀ q ∈ factors m, Nat.Prime q := by
  intro m hm q hq
  simp only [List.mem_range'_1] at hm
  obtain ⟨h1, h2⟩ := hm
  interval_cases m <;> simp only [factors, List.mem_cons, List.not_mem_nil, or_false] at hq <;>
    rcases hq with rfl | rfl | rfl | rfl | rfl <;> norm_num

theorem prime_dvd_mem (m : Nat) (hm : m ∈ List.range' 1 16) (p : Nat) (hp : p.Prime)
    (hd : p ∣ 2 ^ m - 1) : p ∈ factors m := by
  rw [← factors_prod m hm] at hd
  obtain ⟨q, hq, hpq⟩ := (Prime.dvd_prod_iff hp.prime).mp hd
  have := (Nat.prime_dvd_prime_iff_eq hp (factors_prime m hm q hq)).mp hpq
  rw [this]; exact hq

end Field18

namespace Field18
open Kaira

/-- the checker the kernel evaluates on every entry `(m, P)` of the extracted table of moduli:
`P` has degree `m`, and (for `m ≥ 2`) `x^(2^m-1) = 1` while `x^((2^m-1)/p) ≠ 1` for every prime
`p ∣ 2^m-1`. -/
def primCheck (m P : Nat) : Bool :=
  bitLen P == m + 1 &&
    (m == 1 || (GF2m.fpow P 2 (2 ^ m - 1) == 1 &&
      (factors m).all (fun p => GF2m.fpow P 2 ((2 ^ m - 1) / p) != 1)))

theorem good_of_check {m P : Nat} (hm : 1 ≤ m) (h : bitLen P = m + 1) : Good P :=
  ⟨by rw [← bitLen_eq_size, h]; omega⟩

theorem short_iff {m P a : Nat} (h : bitLen P = m + 1) : Nat.size a < Nat.size P ↔ a < 2 ^ m := by
  rw [← bitLen_eq_size P, h, Nat.lt_succ_iff, Nat.size_le]

/-- order of `x` from the check -/
theorem order_of_check {m P : Nat} (hm : m ∈ List.range' 1 16) (h2 : 2 ≤ m)
    (hc : primCheck m P = true) (hP : bitLen P = m + 1) [Good P] (x : Elt P) (hx : x.val = 2) :
    orderOf x = 2 ^ m - 1 := by
  unfold primCheck at hc
  simp only [Bool.and_eq_true, Bool.or_eq_true, beq_iff_eq, List.all_eq_true, bne_iff_ne] at hc
  obtain ⟨_, hc⟩ := hc
  rcases hc with h1 | ⟨hpow, hall⟩
  · omega
  have hN : 0 < 2 ^ m - 1 := by
    have : 2 ^ 2 ≤ 2 ^ m := Nat.pow_le_pow_right (by decide) h2
    omega
  apply orderOf_eq_of_pow_and_pow_div_prime hN
  · apply Subtype.ext
    have e : GF2m.fpow P x.val (2 ^ m - 1) = (x ^ (2 ^ m - 1)).val := fpow_model_eq x _
    rw [hx] at e
    rw [← e, hpow]; rfl
  · intro p hp hd hone
    have hmem := prime_dvd_mem m hm p hp hd
    apply hall p hmem
    have e : GF2m.fpow P x.val ((2 ^ m - 1) / p) = (x ^ ((2 ^ m - 1) / p)).val := fpow_model_eq x _
    rw [hx] at e
    rw [e, hone]; rfl

/-- **Fermat inverse is an inverse** for every modulus that passes the check -/
theorem inverse_of_check {m P : Nat} (hm : m ∈ List.range' 1 16) (hc : primCheck m P = true)
    (a : Nat) (ha0 : 0 < a) (ha : a < 2 ^ m) :
    ∃ b, GF2m.finv? P m a = some b ∧ b < 2 ^ m ∧ GF2m.fmul P a b = 1 := by
  have hm1 : 1 ≤ m := by simp only [List.mem_range'_1] at hm; omega
  have hP : bitLen P = m + 1 := by
    unfold primCheck at hc
    simp only [Bool.and_eq_true, beq_iff_eq] at hc
    exact hc.1
  have : Good P := good_of_check hm1 hP
  unfold GF2m.finv?
  rw [if_neg (by omega)]
  by_cases h1 : a = 1
  · subst h1
    refine ⟨1, by simp, Nat.one_lt_two_pow (by omega), ?_⟩
    simp [GF2m.fmul]
  rw [if_neg h1]
  have h2 : 2 ≤ m := by
    by_contra hlt
    have : m = 1 := by omega
    subst this
    omega
  let ae : Elt P := ⟨a, (short_iff hP).mpr ha⟩
  have hx2 : Nat.size 2 < Nat.size P := (short_iff hP).mpr (by
    calc 2 = 2 ^ 1 := rfl
      _ < 2 ^ m := Nat.pow_lt_pow_right (by decide) (by omega))
  let x : Elt P := ⟨2, hx2⟩
  have hord := order_of_check hm h2 hc hP x rfl
  have hN : 0 < 2 ^ m - 1 := by
    have : 2 ^ 2 ≤ 2 ^ m := Nat.pow_le_pow_right (by decide) h2
    omega
  have hcard : Fintype.card (Elt P) = (2 ^ m - 1) + 1 := by
    rw [card_elt, ← bitLen_eq_size, hP]
    have : 0 < 2 ^ m := Nat.two_pow_pos m
    simp only [Nat.add_sub_cancel]; omega
  have hane : ae ≠ 0 := by
    intro h0
    have := congrArg Subtype.val h0
    change a = 0 at this
    omega
  have hinv := Prim.inverse_exists x (2 ^ m - 1) hN hcard hord ae hane
  refine ⟨GF2m.fpow P a (2 ^ m - 2), rfl, ?_, ?_⟩
  · have : GF2m.fpow P a (2 ^ m - 2) = (ae ^ (2 ^ m - 2)).val := fpow_model_eq ae _
    rw [this]; exact (short_iff hP).mp (ae ^ (2 ^ m - 2)).property
  · have e1 : GF2m.fpow P a (2 ^ m - 2) = (ae ^ (2 ^ m - 2)).val := fpow_model_eq ae _
    rw [e1]
    have e2 := fmul_model_eq ae (ae ^ (2 ^ m - 2))
    change GF2m.fmul P a _ = _ at e2
    rw [e2]
    have : 2 ^ m - 1 - 1 = 2 ^ m - 2 := by omega
    rw [this] at hinv
    rw [hinv]; rfl

end Field18
