import Kaira.Polar
import Mathlib.Algebra.Order.Field.Rat
import Mathlib.Data.List.Forall2
import Mathlib.Tactic.Linarith
import Mathlib.Tactic.Ring
/-! C11 core: successive cancellation returns the input of the polar transform from any
    noise-free LLR vector, for every m, every information mask, either frozen value, and every
    check-node rule `f` with the sign law. -/
namespace SC
open List Kaira.Polar
local notation "α" => ℚ

def C1 (l : α) (b : Bool) : Prop := l ≠ 0 ∧ (l < 0 ↔ b = true)
abbrev Consistent (y : List α) (x : List Bool) : Prop := Forall₂ C1 y x
def F1 (fz : Bool) (u i : Bool) : Prop := i = false → u = fz
abbrev Frozen (fz : Bool) (u info : List Bool) : Prop := Forall₂ (F1 fz) u info

structure SignLaw (f : α → α → α) : Prop where
  ne : ∀ a b, a ≠ 0 → b ≠ 0 → f a b ≠ 0
  neg : ∀ a b, a ≠ 0 → b ≠ 0 → (f a b < 0 ↔ ((a < 0) ↔ ¬ (b < 0)))

theorem enc_length : ∀ (m : Nat) (u : List Bool), u.length = 2^m → (enc m u).length = 2^m
  | 0, u, h => by simpa [enc] using h
  | m+1, u, h => by
    have h2 : 2^(m+1) = 2^m + 2^m := by rw [pow_succ]; omega
    have ha : (u.take (2^m)).length = 2^m := by rw [length_take]; omega
    have hb : (u.drop (2^m)).length = 2^m := by rw [length_drop]; omega
    simp only [enc, xorL, length_append, length_zipWith, enc_length m _ ha, enc_length m _ hb]
    omega

theorem consistent_f (f : α → α → α) (hf : SignLaw f) {ya yb : List α} {xa xb : List Bool}
    (h1 : Consistent ya xa) (h2 : Consistent yb xb) :
    Consistent (List.zipWith f ya yb) (xorL xa xb) := by
  induction h1 generalizing yb xb with
  | nil => simp [xorL]
  | cons hab _ ih =>
    cases h2 with
    | nil => simp [xorL]
    | cons hcd h2' =>
      simp only [zipWith_cons_cons, xorL]
      refine Forall₂.cons ⟨hf.ne _ _ hab.1 hcd.1, ?_⟩ (ih h2')
      rw [hf.neg _ _ hab.1 hcd.1, hab.2, hcd.2]
      rename_i p _ _ q _ _
      cases p <;> cases q <;> simp

theorem g_sign (a b : α) (p q : Bool) (ha : C1 a (xor p q)) (hb : C1 b q) : C1 (g a b p) q := by
  obtain ⟨ha0, has⟩ := ha
  obtain ⟨hb0, hbs⟩ := hb
  unfold g C1
  cases p <;> cases q <;> simp at has hbs ⊢
  · -- p = false, q = false : a > 0, b > 0
    have ha' : 0 < a := lt_of_le_of_ne has (Ne.symm ha0)
    have hb' : 0 < b := lt_of_le_of_ne hbs (Ne.symm hb0)
    constructor
    · intro h; linarith
    · linarith
  · -- p = false, q = true : a < 0, b < 0
    constructor
    · intro h; linarith
    · linarith
  · -- p = true, q = false : a < 0, b > 0 ; g = b - a > 0
    have hb' : 0 < b := lt_of_le_of_ne hbs (Ne.symm hb0)
    constructor
    · intro h; linarith
    · linarith
  · -- p = true, q = true : a > 0, b < 0 ; g = b - a < 0
    have ha' : 0 < a := lt_of_le_of_ne has (Ne.symm ha0)
    constructor
    · intro h; linarith
    · linarith

theorem consistent_g {ya yb : List α} {xa xb : List Bool}
    (h1 : Consistent ya (xorL xa xb)) (h2 : Consistent yb xb) (hl : xa.length = xb.length) :
    Consistent (zipWith3' g ya yb xa) xb := by
  induction h2 generalizing ya xa with
  | nil =>
    cases xa with
    | nil => cases ya <;> simp [zipWith3']
    | cons _ _ => simp at hl
  | @cons b q yb' xb' hbq _ ih =>
    cases xa with
    | nil => simp at hl
    | cons p xa' =>
      simp only [xorL, zipWith_cons_cons] at h1
      cases h1 with
      | cons hap h1' =>
        simp only [zipWith3']
        exact Forall₂.cons (g_sign _ _ _ _ hap hbq) (ih h1' (by simpa using hl))

theorem frozen_take {fz : Bool} {u info : List Bool} (n : Nat) (h : Frozen fz u info) :
    Frozen fz (u.take n) (info.take n) := forall₂_take n h
theorem frozen_drop {fz : Bool} {u info : List Bool} (n : Nat) (h : Frozen fz u info) :
    Frozen fz (u.drop n) (info.drop n) := forall₂_drop n h

/-- Main theorem. -/
theorem sc_clean (f : α → α → α) (hf : SignLaw f) (fz : Bool) :
    ∀ (m : Nat) (u info : List Bool) (y : List α), u.length = 2^m → Frozen fz u info →
      Consistent y (enc m u) → sc f fz m y info = (u, enc m u)
  | 0, u, info, y, hlen, hfz, hc => by
    match u, hlen with
    | [b], _ =>
      simp only [enc] at hc ⊢
      cases hc with
      | cons hlb hnil =>
        cases hnil
        cases hfz with
        | cons hbi hnil' =>
          cases hnil'
          rename_i l i
          cases i with
          | true =>
            simp only [sc]
            obtain ⟨_, hs⟩ := hlb
            cases b <;> simp_all
          | false =>
            have : b = fz := hbi rfl
            simp [sc, this]
  | m+1, u, info, y, hlen, hfz, hc => by
    have h2 : 2^(m+1) = 2^m + 2^m := by rw [pow_succ]; omega
    have ha : (u.take (2^m)).length = 2^m := by rw [length_take]; omega
    have hb : (u.drop (2^m)).length = 2^m := by rw [length_drop]; omega
    have hea := enc_length m _ ha
    have heb := enc_length m _ hb
    simp only [enc] at hc
    -- split y
    have hxl : (xorL (enc m (u.take (2^m))) (enc m (u.drop (2^m)))).length = 2^m := by
      simp [xorL, hea, heb]
    have hya : Consistent (y.take (2^m)) (xorL (enc m (u.take (2^m))) (enc m (u.drop (2^m)))) := by
      have := forall₂_take (2^m) hc
      rwa [take_left' hxl] at this
    have hyb : Consistent (y.drop (2^m)) (enc m (u.drop (2^m))) := by
      have := forall₂_drop (2^m) hc
      rwa [drop_left' hxl] at this
    -- first half: f(ya, yb) ~ (xa ⊕ xb) ⊕ xb = xa
    have hxx : xorL (xorL (enc m (u.take (2^m))) (enc m (u.drop (2^m)))) (enc m (u.drop (2^m)))
        = enc m (u.take (2^m)) := by
      apply List.ext_getElem
      · simp [xorL, hea, heb]
      · intro i h1 h2
        simp [xorL]
    have h1 := sc_clean f hf fz m (u.take (2^m)) (info.take (2^m)) _ ha (frozen_take _ hfz)
      (by have := consistent_f f hf hya hyb; rwa [hxx] at this)
    have h2' := sc_clean f hf fz m (u.drop (2^m)) (info.drop (2^m))
      (zipWith3' g (y.take (2^m)) (y.drop (2^m)) (enc m (u.take (2^m)))) hb (frozen_drop _ hfz)
      (consistent_g hya hyb (by rw [hea, heb]))
    simp only [sc, h1, h2', enc, take_append_drop]
end SC
