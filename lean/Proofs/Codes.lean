import Kaira.Codes
import Mathlib.Data.Nat.Bitwise
import Mathlib.Tactic.Ring
/-! Linear algebra over GF(2) on `Nat` masks: additivity of the vector–matrix product and what the
kernel-checked certificates of `codeOk` imply for *every* vector. -/
open Kaira.Codes

namespace CodesProofs

/-! ### the product is additive -/
theorem encodeFrom_zero (gs : List Nat) (i : Nat) : encodeFrom gs i 0 = 0 := by
  induction gs generalizing i with
  | nil => rfl
  | cons g gs ih => simp [encodeFrom, ih]

theorem encodeFrom_xor (gs : List Nat) (i a b : Nat) :
    encodeFrom gs i (a ^^^ b) = encodeFrom gs i a ^^^ encodeFrom gs i b := by
  induction gs generalizing i with
  | nil => simp [encodeFrom]
  | cons g gs ih =>
    simp only [encodeFrom, ih, Nat.testBit_xor]
    generalize encodeFrom gs (i + 1) a = ea
    generalize encodeFrom gs (i + 1) b = eb
    cases a.testBit i <;> cases b.testBit i <;> simp only [Bool.xor_false, Bool.xor_true, Bool.false_xor,
      Bool.true_xor, Bool.not_true, Bool.not_false, if_true, if_false, Bool.false_eq_true] <;>
      (apply Nat.eq_of_testBit_eq; intro t; simp only [Nat.testBit_xor, Nat.zero_testBit];
       cases g.testBit t <;> cases ea.testBit t <;> cases eb.testBit t <;> rfl)

theorem encode_xor (M : List Nat) (a b : Nat) : encode M (a ^^^ b) = encode M a ^^^ encode M b :=
  encodeFrom_xor M 0 a b
theorem encode_zero (M : List Nat) : encode M 0 = 0 := encodeFrom_zero M 0

theorem encodeFrom_lt (gs : List Nat) (i m n : Nat) (h : ∀ g ∈ gs, g < 2 ^ n) : encodeFrom gs i m < 2 ^ n := by
  induction gs generalizing i with
  | nil => simp [encodeFrom]
  | cons g gs ih =>
    simp only [encodeFrom]
    apply Nat.xor_lt_two_pow
    · split
      · exact h g (by simp)
      · exact Nat.two_pow_pos n
    · exact ih (i + 1) (fun g' hg' => h g' (by simp [hg']))

/-- the product depends only on the first `length` bits of the vector -/
theorem encodeFrom_congr (gs : List Nat) (i a b : Nat)
    (h : ∀ j, j < gs.length → a.testBit (i + j) = b.testBit (i + j)) :
    encodeFrom gs i a = encodeFrom gs i b := by
  induction gs generalizing i with
  | nil => rfl
  | cons g gs ih =>
    simp only [encodeFrom]
    have h0 := h 0 (by simp)
    simp only [Nat.add_zero] at h0
    rw [h0, ih (i + 1) (fun j hj => by
      have := h (j + 1) (by simp; omega)
      rwa [show i + (j + 1) = i + 1 + j by omega] at this)]

/-- applying `N` to a row combination of `M` = the same combination of the images of the rows -/
theorem encode_comp (N : List Nat) (gs : List Nat) (i m : Nat) :
    encode N (encodeFrom gs i m) = encodeFrom (gs.map (encode N)) i m := by
  induction gs generalizing i with
  | nil => simp [encodeFrom, encode_zero]
  | cons g gs ih =>
    simp only [encodeFrom, List.map_cons, encode_xor, ih]
    split <;> simp [encode_zero]

theorem encodeFrom_all_zero (gs : List Nat) (i m : Nat) (h : ∀ g ∈ gs, g = 0) : encodeFrom gs i m = 0 := by
  induction gs generalizing i with
  | nil => rfl
  | cons g gs ih =>
    simp only [encodeFrom, h g (by simp), ite_self, Nat.zero_xor]
    exact ih (i + 1) (fun g' hg' => h g' (by simp [hg']))

/-- combination of unit vectors `2^i, 2^(i+1), …` selected by `m` = those bits of `m` -/
theorem testBit_encodeFrom_units (len i m t : Nat) :
    (encodeFrom ((List.range' i len).map (1 <<< ·)) i m).testBit t =
      (decide (i ≤ t ∧ t < i + len) && m.testBit t) := by
  induction len generalizing i with
  | zero => simp [encodeFrom]
  | succ len ih =>
    simp only [List.range'_succ, List.map_cons, encodeFrom, Nat.testBit_xor, ih (i + 1)]
    have hb : (if m.testBit i then 1 <<< i else 0).testBit t = (decide (t = i) && m.testBit i) := by
      split
      · next hd => rw [Nat.one_shiftLeft, Nat.testBit_two_pow]; simp [hd, eq_comm]
      · next hd => simp [hd]
    rw [hb]
    by_cases hti : t = i
    · subst hti
      have : ¬ (t + 1 ≤ t ∧ t < t + 1 + len) := by omega
      simp [this]
    · have e : (i ≤ t ∧ t < i + (len + 1)) ↔ (i + 1 ≤ t ∧ t < i + 1 + len) := by omega
      simp [hti, e]

theorem unitRows_spec (A B : List Nat) (h : unitRows A B = true) :
    A.map (encode B) = (List.range' 0 A.length).map (1 <<< ·) := by
  unfold unitRows at h
  rw [List.all_eq_true] at h
  apply List.ext_getElem
  · simp
  · intro i h1 h2
    simp only [List.getElem_map, List.getElem_range', Nat.zero_add, Nat.one_mul]
    have hlt : i < A.length := by simpa using h1
    have := h (A[i], i) (List.mem_zipIdx_iff_getElem?.mpr (by simp [hlt]))
    simpa using this

/-- `A · B = I`  ⇒  `(m · A) · B = m` for every `m` with `length A` bits -/
theorem roundtrip (A B : List Nat) (h : unitRows A B = true) (m : Nat) (hm : m < 2 ^ A.length) :
    encode B (encode A m) = m := by
  unfold encode at *
  rw [← encode, ← encode]
  rw [show encode A m = encodeFrom A 0 m from rfl, encode_comp, unitRows_spec A B h]
  apply Nat.eq_of_testBit_eq
  intro t
  rw [testBit_encodeFrom_units]
  by_cases ht : t < A.length
  · simp [ht]
  · have : m < 2 ^ t := lt_of_lt_of_le hm (Nat.pow_le_pow_right (by decide) (by omega))
    simp [ht, Nat.testBit_lt_two_pow this]

/-- `G·Hᵀ = 0`  ⇒  every codeword has an all-zero syndrome -/
theorem syndrome_codeword (HT G : List Nat) (hz : ∀ g ∈ G, encode HT g = 0) (m : Nat) :
    encode HT (encode G m) = 0 := by
  rw [show encode G m = encodeFrom G 0 m from rfl, encode_comp]
  apply encodeFrom_all_zero
  intro g hg
  obtain ⟨g', hg', rfl⟩ := List.mem_map.mp hg
  exact hz g' hg'

/-- an additive map that fixes the first `n` unit vectors fixes every vector of length `n` -/
theorem additive_id (F : Nat → Nat) (hadd : ∀ a b, F (a ^^^ b) = F a ^^^ F b) (h0 : F 0 = 0) :
    ∀ n, (∀ p < n, F (1 <<< p) = 1 <<< p) → ∀ x < 2 ^ n, F x = x := by
  intro n
  induction n with
  | zero => intro _ x hx; have : x = 0 := by simpa using hx
            subst this; exact h0
  | succ n ih =>
    intro hb x hx
    have hlow : x % 2 ^ n < 2 ^ n := Nat.mod_lt _ (Nat.two_pow_pos n)
    have hsplit : x = (x % 2 ^ n) ^^^ (if x.testBit n then 1 <<< n else 0) := by
      apply Nat.eq_of_testBit_eq
      intro t
      simp only [Nat.testBit_xor, Nat.testBit_mod_two_pow]
      by_cases htn : t < n
      · have : (if x.testBit n then 1 <<< n else 0).testBit t = false := by
          split
          · rw [Nat.one_shiftLeft, Nat.testBit_two_pow]; simp; omega
          · simp
        simp [htn, this]
      · by_cases hte : t = n
        · subst hte
          cases hx' : x.testBit t <;> simp [Nat.one_shiftLeft]
        · have hgt : n + 1 ≤ t := by omega
          have : x < 2 ^ t := lt_of_lt_of_le hx (Nat.pow_le_pow_right (by decide) hgt)
          have hx0 : x.testBit t = false := Nat.testBit_lt_two_pow this
          have : (if x.testBit n then 1 <<< n else 0).testBit t = false := by
            split
            · rw [Nat.one_shiftLeft, Nat.testBit_two_pow]; simp; omega
            · simp
          simp [htn, this, hx0]
    rw [hsplit, hadd, ih (fun p hp => hb p (by omega)) _ hlow]
    congr 1
    split
    · exact hb n (by omega)
    · exact h0

/-! ### everything `codeOk` certifies about one instance -/
structure CodeFacts (c : CodeInst) : Prop where
  /-- encoding is GF(2)-linear (and is `m·G` by definition of `encode`) -/
  linear : ∀ a b, encode c.G (a ^^^ b) = encode c.G a ^^^ encode c.G b
  /-- codewords have length `n` -/
  codeword_lt : ∀ m, encode c.G m < 2 ^ c.n
  /-- the encoder's own extraction returns the message … -/
  roundtrip : ∀ m, m < 2 ^ c.k → invEncode c.R (encode c.G m) = m
  /-- … and an all-zero syndrome -/
  synd_zero : ∀ m, syndrome c.HT (encode c.G m) = 0
  /-- zero syndrome ⇒ codeword: the null space of `H` is exactly the code -/
  null_space : ∀ x, x < 2 ^ c.n → syndrome c.HT x = 0 → ∃ m, m < 2 ^ c.k ∧ x = encode c.G m
  /-- `H` contains `n - k` linearly independent rows: `HJ[i]` is row `J[i]` of `H` -/
  indep_rows : c.HJ.length + c.k = c.n ∧ rowsOk c = true ∧
    ∀ a, a < 2 ^ c.HJ.length → encode c.HJ a = 0 → a = 0

theorem facts_of_ok (c : CodeInst) (h : codeOk c = true) : CodeFacts c := by
  unfold codeOk at h
  simp only [Bool.and_eq_true, decide_eq_true_eq, beq_iff_eq, List.all_eq_true] at h
  obtain ⟨⟨⟨⟨⟨⟨⟨⟨⟨⟨⟨⟨⟨⟨hGk, _⟩, _⟩, _⟩, hGlt⟩, _⟩, hRlt⟩, _⟩, hzero⟩, hGR⟩, hbasis⟩, hJ⟩, hrows⟩, _⟩, hW⟩ := h
  have hround : ∀ m, m < 2 ^ c.k → encode c.R (encode c.G m) = m := by
    intro m hm
    exact roundtrip c.G c.R hGR m (by rw [hGk]; exact hm)
  refine ⟨encode_xor c.G, fun m => encodeFrom_lt c.G 0 m c.n hGlt, hround,
    fun m => syndrome_codeword c.HT c.G hzero m, ?_, hJ, hrows, ?_⟩
  · intro x hx hs
    refine ⟨encode c.R x, encodeFrom_lt c.R 0 x c.k hRlt, ?_⟩
    let F : Nat → Nat := fun x => encode c.G (encode c.R x) ^^^ encode c.St (encode c.HT x)
    have hadd : ∀ a b, F (a ^^^ b) = F a ^^^ F b := by
      intro a b
      simp only [F, encode_xor]
      apply Nat.eq_of_testBit_eq; intro t
      simp only [Nat.testBit_xor]
      generalize (encode c.G (encode c.R a)).testBit t = p
      generalize (encode c.G (encode c.R b)).testBit t = q
      generalize (encode c.St (encode c.HT a)).testBit t = r
      generalize (encode c.St (encode c.HT b)).testBit t = s
      cases p <;> cases q <;> cases r <;> cases s <;> rfl
    have h0 : F 0 = 0 := by simp [F, encode_zero]
    have hb : ∀ p < c.n, F (1 <<< p) = 1 <<< p := by
      intro p hp
      unfold basisOk at hbasis
      rw [List.all_eq_true] at hbasis
      simpa [F] using hbasis p (List.mem_range.mpr hp)
    have hF := additive_id F hadd h0 c.n hb x hx
    simp only [F] at hF
    have hs' : encode c.HT x = 0 := hs
    rw [hs', encode_zero, Nat.xor_zero] at hF
    exact hF.symm
  · intro a ha hz
    have := roundtrip c.HJ c.W hW a ha
    rw [hz, encode_zero] at this
    exact this.symm

end CodesProofs
