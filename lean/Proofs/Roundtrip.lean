import Proofs.Nearest
import Kaira.ModemMem
/-! Noise-free modulation followed by hard demodulation returns the bits. -/
open Kaira.Modem NearestProofs ModemProofs

namespace RoundtripProofs

/-! ### bits <-> naturals -/
theorem bitsToNat_lt : ∀ (l : List Bool), bitsToNat l < 2 ^ l.length
  | [] => by simp [bitsToNat]
  | x :: xs => by
    have := bitsToNat_lt xs
    simp only [bitsToNat, List.length_cons, Nat.pow_succ]
    split <;> omega

theorem natToBits_congr : ∀ (b n m : Nat), n % 2 ^ b = m % 2 ^ b → natToBits b n = natToBits b m
  | 0, _, _, _ => rfl
  | b+1, n, m, h => by
    simp only [natToBits]
    have hb : (n >>> b) % 2 = (m >>> b) % 2 := by
      have e1 : ∀ z : Nat, (z >>> b) % 2 = (z % 2 ^ (b + 1)) / 2 ^ b := by
        intro z
        rw [Nat.shiftRight_eq_div_pow, Nat.pow_succ, Nat.mod_mul_right_div_self]
      rw [e1 n, e1 m, h]
    have hl : n % 2 ^ b = m % 2 ^ b := by
      have e2 : ∀ z : Nat, z % 2 ^ b = (z % 2 ^ (b + 1)) % 2 ^ b := by
        intro z
        rw [Nat.pow_succ, Nat.mod_mul_right_mod]
      rw [e2 n, e2 m, h]
    rw [hb, natToBits_congr b n m hl]

theorem natToBits_bitsToNat : ∀ (l : List Bool), natToBits l.length (bitsToNat l) = l
  | [] => rfl
  | x :: xs => by
    have hlt := bitsToNat_lt xs
    simp only [List.length_cons, natToBits, bitsToNat]
    congr 1
    · rw [Nat.shiftRight_eq_div_pow]
      cases x
      · simp [Nat.div_eq_of_lt hlt]
      · have : (2 ^ xs.length + bitsToNat xs) / 2 ^ xs.length = 1 := by
          rw [Nat.add_div_left _ (Nat.two_pow_pos _), Nat.div_eq_of_lt hlt]
        simp [this]
    · have ih := natToBits_bitsToNat xs
      have hc : natToBits xs.length ((if x = true then 2 ^ xs.length else 0) + bitsToNat xs) =
          natToBits xs.length (bitsToNat xs) := by
        apply natToBits_congr
        cases x
        · simp
        · simp [Nat.add_mod_left]
      rw [hc, ih]

/-! ### the mapper finds the point carrying the label -/
theorem idxFrom_unique (lab i0 : Nat) : ∀ (ps : List Pt) (off acc : Nat),
    (∀ (j : Nat) (p : Pt), ps[j]? = some p → p.lab = lab → off + j = i0) →
    (acc = i0 ∨ ∃ (j : Nat) (p : Pt), ps[j]? = some p ∧ p.lab = lab) →
    idxFrom lab ps off acc = i0
  | [], off, acc, _, h => by
    rcases h with h | ⟨j, p, hp, _⟩
    · simpa [idxFrom] using h
    · simp at hp
  | q :: qs, off, acc, huniq, h => by
    simp only [idxFrom]
    apply idxFrom_unique lab i0 qs (off + 1)
    · intro j p hp hl
      have := huniq (j + 1) p (by simpa using hp) hl
      omega
    · by_cases hq : q.lab = lab
      · left
        have := huniq 0 q (by simp) hq
        simp [hq]; omega
      · rcases h with h | ⟨j, p, hp, hl⟩
        · left; simp [hq, h]
        · cases j with
          | zero => simp at hp; subst hp; exact absurd hl hq
          | succ j => right; exact ⟨j, p, by simpa using hp, hl⟩

theorem idxByLabel_spec (t : Table) (i : Nat) (p : Pt) (hi : t.pts[i]? = some p)
    (hnd : (t.pts.map (·.lab)).Nodup) : idxByLabel t p.lab = i := by
  unfold idxByLabel
  apply idxFrom_unique p.lab i t.pts 0 0
  · intro j q hq hl
    have hlt1 : j < t.pts.length := (List.getElem?_eq_some_iff.mp hq).1
    have hlt2 : i < t.pts.length := (List.getElem?_eq_some_iff.mp hi).1
    have e1 : t.pts[j] = q := (List.getElem?_eq_some_iff.mp hq).2
    have e2 : t.pts[i] = p := (List.getElem?_eq_some_iff.mp hi).2
    have := (List.nodup_iff_injective_getElem.mp hnd)
    have hinj : (⟨j, by simpa using hlt1⟩ : Fin (t.pts.map (·.lab)).length) = ⟨i, by simpa using hlt2⟩ := by
      apply this
      simp [e1, e2, hl]
    simpa using congrArg Fin.val hinj
  · right; exact ⟨i, p, hi, rfl⟩

/-- **one symbol**: modulating the label of point `i` and deciding for the nearest point returns
that label — for every table with bijective labels and pairwise distinct points -/
theorem symbol_roundtrip (t : Table) (i : Nat) (p : Pt) (hi : t.pts[i]? = some p)
    (hnd : (t.pts.map (·.lab)).Nodup)
    (hd : t.pts.Pairwise (fun a b => ¬ (a.re = b.re ∧ a.im = b.im))) :
    let j := idxByLabel t p.lab
    labelAt t (nearestIdx t (ptAt t j).1 (ptAt t j).2) = p.lab := by
  simp only
  rw [idxByLabel_spec t i p hi hnd]
  have hpt : ptAt t i = (p.re, p.im) := by simp [ptAt, hi]
  rw [hpt]
  simp only
  rw [nearest_self t i p hi hd]
  simp [labelAt, hi]

end RoundtripProofs

namespace RoundtripProofs
open Kaira.Modem

theorem groups_flatten (b : Nat) (hb : 0 < b) (gs : List (List Bool)) (hg : ∀ g ∈ gs, g.length = b)
    (fuel : Nat) (hf : gs.length ≤ fuel) : groups b fuel gs.flatten = gs := by
  induction gs generalizing fuel with
  | nil => cases fuel <;> simp [groups]
  | cons g gs ih =>
    cases fuel with
    | zero => simp at hf
    | succ fuel =>
      have hgl : g.length = b := hg g (by simp)
      have hne : ¬ ((g ++ gs.flatten).isEmpty = true ∨ b = 0) := by
        rintro (h | h)
        · have : g = [] := by
            cases g with
            | nil => rfl
            | cons x xs => simp at h
          subst this; simp at hgl; omega
        · omega
      simp only [List.flatten_cons, groups, hne, if_false]
      have h1 : (g ++ gs.flatten).take b = g := by rw [← hgl]; simp
      have h2 : (g ++ gs.flatten).drop b = gs.flatten := by rw [← hgl]; simp
      rw [h1, h2, ih (fun g' hg' => hg g' (by simp [hg'])) fuel (by simpa using hf)]

theorem length_flatten_groups (b : Nat) (gs : List (List Bool)) (hg : ∀ g ∈ gs, g.length = b) :
    gs.flatten.length = gs.length * b := by
  induction gs with
  | nil => simp
  | cons g gs ih =>
    simp only [List.flatten_cons, List.length_append, List.length_cons, hg g (by simp),
      ih (fun g' hg' => hg g' (by simp [hg']))]
    rw [Nat.add_mul, Nat.one_mul, Nat.add_comm]

/-- **noise-free modulation followed by hard demodulation returns exactly the input bits**, and the
number of symbols is the number of bits divided by the bits per symbol — for every table with
bijective labels and pairwise distinct points, every number of symbols -/
theorem memoryless_roundtrip (t : Table) (hb : 0 < t.b) (hlab : labelsOk t = true)
    (hd : t.pts.Pairwise (fun a b => ¬ (a.re = b.re ∧ a.im = b.im)))
    (gs : List (List Bool)) (hg : ∀ g ∈ gs, g.length = t.b) :
    ∃ idx, modulate t true gs.flatten = some idx ∧ idx.length = gs.length ∧
      rtMemoryless t true gs.flatten = some gs.flatten := by
  have hnd := labels_nodup t hlab
  have hlen := length_flatten_groups t.b gs hg
  have hmod : modulate t true gs.flatten = some (gs.map fun g => idxByLabel t (bitsToNat g)) := by
    unfold modulate
    have : ¬ (t.b = 0 ∨ gs.flatten.length % t.b ≠ 0) := by
      rw [hlen]; simp; omega
    rw [if_neg this, groups_flatten t.b hb gs hg _ (by rw [hlen]; exact Nat.le_mul_of_pos_right _ hb)]
    simp
  refine ⟨_, hmod, by simp, ?_⟩
  unfold rtMemoryless
  rw [hmod]
  simp only [Option.map_some, Option.some.injEq, demodHard, List.flatMap, List.map_map]
  congr 1
  have : List.map ((fun x => natToBits t.b (labelAt t (nearestIdx t x.1 x.2))) ∘ ptAt t ∘
      fun g => idxByLabel t (bitsToNat g)) gs = List.map id gs := by
    apply List.map_congr_left
    intro g hgm
    simp only [Function.comp, id]
    have hgl := hg g hgm
    have hlt : bitsToNat g < 2 ^ t.b := by rw [← hgl]; exact bitsToNat_lt g
    obtain ⟨p, hp, hpl⟩ := labels_surj t hlab _ hlt
    obtain ⟨i, hi, hpi⟩ := List.getElem_of_mem hp
    have hi' : t.pts[i]? = some p := by simp [hi, hpi]
    have := symbol_roundtrip t i p hi' hnd hd
    simp only at this
    rw [hpl] at this
    rw [this, ← hgl, natToBits_bitsToNat]
  rw [List.map_id] at this
  exact (List.map_congr_left (fun g _ => rfl)).trans this

end RoundtripProofs
