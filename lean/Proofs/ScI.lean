import Proofs.SC
import Proofs.EncI
open Kaira.Polar List SC

namespace ScIProofs

theorem consistent_deinterleave : ∀ (X Y : List Bool) (y : List ℚ), X.length = Y.length →
    Consistent y (interleave X Y) → Consistent (deinterleave y).1 X ∧ Consistent (deinterleave y).2 Y
  | [], [], y, _, h => by
    simp only [interleave] at h
    cases h
    simp [deinterleave]
  | a :: X, b :: Y, y, hl, h => by
    simp only [interleave] at h
    cases h with
    | cons h1 hrest =>
      cases hrest with
      | cons h2 hrest' =>
        obtain ⟨ia, ib⟩ := consistent_deinterleave X Y _ (by simpa using hl) hrest'
        simp only [deinterleave]
        exact ⟨Forall₂.cons h1 ia, Forall₂.cons h2 ib⟩
  | [], _ :: _, _, hl, _ => by simp at hl
  | _ :: _, [], _, hl, _ => by simp at hl

/-- successive cancellation for the interleaved (`polar_i`) variant returns the input of the
interleaved transform from any noise-free LLR vector — every m, mask, frozen value, sign-law rule -/
theorem scI_clean (f : ℚ → ℚ → ℚ) (hf : SignLaw f) (fz : Bool) :
    ∀ (m : Nat) (u info : List Bool) (y : List ℚ), u.length = 2^m → Frozen fz u info →
      Consistent y (encI m u) → scI f fz m y info = (u, encI m u)
  | 0, u, info, y, hlen, hfz, hc => by
    match u, hlen with
    | [b], _ =>
      simp only [encI] at hc ⊢
      cases hc with
      | cons hlb hnil =>
        cases hnil
        cases hfz with
        | cons hbi hnil' =>
          cases hnil'
          rename_i l i
          cases i with
          | true =>
            simp only [scI]
            obtain ⟨_, hs⟩ := hlb
            cases b <;> simp_all
          | false =>
            have : b = fz := hbi rfl
            simp [scI, this]
  | m+1, u, info, y, hlen, hfz, hc => by
    have h2 : 2^(m+1) = 2^m + 2^m := by rw [pow_succ]; omega
    have ha : (u.take (2^m)).length = 2^m := by rw [length_take]; omega
    have hb : (u.drop (2^m)).length = 2^m := by rw [length_drop]; omega
    have hea := EncIProofs.encI_length m _ ha
    have heb := EncIProofs.encI_length m _ hb
    simp only [encI] at hc
    have hxl : (xorL (encI m (u.take (2^m))) (encI m (u.drop (2^m)))).length = (encI m (u.drop (2^m))).length := by
      simp [xorL, hea, heb]
    obtain ⟨hya, hyb⟩ := consistent_deinterleave _ _ y hxl hc
    have hxx : xorL (xorL (encI m (u.take (2^m))) (encI m (u.drop (2^m)))) (encI m (u.drop (2^m)))
        = encI m (u.take (2^m)) := by
      apply List.ext_getElem
      · simp [xorL, hea, heb]
      · intro i h1 h2
        simp [xorL]
    have h1 := scI_clean f hf fz m (u.take (2^m)) (info.take (2^m)) _ ha (frozen_take _ hfz)
      (by have := consistent_f f hf hya hyb; rwa [hxx] at this)
    have h2' := scI_clean f hf fz m (u.drop (2^m)) (info.drop (2^m))
      (zipWith3' g (deinterleave y).1 (deinterleave y).2 (encI m (u.take (2^m)))) hb (frozen_drop _ hfz)
      (consistent_g hya hyb (by rw [hea, heb]))
    simp only [scI, h1, h2', encI, take_append_drop]

end ScIProofs
