import Mathlib.Algebra.Polynomial.Basic
import Mathlib.Algebra.Polynomial.Eval.Defs
import Mathlib.Algebra.Polynomial.Coeff
import Mathlib.Algebra.Polynomial.Degree.Lemmas
import Mathlib.Algebra.Polynomial.Degree.Domain
import Mathlib.Data.ZMod.Basic
import Mathlib.Algebra.Field.ZMod
import Mathlib.Algebra.CharP.Two
import Mathlib.Data.Nat.Bitwise
import Mathlib.Data.Nat.Size
import Mathlib.Tactic.Ring
import Mathlib.Tactic.Linarith
import Mathlib.GroupTheory.OrderOfElement
import Mathlib.Algebra.GroupWithZero.Basic
import Mathlib.Data.Fintype.Card
import Mathlib.Data.Fintype.Sets
open Polynomial

namespace GF
/-! ### refinement (as in A.2) -/
def clmul (a : Nat) : Nat → Nat :=
  Nat.binaryRec 0 (fun bit _ r => (if bit then a else 0) ^^^ (r <<< 1))
noncomputable def toPoly : Nat → (ZMod 2)[X] :=
  Nat.binaryRec 0 (fun bit _ p => (if bit then 1 else 0) + X * p)
@[simp] theorem toPoly_zero : toPoly 0 = 0 := by simp [toPoly]
theorem toPoly_bit (b : Bool) (n : Nat) : toPoly (Nat.bit b n) = (if b then 1 else 0) + X * toPoly n := by
  unfold toPoly; rw [Nat.binaryRec_eq]; simp
theorem two_eq_zero' : (2 : (ZMod 2)[X]) = 0 := CharTwo.two_eq_zero
theorem add_self' (p : (ZMod 2)[X]) : p + p = 0 := by rw [← two_mul, two_eq_zero', zero_mul]
theorem toPoly_xor (a b : Nat) : toPoly (a ^^^ b) = toPoly a + toPoly b := by
  induction a using Nat.binaryRec generalizing b with
  | zero => simp
  | bit ba a ih =>
    induction b using Nat.binaryRec with
    | zero => simp
    | bit bb b _ =>
      rw [Nat.xor_bit, toPoly_bit, toPoly_bit, toPoly_bit, ih]
      cases ba <;> cases bb <;> simp <;> ring_nf
      rw [two_eq_zero']; ring
theorem toPoly_shift1 (a : Nat) : toPoly (a <<< 1) = X * toPoly a := by
  have : a <<< 1 = Nat.bit false a := by simp [Nat.shiftLeft_eq, Nat.bit_val]; omega
  rw [this, toPoly_bit]; simp
theorem clmul_bit (a : Nat) (b : Bool) (n : Nat) :
    clmul a (Nat.bit b n) = (if b then a else 0) ^^^ (clmul a n <<< 1) := by
  unfold clmul; rw [Nat.binaryRec_eq]; simp
theorem toPoly_clmul (a b : Nat) : toPoly (clmul a b) = toPoly a * toPoly b := by
  induction b using Nat.binaryRec with
  | zero => simp [clmul]
  | bit bb b ih =>
    rw [clmul_bit, toPoly_xor, toPoly_shift1, ih, toPoly_bit]
    cases bb <;> simp <;> ring
theorem coeff_toPoly (n i : Nat) : (toPoly n).coeff i = if n.testBit i then 1 else 0 := by
  induction n using Nat.binaryRec generalizing i with
  | zero => simp
  | bit b n ih =>
    rw [toPoly_bit]
    cases i with
    | zero => rw [coeff_add, coeff_X_mul_zero, Nat.testBit_bit_zero]; cases b <;> simp
    | succ i => rw [coeff_add, coeff_X_mul, Nat.testBit_bit_succ, ih]; cases b <;> simp [coeff_one]
theorem toPoly_injective : Function.Injective toPoly := by
  intro a b h
  apply Nat.eq_of_testBit_eq
  intro i
  have := congrArg (fun p => p.coeff i) h
  simp only [coeff_toPoly] at this
  cases ha : a.testBit i <;> cases hb : b.testBit i <;> simp [ha, hb] at this ⊢

/-! ### degrees -/
theorem toPoly_shift (a s : Nat) : toPoly (a <<< s) = X ^ s * toPoly a := by
  induction s with
  | zero => simp
  | succ s ih =>
    rw [show a <<< (s + 1) = (a <<< s) <<< 1 by rw [Nat.shiftLeft_add], toPoly_shift1, ih]; ring

theorem degree_toPoly_lt (n s : Nat) (h : n < 2 ^ s) : (toPoly n).degree < s := by
  rw [degree_lt_iff_coeff_zero]
  intro i hi
  rw [coeff_toPoly]
  have : n.testBit i = false :=
    Nat.testBit_lt_two_pow (lt_of_lt_of_le h (Nat.pow_le_pow_right (by decide) hi))
  simp [this]

theorem natDegree_toPoly (p : Nat) (hp : 0 < p) : (toPoly p).natDegree = Nat.size p - 1 := by
  have hs : 0 < Nat.size p := Nat.size_pos.mpr hp
  apply le_antisymm
  · have := degree_toPoly_lt p (Nat.size p) (Nat.lt_size_self p)
    have hne : toPoly p ≠ 0 := by
      intro h0; have := toPoly_injective (h0.trans toPoly_zero.symm); omega
    rw [degree_eq_natDegree hne] at this
    have : (toPoly p).natDegree < Nat.size p := by exact_mod_cast this
    omega
  · apply le_natDegree_of_ne_zero
    rw [coeff_toPoly]
    have h1 : 2 ^ (Nat.size p - 1) ≤ p := Nat.lt_size.mp (by omega)
    have h2 : p < 2 ^ (Nat.size p - 1 + 1) := by
      rw [Nat.sub_add_cancel hs]; exact Nat.lt_size_self p
    obtain ⟨i, hi, hbit⟩ := Nat.exists_ge_and_testBit_of_ge_two_pow h1
    have : i = Nat.size p - 1 := by
      by_contra hne
      have : 2 ^ i ≤ p := Nat.ge_two_pow_of_testBit hbit
      have : 2 ^ (Nat.size p - 1 + 1) ≤ 2 ^ i := Nat.pow_le_pow_right (by decide) (by omega)
      omega
    rw [← this, hbit]; simp

/-- two short representatives congruent modulo P are equal -/
theorem eq_of_dvd_of_short (P x y : Nat) (hP : 0 < P) (hx : Nat.size x < Nat.size P)
    (hy : Nat.size y < Nat.size P) (h : toPoly P ∣ toPoly x + toPoly y) : x = y := by
  have hxy : toPoly (x ^^^ y) = toPoly x + toPoly y := toPoly_xor x y
  by_contra hne
  have hd : x ^^^ y ≠ 0 := by
    intro h0; apply hne; exact Nat.xor_eq_zero_iff.mp h0
  have hne0 : toPoly (x ^^^ y) ≠ 0 := by
    intro h0; exact hd (toPoly_injective (h0.trans toPoly_zero.symm))
  rw [← hxy] at h
  have hle := natDegree_le_of_dvd h hne0
  rw [natDegree_toPoly P hP, natDegree_toPoly _ (Nat.pos_of_ne_zero hd)] at hle
  -- size (x ^^^ y) ≤ max (size x) (size y) < size P
  have hsz : Nat.size (x ^^^ y) < Nat.size P := by
    have hx' : x < 2 ^ (Nat.size P - 1) := Nat.size_le.mp (by omega)
    have hy' : y < 2 ^ (Nat.size P - 1) := Nat.size_le.mp (by omega)
    have : x ^^^ y < 2 ^ (Nat.size P - 1) := Nat.xor_lt_two_pow hx' hy'
    have := Nat.size_le.mpr this
    have hsP : 0 < Nat.size P := Nat.size_pos.mpr hP
    omega
  have : 0 < Nat.size (x ^^^ y) := Nat.size_pos.mpr (Nat.pos_of_ne_zero hd)
  omega

namespace DM

open Nat

/-- top bits cancel: two numbers of the same positive bit length xor to something shorter -/
theorem size_xor_lt {x y : Nat} (hx : 0 < x) (h : size x = size y) : size (x ^^^ y) < size x := by
  have hs : 0 < size x := size_pos.mpr hx
  set t := size x - 1 with ht
  have hst : size x = t + 1 := by omega
  -- bit t set in both
  have hxt : x.testBit t = true := by
    have h1 : 2 ^ t ≤ x := lt_size.mp (by omega)
    have h2 : x < 2 ^ (t + 1) := by rw [← hst]; exact lt_size_self x
    obtain ⟨i, hi, hbit⟩ := Nat.exists_ge_and_testBit_of_ge_two_pow h1
    by_cases hit : i = t
    · rwa [hit] at hbit
    · have : 2 ^ i ≤ x := Nat.ge_two_pow_of_testBit hbit
      have : 2 ^ (t+1) ≤ 2 ^ i := Nat.pow_le_pow_right (by decide) (by omega)
      omega
  have hyt : y.testBit t = true := by
    have hsy : size y = t + 1 := by rw [← h]; exact hst
    have h1 : 2 ^ t ≤ y := lt_size.mp (by omega)
    have h2 : y < 2 ^ (t + 1) := by rw [← hsy]; exact lt_size_self y
    obtain ⟨i, hi, hbit⟩ := Nat.exists_ge_and_testBit_of_ge_two_pow h1
    by_cases hit : i = t
    · rwa [hit] at hbit
    · have : 2 ^ i ≤ y := Nat.ge_two_pow_of_testBit hbit
      have : 2 ^ (t+1) ≤ 2 ^ i := Nat.pow_le_pow_right (by decide) (by omega)
      omega
  have hlt : x ^^^ y < 2 ^ t := by
    apply Nat.lt_pow_two_of_testBit
    intro i hi
    rw [Nat.testBit_xor]
    by_cases hit : i = t
    · rw [hit, hxt, hyt]; rfl
    · have hx' : x.testBit i = false :=
        Nat.testBit_lt_two_pow (lt_of_lt_of_le (lt_size_self x) (Nat.pow_le_pow_right (by decide) (by omega)))
      have hy' : y.testBit i = false :=
        Nat.testBit_lt_two_pow (lt_of_lt_of_le (lt_size_self y) (Nat.pow_le_pow_right (by decide) (by rw [← h]; omega)))
      rw [hx', hy']; rfl
  have : size (x ^^^ y) ≤ t := size_le.mpr hlt
  omega

/-- model of `__mod__` (fuelled) -/
def pmodAux : Nat → Nat → Nat → Nat
  | 0, r, _ => r
  | f+1, r, m => if size r < size m then r else pmodAux f (r ^^^ (m <<< (size r - size m))) m
def pmod (a m : Nat) : Nat := pmodAux (size a) a m

/-- `Mult m d` : d is a xor of shifted copies of m (i.e. m times a polynomial) -/
inductive Mult (m : Nat) : Nat → Prop
  | zero : Mult m 0
  | step (d s : Nat) : Mult m d → Mult m (d ^^^ (m <<< s))

theorem pmodAux_spec (m : Nat) (hm : 0 < m) :
    ∀ (f r : Nat), size r ≤ f + (size m - 1) →
      size (pmodAux f r m) < size m ∧ Mult m (r ^^^ pmodAux f r m)
  | 0, r, h => by
    have hsm : 0 < size m := size_pos.mpr hm
    refine ⟨by simp only [pmodAux]; omega, ?_⟩
    simp only [pmodAux, Nat.xor_self]; exact Mult.zero
  | f+1, r, h => by
    simp only [pmodAux]
    split
    · rename_i hlt
      exact ⟨hlt, by rw [Nat.xor_self]; exact Mult.zero⟩
    · rename_i hge
      have hsm : 0 < size m := size_pos.mpr hm
      have hr : 0 < r := by
        rcases Nat.eq_zero_or_pos r with h0 | h0
        · subst h0; simp at hge; omega
        · exact h0
      have hsz : size (m <<< (size r - size m)) = size r := by
        rw [size_shiftLeft (by omega)]; omega
      have hdec := size_xor_lt hr hsz.symm
      obtain ⟨h1, h2⟩ := pmodAux_spec m hm f (r ^^^ (m <<< (size r - size m))) (by omega)
      refine ⟨h1, ?_⟩
      have := Mult.step _ (size r - size m) h2
      -- (r' ^ res) ^ shift = r ^ res
      have e : (r ^^^ m <<< (size r - size m) ^^^ pmodAux f (r ^^^ m <<< (size r - size m)) m) ^^^
          m <<< (size r - size m) = r ^^^ pmodAux f (r ^^^ m <<< (size r - size m)) m := by
        apply Nat.eq_of_testBit_eq; intro i
        simp only [Nat.testBit_xor]
        cases r.testBit i <;> cases (m <<< (size r - size m)).testBit i <;>
          cases (pmodAux f (r ^^^ m <<< (size r - size m)) m).testBit i <;> rfl
      rw [e] at this
      exact this

theorem pmod_spec (a m : Nat) (hm : 0 < m) : size (pmod a m) < size m ∧ Mult m (a ^^^ pmod a m) :=
  pmodAux_spec m hm (size a) a (by omega)

end DM

open DM in
theorem dvd_of_mult (P d : Nat) (h : Mult P d) : toPoly P ∣ toPoly d := by
  induction h with
  | zero => simp
  | step d s _ ih =>
    rw [toPoly_xor, toPoly_shift]
    exact dvd_add ih (Dvd.intro_left _ rfl)

/-- field multiplication as implemented: carry-less product reduced by the modulus -/
def fmul (P a b : Nat) : Nat := DM.pmod (clmul a b) P

theorem fmul_short (P a b : Nat) (hP : 0 < P) : Nat.size (fmul P a b) < Nat.size P :=
  (DM.pmod_spec _ P hP).1

theorem fmul_cong (P a b : Nat) (hP : 0 < P) : toPoly P ∣ toPoly a * toPoly b + toPoly (fmul P a b) := by
  have := dvd_of_mult P _ (DM.pmod_spec (clmul a b) P hP).2
  rwa [toPoly_xor, toPoly_clmul] at this

theorem fmul_comm (P a b : Nat) : fmul P a b = fmul P b a := by
  unfold fmul
  have : clmul a b = clmul b a := toPoly_injective (by rw [toPoly_clmul, toPoly_clmul, mul_comm])
  rw [this]

/-- in characteristic 2:  P ∣ u + v  and  P ∣ v + w  give  P ∣ u + w -/
theorem dvd_trans2 {P u v w : (ZMod 2)[X]} (h1 : P ∣ u + v) (h2 : P ∣ v + w) : P ∣ u + w := by
  have : u + w = (u + v) + (v + w) := by
    have := add_self' v
    calc u + w = u + w + 0 := by ring
      _ = u + w + (v + v) := by rw [this]
      _ = (u + v) + (v + w) := by ring
  rw [this]; exact dvd_add h1 h2

theorem fmul_assoc (P a b c : Nat) (hP : 0 < P) :
    fmul P (fmul P a b) c = fmul P a (fmul P b c) := by
  apply eq_of_dvd_of_short P _ _ hP (fmul_short P _ _ hP) (fmul_short P _ _ hP)
  -- both sides are congruent to a*b*c
  have h1 := fmul_cong P a b hP           -- P | ab + f(a,b)
  have h2 := fmul_cong P (fmul P a b) c hP -- P | f(a,b) c + L
  have h3 := fmul_cong P b c hP           -- P | bc + f(b,c)
  have h4 := fmul_cong P a (fmul P b c) hP -- P | a f(b,c) + R
  have e1 : toPoly P ∣ toPoly a * toPoly b * toPoly c + toPoly (fmul P a b) * toPoly c := by
    have := Dvd.dvd.mul_right h1 (toPoly c); rwa [add_mul] at this
  have e2 : toPoly P ∣ toPoly a * toPoly b * toPoly c + toPoly (fmul P (fmul P a b) c) :=
    dvd_trans2 e1 h2
  have e3 : toPoly P ∣ toPoly a * toPoly b * toPoly c + toPoly a * toPoly (fmul P b c) := by
    have := Dvd.dvd.mul_left h3 (toPoly a); rwa [mul_add, ← mul_assoc] at this
  have e4 : toPoly P ∣ toPoly a * toPoly b * toPoly c + toPoly (fmul P a (fmul P b c)) :=
    dvd_trans2 e3 h4
  have : toPoly P ∣ toPoly (fmul P (fmul P a b) c) + toPoly a * toPoly b * toPoly c := by
    rw [add_comm]; exact e2
  exact dvd_trans2 this e4

theorem fmul_xor_left (P a a' b : Nat) (hP : 0 < P) :
    fmul P (a ^^^ a') b = fmul P a b ^^^ fmul P a' b := by
  have hs : Nat.size (fmul P a b ^^^ fmul P a' b) < Nat.size P := by
    have h1 := fmul_short P a b hP; have h2 := fmul_short P a' b hP
    have hsP : 0 < Nat.size P := Nat.size_pos.mpr hP
    have x1 : fmul P a b < 2 ^ (Nat.size P - 1) := Nat.size_le.mp (by omega)
    have x2 : fmul P a' b < 2 ^ (Nat.size P - 1) := Nat.size_le.mp (by omega)
    have := Nat.size_le.mpr (Nat.xor_lt_two_pow x1 x2); omega
  apply eq_of_dvd_of_short P _ _ hP (fmul_short P _ _ hP) hs
  have h0 := fmul_cong P (a ^^^ a') b hP
  have h1 := fmul_cong P a b hP
  have h2 := fmul_cong P a' b hP
  rw [toPoly_xor] at h0 ⊢
  have h12 : toPoly P ∣ (toPoly a + toPoly a') * toPoly b + (toPoly (fmul P a b) + toPoly (fmul P a' b)) := by
    have := dvd_add h1 h2
    have e : toPoly a * toPoly b + toPoly (fmul P a b) + (toPoly a' * toPoly b + toPoly (fmul P a' b))
        = (toPoly a + toPoly a') * toPoly b + (toPoly (fmul P a b) + toPoly (fmul P a' b)) := by ring
    rwa [e] at this
  have h0' : toPoly P ∣ toPoly (fmul P (a ^^^ a') b) + (toPoly a + toPoly a') * toPoly b := by
    rw [add_comm]; exact h0
  exact dvd_trans2 h0' h12

/-! ### the multiplicative monoid with zero on short representatives -/
theorem clmul_one (a : Nat) : clmul a 1 = a := by
  have : (1 : Nat) = Nat.bit true 0 := by simp [Nat.bit_val]
  rw [this, clmul_bit]; simp [clmul]

theorem pmod_short (a P : Nat) (h : Nat.size a < Nat.size P) : DM.pmod a P = a := by
  unfold DM.pmod
  cases hs : Nat.size a with
  | zero => simp [DM.pmodAux]
  | succ n => simp only [DM.pmodAux]; rw [hs] at h; simp [hs, h]

theorem fmul_one (P a : Nat) (h : Nat.size a < Nat.size P) : fmul P a 1 = a := by
  unfold fmul; rw [clmul_one, pmod_short a P h]

theorem clmul_zero_left (b : Nat) : clmul 0 b = 0 :=
  toPoly_injective (by rw [toPoly_clmul]; simp)

theorem fmul_zero_left (P b : Nat) (hP : 0 < P) : fmul P 0 b = 0 := by
  unfold fmul; rw [clmul_zero_left]
  exact pmod_short 0 P (by simpa using Nat.size_pos.mpr hP)

/-- elements: naturals shorter than the modulus -/
def Elt (P : Nat) : Type := {a : Nat // Nat.size a < Nat.size P}

variable {P : Nat}

instance : DecidableEq (Elt P) := fun a b => decidable_of_iff (a.val = b.val) Subtype.ext_iff.symm

theorem elt_lt (a : Elt P) : a.val < 2 ^ (Nat.size P - 1) := Nat.size_le.mp (by have := a.property; omega)

def eltEquiv (hP : 0 < P) : Elt P ≃ Fin (2 ^ (Nat.size P - 1)) where
  toFun a := ⟨a.val, elt_lt a⟩
  invFun i := ⟨i.val, by
    have := Nat.size_le.mpr i.isLt
    have := Nat.size_pos.mpr hP
    omega⟩
  left_inv a := rfl
  right_inv i := rfl

/-- the modulus must have degree ≥ 1 -/
class Good (P : Nat) : Prop where
  two_le_size : 2 ≤ Nat.size P

theorem Good.pos [h : Good P] : 0 < P := Nat.size_pos.mp (by have := h.two_le_size; omega)

noncomputable instance [Good P] : Fintype (Elt P) := Fintype.ofEquiv _ (eltEquiv Good.pos).symm

theorem card_elt [Good P] : Fintype.card (Elt P) = 2 ^ (Nat.size P - 1) := by
  rw [Fintype.card_congr (eltEquiv Good.pos)]; simp

instance [Good P] : MonoidWithZero (Elt P) where
  mul a b := ⟨fmul P a.val b.val, fmul_short P _ _ Good.pos⟩
  one := ⟨1, by have := (inferInstance : Good P).two_le_size; simp [Nat.size_one]; omega⟩
  zero := ⟨0, by have := (inferInstance : Good P).two_le_size; simp; omega⟩
  mul_assoc a b c := Subtype.ext (fmul_assoc P _ _ _ Good.pos)
  one_mul a := Subtype.ext (by
    show fmul P 1 a.val = a.val
    rw [fmul_comm]; exact fmul_one P _ a.property)
  mul_one a := Subtype.ext (fmul_one P _ a.property)
  zero_mul a := Subtype.ext (fmul_zero_left P _ Good.pos)
  mul_zero a := Subtype.ext (by
    show fmul P a.val 0 = 0
    rw [fmul_comm]; exact fmul_zero_left P _ Good.pos)

instance [Good P] : Nontrivial (Elt P) := ⟨⟨0, 1, fun h => by
  have := congrArg Subtype.val h
  exact absurd (show (0 : Nat) = 1 from this) Nat.zero_ne_one⟩⟩

theorem val_mul [Good P] (a b : Elt P) : (a * b).val = fmul P a.val b.val := rfl
theorem val_one [Good P] : (1 : Elt P).val = 1 := rfl

/-! ### square-and-multiply on naturals agrees with the monoid power -/
def fpowNat (P a : Nat) : Nat → Nat
  | 0 => 1
  | n+1 => fmul P (fpowNat P a n) a

theorem val_pow [Good P] (a : Elt P) (n : Nat) : (a ^ n).val = fpowNat P a.val n := by
  induction n with
  | zero => rfl
  | succ n ih => rw [pow_succ, val_mul, ih]; rfl

end GF
