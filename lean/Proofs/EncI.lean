import Proofs.SC
import Proofs.Decoders
/-!
# C11: the interleaved (`polar_i`) transform is the natural-order transform in bit-reversed order
-/
open Kaira.Polar Kaira.Dist List

namespace EncIProofs

theorem length_interleave : ∀ (a b : List Bool), a.length = b.length → (interleave a b).length = 2 * a.length
  | [], [], _ => by simp [interleave]
  | x :: xs, y :: ys, h => by
    simp only [interleave, List.length_cons]
    rw [length_interleave xs ys (by simpa using h)]; omega
  | [], _ :: _, h => by simp at h
  | _ :: _, [], h => by simp at h

theorem getD_interleave : ∀ (a b : List Bool) (p : Nat), a.length = b.length →
    (interleave a b).getD p false = if p % 2 = 0 then a.getD (p / 2) false else b.getD (p / 2) false
  | [], [], p, _ => by simp [interleave]
  | x :: xs, y :: ys, p, h => by
    have ih := getD_interleave xs ys
    simp only [interleave]
    match p with
    | 0 => simp
    | 1 => simp
    | p + 2 =>
      simp only [List.getD_cons_succ]
      rw [ih p (by simpa using h)]
      have h1 : (p + 2) % 2 = p % 2 := by omega
      have h2 : (p + 2) / 2 = p / 2 + 1 := by omega
      rw [h1, h2]; simp
  | [], _ :: _, _, h => by simp at h
  | _ :: _, [], _, h => by simp at h

theorem encI_length : ∀ (m : Nat) (u : List Bool), u.length = 2 ^ m → (encI m u).length = 2 ^ m
  | 0, u, h => by simpa [encI] using h
  | m+1, u, h => by
    have h2 : 2 ^ (m + 1) = 2 ^ m + 2 ^ m := by rw [pow_succ]; omega
    have ha : (u.take (2 ^ m)).length = 2 ^ m := by rw [length_take]; omega
    have hb : (u.drop (2 ^ m)).length = 2 ^ m := by rw [length_drop]; omega
    simp only [encI]
    rw [length_interleave _ _ (by simp [xorL, encI_length m _ ha, encI_length m _ hb])]
    simp [xorL, encI_length m _ ha, encI_length m _ hb]; omega

theorem getD_xorL (a b : List Bool) (q : Nat) (h : a.length = b.length) :
    (xorL a b).getD q false = xor (a.getD q false) (b.getD q false) := by
  unfold xorL
  induction a generalizing b q with
  | nil => cases b <;> simp at h ⊢
  | cons x xs ih =>
    cases b with
    | nil => simp at h
    | cons y ys =>
      cases q with
      | zero => simp
      | succ q => simpa using ih ys q (by simpa using h)

/-- **the interleaved (`polar_i`) transform is the natural-order transform read in bit-reversed
order**: entry `p` of `encI m u` is entry `bitrev_m(p)` of `enc m u` — every m, every input -/
theorem encI_eq_bitrev : ∀ (m : Nat) (u : List Bool), u.length = 2 ^ m → ∀ p, p < 2 ^ m →
    (encI m u).getD p false = (enc m u).getD (revBits m p) false
  | 0, u, _, p, hp => by
    have : p = 0 := by simpa using hp
    subst this; simp [encI, enc, revBits]
  | m+1, u, h, p, hp => by
    have h2 : 2 ^ (m + 1) = 2 ^ m + 2 ^ m := by rw [pow_succ]; omega
    have ha : (u.take (2 ^ m)).length = 2 ^ m := by rw [length_take]; omega
    have hb : (u.drop (2 ^ m)).length = 2 ^ m := by rw [length_drop]; omega
    have hq : p / 2 < 2 ^ m := by omega
    have la := encI_length m _ ha
    have lb := encI_length m _ hb
    have ea := SC.enc_length m _ ha
    have eb := SC.enc_length m _ hb
    have hr : revBits m (p / 2) < 2 ^ m := DecProofs.revBits_lt m (p / 2)
    simp only [encI, enc]
    rw [getD_interleave _ _ p (by simp [xorL, la, lb])]
    have hrev : revBits (m + 1) p = (p % 2) * 2 ^ m + revBits m (p / 2) := by
      simp only [revBits, Nat.shiftLeft_eq]
      rcases Nat.mod_two_eq_zero_or_one p with h0 | h0
      · simp [h0]
      · rw [h0, Nat.one_mul]
        have := (Nat.two_pow_add_eq_or_of_lt hr 1).symm
        simpa using this
    rw [hrev]
    rcases Nat.mod_two_eq_zero_or_one p with h0 | h0
    · simp only [h0, if_true, Nat.zero_mul, Nat.zero_add]
      rw [getD_xorL _ _ _ (by rw [la, lb]), encI_eq_bitrev m _ ha _ hq, encI_eq_bitrev m _ hb _ hq]
      rw [List.getD_append _ _ _ _ (by simp [xorL, ea, eb]; exact hr), getD_xorL _ _ _ (by rw [ea, eb])]
    · simp only [h0, Nat.one_mul]
      rw [if_neg (by omega), encI_eq_bitrev m _ hb _ hq]
      rw [List.getD_append_right _ _ _ _ (by simp [xorL, ea, eb])]
      congr 1
      simp [xorL, ea, eb]

end EncIProofs
