import Mathlib.Analysis.InnerProductSpace.Calculus
import Mathlib.Analysis.SpecialFunctions.Sqrt
import Mathlib.Analysis.InnerProductSpace.PiL2
import Mathlib.Analysis.Calculus.Deriv.Inv
/-!
# C19 calculus: the real-valued models of the power constraints and of the analog channels (fixed
noise realisation) are differentiable in their input
-/
namespace DiffProofs
open Real
open scoped RealInnerProductSpace

variable {n : ℕ}

/-- total-power normalisation `x ↦ sqrt(P / (‖x‖² + ε)) • x` is differentiable everywhere -/
theorem total_power_differentiable (P ε : ℝ) (hP : 0 < P) (hε : 0 < ε) :
    Differentiable ℝ (fun x : EuclideanSpace ℝ (Fin n) => Real.sqrt (P / (‖x‖ ^ 2 + ε)) • x) := by
  intro x
  have hpos : 0 < ‖x‖ ^ 2 + ε := by positivity
  have h1 : DifferentiableAt ℝ (fun x : EuclideanSpace ℝ (Fin n) => ‖x‖ ^ 2 + ε) x :=
    (differentiableAt_id.norm_sq ℝ).add_const ε
  have h2 : DifferentiableAt ℝ (fun x : EuclideanSpace ℝ (Fin n) => P / (‖x‖ ^ 2 + ε)) x := by
    have := (h1.inv (ne_of_gt hpos)).const_mul P
    simpa [div_eq_mul_inv] using this
  have h3 : DifferentiableAt ℝ (fun x : EuclideanSpace ℝ (Fin n) => Real.sqrt (P / (‖x‖ ^ 2 + ε))) x :=
    h2.sqrt (ne_of_gt (div_pos hP hpos))
  exact h3.smul differentiableAt_id

theorem normsq_div_differentiableAt (c : ℝ) (x : EuclideanSpace ℝ (Fin n)) :
    DifferentiableAt ℝ (fun x : EuclideanSpace ℝ (Fin n) => ‖x‖ ^ 2 / c) x := by
  have h : DifferentiableAt ℝ (fun x : EuclideanSpace ℝ (Fin n) => ‖x‖ ^ 2) x := by
    simpa using (differentiableAt_id (𝕜 := ℝ) (x := x)).norm_sq ℝ
  have := h.mul_const (c⁻¹)
  simpa [div_eq_mul_inv] using this

/-- average-power normalisation (per-sample power `‖x‖²/m`) -/
theorem average_power_differentiable (P ε : ℝ) (m : ℕ) (hm : 0 < m) (hP : 0 < P) (hε : 0 < ε) :
    Differentiable ℝ (fun x : EuclideanSpace ℝ (Fin n) => Real.sqrt (P / (‖x‖ ^ 2 / m + ε)) • x) := by
  intro x
  have hm' : (0 : ℝ) < m := by exact_mod_cast hm
  have hpos : 0 < ‖x‖ ^ 2 / m + ε := by positivity
  have h1 : DifferentiableAt ℝ (fun x : EuclideanSpace ℝ (Fin n) => ‖x‖ ^ 2 / m + ε) x :=
    (normsq_div_differentiableAt (m : ℝ) x).add_const ε
  have h2 : DifferentiableAt ℝ (fun x : EuclideanSpace ℝ (Fin n) => P / (‖x‖ ^ 2 / m + ε)) x := by
    have := (h1.inv (ne_of_gt hpos)).const_mul P
    simpa [div_eq_mul_inv] using this
  have h3 := h2.sqrt (ne_of_gt (div_pos hP hpos))
  exact h3.smul differentiableAt_id

/-- additive noise with a fixed realisation, and flat fading with fixed gain and noise, are affine -/
theorem additive_fixed_noise_differentiable (z : EuclideanSpace ℝ (Fin n)) :
    Differentiable ℝ (fun x : EuclideanSpace ℝ (Fin n) => x + z) := differentiable_id.add_const z

theorem fading_fixed_differentiable (h : ℝ) (z : EuclideanSpace ℝ (Fin n)) :
    Differentiable ℝ (fun x : EuclideanSpace ℝ (Fin n) => h • x + z) := (differentiable_id.const_smul h).add_const z

/-- SNR-parameterised AWGN with a fixed unit draw `z`: `x + sqrt(‖x‖²/(m·snr)) • z` is differentiable
at every non-zero input (the square root has a kink at the zero signal) -/
theorem awgn_snr_differentiableAt (z x : EuclideanSpace ℝ (Fin n)) (m : ℕ) (hm : 0 < m) (snr : ℝ) (hs : 0 < snr) (hx : x ≠ 0) :
    DifferentiableAt ℝ (fun x : EuclideanSpace ℝ (Fin n) => x + Real.sqrt (‖x‖ ^ 2 / (m * snr)) • z) x := by
  have hm' : (0 : ℝ) < m := by exact_mod_cast hm
  have hn : 0 < ‖x‖ ^ 2 := by positivity
  have h1 : DifferentiableAt ℝ (fun x : EuclideanSpace ℝ (Fin n) => ‖x‖ ^ 2 / (m * snr)) x :=
    normsq_div_differentiableAt _ x
  have h2 := h1.sqrt (ne_of_gt (div_pos hn (mul_pos hm' hs)))
  exact differentiableAt_id.add (h2.smul_const z)
/-- the scalar factor as a function of the squared norm -/
theorem factor_hasDerivAt (P ε c : ℝ) (hP : 0 < P) (hc : 0 < c + ε) :
    HasDerivAt (fun c => Real.sqrt (P / (c + ε))) (-(Real.sqrt (P / (c + ε)) / (2 * (c + ε)))) c := by
  have h1 : HasDerivAt (fun c => c + ε) 1 c := (hasDerivAt_id c).add_const ε
  have h2 : HasDerivAt (fun c => P / (c + ε)) (-(P / (c + ε) ^ 2)) c := by
    have := (h1.inv (ne_of_gt hc)).const_mul P
    have e1 : (fun c => P / (c + ε)) = fun y => P * (fun c => c + ε)⁻¹ y := by
      funext y; simp [div_eq_mul_inv]
    have e2 : -(P / (c + ε) ^ 2) = P * (-1 / (c + ε) ^ 2) := by ring
    rw [e1, e2]; exact this
  have hpos : 0 < P / (c + ε) := div_pos hP hc
  have h3 := h2.sqrt (ne_of_gt hpos)
  convert h3 using 1
  have hne : c + ε ≠ 0 := ne_of_gt hc
  set s := Real.sqrt (P / (c + ε)) with hsdef
  have hs : s ≠ 0 := ne_of_gt (Real.sqrt_pos.mpr hpos)
  have hsq : s * s = P / (c + ε) := Real.mul_self_sqrt (le_of_lt hpos)
  have hP' : P / (c + ε) ^ 2 = s * s / (c + ε) := by rw [hsq]; field_simp
  rw [hP']
  field_simp

/-- **closed-form derivative of the total-power normalisation** `f(x) = sqrt(P/(‖x‖²+ε)) • x`:
`Df(x)·v = s·v − (s/(‖x‖²+ε))·⟪x,v⟫·x` with `s = sqrt(P/(‖x‖²+ε))` -/
theorem total_power_hasFDerivAt (P ε : ℝ) (hP : 0 < P) (hε : 0 < ε) (x : EuclideanSpace ℝ (Fin n)) :
    HasFDerivAt (fun x : EuclideanSpace ℝ (Fin n) => Real.sqrt (P / (‖x‖ ^ 2 + ε)) • x)
      (Real.sqrt (P / (‖x‖ ^ 2 + ε)) • ContinuousLinearMap.id ℝ _ +
        ((-(Real.sqrt (P / (‖x‖ ^ 2 + ε)) / (2 * (‖x‖ ^ 2 + ε)))) • (2 • innerSL ℝ x)).smulRight x) x := by
  have hc : 0 < ‖x‖ ^ 2 + ε := by positivity
  have hg := (factor_hasDerivAt P ε (‖x‖ ^ 2) hP hc).comp_hasFDerivAt x (hasStrictFDerivAt_norm_sq x).hasFDerivAt
  exact hg.smul (hasFDerivAt_id x)

/-- the derivative applied to a direction: `Df(x)·v = s·v − (s/(‖x‖²+ε))·⟪x,v⟫·x` -/
theorem total_power_fderiv_apply (P ε : ℝ) (x v : EuclideanSpace ℝ (Fin n)) :
    (Real.sqrt (P / (‖x‖ ^ 2 + ε)) • ContinuousLinearMap.id ℝ (EuclideanSpace ℝ (Fin n)) +
        ((-(Real.sqrt (P / (‖x‖ ^ 2 + ε)) / (2 * (‖x‖ ^ 2 + ε)))) • (2 • innerSL ℝ x)).smulRight x :
          EuclideanSpace ℝ (Fin n) →L[ℝ] EuclideanSpace ℝ (Fin n)) v =
      Real.sqrt (P / (‖x‖ ^ 2 + ε)) • v - (Real.sqrt (P / (‖x‖ ^ 2 + ε)) / (‖x‖ ^ 2 + ε) * (inner ℝ x v)) • x := by
  simp only [add_apply, smul_apply, ContinuousLinearMap.id_apply,
    ContinuousLinearMap.smulRight_apply, innerSL_apply_apply, smul_eq_mul, nsmul_eq_mul, Nat.cast_ofNat]
  rw [sub_eq_add_neg, ← neg_smul]
  congr 2
  by_cases h : ‖x‖ ^ 2 + ε = 0
  · simp [h]
  · field_simp

end DiffProofs
