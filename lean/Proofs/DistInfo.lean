import Kaira.Dist
import Proofs.Codes
import Proofs.Blocks
import Mathlib.Data.List.Basic
import Mathlib.Data.List.Perm.Subperm
import Mathlib.Data.List.Nodup
/-! Soundness of the information-set distance bound (`infoOk`). -/
open Kaira.Codes Kaira.Dist CodesProofs

namespace DistInfo

/-! ### weight -/
theorem weight_eq_of_lt : ∀ (n j x : Nat), j ≤ n → x < 2 ^ j → weight n x = weight j x
  | 0, j, x, hj, _ => by obtain rfl : j = 0 := by omega
                         rfl
  | n+1, j, x, hj, hx => by
    by_cases h : j = n + 1
    · subst h; rfl
    · have hb : x.testBit n = false :=
        Nat.testBit_lt_two_pow (lt_of_lt_of_le hx (Nat.pow_le_pow_right (by decide) (by omega)))
      simp only [weight, hb, Bool.false_eq_true, if_false, Nat.add_zero]
      exact weight_eq_of_lt n j x (by omega) hx

theorem weight_mod : ∀ (n j x : Nat), n ≤ j → weight n (x % 2 ^ j) = weight n x
  | 0, _, _, _ => rfl
  | n+1, j, x, h => by
    simp only [weight, Nat.testBit_mod_two_pow, show n < j by omega, decide_true, Bool.true_and]
    rw [weight_mod n j x (by omega)]

theorem weight_xor_parity : ∀ (n a b : Nat), weight n (a ^^^ b) % 2 = (weight n a + weight n b) % 2
  | 0, _, _ => rfl
  | n+1, a, b => by
    simp only [weight, Nat.testBit_xor]
    have := weight_xor_parity n a b
    cases a.testBit n <;> cases b.testBit n <;> simp <;> omega

/-- clearing the highest set bit removes exactly one 1 -/
theorem weight_clear_top (n x : Nat) (h0 : x ≠ 0) (hx : x < 2 ^ n) :
    weight n x = weight n (x % 2 ^ x.log2) + 1 := by
  have hL : x.log2 < n := (Nat.log2_lt h0).mpr hx
  have hx' : x < 2 ^ (x.log2 + 1) := (Nat.log2_lt h0).mp (Nat.lt_succ_self _)
  rw [weight_eq_of_lt n (x.log2 + 1) x (by omega) hx']
  have hr : x % 2 ^ x.log2 < 2 ^ x.log2 := Nat.mod_lt _ (Nat.two_pow_pos _)
  rw [weight_eq_of_lt n x.log2 _ (by omega) hr, weight_mod _ _ _ (Nat.le_refl _)]
  simp [weight, Nat.testBit_log2 h0]

theorem geW_sound (n : Nat) : ∀ (d x : Nat), x < 2 ^ n → geW d x = true → d ≤ weight n x
  | 0, _, _, _ => Nat.zero_le _
  | d+1, x, hx, h => by
    simp only [geW, Bool.and_eq_true, bne_iff_ne, ne_eq] at h
    have hr : x % 2 ^ x.log2 < 2 ^ n := lt_of_le_of_lt (Nat.mod_le _ _) hx
    have := geW_sound n d _ hr h.2
    rw [weight_clear_top n x h.1 hx]
    omega

/-! ### bounded enumeration -/
theorem allGe_sound (n d : Nat) :
    ∀ (rows : List Nat) (i acc : Nat) (ne : Bool) (b u : Nat), (∀ r ∈ rows, r < 2 ^ n) → acc < 2 ^ n →
      allGe d rows acc ne b = true → bitsSet rows.length i u ≤ b →
      (ne = true ∨ ∃ j, j < rows.length ∧ u.testBit (i + j) = true) →
      d ≤ weight n (acc ^^^ encodeFrom rows i u)
  | [], i, acc, ne, b, u, _, hacc, h, _, hne => by
    rcases hne with hne | ⟨j, hj, _⟩
    · simp only [allGe, hne, Bool.not_true, Bool.false_or] at h
      simpa [encodeFrom] using geW_sound n d acc hacc h
    · simp at hj
  | r :: rs, i, acc, ne, b, u, hrows, hacc, h, hb, hne => by
    simp only [allGe, Bool.and_eq_true, Bool.or_eq_true, beq_iff_eq] at h
    simp only [List.length_cons, bitsSet] at hb
    simp only [encodeFrom]
    have hrs : ∀ r' ∈ rs, r' < 2 ^ n := fun r' hr' => hrows r' (by simp [hr'])
    cases hbit : u.testBit i with
    | true =>
      simp only [hbit, if_true] at hb ⊢
      rcases h.2 with h0 | h2
      · omega
      · rw [← Nat.xor_assoc]
        exact allGe_sound n d rs (i + 1) (acc ^^^ r) true (b - 1) u hrs
          (Nat.xor_lt_two_pow hacc (hrows r (by simp))) h2 (by omega) (Or.inl rfl)
    | false =>
      simp only [hbit, Bool.false_eq_true, if_false, Nat.zero_add, Nat.zero_xor] at hb ⊢
      have h' : ne = true ∨ ∃ j, j < rs.length ∧ u.testBit (i + 1 + j) = true := by
        rcases hne with hne | ⟨j, hj, hjb⟩
        · exact Or.inl hne
        · cases j with
          | zero => simp [hbit] at hjb
          | succ j => exact Or.inr ⟨j, by simpa using hj, by rwa [show i + 1 + j = i + (j + 1) by omega]⟩
      exact allGe_sound n d rs (i + 1) acc ne b u hrs hacc h.1 hb h'

/-! ### restriction to an information set -/
theorem bitsSet_maskOf (l : List Bool) : ∀ (len i : Nat),
    bitsSet len i (maskOf l) = ((l.drop i).take len).count true
  | 0, _ => by simp [bitsSet]
  | len+1, i => by
    rw [bitsSet, BlocksProofs.testBit_maskOf, bitsSet_maskOf l len (i + 1)]
    by_cases hi : i < l.length
    · rw [List.drop_eq_getElem_cons hi, List.take_succ_cons, List.count_cons]
      simp only [List.getD_eq_getElem?_getD, List.getElem?_eq_getElem hi, Option.getD_some]
      cases l[i] <;> simp <;> omega
    · have h1 : l.drop i = [] := List.drop_eq_nil_of_le (by omega)
      have h2 : l.drop (i + 1) = [] := List.drop_eq_nil_of_le (by omega)
      simp [h1, h2, List.getD_eq_getElem?_getD, List.getElem?_eq_none (by omega : l.length ≤ i)]

theorem weight_eq_filter : ∀ (n x : Nat), weight n x = ((List.range n).filter x.testBit).length
  | 0, _ => rfl
  | n+1, x => by
    rw [weight, weight_eq_filter n x, List.range_succ, List.filter_append, List.length_append]
    cases hb : x.testBit n <;> simp [List.filter_cons, hb]

theorem count_map_le (pos : List Nat) (n x : Nat) (hn : pos.Nodup) (hp : ∀ p ∈ pos, p < n) :
    (pos.map x.testBit).count true ≤ weight n x := by
  rw [weight_eq_filter, List.count_eq_length_filter, List.filter_map, List.length_map]
  have hsub : pos.filter (fun p => x.testBit p == true) ⊆ (List.range n).filter x.testBit := by
    intro p hp'
    simp only [List.mem_filter, beq_iff_eq, List.mem_range] at hp' ⊢
    exact ⟨hp p hp'.1, hp'.2⟩
  have hfe : (fun b => b == true) ∘ x.testBit = fun p => x.testBit p == true := rfl
  rw [hfe]
  exact (List.subperm_of_subset (hn.filter _) hsub).length_le

theorem bitsSet_proj_le (pos : List Nat) (n x : Nat) (hn : pos.Nodup) (hp : ∀ p ∈ pos, p < n) :
    bitsSet pos.length 0 (proj pos x) ≤ weight n x := by
  unfold proj
  rw [bitsSet_maskOf]
  simp only [List.drop_zero]
  rw [List.take_of_length_le (by simp)]
  exact count_map_le pos n x hn hp

theorem proj_xor (pos : List Nat) (a b : Nat) : proj pos (a ^^^ b) = proj pos a ^^^ proj pos b := by
  apply Nat.eq_of_testBit_eq
  intro t
  simp only [proj, Nat.testBit_xor, BlocksProofs.testBit_maskOf, List.getD_eq_getElem?_getD, List.getElem?_map]
  cases pos[t]? <;> simp

theorem proj_zero (pos : List Nat) : proj pos 0 = 0 := by
  apply Nat.eq_of_testBit_eq
  intro t
  simp only [proj, BlocksProofs.testBit_maskOf, List.getD_eq_getElem?_getD, List.getElem?_map, Nat.zero_testBit]
  cases pos[t]? <;> simp

theorem proj_encodeFrom (pos : List Nat) : ∀ (G : List Nat) (i m : Nat),
    proj pos (encodeFrom G i m) = encodeFrom (G.map (proj pos)) i m
  | [], _, _ => by simp [encodeFrom, proj_zero]
  | g :: gs, i, m => by
    simp only [encodeFrom, List.map_cons, proj_xor, proj_encodeFrom pos gs]
    split <;> simp [proj_zero]

theorem proj_lt (pos : List Nat) (x : Nat) : proj pos x < 2 ^ pos.length := by
  have := BlocksProofs.maskOf_lt (pos.map x.testBit)
  simpa [proj] using this

/-- parity of a row combination of even-weight rows -/
theorem even_encodeFrom (n : Nat) : ∀ (G : List Nat) (i m : Nat), (∀ g ∈ G, weight n g % 2 = 0) →
    weight n (encodeFrom G i m) % 2 = 0
  | [], _, _, _ => by
    simp only [encodeFrom]
    have : ∀ n, weight n 0 = 0 := fun n => by induction n with
      | zero => rfl
      | succ n ih => simp [weight, ih]
    simp [this]
  | g :: gs, i, m, h => by
    simp only [encodeFrom]
    rw [weight_xor_parity]
    have h1 := even_encodeFrom n gs (i + 1) m (fun g' hg' => h g' (by simp [hg']))
    have h2 := h g (by simp)
    have h0 : ∀ n, weight n 0 = 0 := fun n => by induction n with
      | zero => rfl
      | succ n ih => simp [weight, ih]
    split
    · omega
    · simp only [h0]; omega

/-- **information-set bound**: if `infoOk` evaluates to true, every non-zero codeword has weight ≥ `advD` -/
theorem info_bound (c : InfoInst) (h : infoOk c = true) (m : Nat) (h0 : m ≠ 0)
    (hm : m < 2 ^ c.k) : c.advD ≤ weight c.n (encode c.G m) := by
  unfold infoOk at h
  simp only [Bool.and_eq_true, beq_iff_eq, decide_eq_true_eq, List.all_eq_true] at h
  obtain ⟨⟨⟨⟨⟨⟨⟨hGl, hpl⟩, hMl⟩, hpn⟩, hnd⟩, hG⟩, hunit⟩, hrest⟩ := h
  set u := proj c.pos (encode c.G m) with hu
  have hproj : u = encode (c.G.map (proj c.pos)) m := by
    rw [hu]; exact proj_encodeFrom c.pos c.G 0 m
  have hback : encode c.M u = m := by
    rw [hproj]
    exact roundtrip _ _ hunit m (by simpa [hGl] using hm)
  have hcw : encode c.G m = encodeFrom (c.M.map (encode c.G)) 0 u := by
    conv_lhs => rw [← hback]
    exact encode_comp c.G c.M 0 u
  have hune : u ≠ 0 := by
    intro hz; rw [hz, encode_zero] at hback; exact h0 hback.symm
  have hult : u < 2 ^ c.M.length := by rw [hMl, ← hpl]; exact proj_lt _ _
  have hexists : ∃ j, j < (c.M.map (encode c.G)).length ∧ u.testBit (0 + j) = true := by
    obtain ⟨j, hj⟩ := Nat.exists_testBit_of_ne_zero hune
    refine ⟨j, ?_, by simpa using hj⟩
    by_contra hge
    have : u < 2 ^ j := lt_of_lt_of_le hult (Nat.pow_le_pow_right (by decide) (by simpa using hge))
    rw [Nat.testBit_lt_two_pow this] at hj
    cases hj
  have hrows : ∀ r ∈ c.M.map (encode c.G), r < 2 ^ c.n := by
    intro r hr
    obtain ⟨x, _, rfl⟩ := List.mem_map.mp hr
    exact encodeFrom_lt c.G 0 x c.n (fun g hg => by simpa using hG g hg)
  have hwt : bitsSet c.pos.length 0 u ≤ weight c.n (encode c.G m) :=
    bitsSet_proj_le c.pos c.n _ hnd (fun p hp => by simpa using hpn p hp)
  have hlen : (c.M.map (encode c.G)).length = c.pos.length := by simp [hMl, hpl]
  by_cases hev : c.even = true
  · simp only [hev, if_true, Bool.and_eq_true, beq_iff_eq, decide_eq_true_eq, List.all_eq_true] at hrest
    obtain ⟨⟨⟨heven, hd2⟩, hge2⟩, hall⟩ := hrest
    have hpar : weight c.n (encode c.G m) % 2 = 0 := even_encodeFrom c.n c.G 0 m heven
    by_cases hb : bitsSet c.pos.length 0 u ≤ c.advD - 2
    · have := allGe_sound c.n (c.advD - 1) _ 0 0 false (c.advD - 2) u hrows (Nat.two_pow_pos _) hall
        (by rw [hlen]; exact hb) (Or.inr hexists)
      rw [Nat.zero_xor, ← hcw] at this
      omega
    · omega
  · simp only [hev, Bool.false_eq_true, if_false] at hrest
    by_cases hb : bitsSet c.pos.length 0 u ≤ c.advD - 1
    · have := allGe_sound c.n c.advD _ 0 0 false (c.advD - 1) u hrows (Nat.two_pow_pos _) hrest
        (by rw [hlen]; exact hb) (Or.inr hexists)
      rwa [Nat.zero_xor, ← hcw] at this
    · omega

end DistInfo
