import Proofs.Decoders
import Proofs.Codes
import Mathlib.Tactic.Linarith
/-!
# C02: the syndrome-table decoder (first pattern by increasing weight with the received syndrome) corrects
every error pattern within the code's capability — soundness and completeness of the pattern search
-/
open Kaira.Codes Kaira.Dist Kaira.Decoders CodesProofs DecProofs

namespace SynProofs

theorem weight_or_le (n a b : Nat) : weight n (a ||| b) ≤ weight n a + weight n b := by
  induction n with
  | zero => simp [weight]
  | succ n ih =>
    simp only [weight, Nat.testBit_or]
    cases a.testBit n <;> cases b.testBit n <;> simp <;> omega

theorem weight_two_pow (n i : Nat) : weight n (2 ^ i) = if i < n then 1 else 0 := by
  induction n with
  | zero => simp [weight]
  | succ n ih =>
    simp only [weight, ih, Nat.testBit_two_pow]
    by_cases h1 : i < n
    · have : ¬ i = n := by omega
      simp [h1, this]; omega
    · by_cases h2 : i = n
      · subst h2; simp
      · have : ¬ i < n + 1 := by omega
        simp [h1, h2, this]

theorem weight_zero (n : Nat) : weight n 0 = 0 := by
  induction n with
  | zero => rfl
  | succ n ih => simp [weight, ih]

/-- bits of `r` lie in `[start, n)` -/
def Sub (start n r : Nat) : Prop := ∀ i, r.testBit i = true → start ≤ i ∧ i < n

theorem weight_le_of_sub (n : Nat) : ∀ (start r : Nat), Sub start n r → weight n r + start ≤ n ∨ weight n r = 0 := by
  intro start r h
  -- weight counts set bits below n; all set bits are ≥ start, so at most n - start of them
  have key : ∀ m, m ≤ n → weight m r + start ≤ m ∨ weight m r = 0 := by
    intro m
    induction m with
    | zero => intro _; right; rfl
    | succ m ih =>
      intro hm
      simp only [weight]
      by_cases hb : r.testBit m = true
      · have := (h m hb).1
        simp only [hb, if_true]
        rcases ih (by omega) with h1 | h1
        · left; omega
        · left; omega
      · simp only [hb]
        rcases ih (by omega) with h1 | h1
        · left; simp; omega
        · right; simp [h1]
  exact key n (le_refl n)

theorem eq_zero_of_sub_weight (start n r : Nat) (h : Sub start n r) (hw : weight n r = 0) : r = 0 := by
  apply Nat.eq_of_testBit_eq
  intro i
  simp only [Nat.zero_testBit]
  by_contra hb
  have hb' : r.testBit i = true := by simpa using hb
  have hi := (h i hb').2
  -- a set bit below n forces positive weight
  have key : ∀ m, i < m → 0 < weight m r := by
    intro m
    induction m with
    | zero => intro h; omega
    | succ m ih =>
      intro hm
      simp only [weight]
      by_cases him : i = m
      · subst him; simp [hb']
      · have := ih (by omega); omega
  have := key n hi
  omega

theorem findPattern_sound (HT : List Nat) (n s : Nat) : ∀ (fuel w start cur e : Nat),
    findPattern HT n s w start cur fuel = some e → cur < 2 ^ n →
    encode HT e = s ∧ e < 2 ^ n ∧ weight n e ≤ weight n cur + w := by
  intro fuel
  induction fuel with
  | zero =>
    intro w start cur e h hc
    cases w with
    | zero =>
      simp only [findPattern] at h
      split_ifs at h with h1
      cases h; exact ⟨h1, hc, by omega⟩
    | succ w => simp [findPattern] at h
  | succ fuel ih =>
    intro w start cur e h hc
    cases w with
    | zero =>
      simp only [findPattern] at h
      split_ifs at h with h1
      cases h; exact ⟨h1, hc, by omega⟩
    | succ w =>
      simp only [findPattern] at h
      split_ifs at h with h1
      have hst : start < n := by omega
      have hc' : cur ||| (1 <<< start) < 2 ^ n := by
        apply Nat.or_lt_two_pow hc
        rw [Nat.one_shiftLeft]; exact Nat.pow_lt_pow_right (by decide) hst
      cases hf : findPattern HT n s w (start + 1) (cur ||| (1 <<< start)) fuel with
      | some e' =>
        rw [hf] at h; cases h
        obtain ⟨a, b, c⟩ := ih w (start + 1) _ e hf hc'
        refine ⟨a, b, ?_⟩
        have := weight_or_le n cur (1 <<< start)
        rw [Nat.one_shiftLeft, weight_two_pow] at this
        rw [Nat.one_shiftLeft] at c
        split_ifs at this <;> omega
      | none =>
        rw [hf] at h
        obtain ⟨a, b, c⟩ := ih (w + 1) (start + 1) cur e h hc
        exact ⟨a, b, c⟩

theorem weight_clear (r start : Nat) (hb : r.testBit start = true) : ∀ m,
    (start < m → weight m (r ^^^ 2 ^ start) + 1 = weight m r) ∧ (m ≤ start → weight m (r ^^^ 2 ^ start) = weight m r) := by
  intro m
  induction m with
  | zero => exact ⟨fun h => by omega, fun _ => rfl⟩
  | succ m ih =>
    simp only [weight, Nat.testBit_xor, Nat.testBit_two_pow]
    constructor
    · intro h
      by_cases hm : start = m
      · subst hm
        have := ih.2 (le_refl _)
        simp [hb, this]
      · have := ih.1 (by omega)
        simp [hm]; omega
    · intro h
      have hm : ¬ start = m := by omega
      have := ih.2 (by omega)
      simp [hm, this]

theorem sub_clear (start n r : Nat) (h : Sub start n r) (hb : r.testBit start = true) : Sub (start + 1) n (r ^^^ 2 ^ start) := by
  intro i hi
  simp only [Nat.testBit_xor, Nat.testBit_two_pow] at hi
  by_cases his : start = i
  · subst his; simp [hb] at hi
  · simp [his] at hi
    have := h i hi
    omega

theorem sub_skip (start n r : Nat) (h : Sub start n r) (hb : r.testBit start = false) : Sub (start + 1) n r := by
  intro i hi
  have := h i hi
  have : start ≠ i := by intro e; subst e; rw [hb] at hi; cases hi
  omega

theorem or_split (cur r start : Nat) (hb : r.testBit start = true) :
    cur ||| r = (cur ||| 2 ^ start) ||| (r ^^^ 2 ^ start) := by
  apply Nat.eq_of_testBit_eq
  intro i
  simp only [Nat.testBit_or, Nat.testBit_xor, Nat.testBit_two_pow]
  by_cases h : start = i
  · subst h; simp [hb]
  · simp [h]

theorem findPattern_complete (HT : List Nat) (n s : Nat) : ∀ (fuel w start cur r : Nat),
    Sub start n r → weight n r = w → encode HT (cur ||| r) = s → n + 1 ≤ fuel + start →
    (findPattern HT n s w start cur fuel).isSome = true := by
  intro fuel
  induction fuel with
  | zero =>
    intro w start cur r hs hw he hf
    cases w with
    | zero =>
      have : r = 0 := eq_zero_of_sub_weight start n r hs hw
      subst this
      simp only [Nat.or_zero] at he
      simp [findPattern, he]
    | succ w =>
      rcases weight_le_of_sub n start r hs with h | h <;> omega
  | succ fuel ih =>
    intro w start cur r hs hw he hf
    cases w with
    | zero =>
      have : r = 0 := eq_zero_of_sub_weight start n r hs hw
      subst this
      simp only [Nat.or_zero] at he
      simp [findPattern, he]
    | succ w =>
      have hle : start + (w + 1) ≤ n := by
        rcases weight_le_of_sub n start r hs with h | h <;> omega
      simp only [findPattern]
      rw [if_neg (by omega)]
      by_cases hb : r.testBit start = true
      · have hw' : weight n (r ^^^ 2 ^ start) = w := by
          have := (weight_clear r start hb n).1 (by omega); omega
        have he' : encode HT ((cur ||| 1 <<< start) ||| (r ^^^ 2 ^ start)) = s := by
          rw [Nat.one_shiftLeft, ← or_split cur r start hb]; exact he
        have := ih w (start + 1) (cur ||| 1 <<< start) (r ^^^ 2 ^ start) (sub_clear start n r hs hb) hw' he' (by omega)
        cases hfp : findPattern HT n s w (start + 1) (cur ||| 1 <<< start) fuel with
        | some e' => simp
        | none => rw [hfp] at this; cases this
      · have hb' : r.testBit start = false := by simpa using hb
        cases hfp : findPattern HT n s w (start + 1) (cur ||| 1 <<< start) fuel with
        | some e' => simp
        | none =>
          simp only
          exact ih (w + 1) (start + 1) cur r (sub_skip start n r hs hb') hw he (by omega)

/-- the table entry for the syndrome of any word `e < 2^n`: same syndrome, weight at most that of `e` -/
theorem lookupLoop_spec (HT : List Nat) (n e : Nat) (he : e < 2 ^ n) : ∀ (f w : Nat), w ≤ weight n e → weight n e < w + f →
    encode HT (lookupLoop HT n (encode HT e) f w) = encode HT e ∧ lookupLoop HT n (encode HT e) f w < 2 ^ n ∧
      weight n (lookupLoop HT n (encode HT e) f w) ≤ weight n e := by
  intro f
  induction f with
  | zero => intro w h1 h2; omega
  | succ f ih =>
    intro w h1 h2
    simp only [lookupLoop]
    cases hfp : findPattern HT n (encode HT e) w 0 0 (n + 1) with
    | some e' =>
      simp only
      obtain ⟨a, b, c⟩ := findPattern_sound HT n (encode HT e) (n + 1) w 0 0 e' hfp (Nat.two_pow_pos n)
      rw [weight_zero] at c
      exact ⟨a, b, by omega⟩
    | none =>
      simp only
      by_cases hw : w = weight n e
      · -- completeness: the search at the weight of `e` itself cannot fail
        have hsub : Sub 0 n e := by
          intro i hi
          refine ⟨Nat.zero_le _, ?_⟩
          by_contra hge
          have : e < 2 ^ i := lt_of_lt_of_le he (Nat.pow_le_pow_right (by decide) (not_lt.mp hge))
          rw [Nat.testBit_lt_two_pow this] at hi; cases hi
        have := findPattern_complete HT n (encode HT e) (n + 1) w 0 0 e hsub hw.symm (by simp) (by omega)
        rw [hfp] at this; cases this
      · exact ih (w + 1) (by omega) (by omega)

theorem tableLookup_spec (HT : List Nat) (n e : Nat) (he : e < 2 ^ n) :
    encode HT (tableLookup HT n (encode HT e)) = encode HT e ∧ tableLookup HT n (encode HT e) < 2 ^ n ∧
      weight n (tableLookup HT n (encode HT e)) ≤ weight n e := by
  have hwle : weight n e ≤ n := by
    have : ∀ m x, weight m x ≤ m := by
      intro m x; induction m with
      | zero => simp [weight]
      | succ m ih => simp only [weight]; split <;> omega
    exact this n e
  exact lookupLoop_spec HT n e he (n + 1) 0 (Nat.zero_le _) (by omega)

/-- **the syndrome-table decoder corrects every error pattern of weight ≤ t when 2t < d** — for any
parity-check matrix whose null space is the code, any length, any dimension -/
theorem syn_corrects (G HT R : List Nat) (n k d t : Nat)
    (hsyn : ∀ m, encode HT (encode G m) = 0)
    (hnull : ∀ x, x < 2 ^ n → encode HT x = 0 → ∃ m, m < 2 ^ k ∧ x = encode G m)
    (hround : ∀ m, m < 2 ^ k → invEncode R (encode G m) = m)
    (hd : ∀ m, m ≠ 0 → m < 2 ^ k → d ≤ weight n (encode G m))
    (ht : 2 * t < d) (m e : Nat) (hm : m < 2 ^ k) (he : e < 2 ^ n) (hw : weight n e ≤ t) :
    synDecode HT R n (encode G m ^^^ e) = m := by
  unfold synDecode syndrome
  have hs : encode HT (encode G m ^^^ e) = encode HT e := by rw [encode_xor, hsyn, Nat.zero_xor]
  rw [hs]
  obtain ⟨h1, h2, h3⟩ := tableLookup_spec HT n e he
  set e' := tableLookup HT n (encode HT e) with he'
  have hz : encode HT (e ^^^ e') = 0 := by rw [encode_xor, h1, Nat.xor_self]
  obtain ⟨m', hm', hz'⟩ := hnull (e ^^^ e') (Nat.xor_lt_two_pow he h2) hz
  have hm0 : m' = 0 := by
    by_contra hne
    have := hd m' hne hm'
    rw [← hz'] at this
    have := weight_xor_le n e e'
    omega
  have hee : e ^^^ e' = 0 := by rw [hz', hm0, encode_zero]
  have : e' = e := (Nat.xor_eq_zero_iff.mp hee).symm
  rw [this, Nat.xor_assoc, Nat.xor_self, Nat.xor_zero]
  exact hround m hm

end SynProofs
