import Kaira.Dist
import Proofs.Codes
import Mathlib.Data.Nat.Choose.Basic
/-! Soundness of the distance and cyclic-closure checkers. -/
open Kaira.Codes Kaira.Dist CodesProofs

namespace DistProofs

/-- `spanMin` is a lower bound for the weight of every non-empty row combination -/
theorem spanMin_le_encode (w : Nat → Nat) (top : Nat) :
    ∀ (rows : List Nat) (i acc : Nat) (ne : Bool) (m : Nat),
      (ne = true ∨ ∃ j, j < rows.length ∧ m.testBit (i + j) = true) →
      spanMin w top rows acc ne ≤ w (acc ^^^ encodeFrom rows i m)
  | [], i, acc, ne, m, h => by
    rcases h with h | ⟨j, hj, _⟩
    · simp [spanMin, encodeFrom, h]
    · simp at hj
  | r :: rs, i, acc, ne, m, h => by
    simp only [spanMin, encodeFrom]
    cases hb : m.testBit i with
    | true =>
      have := spanMin_le_encode w top rs (i + 1) (acc ^^^ r) true m (Or.inl rfl)
      simp only [if_true]
      rw [← Nat.xor_assoc]
      exact Nat.le_trans (Nat.min_le_right _ _) this
    | false =>
      have h' : ne = true ∨ ∃ j, j < rs.length ∧ m.testBit (i + 1 + j) = true := by
        rcases h with h | ⟨j, hj, hbit⟩
        · exact Or.inl h
        · cases j with
          | zero => simp [hb] at hbit
          | succ j => exact Or.inr ⟨j, by simpa using hj, by rwa [show i + 1 + j = i + (j + 1) by omega]⟩
      have := spanMin_le_encode w top rs (i + 1) acc ne m h'
      simp only [Bool.false_eq_true, if_false, Nat.zero_xor]
      exact Nat.le_trans (Nat.min_le_left _ _) this

/-- every non-zero message is encoded to a word of weight at least `spanMin` -/
theorem min_weight (G : List Nat) (n top : Nat) (m : Nat) (h0 : m ≠ 0) (hm : m < 2 ^ G.length) :
    spanMin (weight n) top G 0 false ≤ weight n (encode G m) := by
  have := spanMin_le_encode (weight n) top G 0 0 false m (Or.inr (by
    obtain ⟨j, hj⟩ := Nat.exists_testBit_of_ne_zero h0  -- some bit of m is set
    refine ⟨j, ?_, by simpa using hj⟩
    by_contra hge
    have : m < 2 ^ j := lt_of_lt_of_le hm (Nat.pow_le_pow_right (by decide) (by omega))
    rw [Nat.testBit_lt_two_pow this] at hj
    cases hj))
  simpa [encode] using this

/-! ### cyclic shift is additive on n-bit words -/
theorem cshift_xor (n a b : Nat) : cshift n (a ^^^ b) = cshift n a ^^^ cshift n b := by
  unfold cshift
  apply Nat.eq_of_testBit_eq
  intro t
  simp only [Nat.testBit_mod_two_pow, Nat.testBit_xor, Nat.testBit_shiftLeft,
    Nat.testBit_shiftRight]
  cases decide (t < n) <;> cases decide (t ≥ 1) <;> simp <;>
    (generalize a.testBit (t - 1) = p; generalize b.testBit (t - 1) = q;
     generalize a.testBit (n - 1 + t) = r; generalize b.testBit (n - 1 + t) = s;
     cases p <;> cases q <;> cases r <;> cases s <;> rfl)

theorem cshift_zero (n : Nat) : cshift n 0 = 0 := by simp [cshift]

/-- if the shift of every generator row has zero syndrome, so has the shift of every codeword -/
theorem shift_closed (n : Nat) (HT : List Nat) :
    ∀ (G : List Nat) (i m : Nat), (∀ g ∈ G, encode HT (cshift n g) = 0) →
      encode HT (cshift n (encodeFrom G i m)) = 0
  | [], i, m, _ => by simp [encodeFrom, cshift_zero, encode_zero]
  | g :: gs, i, m, h => by
    simp only [encodeFrom, cshift_xor, encode_xor]
    rw [shift_closed n HT gs (i + 1) m (fun g' hg' => h g' (by simp [hg']))]
    split
    · rw [h g (by simp)]; rfl
    · simp [cshift_zero, encode_zero]

/-- sphere-packing count -/
def sphere (n t : Nat) : Nat := ((List.range (t + 1)).map (Nat.choose n)).sum

end DistProofs
