import Kaira.Soft
import Mathlib.Algebra.Order.Field.Rat
import Mathlib.Algebra.Order.AbsoluteValue.Basic
import Mathlib.Data.List.Forall2
import Mathlib.Data.List.InsertIdx
import Mathlib.Tactic.Linarith
import Mathlib.Tactic.Ring
/-!
# C10 proofs: Wagner decoding is maximum likelihood; message passing with a sign-law check rule
keeps the signs of a codeword on any Tanner graph; the min-sum rule has the sign law and is
homogeneous (rescaling invariance).
-/
namespace SoftProofs
open List Kaira.Soft Kaira.Polar

theorem rabs_eq_abs (x : ℚ) : rabs x = |x| := by
  unfold rabs; split_ifs with h
  · exact (abs_of_neg h).symm
  · exact (abs_of_nonneg (not_lt.mp h)).symm

/-! ## Wagner -/

/-- penalty of a word w.r.t. the hard decisions: sum of `|r_i|` where `c_i` differs -/
def pen : List ℚ → List Bool → ℚ
  | x :: xs, c :: cs => (if c = decide (x < 0) then 0 else |x|) + pen xs cs
  | _, _ => 0

/-- correlation `Σ (1-2c_i) r_i` (the log-likelihood of the word up to constants) -/
def corr : List ℚ → List Bool → ℚ
  | x :: xs, c :: cs => (if c then -x else x) + corr xs cs
  | _, _ => 0

def sumAbs : List ℚ → ℚ
  | [] => 0
  | x :: xs => |x| + sumAbs xs

/-- maximising the correlation = minimising the penalty -/
theorem corr_eq : ∀ (r : List ℚ) (c : List Bool), r.length = c.length →
    corr r c = sumAbs r - 2 * pen r c
  | [], [], _ => by simp [corr, sumAbs, pen]
  | x :: xs, c :: cs, h => by
    have ih := corr_eq xs cs (by simpa using h)
    simp only [corr, sumAbs, pen, ih]
    by_cases hx : x < 0
    · cases c <;> simp [hx, abs_of_neg hx] <;> ring
    · have hx' : 0 ≤ x := not_lt.mp hx
      cases c <;> simp [hx, abs_of_nonneg hx'] <;> ring
  | [], _ :: _, h => by simp at h
  | _ :: _, [], h => by simp at h

theorem pen_nonneg : ∀ (r : List ℚ) (c : List Bool), 0 ≤ pen r c
  | [], _ => by simp [pen]
  | _ :: _, [] => by simp [pen]
  | x :: xs, c :: cs => by
    have := pen_nonneg xs cs
    simp only [pen]; split <;> [linarith; (have := abs_nonneg x; linarith)]

theorem pen_hard : ∀ (r : List ℚ), pen r (hard r) = 0
  | [] => rfl
  | x :: xs => by
    have ih := pen_hard xs
    simp only [hard, List.map, pen] at ih ⊢
    simp [ih]

theorem minAbs_cons2 (x y : ℚ) (ys : List ℚ) :
    minAbs (x :: y :: ys) = min |x| (minAbs (y :: ys)) := by
  simp only [minAbs, rabs_eq_abs]
  split_ifs with h
  · exact (min_eq_left h).symm
  · exact (min_eq_right (le_of_lt (not_le.mp h))).symm

theorem minAbs_single (x : ℚ) : minAbs [x] = |x| := by simp [minAbs, rabs_eq_abs]

/-- a word whose parity differs from the hard decisions' has penalty ≥ min |r| -/
theorem pen_ge_min : ∀ (r : List ℚ) (c : List Bool), r.length = c.length → r ≠ [] →
    parity c ≠ parity (hard r) → minAbs r ≤ pen r c
  | [x], [c], _, _, hp => by
    simp only [pen, minAbs_single, hard, List.map, parity] at hp ⊢
    have : c ≠ decide (x < 0) := by intro h; apply hp; rw [h]
    simp [this]
  | x :: y :: ys, c :: d :: ds, h, _, hp => by
    have hlen : (y :: ys).length = (d :: ds).length := by simpa using h
    rw [minAbs_cons2]
    simp only [pen]
    by_cases hc : c = decide (x < 0)
    · have hp' : parity (d :: ds) ≠ parity (hard (y :: ys)) := by
        intro h'; apply hp
        simp only [parity, hard, List.map] at h' ⊢
        rw [hc, h']
      have ih := pen_ge_min (y :: ys) (d :: ds) hlen (by simp) hp'
      simp only [hc, if_true, zero_add]
      exact le_trans (min_le_right _ _) (by simpa [pen] using ih)
    · simp only [hc, if_false]
      have := pen_nonneg (y :: ys) (d :: ds)
      simp only [pen] at this
      exact le_trans (min_le_left _ _) (by linarith)
  | [], _, _, h, _ => absurd rfl h
  | [_], [], h, _, _ => by simp at h
  | [_], _ :: _ :: _, h, _, _ => by simp at h
  | _ :: _ :: _, [], h, _, _ => by simp at h
  | _ :: _ :: _, [_], h, _, _ => by simp at h

theorem pen_flipMin : ∀ (r : List ℚ), r ≠ [] → pen r (flipMin r (hard r)) = minAbs r
  | [x], _ => by
    simp [flipMin, hard, pen, minAbs_single]
  | x :: y :: ys, _ => by
    have ih := pen_flipMin (y :: ys) (by simp)
    rw [minAbs_cons2]
    simp only [hard, List.map, flipMin, rabs_eq_abs] at ih ⊢
    by_cases hx : |x| ≤ minAbs (y :: ys)
    · have htail : pen (y :: ys) (decide (y < 0) :: List.map (fun x => decide (x < 0)) ys) = 0 := by
        have := pen_hard (y :: ys); simpa [hard] using this
      simp only [hx, if_true, pen] at htail ⊢
      simp [htail, min_eq_left hx]
    · simp only [hx, if_false, pen]
      have : pen (y :: ys) (flipMin (y :: ys) (decide (y < 0) :: List.map (fun x => decide (x < 0)) ys)) = minAbs (y :: ys) := ih
      rw [if_pos trivial, zero_add, min_eq_right (le_of_lt (not_le.mp hx))]
      exact this
  | [], h => absurd rfl h

/-- **the Wagner rule returns a maximum-likelihood word of the single-parity-check code for every
real (rational) input**: no even-parity word has a smaller penalty -/
theorem wagner_min_penalty (r : List ℚ) (hr : r ≠ []) (c : List Bool) (hl : r.length = c.length)
    (hc : parity c = false) : pen r (wagner r) ≤ pen r c := by
  unfold wagner
  by_cases hp : parity (hard r) = true
  · simp only [hp, if_true]
    rw [pen_flipMin r hr]
    exact pen_ge_min r c hl hr (by rw [hc, hp]; decide)
  · have hp' : parity (hard r) = false := by simpa using hp
    simp only [hp', Bool.false_eq_true, if_false]
    rw [pen_hard]; exact pen_nonneg r c

theorem length_flipMin : ∀ (r : List ℚ) (c : List Bool), (flipMin r c).length = c.length
  | [_], [c] => by simp [flipMin]
  | x :: y :: ys, c :: d :: ds => by
    simp only [flipMin]; split
    · simp
    · simp [length_flipMin (y :: ys) (d :: ds)]
  | [], _ => by simp [flipMin]
  | [_], [] => by simp [flipMin]
  | [_], _ :: _ :: _ => by simp [flipMin]
  | _ :: _ :: _, [] => by simp [flipMin]
  | _ :: _ :: _, [_] => by simp [flipMin]

theorem length_wagner (r : List ℚ) : (wagner r).length = r.length := by
  unfold wagner; split <;> simp [length_flipMin, hard]

theorem parity_flipMin : ∀ (r : List ℚ) (c : List Bool), r.length = c.length → r ≠ [] →
    parity (flipMin r c) = !parity c
  | [_], [c], _, _ => by cases c <;> simp [flipMin, parity]
  | x :: y :: ys, c :: d :: ds, h, _ => by
    simp only [flipMin]; split
    · cases c <;> simp [parity]
    · have ih := parity_flipMin (y :: ys) (d :: ds) (by simpa using h) (by simp)
      simp only [parity] at ih ⊢
      rw [ih]; cases c <;> cases d <;> cases parity ds <;> rfl
  | [], _, _, h => absurd rfl h
  | [_], [], h, _ => by simp at h
  | [_], _ :: _ :: _, h, _ => by simp at h
  | _ :: _ :: _, [], h, _ => by simp at h
  | _ :: _ :: _, [_], h, _ => by simp at h

/-- the Wagner output is a code word (even parity) -/
theorem wagner_parity (r : List ℚ) (hr : r ≠ []) : parity (wagner r) = false := by
  unfold wagner
  by_cases hp : parity (hard r) = true
  · simp only [hp, if_true]
    rw [parity_flipMin r (hard r) (by simp [hard]) hr, hp]; rfl
  · have hp' : parity (hard r) = false := by simpa using hp
    simp [hp']

/-- maximum likelihood in correlation form -/
theorem wagner_is_ml (r : List ℚ) (hr : r ≠ []) (c : List Bool) (hl : r.length = c.length)
    (hc : parity c = false) : corr r c ≤ corr r (wagner r) := by
  rw [corr_eq r c hl, corr_eq r (wagner r) (length_wagner r).symm]
  have := wagner_min_penalty r hr c hl hc
  linarith

/-! ## sign consistency -/

/-- strictly / weakly consistent with a bit: negative ↔ 1 -/
def SCons (a : ℚ) (b : Bool) : Prop := a ≠ 0 ∧ (a < 0 ↔ b = true)
def WCons (a : ℚ) (b : Bool) : Prop := (b = true → a ≤ 0) ∧ (b = false → 0 ≤ a)

theorem SCons.wc {a : ℚ} {b : Bool} (h : SCons a b) : WCons a b := by
  obtain ⟨h0, hs⟩ := h
  constructor
  · intro hb; exact le_of_lt (hs.mpr hb)
  · intro hb
    have : ¬ a < 0 := by rw [hs, hb]; simp
    exact not_lt.mp this

theorem wc_zero (b : Bool) : WCons 0 b := ⟨fun _ => le_refl 0, fun _ => le_refl 0⟩

theorem wc_add {a w : ℚ} {b : Bool} (ha : WCons a b) (hw : WCons w b) : WCons (a + w) b := by
  constructor
  · intro hb; have := ha.1 hb; have := hw.1 hb; linarith
  · intro hb; have := ha.2 hb; have := hw.2 hb; linarith

theorem sc_add_wc {a w : ℚ} {b : Bool} (ha : SCons a b) (hw : WCons w b) : SCons (a + w) b := by
  obtain ⟨h0, hs⟩ := ha
  cases b with
  | true =>
    have h1 : a < 0 := hs.mpr rfl
    have h2 : w ≤ 0 := hw.1 rfl
    exact ⟨by intro h; linarith, by constructor <;> intro _ <;> [rfl; linarith]⟩
  | false =>
    have h1 : ¬ (a < 0) := by rw [hs]; simp
    have h1' : 0 < a := lt_of_le_of_ne (not_lt.mp h1) (Ne.symm h0)
    have h2 : 0 ≤ w := hw.2 rfl
    exact ⟨by intro h; linarith, by constructor <;> intro h <;> [linarith; simp at h]⟩

theorem wc_sumR_map {ι : Type} (f : ι → ℚ) (b : Bool) : ∀ (l : List ι), (∀ i ∈ l, WCons (f i) b) →
    WCons (sumR (l.map f)) b
  | [], _ => wc_zero b
  | i :: is, h => by
    simp only [List.map, sumR]
    exact wc_add (h i (by simp)) (wc_sumR_map f b is (fun i' hi' => h i' (by simp [hi'])))

theorem clip_sc {cl a : ℚ} {b : Bool} (hcl : 0 < cl) (h : SCons a b) : SCons (clip cl a) b := by
  obtain ⟨h0, hs⟩ := h
  unfold clip
  refine ⟨?_, ?_⟩
  · split_ifs <;> intro h' <;> first | exact h0 h' | linarith
  · rw [← hs]; split_ifs <;> constructor <;> intro h' <;> linarith

/-! ## message passing keeps the signs of a codeword -/

/-- what a check rule must satisfy: nothing from nothing, and on strictly consistent inputs an
output weakly consistent with the parity of their bits -/
structure RuleLaw (rule : List ℚ → ℚ) : Prop where
  nil : rule [] = 0
  sign : ∀ (l : List ℚ) (bits : List Bool), l ≠ [] → Forall₂ SCons l bits → WCons (rule l) (parity bits)

theorem getD_map_range {β : Type} (f : Nat → β) (n c : Nat) (d : β) :
    ((List.range n).map f).getD c d = if c < n then f c else d := by
  split_ifs with h
  · simp [List.getD, h]
  · simp [List.getD, h]

theorem msgAt_step (rule : List ℚ → ℚ) (H : Graph) (llr : List ℚ) (cl : ℚ) (M : Msgs) (c j : Nat) :
    msgAt (step rule H llr cl M) c j =
      if c < H.length ∧ j < deg H c then
        rule (((List.range (deg H c)).map fun j' => vc H llr M cl c j').eraseIdx j) else 0 := by
  unfold msgAt step
  rw [getD_map_range]
  by_cases hc : c < H.length
  · simp only [hc, if_true, true_and]
    rw [getD_map_range]
  · simp [hc]

theorem inSum_wc (H : Graph) (M : Msgs) (x : Nat → Bool)
    (hM : ∀ c j, WCons (msgAt M c j) (x (varAt H c j))) (v c0 j0 : Nat) :
    WCons (inSum H M v c0 j0) (x v) := by
  unfold inSum
  apply wc_sumR_map
  intro c _
  apply wc_sumR_map
  intro j _
  split_ifs with h
  · rw [← h.1]; exact hM c j
  · exact wc_zero _

theorem forall₂_eraseIdx {α β : Type} {R : α → β → Prop} : ∀ {l : List α} {m : List β} (j : Nat),
    Forall₂ R l m → Forall₂ R (l.eraseIdx j) (m.eraseIdx j)
  | [], [], _, _ => by simp
  | _ :: _, _ :: _, 0, Forall₂.cons _ h => by simpa using h
  | _ :: _, _ :: _, j+1, Forall₂.cons h1 h => by
    simp only [List.eraseIdx_cons_succ]
    exact Forall₂.cons h1 (forall₂_eraseIdx j h)

theorem parity_eraseIdx : ∀ (l : List Bool) (j : Nat), j < l.length →
    parity (l.eraseIdx j) = xor (parity l) (l.getD j false)
  | [], _, h => by simp at h
  | b :: bs, 0, _ => by
    simp only [List.eraseIdx_zero, List.tail_cons, parity, List.getD_cons_zero]
    cases b <;> cases parity bs <;> rfl
  | b :: bs, j+1, h => by
    simp only [List.eraseIdx_cons_succ, parity, List.getD_cons_succ]
    rw [parity_eraseIdx bs j (by simpa using h)]
    cases b <;> cases parity bs <;> cases bs.getD j false <;> rfl

theorem forall₂_map_range {R : ℚ → Bool → Prop} (f : Nat → ℚ) (g : Nat → Bool) :
    ∀ (l : List Nat), (∀ i ∈ l, R (f i) (g i)) → Forall₂ R (l.map f) (l.map g)
  | [], _ => Forall₂.nil
  | i :: is, h => Forall₂.cons (h i (by simp)) (forall₂_map_range f g is (fun i' hi' => h i' (by simp [hi'])))

theorem map_eq_map_range (row : List Nat) (x : Nat → Bool) :
    row.map x = (List.range row.length).map (fun j => x (row.getD j 0)) := by
  apply List.ext_getElem
  · simp
  · intro i h1 h2
    simp only [List.getElem_map, List.getElem_range]
    congr 1
    simp [List.getD, List.getElem?_eq_getElem (by simpa using h1)]

/-- one flooding round keeps every check-to-variable message weakly consistent with the codeword -/
theorem step_inv (rule : List ℚ → ℚ) (hrule : RuleLaw rule) (H : Graph) (llr : List ℚ) (cl : ℚ) (hcl : 0 < cl)
    (x : Nat → Bool)
    (hllr : ∀ c j, c < H.length → j < deg H c → SCons (llr.getD (varAt H c j) 0) (x (varAt H c j)))
    (hpar : ∀ c, c < H.length → parity ((H.getD c []).map x) = false)
    (M : Msgs) (hM : ∀ c j, WCons (msgAt M c j) (x (varAt H c j))) :
    ∀ c j, WCons (msgAt (step rule H llr cl M) c j) (x (varAt H c j)) := by
  intro c j
  rw [msgAt_step]
  split_ifs with hcj
  · obtain ⟨hc, hj⟩ := hcj
    have hvc : ∀ j' ∈ List.range (deg H c), SCons (vc H llr M cl c j') (x (varAt H c j')) := by
      intro j' hj'
      unfold vc
      exact clip_sc hcl (sc_add_wc (hllr c j' hc (List.mem_range.mp hj')) (inSum_wc H M x hM _ _ _))
    have hall := forall₂_map_range (R := SCons) (fun j' => vc H llr M cl c j') (fun j' => x (varAt H c j'))
      (List.range (deg H c)) hvc
    have hbits : (List.range (deg H c)).map (fun j' => x (varAt H c j')) = (H.getD c []).map x :=
      (map_eq_map_range (H.getD c []) x).symm
    have her := forall₂_eraseIdx j hall
    by_cases hnil : ((List.range (deg H c)).map fun j' => vc H llr M cl c j').eraseIdx j = []
    · rw [hnil, hrule.nil]; exact wc_zero _
    · have := hrule.sign _ _ hnil her
      rw [parity_eraseIdx _ j (by simpa using hj), hbits, hpar c hc] at this
      have hget : ((H.getD c []).map x).getD j false = x (varAt H c j) := by
        unfold varAt
        have hj' : j < (H.getD c []).length := hj
        generalize H.getD c [] = row at hj' ⊢
        simp [List.getD, List.getElem?_eq_getElem hj']
      rw [hget] at this
      simpa using this
  · exact wc_zero _

theorem msgAt_zero (H : Graph) (c j : Nat) : msgAt (zeroMsgs H) c j = 0 := by
  unfold msgAt zeroMsgs
  by_cases hc : c < H.length
  · simp only [List.getD, List.getElem?_map, List.getElem?_eq_getElem hc, Option.map_some, Option.getD_some]
    by_cases hj : j < H[c].length
    · simp [List.getElem?_eq_getElem hj]
    · simp [List.getElem?_eq_none (not_lt.mp hj)]
  · have hn : H[c]? = none := List.getElem?_eq_none (not_lt.mp hc)
    simp [List.getD, hn]

theorem iterate_inv (rule : List ℚ → ℚ) (hrule : RuleLaw rule) (H : Graph) (llr : List ℚ) (cl : ℚ) (hcl : 0 < cl)
    (x : Nat → Bool)
    (hllr : ∀ c j, c < H.length → j < deg H c → SCons (llr.getD (varAt H c j) 0) (x (varAt H c j)))
    (hpar : ∀ c, c < H.length → parity ((H.getD c []).map x) = false) :
    ∀ (t : Nat) (M : Msgs), (∀ c j, WCons (msgAt M c j) (x (varAt H c j))) →
      ∀ c j, WCons (msgAt (iterate rule H llr cl t M) c j) (x (varAt H c j))
  | 0, _, h => h
  | t+1, M, h => iterate_inv rule hrule H llr cl hcl x hllr hpar t _
      (step_inv rule hrule H llr cl hcl x hllr hpar M h)

/-- **clean input decodes clean**: on any Tanner graph, with any check rule obeying the sign law, any
number of flooding rounds and any clipping level, the a-posteriori LLR of every variable keeps the
sign of the transmitted code word — at every positive magnitude of the channel LLRs -/
theorem marginal_sign (rule : List ℚ → ℚ) (hrule : RuleLaw rule) (H : Graph) (llr : List ℚ) (cl : ℚ) (hcl : 0 < cl)
    (x : Nat → Bool)
    (hllr : ∀ c j, c < H.length → j < deg H c → SCons (llr.getD (varAt H c j) 0) (x (varAt H c j)))
    (hpar : ∀ c, c < H.length → parity ((H.getD c []).map x) = false)
    (t : Nat) (v : Nat) (hv : SCons (llr.getD v 0) (x v)) :
    SCons (marginal H llr (iterate rule H llr cl t (zeroMsgs H)) v) (x v) := by
  unfold marginal
  refine sc_add_wc hv (inSum_wc H _ x ?_ _ _ _)
  apply iterate_inv rule hrule H llr cl hcl x hllr hpar t
  intro c j; rw [msgAt_zero]; exact wc_zero _

theorem mpDecode_clean (rule : List ℚ → ℚ) (hrule : RuleLaw rule) (H : Graph) (llr : List ℚ) (cl : ℚ) (hcl : 0 < cl)
    (x : Nat → Bool)
    (hllr : ∀ c j, c < H.length → j < deg H c → SCons (llr.getD (varAt H c j) 0) (x (varAt H c j)))
    (hpar : ∀ c, c < H.length → parity ((H.getD c []).map x) = false)
    (t : Nat) (msgPos : List Nat) (hpos : ∀ v ∈ msgPos, SCons (llr.getD v 0) (x v)) :
    mpDecode rule H llr cl t msgPos = msgPos.map x := by
  unfold mpDecode
  apply List.map_congr_left
  intro v hv
  have := marginal_sign rule hrule H llr cl hcl x hllr hpar t v (hpos v hv)
  obtain ⟨_, hs⟩ := this
  cases hx : x v
  · rw [hx] at hs; simp only [decide_eq_false_iff_not]; intro h; exact absurd (hs.mp h) (by simp)
  · rw [hx] at hs; simp only [decide_eq_true_eq]; exact hs.mpr rfl

/-! ## the min-sum rule obeys the sign law -/

theorem rsign_sc {a : ℚ} {b : Bool} (h : SCons a b) : rsign a = if b then -1 else 1 := by
  obtain ⟨h0, hs⟩ := h
  unfold rsign
  cases b
  · have h1 : ¬ a < 0 := by rw [hs]; simp
    have h2 : 0 < a := lt_of_le_of_ne (not_lt.mp h1) (Ne.symm h0)
    simp [h1, h2]
  · have h1 : a < 0 := hs.mpr rfl
    simp [h1]

theorem signProd_sc : ∀ {l : List ℚ} {bits : List Bool}, Forall₂ SCons l bits →
    signProd l = if parity bits then -1 else 1
  | [], [], _ => by simp [signProd, parity]
  | _ :: _, _ :: _, Forall₂.cons h1 h => by
    simp only [signProd, parity, rsign_sc h1, signProd_sc h]
    rename_i b bs
    cases b <;> by_cases hq : parity bs = true <;> simp [hq]

theorem rabs_pos {a : ℚ} (h : a ≠ 0) : 0 < rabs a := by rw [rabs_eq_abs]; exact abs_pos.mpr h

theorem minMag_pos : ∀ (l : List ℚ), l ≠ [] → (∀ a ∈ l, a ≠ 0) → 0 < minMag l
  | [], h, _ => absurd rfl h
  | [x], _, h => by simp only [minMag]; exact rabs_pos (h x (by simp))
  | x :: y :: ys, _, h => by
    simp only [minMag]
    split_ifs
    · exact rabs_pos (h x (by simp))
    · exact minMag_pos (y :: ys) (by simp) (fun a ha => h a (by simp [ha]))

theorem forall₂_ne_zero {l : List ℚ} {bits : List Bool} (h : Forall₂ SCons l bits) : ∀ a ∈ l, a ≠ 0 := by
  induction h with
  | nil => simp
  | cons h1 _ ih =>
    intro a ha
    rcases List.mem_cons.mp ha with rfl | ha
    · exact h1.1
    · exact ih a ha

theorem rsign_neg {x : ℚ} (h : x < 0) : rsign x = -1 := by unfold rsign; rw [if_pos h]
theorem rsign_pos {x : ℚ} (h : 0 < x) : rsign x = 1 := by
  unfold rsign; rw [if_neg (not_lt.mpr (le_of_lt h)), if_pos h]
theorem off_nonneg (v o : ℚ) : 0 ≤ (if rabs v ≤ o then 0 else rabs v - o) := by
  split_ifs with h
  · exact le_refl 0
  · linarith [not_le.mp h]

/-- **the min-sum check update — sign product times minimum magnitude, scaled by a positive factor,
with a non-negative offset taken off the magnitude — obeys the sign law** -/
theorem checkMS_law (scale offset : ℚ) (hs : 0 < scale) : RuleLaw (checkMS scale offset) := by
  refine ⟨rfl, ?_⟩
  intro l bits hne hall
  have hm := minMag_pos l hne (forall₂_ne_zero hall)
  have hsp := signProd_sc hall
  have hunf : checkMS scale offset l =
      rsign (scale * (signProd l * minMag l)) *
        (if rabs (scale * (signProd l * minMag l)) ≤ offset then 0 else rabs (scale * (signProd l * minMag l)) - offset) := by
    cases l with
    | nil => exact absurd rfl hne
    | cons _ _ => rfl
  rw [hunf, hsp]
  cases hp : parity bits
  · simp only [Bool.false_eq_true, if_false, one_mul]
    have hv : 0 < scale * minMag l := mul_pos hs hm
    rw [rsign_pos hv, one_mul]
    exact ⟨fun h => by simp at h, fun _ => off_nonneg _ _⟩
  · simp only [if_true]
    have hv : scale * (-1 * minMag l) < 0 := by nlinarith
    rw [rsign_neg hv]
    have := off_nonneg (scale * (-1 * minMag l)) offset
    exact ⟨fun _ => by linarith, fun h => by simp at h⟩

/-! ## rescaling: the min-sum decoder is homogeneous of degree one -/

theorem rsign_mul {a x : ℚ} (ha : 0 < a) : rsign (a * x) = rsign x := by
  unfold rsign
  by_cases h1 : x < 0
  · simp [h1, mul_neg_of_pos_of_neg ha h1]
  · by_cases h2 : 0 < x
    · have : 0 < a * x := mul_pos ha h2
      simp [h1, h2, this, not_lt.mpr (le_of_lt this)]
    · have : x = 0 := le_antisymm (not_lt.mp h2) (not_lt.mp h1)
      simp [this]

theorem rabs_mul {a x : ℚ} (ha : 0 < a) : rabs (a * x) = a * rabs x := by
  rw [rabs_eq_abs, rabs_eq_abs, abs_mul, abs_of_pos ha]

theorem signProd_scale {a : ℚ} (ha : 0 < a) : ∀ (l : List ℚ), signProd (l.map (a * ·)) = signProd l
  | [] => rfl
  | x :: xs => by simp only [List.map, signProd, rsign_mul ha, signProd_scale ha xs]

theorem minMag_scale {a : ℚ} (ha : 0 < a) : ∀ (l : List ℚ), minMag (l.map (a * ·)) = a * minMag l
  | [] => by simp [minMag]
  | [x] => by simp [minMag, rabs_mul ha]
  | x :: y :: ys => by
    have ih := minMag_scale ha (y :: ys)
    simp only [List.map] at ih ⊢
    simp only [minMag, ih, rabs_mul ha]
    by_cases h : rabs x ≤ minMag (y :: ys)
    · have : a * rabs x ≤ a * minMag (y :: ys) := mul_le_mul_of_nonneg_left h (le_of_lt ha)
      simp [h, this]
    · have : ¬ a * rabs x ≤ a * minMag (y :: ys) := by
        intro h'; exact h (le_of_mul_le_mul_left h' ha)
      simp [h, this]

/-- the rule is homogeneous: inputs and offset scaled by `a > 0` ⇒ output scaled by `a` -/
theorem checkMS_scale (scale offset a : ℚ) (ha : 0 < a) (l : List ℚ) :
    checkMS scale (a * offset) (l.map (a * ·)) = a * checkMS scale offset l := by
  cases l with
  | nil => simp [checkMS]
  | cons x xs =>
    have h1 := signProd_scale ha (x :: xs)
    have h2 := minMag_scale ha (x :: xs)
    simp only [List.map] at h1 h2
    simp only [checkMS, List.map, h1, h2]
    have hv : scale * (signProd (x :: xs) * (a * minMag (x :: xs))) = a * (scale * (signProd (x :: xs) * minMag (x :: xs))) := by ring
    rw [hv, rsign_mul ha, rabs_mul ha]
    by_cases h : rabs (scale * (signProd (x :: xs) * minMag (x :: xs))) ≤ offset
    · have : a * rabs (scale * (signProd (x :: xs) * minMag (x :: xs))) ≤ a * offset := mul_le_mul_of_nonneg_left h (le_of_lt ha)
      simp [h, this]
    · have : ¬ a * rabs (scale * (signProd (x :: xs) * minMag (x :: xs))) ≤ a * offset := by
        intro h'; exact h (le_of_mul_le_mul_left h' ha)
      simp only [h, this, if_false]; ring

theorem clip_scale {a cl x : ℚ} (ha : 0 < a) : clip (a * cl) (a * x) = a * clip cl x := by
  unfold clip
  by_cases h1 : x < -cl
  · have : a * x < -(a * cl) := by nlinarith
    simp [h1, this]
  · have h1' : ¬ a * x < -(a * cl) := by intro h; apply h1; nlinarith
    by_cases h2 : cl < x
    · have : a * cl < a * x := mul_lt_mul_of_pos_left h2 ha
      simp [h1, h1', h2, this]
    · have : ¬ a * cl < a * x := by intro h; exact h2 (lt_of_mul_lt_mul_left h (le_of_lt ha))
      simp [h1, h1', h2, this]

theorem sumR_scale {ι : Type} (a : ℚ) (f g : ι → ℚ) : ∀ (l : List ι), (∀ i ∈ l, g i = a * f i) →
    sumR (l.map g) = a * sumR (l.map f)
  | [], _ => by simp [sumR]
  | i :: is, h => by
    simp only [List.map, sumR, h i (by simp), sumR_scale a f g is (fun i' hi' => h i' (by simp [hi']))]
    ring

theorem inSum_scale (a : ℚ) (H : Graph) (M M' : Msgs) (hM : ∀ c j, msgAt M' c j = a * msgAt M c j) (v c0 j0 : Nat) :
    inSum H M' v c0 j0 = a * inSum H M v c0 j0 := by
  unfold inSum
  apply sumR_scale
  intro c _
  apply sumR_scale
  intro j _
  split_ifs
  · exact hM c j
  · simp

theorem getD_scale (a : ℚ) : ∀ (l : List ℚ) (v : Nat), (l.map (a * ·)).getD v 0 = a * l.getD v 0
  | [], _ => by simp
  | x :: xs, 0 => by simp
  | x :: xs, v+1 => by simpa using getD_scale a xs v

theorem step_scale (scale offset a cl : ℚ) (ha : 0 < a) (H : Graph) (llr : List ℚ) (M M' : Msgs)
    (hM : ∀ c j, msgAt M' c j = a * msgAt M c j) :
    ∀ c j, msgAt (step (checkMS scale (a * offset)) H (llr.map (a * ·)) (a * cl) M') c j =
      a * msgAt (step (checkMS scale offset) H llr cl M) c j := by
  intro c j
  rw [msgAt_step, msgAt_step]
  split_ifs with h
  · have hvc : ((List.range (deg H c)).map fun j' => vc H (llr.map (a * ·)) M' (a * cl) c j') =
        ((List.range (deg H c)).map fun j' => vc H llr M cl c j').map (a * ·) := by
      rw [List.map_map]
      apply List.map_congr_left
      intro j' _
      simp only [Function.comp, vc, getD_scale, inSum_scale a H M M' hM]
      rw [← mul_add, clip_scale ha]
    rw [hvc, List.eraseIdx_map, checkMS_scale scale offset a ha]
  · simp

theorem iterate_scale (scale offset a cl : ℚ) (ha : 0 < a) (H : Graph) (llr : List ℚ) :
    ∀ (t : Nat) (M M' : Msgs), (∀ c j, msgAt M' c j = a * msgAt M c j) →
      ∀ c j, msgAt (iterate (checkMS scale (a * offset)) H (llr.map (a * ·)) (a * cl) t M') c j =
        a * msgAt (iterate (checkMS scale offset) H llr cl t M) c j
  | 0, _, _, h => h
  | t+1, M, M', h => iterate_scale scale offset a cl ha H llr t _ _ (step_scale scale offset a cl ha H llr M M' h)

/-- **rescaling the input (and with it the offset and the clipping level) by any `a > 0` rescales
every a-posteriori LLR by `a`** — so the decisions do not change -/
theorem marginal_scale (scale offset a cl : ℚ) (ha : 0 < a) (H : Graph) (llr : List ℚ) (t v : Nat) :
    marginal H (llr.map (a * ·)) (iterate (checkMS scale (a * offset)) H (llr.map (a * ·)) (a * cl) t (zeroMsgs H)) v =
      a * marginal H llr (iterate (checkMS scale offset) H llr cl t (zeroMsgs H)) v := by
  unfold marginal
  rw [getD_scale, inSum_scale a H _ _ (iterate_scale scale offset a cl ha H llr t (zeroMsgs H) (zeroMsgs H)
    (fun c j => by rw [msgAt_zero]; simp)), mul_add]

theorem mpDecode_scale (scale offset a cl : ℚ) (ha : 0 < a) (H : Graph) (llr : List ℚ) (t : Nat) (msgPos : List Nat) :
    mpDecode (checkMS scale (a * offset)) H (llr.map (a * ·)) (a * cl) t msgPos =
      mpDecode (checkMS scale offset) H llr cl t msgPos := by
  unfold mpDecode
  apply List.map_congr_left
  intro v _
  rw [marginal_scale scale offset a cl ha]
  congr 1
  apply propext
  constructor
  · intro h; by_contra h'; have := mul_nonneg (le_of_lt ha) (not_lt.mp h'); linarith
  · intro h; exact mul_neg_of_pos_of_neg ha h

/-- two summands that agree except at one index `i0 < n` -/
theorem sumR_range_except (f g : Nat → ℚ) (n i0 : Nat) (hi : i0 < n) (δ : ℚ)
    (h0 : g i0 = f i0 + δ) (hne : ∀ i, i < n → i ≠ i0 → g i = f i) :
    sumR ((List.range n).map g) = sumR ((List.range n).map f) + δ := by
  induction n with
  | zero => omega
  | succ n ih =>
    rw [List.range_succ, List.map_append, List.map_append]
    have happ : ∀ (a b : List ℚ), sumR (a ++ b) = sumR a + sumR b := by
      intro a b; induction a with
      | nil => simp [sumR]
      | cons x xs iha => simp only [List.cons_append, sumR, iha]; ring
    rw [happ, happ]
    simp only [List.map_cons, List.map_nil, sumR, add_zero]
    by_cases hin : i0 = n
    · subst hin
      have : sumR ((List.range i0).map g) = sumR ((List.range i0).map f) := by
        congr 1
        apply List.map_congr_left
        intro i hi'
        exact hne i (by have := List.mem_range.mp hi'; omega) (by have := List.mem_range.mp hi'; omega)
      rw [this, h0]; ring
    · have := ih (by omega) (fun i hi' hn => hne i (by omega) hn)
      rw [this, hne n (by omega) (fun e => hin e.symm)]; ring

/-- **the implementation's form of the variable-to-check message**: `marginal − own message` equals
`channel LLR + sum of the other incoming messages` (what the model computes) on every edge -/
theorem marginal_minus_own (H : Graph) (llr : List ℚ) (M : Msgs) (c j : Nat) (hc : c < H.length) (hj : j < deg H c) :
    llr.getD (varAt H c j) 0 + inSum H M (varAt H c j) c j =
      marginal H llr M (varAt H c j) - msgAt M c j := by
  unfold marginal
  have key : inSum H M (varAt H c j) H.length 0 = inSum H M (varAt H c j) c j + msgAt M c j := by
    unfold inSum
    refine sumR_range_except _ _ H.length c hc (msgAt M c j) ?_ ?_
    · -- row c: the two inner sums differ exactly at position j
      refine sumR_range_except _ _ (deg H c) j hj (msgAt M c j) ?_ ?_
      · have h1 : ¬ (c = H.length ∧ j = 0) := by omega
        simp [h1]
      · intro j' _ hne
        have h1 : ¬ (c = H.length ∧ j' = 0) := by omega
        simp [h1, hne]
    · intro c' hc' hne
      congr 1
      apply List.map_congr_left
      intro j' _
      have h1 : ¬ (c' = H.length ∧ j' = 0) := by omega
      simp [h1, hne]
  rw [key]; ring

end SoftProofs
