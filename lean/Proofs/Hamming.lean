import Proofs.Codes
import Kaira.Decoders
import Mathlib.Tactic.Linarith
/-!
# C02: `HammingCodeEncoder.inverse_encode` (flip the first position whose check-matrix column equals the
syndrome, then read the information set) corrects every single error
-/
open Kaira.Codes Kaira.Dist Kaira.Decoders CodesProofs

namespace HamProofs

/-- the syndrome of a unit vector is the corresponding column of `H` -/
theorem encodeFrom_unit : ∀ (gs : List Nat) (i j : Nat) (g : Nat), gs[j]? = some g →
    encodeFrom gs i (1 <<< (i + j)) = g := by
  intro gs
  induction gs with
  | nil => intro i j g h; simp at h
  | cons a as ih =>
    intro i j g h
    cases j with
    | zero =>
      simp only [List.getElem?_cons_zero, Option.some.injEq] at h; subst h
      simp only [encodeFrom, Nat.add_zero, Nat.one_shiftLeft, Nat.testBit_two_pow_self, if_true]
      have : encodeFrom as (i + 1) (2 ^ i) = 0 := by
        rw [encodeFrom_congr as (i + 1) (2 ^ i) 0 (fun j _ => by
          rw [Nat.testBit_two_pow, Nat.zero_testBit]; simp; omega)]
        exact encodeFrom_zero as (i + 1)
      rw [this]; simp
    | succ j =>
      simp only [List.getElem?_cons_succ] at h
      have := ih (i + 1) j g h
      simp only [encodeFrom]
      have hb : (1 <<< (i + (j + 1))).testBit i = false := by
        rw [Nat.one_shiftLeft, Nat.testBit_two_pow]; simp
      rw [hb]
      simp only [Bool.false_eq_true, if_false, Nat.zero_xor]
      rw [show i + (j + 1) = i + 1 + j by omega]; exact this

theorem syndrome_unit (HT : List Nat) (j g : Nat) (h : HT[j]? = some g) : encode HT (1 <<< j) = g := by
  have := encodeFrom_unit HT 0 j g h
  simpa [encode] using this

theorem firstIdx_some (s : Nat) : ∀ (l : List Nat) (k j : Nat), l[j]? = some s → (∀ j', j' < j → l[j']? ≠ some s) →
    ((l.zipIdx k).find? (fun p => p.1 == s)).map (·.2) = some (k + j) := by
  intro l
  induction l with
  | nil => intro k j h; simp at h
  | cons a as ih =>
    intro k j h hfirst
    cases j with
    | zero =>
      simp only [List.getElem?_cons_zero, Option.some.injEq] at h
      simp [List.zipIdx_cons, h]
    | succ j =>
      have ha : a ≠ s := by
        intro e; exact hfirst 0 (by omega) (by simp [e])
      simp only [List.getElem?_cons_succ] at h
      have := ih (k + 1) j h (fun j' hj' => by
        have := hfirst (j' + 1) (by omega)
        simpa using this)
      simp only [List.zipIdx_cons, List.find?_cons]
      have hbeq : (a == s) = false := by simpa using ha
      simp only [hbeq]
      rw [this]; congr 1; omega

theorem firstIdx_none (s : Nat) : ∀ (l : List Nat) (k : Nat), (∀ x ∈ l, x ≠ s) →
    ((l.zipIdx k).find? (fun p => p.1 == s)).map (·.2) = none := by
  intro l
  induction l with
  | nil => intro k _; simp
  | cons a as ih =>
    intro k h
    have ha : (a == s) = false := by simpa using h a (by simp)
    simp only [List.zipIdx_cons, List.find?_cons, ha]
    exact ih (k + 1) (fun x hx => h x (by simp [hx]))

/-- bit `t` of the extracted message is the received bit at information position `info[t]` -/
theorem testBit_fold (y : Nat) : ∀ (info : List Nat) (k a t : Nat),
    ((info.zipIdx k).foldl (fun a (p : Nat × Nat) => if y.testBit p.1 then a ||| (1 <<< p.2) else a) a).testBit t =
      (a.testBit t || (decide (k ≤ t) && (match info[t - k]? with | some p => y.testBit p | none => false))) := by
  intro info
  induction info with
  | nil => intro k a t; simp
  | cons p ps ih =>
    intro k a t
    simp only [List.zipIdx_cons, List.foldl_cons]
    rw [ih (k + 1)]
    by_cases hkt : k = t
    · subst hkt
      simp only [Nat.sub_self, List.getElem?_cons_zero, le_refl, decide_true, Bool.true_and]
      have : ¬ (k + 1 ≤ k) := by omega
      simp only [this, decide_false, Bool.false_and, Bool.or_false]
      split_ifs with hb
      · simp [Nat.testBit_or, Nat.one_shiftLeft, hb]
      · simp [hb]
    · by_cases hlt : k < t
      · have e1 : t - k = (t - (k + 1)) + 1 := by omega
        have h1 : decide (k + 1 ≤ t) = true := by simp; omega
        have h2 : decide (k ≤ t) = true := by simp; omega
        rw [e1, List.getElem?_cons_succ, h1, h2]
        split_ifs with hb
        · simp [Nat.testBit_or, Nat.one_shiftLeft, hkt]
        · rfl
      · have h1 : decide (k + 1 ≤ t) = false := by simp; omega
        have h2 : decide (k ≤ t) = false := by simp; omega
        rw [h1, h2]
        split_ifs with hb
        · simp [Nat.testBit_or, Nat.one_shiftLeft, hkt]
        · rfl

/-- **single-error correction of the Hamming extraction**: if the columns of `H` are non-zero and
pairwise distinct, code words have zero syndrome, and message bit `i` sits at code position
`info[i]`, then `hammingInverse` returns the message from the code word and from the code word
with any single flipped position -/
theorem hamming_inverse_corrects (G HT info : List Nat) (k : Nat)
    (hsyn : ∀ m, encode HT (encode G m) = 0)
    (hcols : ∀ (i j a b : Nat), HT[i]? = some a → HT[j]? = some b → i ≠ j → a ≠ b)
    (hnz : ∀ x ∈ HT, x ≠ 0)
    (hlen : info.length = k)
    (hinfo : ∀ (m i p : Nat), i < k → info[i]? = some p → (encode G m).testBit p = m.testBit i)
    (m : Nat) (hm : m < 2 ^ k) :
    hammingInverse HT info (encode G m) = m ∧
    ∀ j, j < HT.length → hammingInverse HT info (encode G m ^^^ (1 <<< j)) = m := by
  have extract : ∀ y, y = encode G m →
      (info.zipIdx.foldl (fun a (p : Nat × Nat) => if y.testBit p.1 then a ||| (1 <<< p.2) else a) 0) = m := by
    intro y hy
    apply Nat.eq_of_testBit_eq
    intro t
    rw [testBit_fold y info 0 0 t]
    simp only [Nat.zero_testBit, Bool.false_or, Nat.zero_le, decide_true, Bool.true_and, Nat.sub_zero]
    by_cases ht : t < k
    · have hti : t < info.length := by omega
      rw [List.getElem?_eq_getElem hti]
      simp only
      rw [hy]; exact hinfo m t _ ht (List.getElem?_eq_getElem hti)
    · rw [List.getElem?_eq_none (by omega)]
      simp only
      have : m < 2 ^ t := lt_of_lt_of_le hm (Nat.pow_le_pow_right (by decide) (not_lt.mp ht))
      exact (Nat.testBit_lt_two_pow this).symm
  constructor
  · unfold hammingInverse syndrome firstCol
    simp only [hsyn]
    have hn := firstIdx_none 0 HT 0 hnz
    simp only [hn]
    exact extract _ rfl
  · intro j hj
    unfold hammingInverse syndrome firstCol
    have hg : HT[j]? = some HT[j] := List.getElem?_eq_getElem hj
    have hs : encode HT (encode G m ^^^ (1 <<< j)) = HT[j] := by
      rw [encode_xor, hsyn, Nat.zero_xor]; exact syndrome_unit HT j _ hg
    simp only [hs]
    have hf := firstIdx_some HT[j] HT 0 j hg (fun j' hj' h' => hcols j' j _ _ h' hg (by omega) rfl)
    simp only [Nat.zero_add] at hf
    simp only [hf]
    have : encode G m ^^^ 1 <<< j ^^^ 1 <<< j = encode G m := by
      rw [Nat.xor_assoc, Nat.xor_self, Nat.xor_zero]
    simp only [this]
    exact extract _ rfl

end HamProofs
