import Kaira.Pipeline
import Mathlib.Data.List.Nodup
import Mathlib.Data.List.Perm.Basic
import Mathlib.Data.List.Range
/-! Lemmas about the dict model and the gather / reorder mechanism of `ParallelModel`. -/
open Kaira.Pipeline

namespace PipelineProofs

theorem dictGet_dictSet_same (d : List (String × Nat)) (k : String) (v : Nat) :
    dictGet (dictSet d k v) k = some v := by
  induction d with
  | nil => simp [dictSet, dictGet]
  | cons p rest ih =>
    obtain ⟨k', v'⟩ := p
    simp only [dictSet]
    split
    · next h => simp [dictGet, h]
    · next h => simp [dictGet, h, ih]

theorem dictGet_dictSet_other (d : List (String × Nat)) (k k2 : String) (v : Nat) (h : k ≠ k2) :
    dictGet (dictSet d k v) k2 = dictGet d k2 := by
  induction d with
  | nil => simp [dictSet, dictGet, h]
  | cons p rest ih =>
    obtain ⟨k', v'⟩ := p
    simp only [dictSet]
    split
    · next h1 =>
      subst h1
      simp [dictGet, h]
    · next h1 =>
      simp only [dictGet]
      split
      · rfl
      · exact ih

theorem dictSet_append_new (d : List (String × Nat)) (k : String) (v : Nat)
    (h : ∀ p ∈ d, p.1 ≠ k) : dictSet d k v = d ++ [(k, v)] := by
  induction d with
  | nil => rfl
  | cons p rest ih =>
    obtain ⟨k', v'⟩ := p
    have hk : k' ≠ k := h (k', v') (by simp)
    simp only [dictSet, hk, if_false, List.cons_append]
    rw [ih (fun q hq => h q (by simp [hq]))]

theorem names_inj {steps : List (String × Nat)} (hnd : (steps.map Prod.fst).Nodup)
    {q q0 : String × Nat} (hq : q ∈ steps) (hq0 : q0 ∈ steps) (h : q.1 = q0.1) : q = q0 :=
  List.inj_on_of_nodup_map hnd hq hq0 h

variable (f : Nat → Nat → Nat) (v : Nat)

/-- every key present maps to the value of its (unique) step -/
def Good (steps d : List (String × Nat)) : Prop :=
  ∀ q ∈ steps, ∀ r, dictGet d q.1 = some r → r = f q.2 v

theorem gather_inv (steps : List (String × Nat)) (hnd : (steps.map Prod.fst).Nodup)
    (perm : List Nat) (d : List (String × Nat)) (hg : Good f v steps d) :
    Good f v steps (perm.foldl (gatherStep f steps v) d) ∧
    (∀ q ∈ steps, (dictGet d q.1).isSome → (dictGet (perm.foldl (gatherStep f steps v) d) q.1).isSome) ∧
    (∀ i ∈ perm, ∀ q, steps[i]? = some q → (dictGet (perm.foldl (gatherStep f steps v) d) q.1).isSome) := by
  induction perm generalizing d with
  | nil => exact ⟨hg, fun _ _ h => h, fun i hi => by simp at hi⟩
  | cons j perm ih =>
    simp only [List.foldl_cons]
    cases hj : steps[j]? with
    | none =>
      have e : gatherStep f steps v d j = d := by simp [gatherStep, hj]
      rw [e]
      obtain ⟨a, b, c⟩ := ih d hg
      refine ⟨a, b, ?_⟩
      intro i hi q hq
      rcases List.mem_cons.mp hi with rfl | hi'
      · rw [hj] at hq; cases hq
      · exact c i hi' q hq
    | some q0 =>
      have e : gatherStep f steps v d j = dictSet d q0.1 (f q0.2 v) := by simp [gatherStep, hj]
      rw [e]
      have hq0 : q0 ∈ steps := List.mem_of_getElem? hj
      have hg' : Good f v steps (dictSet d q0.1 (f q0.2 v)) := by
        intro q hq r hr
        by_cases hk : q0.1 = q.1
        · have : q = q0 := names_inj hnd hq hq0 hk.symm
          subst this
          rw [dictGet_dictSet_same] at hr
          exact (Option.some.inj hr).symm
        · rw [dictGet_dictSet_other _ _ _ _ hk] at hr
          exact hg q hq r hr
      obtain ⟨a, b, c⟩ := ih (dictSet d q0.1 (f q0.2 v)) hg'
      refine ⟨a, ?_, ?_⟩
      · intro q hq hs
        apply b q hq
        by_cases hk : q0.1 = q.1
        · rw [← hk, dictGet_dictSet_same]; rfl
        · rw [dictGet_dictSet_other _ _ _ _ hk]; exact hs
      · intro i hi q hq
        rcases List.mem_cons.mp hi with rfl | hi'
        · rw [hj] at hq
          have : q = q0 := (Option.some.inj hq).symm
          subst this
          apply b q hq0
          rw [dictGet_dictSet_same]; rfl
        · exact c i hi' q hq

theorem reorder_aux (results : List (String × Nat)) (rest acc : List (String × Nat))
    (hacc : ∀ p ∈ acc, ∀ q ∈ rest, p.1 ≠ q.1) (hnd : (rest.map Prod.fst).Nodup)
    (hres : ∀ q ∈ rest, dictGet results q.1 = some (f q.2 v)) :
    rest.foldl (reorderStep results) acc = acc ++ rest.map (fun q => (q.1, f q.2 v)) := by
  induction rest generalizing acc with
  | nil => simp
  | cons q rest ih =>
    simp only [List.foldl_cons, List.map_cons]
    have e : reorderStep results acc q = dictSet acc q.1 (f q.2 v) := by
      simp [reorderStep, hres q (by simp)]
    rw [e]
    rw [dictSet_append_new acc q.1 _ (fun p hp => hacc p hp q (by simp))]
    have hnd' : (rest.map Prod.fst).Nodup := (List.nodup_cons.mp (by simpa using hnd)).2
    have hnot : q.1 ∉ rest.map Prod.fst := (List.nodup_cons.mp (by simpa using hnd)).1
    rw [ih (acc ++ [(q.1, f q.2 v)]) ?_ hnd' (fun q' hq' => hres q' (by simp [hq']))]
    · simp
    · intro p hp q' hq'
      rcases List.mem_append.mp hp with hp | hp
      · exact hacc p hp q' (by simp [hq'])
      · simp only [List.mem_singleton] at hp
        subst hp
        intro heq
        exact hnot (List.mem_map.mpr ⟨q', hq', heq.symm⟩)

end PipelineProofs
