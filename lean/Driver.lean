import Kaira.Verbs18
import Kaira.Verbs16
import Kaira.Verbs17
open Kaira

def natVerb (verb : String) (args : List String) : Option String :=
  match args.mapM String.toNat? with
  | some ns => Verbs.c18 verb ns
  | none => none

def dispatch (line : String) : String :=
  match (line.trimAscii.toString.splitOn " ").filter (· ≠ "") with
  | [] => "bad-op"
  | verb :: args =>
    let r := (natVerb verb args).orElse fun _ =>
      ((Verbs.c16 (verb :: args)).orElse fun _ => Verbs.c17 (verb :: args))
    match r with
    | some out => out
    | none => "bad-op"

partial def loop (h : IO.FS.Stream) (out : IO.FS.Stream) : IO Unit := do
  let line ← h.getLine
  if line.isEmpty then return ()
  out.putStrLn (dispatch line)
  loop h out

def main : IO Unit := do
  let out ← IO.getStdout
  loop (← IO.getStdin) out
  out.flush
