import Kaira.Verbs18
import Kaira.Verbs16
import Kaira.Verbs17
import Kaira.VerbsMod
import Kaira.VerbsFec
import Kaira.VerbsChan
import Kaira.VerbsPolar
import Kaira.VerbsSoft
import Kaira.VerbsLink
import Kaira.VerbsConv
open Kaira

structure DState where
  tables : Verbs.Tables := []
  codes : Verbs.CodeTable := []
  rank : List Nat := []
  reeds : Verbs.ReedTable := []

def natVerb (verb : String) (args : List String) : Option String :=
  match args.mapM String.toNat? with
  | some ns => Verbs.c18 verb ns
  | none => none

def firstSome (fs : List (Unit → Option String)) : Option String :=
  match fs with
  | [] => none
  | f :: rest => match f () with
    | some r => some r
    | none => firstSome rest

def dispatch (st : DState) (line : String) : DState × String :=
  match (line.trimAscii.toString.splitOn " ").filter (· ≠ "") with
  | [] => (st, "bad-op")
  | verb :: args =>
    match Verbs.defTable (verb :: args) with
    | some (n, t) => ({ st with tables := (n, t) :: st.tables.filter (·.1 ≠ n) }, "ok")
    | none =>
    match (if verb = "defrank" then (args.head?.bind Proto.natList?) else none) with
    | some r => ({ st with rank := r }, "ok")
    | none =>
    match Verbs.defCode (verb :: args) with
    | some (n, c) => ({ st with codes := (n, c) :: st.codes.filter (·.1 ≠ n) }, "ok")
    | none =>
    match Verbs.defReed (verb :: args) with
    | some (n, r) => ({ st with reeds := (n, r) :: st.reeds.filter (·.1 ≠ n) }, "ok")
    | none =>
      let toks := verb :: args
      let r := firstSome [
        fun _ => Verbs.cfec st.codes toks,
        fun _ => Verbs.creed st.codes st.reeds toks,
        fun _ => Verbs.cbin toks,
        fun _ => Verbs.canalog toks,
        fun _ => Verbs.cconstraint toks,
        fun _ => Verbs.cpolar st.rank toks,
        fun _ => Verbs.csoft toks,
        fun _ => Verbs.clink st.codes st.tables toks,
        fun _ => Verbs.cconv toks,
        fun _ => natVerb verb args,
        fun _ => Verbs.c16 toks,
        fun _ => Verbs.c17 toks,
        fun _ => Verbs.cmod st.tables toks]
      (st, r.getD "bad-op")

partial def loop (h : IO.FS.Stream) (out : IO.FS.Stream) (st : DState) : IO Unit := do
  let line ← h.getLine
  if line.isEmpty then return ()
  let (st', o) := dispatch st line
  out.putStrLn o
  loop h out st'

def main : IO Unit := do
  let out ← IO.getStdout
  loop (← IO.getStdin) out {}
  out.flush
