import Kaira.Verbs18
open Kaira

def dispatch (line : String) : String :=
  match (line.trimAscii.toString.splitOn " ").filter (· ≠ "") with
  | [] => "bad-op"
  | verb :: args =>
    match args.mapM String.toNat? with
    | some ns =>
      match Verbs.c18 verb ns with
      | some out => out
      | none => "bad-op"
    | none => "bad-op"

partial def loop (h : IO.FS.Stream) (out : IO.FS.Stream) : IO Unit := do
  let line ← h.getLine
  if line.isEmpty then return ()
  out.putStrLn (dispatch line)
  loop h out

def main : IO Unit := do
  let out ← IO.getStdout
  loop (← IO.getStdin) out
  out.flush
