import Theorems.C08
#print axioms C08.positive_factor
#print axioms C08.power_never_exceeds
#print axioms C08.power_within_tenth_percent
#print axioms C08.output_power
#print axioms C08.power_monotone
#print axioms C08.second_application
#print axioms C08.antenna_never_exceeds
#print axioms C08.clamp_bound
#print axioms C08.clamp_idempotent
#print axioms C08.papr_final_clip_partial
#print axioms C08.composite_is_fold
