import Theorems.C04
#print axioms C04.right_inverse_roundtrip
#print axioms C04.roundtrip_instances
#print axioms C04.blockwise_roundtrip
#print axioms C04.reject_non_multiple
#print axioms C04.blockwise_length
