import Theorems.C19
#print axioms C19.layer_same
#print axioms C19.layer_half
#print axioms C19.layer_double
#print axioms C19.encoder_stack
#print axioms C19.decoder_stack
#print axioms C19.shape_roundtrip
#print axioms C19.bandwidth_ratio
#print axioms C19.seq_archs_ok
#print axioms C19.all_layers_classified
#print axioms C19.seq_arch_shape
#print axioms C19.total_power_differentiable
#print axioms C19.average_power_differentiable
#print axioms C19.additive_fixed_noise_differentiable
#print axioms C19.fading_fixed_differentiable
#print axioms C19.awgn_snr_differentiableAt
#print axioms C19.total_power_hasFDerivAt
#print axioms C19.total_power_fderiv_apply
