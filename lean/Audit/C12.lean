import Theorems.C12
#print axioms C12.bsc_law_bin
#print axioms C12.bsc_law_bip
#print axioms C12.bsc_extremes
#print axioms C12.bsc_support
#print axioms C12.bec_law
#print axioms C12.bec_support
#print axioms C12.bec_extremes
#print axioms C12.z_never_raises
#print axioms C12.z_zero
