import Theorems.C02
#print axioms C02.weight_triangle
#print axioms C02.nearest_decoder_corrects
#print axioms C02.ml_is_nearest
#print axioms C02.ml_corrects
#print axioms C02.syndrome_decoder_corrects
#print axioms C02.syndrome_table_entry
#print axioms C02.syndrome_decoder_instances
#print axioms C02.hamming_inverse_corrects
#print axioms C02.ml_corrects_large
#print axioms C02.bm_reduction
#print axioms C02.bm_light_small
#print axioms C02.bm_corrects_small
#print axioms C02.reed_ok
#print axioms C02.reed_decoder_corrects
#print axioms C02.reed_instances_in_catalogue
#print axioms C02.bm_output_certified
