import Theorems.C05
#print axioms C05.nearest_self
#print axioms C05.memoryless_roundtrip
#print axioms C05.memoryless_roundtrip_instances
#print axioms C05.reject_non_multiple
#print axioms C05.index_symbol_decision
#print axioms C05.index_symbol_roundtrip
#print axioms C05.oqpsk_roundtrip
#print axioms C05.binary_labelled_tables
#print axioms C05.gray_index_mapping_witness
