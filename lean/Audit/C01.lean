import Theorems.C01
#print axioms C01.encode_linear
#print axioms C01.encode_zero
#print axioms C01.syndrome_linear
#print axioms C01.syndrome_coset
#print axioms C01.instances_ok
#print axioms C01.encode_injective
#print axioms C01.codeword_length
#print axioms C01.syndrome_zero_iff_codeword
#print axioms C01.check_matrix_rank
