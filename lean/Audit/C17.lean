import Theorems.C17
#print axioms C17.sequential_trace
#print axioms C17.sequential_value
#print axioms C17.history_then_run
#print axioms C17.add_appends
#print axioms C17.remove_rejects_out_of_range
#print axioms C17.deepjscc_order
#print axioms C17.channel_code_order
#print axioms C17.parallel_declared_order
#print axioms C17.parallel_named
#print axioms C17.parallel_schedule_independent
#print axioms C17.branching_first_match
#print axioms C17.branching_default
#print axioms C17.feedback_rounds
#print axioms C17.feedback_round_order
#print axioms C17.mac_order
#print axioms C17.mac_superposition
