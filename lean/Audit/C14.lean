import Theorems.C14
#print axioms C14.gray_roundtrip
#print axioms C14.gray_adjacent
#print axioms C14.binary_to_gray_partial
#print axioms C14.gray_to_binary_partial
#print axioms C14.gray_roundtrip_partial
#print axioms C14.gray_finding_witness
#print axioms C14.instances_ok
#print axioms C14.labels_bijective
#print axioms C14.points_distinct
#print axioms C14.gray_neighbours
#print axioms C14.known_non_gray_witness
#print axioms C14.unit_energy
