import Theorems.C09
#print axioms C09.nearest_within_half
#print axioms C09.link_corrects
#print axioms C09.link_bitflips
#print axioms C09.link_instances
#print axioms C09.ideal_channel_ok
#print axioms C09.inverse_is_decoder
#print axioms C09.ml_is_nearest_decoder
#print axioms C09.link_chanSub
#print axioms C09.link_reed
#print axioms C09.link_bm_t1
#print axioms C09.link_bm_t2
