import Theorems.C18
#print axioms C18.mul_comm
#print axioms C18.mul_assoc
#print axioms C18.mul_xor
#print axioms C18.mul_one
#print axioms C18.mul_is_polynomial_mul
#print axioms C18.mod_spec
#print axioms C18.fmul_closed
#print axioms C18.fmul_comm'
#print axioms C18.fmul_assoc'
#print axioms C18.fmul_xor
#print axioms C18.fmul_one'
#print axioms C18.fpow_succ
#print axioms C18.moduli_complete
#print axioms C18.moduli_primitive
#print axioms C18.field_inverse
#print axioms C18.field_no_zero_divisors
