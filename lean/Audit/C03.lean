import Theorems.C03
#print axioms C03.spanMin_sound
#print axioms C03.instances_ok
#print axioms C03.reported_parameters
#print axioms C03.min_distance
#print axioms C03.known_bad_witness
#print axioms C03.cyclic_structure
#print axioms C03.sphere_packing
#print axioms C03.info_instances_ok
#print axioms C03.info_instances_in_catalogue
#print axioms C03.min_distance_large
#print axioms C03.exact_distance_attained
#print axioms C03.bch_ok
#print axioms C03.bch_instances_in_catalogue
#print axioms C03.min_distance_bch
#print axioms BCHAbs.bch_bound
