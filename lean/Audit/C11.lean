import Theorems.C11
#print axioms C11.polar_transform_eq_kron
#print axioms C11.minSum_signLaw
#print axioms C11.sc_clean
#print axioms C11.extract_place
#print axioms C11.sc_decodes_clean
#print axioms C11.rank_is_5G
#print axioms C11.rank_is_permutation
#print axioms C11.info_set_card
#print axioms C11.info_mask_length
#print axioms C11.interleaved_is_bitreversal
#print axioms C11.sc_decodes_clean_interleaved
#print axioms C11.sumProduct_signLaw
#print axioms C11.sc_decodes_clean_sum_product
