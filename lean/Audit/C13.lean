import Theorems.C13
#print axioms C13.expand_block_constant
#print axioms C13.same_block_same_gain
#print axioms C13.block_index_lt
#print axioms C13.expand_length
#print axioms C13.csi_noise_verbatim
#print axioms C13.fade_length
#print axioms C13.rayleigh_norm
#print axioms C13.rician_norm
#print axioms C13.rician_gain
#print axioms C13.faded_power
