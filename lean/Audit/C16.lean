import Theorems.C16
#print axioms C16.diffCount_comm
#print axioms C16.diffCount_eq_zero_iff
#print axioms C16.ber_exact
#print axioms C16.stream_eq_oneshot
#print axioms C16.partition_independent
#print axioms C16.order_independent
#print axioms C16.history_refinement
#print axioms C16.ber_bler_sandwich
#print axioms C16.bler_reject
#print axioms C16.symCode_blocks
