import Theorems.C20
#print axioms C20.member_alone
#print axioms C20.batch_permutation
#print axioms C20.batch_is_stack_of_singles
#print axioms C20.blockwise_is_map
#print axioms C20.grouping_independent
#print axioms C20.reject_non_multiple
#print axioms C20.block_alone
