import Theorems.C06
#print axioms C06.hard_is_nearest
#print axioms C06.maxlog_sign
#print axioms C06.maxlog_scale
#print axioms C06.bpsk_closed_form
