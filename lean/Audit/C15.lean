import Theorems.C15
#print axioms C15.noise_free_strict_sign
#print axioms C15.llr_thresholder_polarity
#print axioms C15.half_prob_polarity
#print axioms C15.min_distance_polarity
#print axioms C15.repetition_polarity
#print axioms C15.fixed_thresholder_inverted
#print axioms C15.sigmoid_law
#print axioms C15.prob_one_strictAnti
#print axioms C15.probability_thresholds_polarity
#print axioms C15.producer_consumer
#print axioms C15.producer_consumer_instances
