import Theorems.C10
#print axioms C10.wagner_is_ml
#print axioms C10.wagner_min_penalty
#print axioms C10.wagner_parity
#print axioms C10.minsum_sign_law
#print axioms C10.message_passing_clean
#print axioms C10.minsum_decodes_clean
#print axioms C10.minsum_rescaling
#print axioms C10.minsum_scale_invariant
#print axioms C10.marginal_minus_own
