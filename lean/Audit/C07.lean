import Theorems.C07
#print axioms C07.additive_real
#print axioms C07.additive_complex
#print axioms C07.noiseSq_spec
#print axioms C07.same_seed_scaling
#print axioms C07.component_powers
#print axioms C07.snrPower_ratio
#print axioms C07.snr_roundtrip
#print axioms C07.db_linear_inverse
#print axioms C07.measured_snr
