#!/usr/bin/env python3
"""usage: seed_all.py  -- re-applies every stored seeded defect to the current /repo HEAD, runs its property's quick check,
restores /repo, and refreshes seeded/<id>/meta.json["check"] (regression of the whole seeded set)."""
import glob, json, os, subprocess, sys
res = {}
for meta in sorted(glob.glob("/verif/seeded/*/meta.json")):
    d = os.path.dirname(meta)
    m = json.load(open(meta))
    sid, prop = m["id"], m["property"]
    patch = os.path.join(d, "patch.diff")
    chk = subprocess.run(["git", "-C", "/repo", "apply", "--check", patch], capture_output=True, text=True)
    head = subprocess.run(["git", "-C", "/repo", "log", "--format=%h", "-1"], capture_output=True, text=True).stdout.strip()
    if chk.returncode != 0:
        m["check"].update({"recheck_head": head, "recheck": "patch does not apply to this HEAD (the file was changed by a later fix commit): %s" % chk.stderr.strip()[:200]})
        json.dump(m, open(meta, "w"), indent=1)
        res[sid] = "no-apply"
        print(sid, "NO-APPLY", flush=True)
        continue
    subprocess.run(["git", "-C", "/repo", "apply", patch], check=True)
    try:
        p = subprocess.run(["./check", prop, "--tier", "quick"], cwd="/verif", capture_output=True, text=True)
    finally:
        subprocess.run(["git", "-C", "/repo", "checkout", "--", "."], check=True)
    lines = [l for l in p.stdout.split("\n") if l.startswith("VIOLATION") or l.startswith("  ") or l.startswith("OK ")]
    m["check"].update({"exit": p.returncode, "detected": p.returncode == 1, "first_lines": [l[:300] for l in lines[:4]], "recheck_head": head, "recheck": "re-run against this HEAD"})
    json.dump(m, open(meta, "w"), indent=1)
    res[sid] = "detected" if p.returncode == 1 else "MISSED rc=%d" % p.returncode
    print(sid, res[sid], flush=True)
print("summary:", {k: sum(1 for v in res.values() if v == k) for k in set(res.values())})
