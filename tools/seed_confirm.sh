#!/bin/bash
# usage: seed_confirm.sh <id> <patch> <demo>   -> /tmp/seedres/<id>.json
# Confirms in a scratch worktree: demo fails with the change, passes without, full suite still green with it.
id=$1; patch=$2; demo=$3
wt=/tmp/seedwt/$id
mkdir -p /tmp/seedres /tmp/seedwt
rm -rf $wt; git -C /repo worktree prune; git -C /repo worktree add -f -q --detach $wt HEAD || exit 2
cd $wt
cp $demo $wt/_demo.py
PYTHONPATH=$wt /venv/bin/python _demo.py > /tmp/seedres/$id.clean.log 2>&1; clean_rc=$?
git apply $patch || { echo "{\"id\":\"$id\",\"error\":\"patch does not apply\"}" > /tmp/seedres/$id.json; git -C /repo worktree remove --force $wt; exit 0; }
PYTHONPATH=$wt /venv/bin/python _demo.py > /tmp/seedres/$id.mut.log 2>&1; mut_rc=$?
OMP_NUM_THREADS=2 PYTHONPATH=$wt /venv/bin/python -m pytest -q -p no:cacheprovider --timeout=900 --continue-on-collection-errors > /tmp/seedres/$id.suite.log 2>&1
line=$(tail -1 /tmp/seedres/$id.suite.log)
echo "{\"id\":\"$id\",\"demo_rc_clean\":$clean_rc,\"demo_rc_with_change\":$mut_rc,\"suite\":\"$line\"}" > /tmp/seedres/$id.json
cd /; git -C /repo worktree remove --force $wt
