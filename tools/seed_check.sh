#!/bin/bash
# usage: seed_check.sh <prop> <patch> [tier]  -- applies the patch to /repo, runs the check, restores /repo
prop=$1; patch=$2; tier=${3:-quick}
cd /verif
git -C /repo apply $patch || { echo "APPLY-FAILED"; exit 3; }
./check $prop --tier $tier > /tmp/seedcheck.out 2>&1; rc=$?
git -C /repo checkout -- .
grep -E "^VIOLATION|^OK|INFRA" /tmp/seedcheck.out | head -3 | cut -c1-250
grep -A1 "^VIOLATION" /tmp/seedcheck.out | grep -v "^VIOLATION\|^--" | head -2 | cut -c1-250
echo "rc=$rc"
