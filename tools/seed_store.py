#!/usr/bin/env python3
"""usage: seed_store.py <prop> <srcdir>  -- for every confirmed candidate <prop>_<i> in srcdir: run the property's quick
check against it (patch applied to /repo, undone afterwards) and store /verif/seeded/<id>/{patch.diff,demo.py,meta.json}."""
import json, os, shutil, subprocess, sys, glob, re
prop, src = sys.argv[1], sys.argv[2]
for patch in sorted(glob.glob(os.path.join(src, prop + "_*.patch.diff"))):
    sid = os.path.basename(patch).split(".")[0]
    res = "/tmp/seedres/%s.json" % sid
    if not os.path.exists(res):
        print(sid, "not confirmed yet"); continue
    conf = json.load(open(res))
    if conf.get("demo_rc_clean") != 0 or conf.get("demo_rc_with_change") == 0 or "1848 passed" not in conf.get("suite", ""):
        print(sid, "REJECTED", conf); continue
    agent_meta = {}
    try:
        agent_meta = json.load(open(patch.replace(".patch.diff", "_meta.json")))
    except Exception:
        pass
    subprocess.run(["git", "-C", "/repo", "apply", patch], check=True)
    try:
        p = subprocess.run(["./check", prop, "--tier", "quick"], cwd="/verif", capture_output=True, text=True)
    finally:
        subprocess.run(["git", "-C", "/repo", "checkout", "--", "."], check=True)
    lines = [l for l in p.stdout.split("\n") if l.startswith("VIOLATION") or l.startswith("  ") or l.startswith("OK ")]
    d = os.path.join("/verif/seeded", sid)
    os.makedirs(d, exist_ok=True)
    shutil.copy(patch, os.path.join(d, "patch.diff"))
    shutil.copy(patch.replace(".patch.diff", "_demo.py"), os.path.join(d, "demo.py"))
    meta = {
        "id": sid, "property": prop,
        "summary": agent_meta.get("summary"), "needs": agent_meta.get("needs"),
        "origin": "independent sub-agent given only the property text and a scratch worktree",
        "confirmed": {"demo_exit_on_unchanged_tree": conf["demo_rc_clean"], "demo_exit_with_change": conf["demo_rc_with_change"],
                      "full_suite_with_change": conf["suite"].strip("= "),
                      "how": "tools/seed_confirm.sh in a scratch worktree under /tmp (PYTHONPATH=<worktree>), full pytest suite"},
        "check": {"cmd": "git -C /repo apply seeded/%s/patch.diff && ./check %s --tier quick ; git -C /repo checkout -- ." % (sid, prop),
                  "exit": p.returncode, "detected": p.returncode == 1, "first_lines": [l[:300] for l in lines[:4]]},
    }
    json.dump(meta, open(os.path.join(d, "meta.json"), "w"), indent=1)
    print(sid, "detected" if p.returncode == 1 else "MISSED rc=%d" % p.returncode)
