#!/usr/bin/env python3
"""prints the DESIGN.md table rows (id | change | first line of the check's report) for the seeded defects whose index is >= argv[1]"""
import json, glob, os, sys
lo = int(sys.argv[1]) if len(sys.argv) > 1 else 1
for d in sorted(glob.glob("/verif/seeded/*/meta.json")):
    m = json.load(open(d))
    if int(m["id"].split("_")[1]) < lo:
        continue
    fl = [l.strip() for l in m["check"]["first_lines"] if not l.startswith("VIOLATION")]
    rep = (fl[0] if fl else (m["check"]["first_lines"] or ["-"])[0]).replace("|", "/")
    print("| %s | %s | %s |" % (m["id"], (m.get("summary") or "").replace("|", "/")[:210] + ("..." if len(m.get("summary") or "") > 210 else ""), rep[:160]))
