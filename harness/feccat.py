"""Catalogue of block-code encoder instances, matrix extraction and GF(2) certificates (shared by C01-C04, C09, C20)."""
import random
import numpy as np

MAXN = 128


# ------------------------------------------------------------------ GF(2) linear algebra on numpy uint8 matrices
def rref(M):
    M = (np.array(M, dtype=np.uint8) % 2).copy()
    rows, cols = M.shape
    T = np.eye(rows, dtype=np.uint8)
    piv = []
    r = 0
    for c in range(cols):
        if r == rows:
            break
        nz = np.nonzero(M[r:, c])[0]
        if len(nz) == 0:
            continue
        p = r + nz[0]
        if p != r:
            M[[r, p]] = M[[p, r]]; T[[r, p]] = T[[p, r]]
        for i in range(rows):
            if i != r and M[i, c]:
                M[i] ^= M[r]; T[i] ^= T[r]
        piv.append(c); r += 1
    return M, T, piv


def rank(M):
    return len(rref(M)[2])


def solve_left(A, B):
    """X with X @ A = B (mod 2), A (r x n), B (q x n); None if unsolvable.  Solves A^T X^T = B^T."""
    At = (np.array(A, dtype=np.uint8) % 2).T.copy()      # n x r
    Bt = (np.array(B, dtype=np.uint8) % 2).T.copy()      # n x q
    n, r = At.shape
    aug = np.concatenate([At, Bt], axis=1)
    R, _, piv = rref_cols(aug, r)
    # consistency: rows with zero left part must have zero right part
    X = np.zeros((r, Bt.shape[1]), dtype=np.uint8)
    for i, c in enumerate(piv):
        X[c] = R[i, r:]
    if ((At.astype(int) @ X.astype(int)) % 2 != Bt).any():
        return None
    return X.T.copy()                                    # q x r


def rref_cols(M, ncols):
    M = M.copy()
    rows = M.shape[0]
    piv = []
    r = 0
    for c in range(ncols):
        if r == rows:
            break
        nz = np.nonzero(M[r:, c])[0]
        if len(nz) == 0:
            continue
        p = r + nz[0]
        if p != r:
            M[[r, p]] = M[[p, r]]
        for i in range(rows):
            if i != r and M[i, c]:
                M[i] ^= M[r]
        piv.append(c); r += 1
    return M, None, piv


def independent_rows(H):
    """indices of a maximal set of linearly independent rows (greedy, in order)"""
    idx, cur = [], np.zeros((0, H.shape[1]), dtype=np.uint8)
    r = 0
    for i in range(H.shape[0]):
        cand = np.concatenate([cur, H[i:i + 1]], axis=0)
        if rank(cand) > r:
            cur, r = cand, r + 1
            idx.append(i)
    return idx


def right_inverse(A):
    """W (n x r) with A @ W = I (A of full row rank r), else None"""
    A = np.array(A, dtype=np.uint8) % 2
    r, n = A.shape
    R, T, piv = rref(A)
    if len(piv) < r:
        return None
    W = np.zeros((n, r), dtype=np.uint8)
    for i, c in enumerate(piv):
        W[c] = T[i]
    return W


def mask(row):
    return sum(1 << i for i, b in enumerate(row) if int(b) % 2)


def masks(M):
    return [mask(r) for r in np.array(M)]


# ------------------------------------------------------------------ catalogue
class Code:
    def __init__(self, name, family, params, make):
        self.name, self.family, self.params, self.make = name, family, params, make
        self._enc = None

    @property
    def enc(self):
        if self._enc is None:
            self._enc = self.make()
        return self._enc

    def matrices(self):
        e = self.enc
        G = (e.generator_matrix.detach().cpu().numpy().astype(np.int64) % 2).astype(np.uint8)
        H = (e.check_matrix.detach().cpu().numpy().astype(np.int64) % 2).astype(np.uint8)
        R = (e.generator_right_inverse.detach().cpu().numpy().astype(np.int64) % 2).astype(np.uint8)
        return G, H, R

    def raw_matrices_binary(self):
        e = self.enc
        return all(bool(((t == 0) | (t == 1)).all()) for t in (e.generator_matrix, e.check_matrix, e.generator_right_inverse))


def divisors_of_xn1(n):
    """all binary polynomials g (as ints) dividing x^n + 1, with 1 <= deg g <= n-1"""
    target = (1 << n) | 1

    def pmod(a, b):
        db = b.bit_length()
        while a.bit_length() >= db:
            a ^= b << (a.bit_length() - db)
        return a
    return [g for g in range(2, 1 << n) if g & 1 and pmod(target, g) == 0 and g.bit_length() - 1 <= n - 1]


def catalogue():
    """deterministic (independent of VERIF_SEED): the generated Lean data must not change between runs"""
    import torch
    from kaira.models.fec import encoders as E
    rng = random.Random(20260929)
    T = lambda a: torch.tensor(np.array(a), dtype=torch.float32)
    out = []

    def add(name, family, params, make):
        out.append(Code(name, family, params, make))

    # generic linear: random full-rank, mostly non-systematic generators
    for idx in range(10):
        while True:
            k = rng.randint(2, 8); n = rng.randint(k + 1, 12)
            G = np.array([[rng.getrandbits(1) for _ in range(n)] for _ in range(k)], dtype=np.uint8)
            if rank(G) == k:
                break
        add("lin%d_%dx%d" % (idx, k, n), "linear", {"k": k, "n": n, "G": G.tolist()}, lambda G=G: E.LinearBlockCodeEncoder(T(G)))
    # systematic with random parity sub-matrix and every kind of information set
    for idx in range(3):
        k = rng.randint(2, 6); m = rng.randint(1, 5); n = k + m
        P = np.array([[rng.getrandbits(1) for _ in range(m)] for _ in range(k)], dtype=np.uint8)
        lst = sorted(rng.sample(range(n), k)); perm = lst[:]; rng.shuffle(perm)
        for tag, iset in (("left", "left"), ("right", "right"), ("list", lst), ("perm", perm)):
            add("sys%d_%s" % (idx, tag), "systematic", {"k": k, "n": n, "info": iset if isinstance(iset, str) else list(iset), "info_kind": tag},
                lambda P=P, iset=iset: E.SystematicLinearBlockCodeEncoder(T(P), information_set=iset))
    # index lists that are not ascending but whose first and last entries span exactly k positions, or whose set is a contiguous range
    for idx, (k, m, iset) in enumerate(((4, 3, [0, 2, 1, 3]), (4, 3, [1, 6, 0, 4]), (3, 4, [4, 6, 5]), (5, 2, [6, 3, 4, 5, 2]), (4, 4, [7, 5, 6, 4]))):
        P = np.array([[rng.getrandbits(1) for _ in range(m)] for _ in range(k)], dtype=np.uint8)
        add("sysspan%d" % idx, "systematic", {"k": k, "n": k + m, "info": list(iset), "info_kind": "span"},
            lambda P=P, iset=iset: E.SystematicLinearBlockCodeEncoder(T(P), information_set=list(iset)))
    add("ham3_span", "hamming", {"mu": 3, "extended": False, "info": [1, 6, 0, 4], "info_kind": "span"}, lambda: E.HammingCodeEncoder(mu=3, information_set=[1, 6, 0, 4]))
    add("cyc7_g11_span", "cyclic", {"n": 7, "g": 11, "info": [2, 0, 1, 3], "info_kind": "span"}, lambda: E.CyclicCodeEncoder(code_length=7, generator_polynomial=11, information_set=[2, 0, 1, 3]))
    for mu in (2, 3, 4, 5, 6):
        for ext in (False, True):
            for iset in ("left", "right"):
                add("ham%d_x%d_%s" % (mu, ext, iset), "hamming", {"mu": mu, "extended": ext, "info": iset},
                    lambda mu=mu, ext=ext, iset=iset: E.HammingCodeEncoder(mu=mu, extended=ext, information_set=iset))
    add("ham3_perm", "hamming", {"mu": 3, "extended": False, "info": [6, 0, 4, 2]}, lambda: E.HammingCodeEncoder(mu=3, information_set=[6, 0, 4, 2]))
    for r in range(2, 10):
        add("rep%d" % r, "repetition", {"n": r}, lambda r=r: E.RepetitionCodeEncoder(r))
    for k in range(1, 11):
        add("spc%d" % k, "spc", {"k": k}, lambda k=k: E.SingleParityCheckCodeEncoder(k))
    for m in range(1, 6):
        for r in range(0, m):
            add("rm%d_%d" % (r, m), "reed_muller", {"r": r, "m": m}, lambda r=r, m=m: E.ReedMullerCodeEncoder(r, m))
    for n in (3, 5, 7, 9, 15):
        for g in divisors_of_xn1(n):
            for iset in ("left", "right"):
                add("cyc%d_g%d_%s" % (n, g, iset), "cyclic", {"n": n, "g": g, "info": iset},
                    lambda n=n, g=g, iset=iset: E.CyclicCodeEncoder(code_length=n, generator_polynomial=g, information_set=iset))
    # every divisor of X^n + 1 for the remaining n <= 21 (default layout; 'right' for the two largest generators of each n)
    for n in (4, 6, 8, 10, 11, 12, 13, 14, 16, 17, 18, 19, 20, 21):
        ds = divisors_of_xn1(n)
        for g in ds:
            for iset in ("left", "right"):
                if iset == "right" and g not in ds[:2] + ds[-2:]:
                    continue
                add("cyc%d_g%d_%s" % (n, g, iset), "cyclic", {"n": n, "g": g, "info": iset},
                    lambda n=n, g=g, iset=iset: E.CyclicCodeEncoder(code_length=n, generator_polynomial=g, information_set=iset))
    # wide codes of small dimension (32 < n < 64, n >= 64) for the exhaustive ML decoder
    for idx, (k, n) in enumerate(((6, 40), (5, 70), (4, 33))):
        while True:
            G = np.array([[rng.getrandbits(1) for _ in range(n)] for _ in range(k)], dtype=np.uint8)
            if rank(G) == k:
                break
        add("wide%d_%dx%d" % (idx, k, n), "linear", {"k": k, "n": n, "G": G.tolist()}, lambda G=G: E.LinearBlockCodeEncoder(T(G)))
    for delta in (27, 31):
        add("bch6_d%d_left" % delta, "bch", {"mu": 6, "delta": delta, "info": "left"}, lambda delta=delta: E.BCHCodeEncoder(mu=6, delta=delta))
    add("rm1_6", "reed_muller", {"r": 1, "m": 6}, lambda: E.ReedMullerCodeEncoder(1, 6))
    # cyclic / BCH / Golay / RS-style / extended Hamming with index-list and permuted information sets
    for n, g in ((7, 11), (7, 29), (15, 19), (15, 465)):
        k = n - (g.bit_length() - 1)
        lst = sorted(rng.sample(range(n), k)); perm = lst[:]; rng.shuffle(perm)
        for tag, iset in (("list", lst), ("perm", perm)):
            add("cyc%d_g%d_%s" % (n, g, tag), "cyclic", {"n": n, "g": g, "info": list(iset), "info_kind": tag},
                lambda n=n, g=g, iset=iset: E.CyclicCodeEncoder(code_length=n, generator_polynomial=g, information_set=list(iset)))
    for mu, delta in ((3, 3), (4, 5), (4, 7)):
        e0 = E.BCHCodeEncoder(mu=mu, delta=delta)
        n, k = e0.code_length, e0.code_dimension
        lst = sorted(rng.sample(range(n), k)); perm = lst[:]; rng.shuffle(perm)
        for tag, iset in (("list", lst), ("perm", perm)):
            add("bch%d_d%d_%s" % (mu, delta, tag), "bch", {"mu": mu, "delta": delta, "info": list(iset), "info_kind": tag},
                lambda mu=mu, delta=delta, iset=iset: E.BCHCodeEncoder(mu=mu, delta=delta, information_set=list(iset)))
    lst = sorted(rng.sample(range(8), 4)); perm = lst[:]; rng.shuffle(perm)
    add("ham3_x1_perm", "hamming", {"mu": 3, "extended": True, "info": perm, "info_kind": "perm"}, lambda perm=perm: E.HammingCodeEncoder(mu=3, extended=True, information_set=list(perm)))
    for ext in (False, True):
        n = 24 if ext else 23
        perm = rng.sample(range(n), 12)
        add("golay_x%d_perm" % ext, "golay", {"extended": ext, "info": perm, "info_kind": "perm"}, lambda ext=ext, perm=perm: E.GolayCodeEncoder(extended=ext, information_set=list(perm)))
    e0 = E.ReedSolomonCodeEncoder(mu=3, delta=3)
    perm = rng.sample(range(e0.code_length), e0.code_dimension)
    add("rs3_d3_perm", "reed_solomon", {"mu": 3, "delta": 3, "info": perm, "info_kind": "perm"}, lambda perm=perm: E.ReedSolomonCodeEncoder(mu=3, delta=3, information_set=list(perm)))
    for name in ("Hamming(7,4)", "Simplex(7,3)", "BCH(15,7)", "BCH(15,5)", "Golay(23,12)"):
        add("cycstd_" + "".join(ch for ch in name if ch.isalnum()), "cyclic_std", {"name": name}, lambda name=name: E.CyclicCodeEncoder.create_standard_code(name))
    for mu in (2, 3, 4, 5):
        n = 2 ** mu - 1
        seen = set()
        for delta in range(2, n + 1):
            for iset in ("left", "right"):
                try:
                    e = E.BCHCodeEncoder(mu=mu, delta=delta, information_set=iset)
                except Exception:
                    continue
                # every constructible delta is its own object (delta = 2 and 3 give the same code but advertise t = 0 and t = 1)
                add("bch%d_d%d_%s" % (mu, delta, iset), "bch", {"mu": mu, "delta": delta, "info": iset}, lambda mu=mu, delta=delta, iset=iset: E.BCHCodeEncoder(mu=mu, delta=delta, information_set=iset))
    for delta in (3, 5, 7, 11):
        add("bch6_d%d_left" % delta, "bch", {"mu": 6, "delta": delta, "info": "left"}, lambda delta=delta: E.BCHCodeEncoder(mu=6, delta=delta))
    for mu in (2, 3, 4):
        for delta in range(2, 2 ** mu - 1):
            for iset in ("left", "right"):
                try:
                    E.ReedSolomonCodeEncoder(mu=mu, delta=delta, information_set=iset)
                except Exception:
                    continue
                if mu == 4 and delta not in (3, 5, 9):
                    continue
                add("rs%d_d%d_%s" % (mu, delta, iset), "reed_solomon", {"mu": mu, "delta": delta, "info": iset}, lambda mu=mu, delta=delta, iset=iset: E.ReedSolomonCodeEncoder(mu=mu, delta=delta, information_set=iset))
    for ext in (False, True):
        for iset in ("left", "right"):
            add("golay_x%d_%s" % (ext, iset), "golay", {"extended": ext, "info": iset}, lambda ext=ext, iset=iset: E.GolayCodeEncoder(extended=ext, information_set=iset))
    # LDPC from user check matrices: sparse random, incl. rank-deficient (a row repeated / sum of two rows)
    for idx in range(6):
        while True:
            r = rng.randint(2, 6); n = rng.randint(r + 2, 14)
            H = np.zeros((r, n), dtype=np.uint8)
            for j in range(n):
                for i in rng.sample(range(r), rng.randint(1, min(2, r))):
                    H[i, j] = 1
            if idx >= 4:
                H = np.concatenate([H, (H[0:1] ^ H[1:2])], axis=0)
            if rank(H) < n and rank(H) >= 1:
                break
        add("ldpc%d" % idx, "ldpc", {"H": H.tolist(), "rank_deficient": idx >= 4}, lambda H=H: E.LDPCCodeEncoder(check_matrix=T(H)))
    # rank-deficient user matrices whose dependent row is not the last one: (r1, r2, r1+r2, r3, ...), a duplicated first row, a zero row
    for idx, kind in enumerate(("sum_mid", "dup_first", "zero_row")):
        while True:
            r = rng.randint(3, 5); n = rng.randint(r + 3, 13)
            H = np.zeros((r, n), dtype=np.uint8)
            for j in range(n):
                for i in rng.sample(range(r), rng.randint(1, 2)):
                    H[i, j] = 1
            if rank(H) == r:
                break
        if kind == "sum_mid":
            H = np.concatenate([H[:2], (H[0:1] ^ H[1:2]), H[2:]], axis=0)
        elif kind == "dup_first":
            H = np.concatenate([H[:1], H], axis=0)
        else:
            H = np.concatenate([H[:1], np.zeros((1, n), dtype=np.uint8), H[1:]], axis=0)
        add("ldpcr%d_%s" % (idx, kind), "ldpc", {"H": H.tolist(), "rank_deficient": True}, lambda H=H: E.LDPCCodeEncoder(check_matrix=T(H)))
    # rows dependent over GF(2) but independent over the reals (three pairwise-overlapping checks summing to zero mod 2), followed by rows
    # that are GF(2)-independent of them: a rank computed in floating point sees the wrong rows as redundant
    for idx, H in enumerate(([[1, 1, 0, 1, 1, 0], [1, 0, 1, 1, 0, 1], [0, 1, 1, 0, 1, 1], [1, 1, 1, 1, 1, 1]],
                             [[1, 1, 0, 0, 1, 0, 0, 1], [1, 0, 1, 0, 0, 1, 0, 0], [0, 1, 1, 0, 1, 1, 0, 1], [0, 0, 0, 1, 1, 0, 1, 0], [1, 1, 1, 1, 0, 0, 1, 1]])):
        H = np.array(H, dtype=np.uint8)
        add("ldpcg%d_gf2dep" % idx, "ldpc", {"H": H.tolist(), "rank_deficient": True}, lambda H=H: E.LDPCCodeEncoder(check_matrix=T(H)))
    return out


def certificates(G, H, R):
    """(St (r x n), J, HJ (|J| x n), W (n x |J|)) or raises ValueError with the reason the published matrices cannot be certified"""
    k, n = G.shape
    if H.shape[1] != n:
        raise ValueError("check matrix has %d columns" % H.shape[1])
    if ((G.astype(int) @ H.T.astype(int)) % 2).any():
        raise ValueError("G H^T != 0")
    if R.shape != (n, k) or ((G.astype(int) @ R.astype(int)) % 2 != np.eye(k, dtype=int)).any():
        raise ValueError("G R != I")
    # I = R G + H^T St   <=>   St^T H = (I + R G)^T
    D = (np.eye(n, dtype=int) + R.astype(int) @ G.astype(int)) % 2
    X = solve_left(H, D.T.astype(np.uint8))       # X (n x r) with X @ H = D^T
    if X is None:
        raise ValueError("null space of H is larger than the code (rank H < n-k)")
    St = X.T.copy()
    J = independent_rows(H)
    if len(J) != n - k:
        raise ValueError("rank H = %d != n-k = %d" % (len(J), n - k))
    HJ = H[J]
    W = right_inverse(HJ)
    return St, J, HJ, W
