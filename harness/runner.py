"""Check orchestration: regenerate -> build -> audit -> correspond -> (search) -> evidence.

Usage: python -m harness.runner Cxx [--tier quick|thorough] [--replay file]
Exit 0: property held on everything explored (known findings printed as KNOWN-FINDING lines);
exit 1 + `VIOLATION property=<id> replay=<path>`: violation; exit 2: infrastructure error.
"""
import argparse, importlib, json, os, random, sys, time, traceback, hashlib

from . import leanio
from .leanio import InfraError, VERIF, LEAN

TRUSTED_BASE = [
    "Lean 4.33.0 kernel",
    "axioms: propext, Classical.choice, Quot.sound (audited with #print axioms on every run; no native_decide, no bv_decide, no sorry)",
    "harness/extract + correspondence (Python, torch tensor indexing, Fraction(float) exactness, canonicalisation)",
    "theorems are about the Lean model; the implementation is tied to it by regenerated instance data and by the line-protocol correspondence only",
]


class Op:
    """one operation line: what the model is asked, what the implementation answered"""
    __slots__ = ("line", "impl", "cmp", "nontrivial", "info", "prop_ok")

    def __init__(self, line, impl, cmp=None, nontrivial=True, info=None, prop_ok=None):
        self.line = line
        self.impl = impl
        self.cmp = cmp
        self.nontrivial = nontrivial
        self.info = info or {}
        self.prop_ok = prop_ok  # None: no direct verdict; False: the property itself fails at this op on the implementation


class Ctx:
    def __init__(self, prop, tier, seed):
        self.prop = prop
        self.tier = tier
        self.seed = seed
        self.rng = random.Random(seed * 7919 + sum(map(ord, prop)))
        self.dist = {}
        self.notes = []
        self.skipped_by_margin = 0
        self.extra = {}

    def count(self, key, n=1):
        self.dist[key] = self.dist.get(key, 0) + n

    @property
    def thorough(self):
        return self.tier == "thorough"


def load_findings():
    path = os.path.join(VERIF, "known_findings.json")
    try:
        return json.load(open(path))
    except FileNotFoundError:
        return []


def region_matches(region, config):
    for k, want in region.items():
        have = config.get(k)
        if isinstance(want, dict):
            if "in" in want and have not in want["in"]:
                return False
            if "ge" in want and not (have is not None and have >= want["ge"]):
                return False
            if "le" in want and not (have is not None and have <= want["le"]):
                return False
            if "ne" in want and have == want["ne"]:
                return False
        elif have != want:
            return False
    return True


def match_finding(findings, prop, viol):
    for f in findings:
        if f.get("status") != "finding" or prop not in f.get("properties", [f.get("property")]):
            continue
        if f.get("site") != viol.get("site"):
            continue
        if region_matches(f.get("region", {}), viol.get("config", {})):
            return f
    return None


def write_replay(prop, payload):
    os.makedirs(os.path.join(VERIF, "replay"), exist_ok=True)
    blob = json.dumps(payload, sort_keys=True, default=str)
    h = hashlib.sha256(blob.encode()).hexdigest()[:10]
    rel = os.path.join("replay", "%s-%s.json" % (prop, h))
    payload = dict(payload)
    payload["how_to_run"] = "./check %s --replay %s" % (prop, rel)
    with open(os.path.join(VERIF, rel), "w") as f:
        json.dump(payload, f, indent=1, sort_keys=True, default=str)
    return rel


def write_evidence(prop, ev):
    os.makedirs(os.path.join(VERIF, "evidence"), exist_ok=True)
    path = os.path.join(VERIF, "evidence", prop + ".json")
    tmp = path + ".tmp"
    with open(tmp, "w") as f:
        json.dump(ev, f, indent=1, sort_keys=True, default=str)
    os.replace(tmp, path)


def run(prop, tier, seed, replay=None):
    t0 = time.time()
    mod = importlib.import_module("harness.props." + prop.lower())
    ctx = Ctx(prop, tier, seed)
    findings = load_findings()
    timing = {}

    if replay:
        return mod.replay(ctx, json.load(open(replay)))

    # ---- 1. regenerate instance data from the working tree
    t = time.time()
    extract_error = None
    gen_changed = False
    try:
        text = mod.extract(ctx) if hasattr(mod, "extract") else None
        if isinstance(text, str):
            text = {prop: text}
        for fname, body in (text or {}).items():
            gen_changed = leanio.write_if_changed(os.path.join(LEAN, "Generated", fname + ".lean"), body) or gen_changed
    except InfraError:
        raise
    except Exception as e:  # the working tree no longer yields the data: a broken tie, handled below
        extract_error = "%s: %s" % (type(e).__name__, e)
        ctx.notes.append("extract failed: " + extract_error + "\n" + traceback.format_exc()[-1500:])
    timing["extract_s"] = round(time.time() - t, 2)

    # ---- 2. build the driver and the property's theorems
    t = time.time()
    ok_d, out_d, _ = leanio.lake_build(["kdriver"])
    if not ok_d:
        raise InfraError("kdriver does not build:\n" + out_d[-3000:])
    targets = ["Theorems." + prop]
    ok_b, out_b, _ = leanio.lake_build(targets)
    broken = [] if ok_b else leanio.broken_theorems(out_b)
    if not ok_b and not broken:
        raise InfraError("lake build failed without a located error:\n" + out_b[-3000:])
    if not ok_b and not gen_changed and extract_error is None:
        # nothing regenerated differs from what was committed/built: a framework error, not a finding about /repo
        # (still handled as a broken obligation: the property is not shown to hold)
        ctx.notes.append("build failed although generated data did not change in this run")
    timing["build_s"] = round(time.time() - t, 2)

    # ---- 3. audit axioms and forbidden constructs
    t = time.time()
    names = leanio.audit_names(prop)
    audited, audit_errors, rc = ([], [], 0)
    if ok_b:
        audited, audit_errors, rc = leanio.audit(prop)
        if rc != 0 or len(audited) != len(names):
            raise InfraError("audit of %s failed: %s" % (prop, audit_errors[:5]))
    forbidden = leanio.grep_forbidden(leanio.lean_sources(prop))
    bad_axioms = [a for a in audited if not a["ok"]]
    if forbidden or bad_axioms:
        raise InfraError("forbidden construct or axiom in the proof base: %s %s" % (forbidden[:5], bad_axioms[:5]))
    timing["audit_s"] = round(time.time() - t, 2)

    # ---- 3b. thorough tier: independent re-check of the compiled property module by leanchecker
    recheck = None
    if ctx.thorough and ok_b:
        t = time.time()
        import subprocess
        p_ = subprocess.run(["lake", "env", "leanchecker", "Theorems." + prop], cwd=LEAN, capture_output=True, text=True)
        recheck = {"cmd": "cd lean && lake env leanchecker Theorems.%s" % prop, "exit": p_.returncode, "seconds": round(time.time() - t, 1)}
        if p_.returncode != 0:
            raise InfraError("leanchecker rejects Theorems.%s:\n%s" % (prop, (p_.stdout + p_.stderr)[-2000:]))
        timing["leanchecker_s"] = recheck["seconds"]
        ctx.extra["leanchecker"] = recheck

    # ---- 4. correspondence
    t = time.time()
    ops = []
    corr_error = None
    try:
        ops = list(mod.corr(ctx))
        if ctx.thorough:
            # thorough tier: the whole correspondence again under further seeds (other random members, patterns, tables)
            base_seed = ctx.seed
            nseeds = int(os.environ.get("VERIF_THOROUGH_SEEDS", "3"))
            for i in range(1, nseeds):
                ctx.seed = base_seed + 1000 * i
                ctx.rng = random.Random(ctx.seed * 7919 + sum(map(ord, prop)))
                ops += list(mod.corr(ctx))
            ctx.seed = base_seed
            ctx.extra["correspondence_seeds"] = [base_seed + 1000 * i for i in range(nseeds)]
    except InfraError:
        raise
    except Exception as e:
        corr_error = "%s: %s" % (type(e).__name__, e)
        ctx.notes.append("correspondence generator failed: " + corr_error + "\n" + traceback.format_exc()[-2500:])
    lines = [o.line for o in ops]
    model_out = leanio.run_driver(lines) if lines else []
    mismatches = []
    prop_fail = []
    for o, mo in zip(ops, model_out):
        same = o.cmp(mo, o.impl) if o.cmp else (mo == o.impl)
        if not same:
            mismatches.append({"op": o.line, "impl": o.impl, "model": mo, "info": o.info})
        if o.prop_ok is False:
            prop_fail.append({"op": o.line, "impl": o.impl, "model": mo, "info": o.info})
    bad_ops = [l for l, mo in zip(lines, model_out) if mo == "bad-op"]
    if bad_ops:
        raise InfraError("driver does not understand: %s" % bad_ops[:3])
    timing["corr_s"] = round(time.time() - t, 2)

    # ---- 5. verdict
    violations = []     # unlisted
    known_hit = {}      # finding id -> finding
    tie_broken = bool(broken or mismatches or extract_error or corr_error)
    if tie_broken or prop_fail:
        t = time.time()
        found = []
        try:
            found = list(mod.search(ctx, mismatches, broken, prop_fail))
        except InfraError:
            raise
        except Exception as e:
            ctx.notes.append("search failed: %s\n%s" % (e, traceback.format_exc()[-2000:]))
        timing["search_s"] = round(time.time() - t, 2)
        unexplained = tie_broken
        for v in found:
            f = match_finding(findings, prop, v)
            if f is not None:
                known_hit[f["id"]] = f
            else:
                violations.append(v)
        if violations:
            unexplained = False
        elif tie_broken:
            # every failing input is a listed finding: the tie is acceptable only if the broken
            # obligations / mismatching ops are all inside listed regions
            explained = all(match_finding(findings, prop, {"site": m["info"].get("site"), "config": m["info"].get("config", {})}) for m in mismatches) and not broken and not extract_error and not corr_error
            unexplained = not explained
        if not violations and unexplained:
            violations.append({
                "kind": "broken-obligation" if broken or extract_error else "broken-correspondence",
                "site": None, "config": {},
                "theorem": [b["decl"] for b in broken] or None,
                "broken": broken[:10], "extract_error": extract_error, "corr_error": corr_error,
                "mismatches": mismatches[:10],
                "what": "the property is no longer shown to hold: " + (
                    "obligation(s) %s no longer check" % sorted({str(b["decl"]) for b in broken}) if broken else
                    ("instance data cannot be regenerated: %s" % extract_error if extract_error else
                     ("correspondence generator fails: %s" % corr_error if corr_error else
                      "model and implementation disagree on %d operation line(s), first: %s" % (len(mismatches), mismatches[0]["op"])))),
                "no_failing_input": True,
            })

    # listed findings that still reproduce
    known_lines = []
    for f in findings:
        if f.get("status") != "finding" or prop not in f.get("properties", [f.get("property")]):
            continue
        try:
            rep = mod.finding_reproduces(ctx, f)
        except InfraError:
            raise
        except Exception as e:
            rep = None
            ctx.notes.append("finding %s could not be replayed: %s" % (f["id"], e))
        if rep:
            known_lines.append("KNOWN-FINDING: property=%s %s [%s]" % (prop, f["what"], f["id"]))

    # ---- 6. evidence
    # distinct non-trivial cases: a model line is identified by its text; an oracle-only case (neutral placeholder line) by
    # the configuration it was run on
    def _key(o):
        if o.prop_ok is not None and o.info and o.info.get("config") is not None and len(o.line) <= 12:
            return o.line + "|" + hashlib.sha1(json.dumps(o.info["config"], sort_keys=True, default=str).encode()).hexdigest()[:16]
        return o.line
    nontrivial = {_key(o) for o in ops if o.nontrivial}
    obligations = len(names)
    if ok_b:
        discharged = len([a for a in audited if a["ok"]])
    else:  # Lean keeps elaborating after an error: the declarations without an error were checked
        bad = {str(b["decl"]).split(".")[-1] for b in broken}
        discharged = len([n for n in names if n.split(".")[-1] not in bad])
    samples = []
    if ops:
        step = max(1, len(ops) // 6)
        for o, mo in list(zip(ops, model_out))[::step][:8]:
            samples.append({"op": o.line, "impl": o.impl[:200], "model": mo[:200]})
    for a in audited[:3]:
        samples.append({"obligation": a["name"], "axioms": a["axioms"]})
    coverage = {
        "obligations": obligations,
        "discharged": discharged,
        "checker_cmd": "cd lean && lake build Theorems.%s kdriver && lake env lean Audit/%s.lean   # + grep for sorry/native_decide/axiom" % (prop, prop),
        "trusted_base": TRUSTED_BASE + getattr(mod, "TRUSTED_EXTRA", []),
        "obligation_names": [{"name": a["name"], "axioms": a["axioms"]} for a in audited] or names,
        "obligation_kinds": getattr(mod, "KINDS", {}),
        "partial": getattr(mod, "PARTIAL", []),
        "evaluations": len(ops),
        "distinct_nontrivial": len(nontrivial),
        "rule": getattr(mod, "RULE", "distinct operation lines whose expected output is not the trivial zero/identity case"),
        "samples": samples,
        "distribution": ctx.dist,
        "ops_sha": leanio.sha(lines),
        "skipped_by_margin": ctx.skipped_by_margin,
        "known_findings_reproduced": [l for l in known_lines],
        "generated_changed_this_run": gen_changed,
        "broken_obligations": broken[:20],
        "mismatches": mismatches[:20],
        "timing": timing,
        "notes": ctx.notes[:20],
    }
    coverage.update(ctx.extra)
    ev = {
        "property_id": prop, "tier": tier, "seed": seed, "level": "proof",
        "coverage": coverage,
        "assumptions": getattr(mod, "ASSUMPTIONS", []),
        "wall_s": round(time.time() - t0, 2),
        "violations": len(violations),
    }
    write_evidence(prop, ev)

    for l in known_lines:
        print(l)
    if violations:
        for v in violations[:5]:
            payload = dict(v)
            payload.update({"property": prop, "seed": seed, "tier": tier})
            payload.setdefault("kind", "failing-input")
            rel = write_replay(prop, payload)
            tail = " no-failing-input-found" if v.get("no_failing_input") else ""
            print("VIOLATION property=%s replay=%s%s" % (prop, rel, tail))
            print("  " + str(v.get("what"))[:400])
        return 1
    print("OK %s tier=%s seed=%d obligations=%d/%d ops=%d (nontrivial %d) wall=%.1fs" % (
        prop, tier, seed, discharged, obligations, len(ops), len(nontrivial), time.time() - t0))
    return 0


def main():
    ap = argparse.ArgumentParser()
    ap.add_argument("prop")
    ap.add_argument("--tier", default=None)
    ap.add_argument("--replay", default=None)
    a = ap.parse_args()
    tier = a.tier or os.environ.get("VERIF_TIER") or "quick"
    if tier not in ("quick", "thorough"):
        tier = "quick"
    try:
        seed = int(os.environ.get("VERIF_SEED", "0"))
    except ValueError:
        seed = 0
    try:
        rc = run(a.prop.upper(), tier, seed, a.replay)
    except InfraError as e:
        print("INFRA-ERROR %s: %s" % (a.prop, e), file=sys.stderr)
        rc = 2
    except Exception:
        traceback.print_exc()
        rc = 2
    sys.stdout.flush()
    sys.exit(rc)


if __name__ == "__main__":
    main()
