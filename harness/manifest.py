"""Writes MANIFEST.json from the table below (single source of truth for what is claimed)."""
import json, os

VERIF = os.path.dirname(os.path.dirname(os.path.abspath(__file__)))

CLAIMS = {
    "C18": {
        "technique": "Lean 4 theorems (refinement of Nat bit-mask arithmetic to (ZMod 2)[X]; kernel-evaluated primitivity check on the moduli table regenerated from the source) + line-protocol correspondence with the real classes",
        "text": "Unbounded theorems: the model of BinaryPolynomial multiplication is multiplication in (ZMod 2)[X] (hence commutative, associative, distributive for all naturals), the remainder loop returns a shorter polynomial congruent to the dividend, GF(2^m) multiplication is closed/commutative/associative/distributive/unital for every modulus of degree m. K obligations re-proved on every run against the moduli extracted from /repo: each of the 16 moduli has degree m and x has order 2^m-1 (prime-factor test evaluated by the kernel), from which the theorem field_inverse derives a*a^(2^m-2)=1 for every non-zero element and no zero divisors. The model is tied to the Python classes by executing the same operation lines on both (exhaustive small operands, random up to degree 200, every field m=1..16).",
        "design_ref": "DESIGN.md section 4, C18",
        "note": "Trusted: Lean kernel; axioms propext/Classical.choice/Quot.sound; the hand-written model Kaira/Poly2.lean, Kaira/GF2m.lean corresponds to algebra.py only as far as the correspondence exercises it; minimal-polynomial irreducibility is checked by correspondence + oracle, not by an unbounded theorem.",
    },
}
CLAIMS["C16"] = {
    "technique": "Lean 4 theorems by induction over update/compute/reset histories (refinement to a log-of-batches specification) + line-protocol correspondence running whole histories on the real metric objects",
    "text": "Unbounded theorems about the executable model of BitErrorRate / BlockErrorRate (SER/FER aliases): one-shot value is the exact count, symmetric, zero iff equal; the state after any sequence of updates is the count over the concatenated data (stream_eq_oneshot), independent of partition and of batch order (List.Perm); every interleaving of update/compute/reset is simulated by the reference log (history_refinement: compute does not change state, reset restores init); for rows made of blocks of size B: #error blocks <= #error bits <= B*#error blocks and <= #blocks (BER <= BLER <= min(1,B*BER)); the block update rejects exactly non-multiples. Tie: each operation line is a whole history executed on a fresh metric object and on the model (exhaustive histories up to length 4 quick / 5 thorough over a pool of batches, random up to length 200, adversarial pairs, complex inputs, 2-D/3-D rows, block sizes incl. non-divisors, StandardMetrics twins); floats are compared with the model's exact fraction at 1e-6.",
    "design_ref": "DESIGN.md section 4, C16",
    "note": "Trusted: Lean kernel + standard axioms; torch thresholding/any/sum on the exercised shapes is tied only by the correspondence; float32 quotient exact only below 2^24 accumulated bits (outside the model).",
}
CLAIMS["C17"] = {
    "technique": "Lean 4 theorems with the stage behaviour and the thread-pool completion permutation universally quantified (dict/gather/reorder mechanism modelled exactly) + correspondence that forces every feasible completion order on the real ParallelModel",
    "text": "Unbounded theorems for every stage family f: the sequential loop runs the declared stages in order, each once, feeding each the previous output, after any add/remove history (rejecting out-of-range removals); for ParallelModel the results dict built in an arbitrary completion order perm (any permutation of the branch indices) and then re-ordered equals the declared-order list with each result under its own name (branch names distinct) - so the aggregator input is schedule-independent; BranchingModel runs exactly the first branch whose condition holds and evaluates no later condition, else default, else error; the feedback model runs the encoder exactly max_iterations times with the stated per-round order; the MAC model runs all encoders, one sum, one constraint, one channel use, then the decoders. K: the step lists of DeepJSCCModel and ChannelCodeModel extracted from constructed objects equal the documented orders. Tie: recording stages on the real classes; completion order forced with events to each of the n! permutations (n<=4 quick, 5 thorough; worker counts 1..n and default, restricted to the orders feasible with that many workers); exhaustive short add/remove histories; overlapping branch conditions; iterations 0..5; 1..4 users.",
    "design_ref": "DESIGN.md section 4, C17",
    "note": "Trusted: Lean kernel + standard axioms; ThreadPoolExecutor/as_completed yield each future exactly once (the model's perm is that order); duplicate branch names are outside the theorem's hypothesis (names Nodup).",
}
CLAIMS["C14"] = {
    "technique": "Lean 4 theorems: Gray map inverse/injective/adjacent for all naturals; kernel-evaluated, proved-sound checkers (label permutation via OR-mask, pairwise distance / one-bit-neighbour scan, energy) over every constellation table regenerated from /repo, split over 8 modules; correspondence on the Gray utilities and on modulate()",
    "text": "Unbounded theorems: n xor (n>>1) and the prefix-xor loop are mutually inverse on all naturals and consecutive integers map to words at Hamming distance one; binary_to_gray/gray_to_binary equal these maps except at the two hard-coded values (known finding, with a kernel-checked witness that the code as it is is not injective / not adjacent there). Checker soundness (U): labelsOk => the labels are a permutation of 0..2^b-1; pairsOk => all points distinct and every pair within the minimum distance differs in exactly one label bit. K obligations re-proved whenever a table changes: for each of the ~90 catalogue instances (BPSK, QPSK, PSK 4..64, QAM 4..256, PAM 2..64, DPSK 2..16, DBPSK, DQPSK, OQPSK, pi/4-QPSK tables; Gray/binary; normalised or not) labels bijective, points distinct, minimum-distance bounds (with a certificate pair), Gray neighbours when requested, unit average energy within 1e-6 when requested; for the listed findings (Gray PAM >= 4, pi/4-QPSK) the kernel proves the table is NOT Gray. Tie: tables are read from the constructed modulators' buffers as exact dyadic rationals; modulate() is run on every b-bit pattern and must land on the table entry with that label; gray/ungray exhaustive below 2^12 (2^16 thorough), random to 2^60, array forms.",
    "design_ref": "DESIGN.md section 4, C14",
    "note": "Trusted: Lean kernel + standard axioms; float32 tables: 'nearest neighbours' are pairs within 1e-4 of the minimum squared distance; popcount is the definition of the number of differing label bits.",
}
CLAIMS["C01"] = {
    "technique": "Lean 4 theorems on GF(2) vector-matrix products over Nat masks (additivity, certificate soundness by an additive-map argument) + kernel-evaluated certificates for the published G, H, R of every catalogue encoder regenerated from /repo (8 parallel modules) + correspondence of forward / calculate_syndrome",
    "text": "Unbounded theorems: x.M (mod 2) as implemented (xor of the rows selected by x) is additive for every matrix; if G.H^T = 0 row by row every codeword has zero syndrome; if G.R = I then R extracts the message of every codeword (injectivity); an additive map fixing the n unit vectors fixes every n-bit vector, hence the kernel-checked identity I = R.G + H^T.S^T on unit vectors gives 'zero syndrome => codeword' for ALL 2^n words; H_J.W = I gives n-k independent rows of H. K obligations re-proved when a matrix changes: for each of the ~230 catalogue instances (random non-systematic generators, systematic with left/right/list/permuted information sets, Hamming mu 2..6 plain/extended, repetition, SPC, RM m<=5, every divisor of X^n+1 for n in {3,5,7,9,15} in both layouts, named cyclic codes, BCH mu<=5 all Bose distances + mu=6, RS-style mu<=4, Golay x4, LDPC from user matrices incl. rank-deficient) the published generator_matrix / check_matrix / generator_right_inverse satisfy these identities with certificates S, J, W computed by the untrusted harness. Corollaries per instance: encoding is linear, injective, length n; syndrome zero <=> codeword for every word; n-k independent check rows. Tie: forward() on all 2^k messages (k<=8 quick / 12 thorough, sampled above) and calculate_syndrome on codewords, all single-bit flips and random multi-bit perturbations must equal the model's products with the extracted matrices.",
    "design_ref": "DESIGN.md section 4, C01",
    "note": "Trusted: Lean kernel + standard axioms; matrices are read from the registered buffers; n <= 128 not required by the proofs; rank(H)=n-k is stated as n-k independent rows + null space of exactly 2^k words; Reed-Muller calculate_syndrome (an ML error pattern, 2^k enumeration) is compared by zero-ness only and skipped for k>14; polar codes are C11.",
}
CLAIMS["C04"] = {
    "technique": "Lean 4 theorems: right-inverse round trip for any G.R = I, blockwise framing (split/concatenate, mask<->bits) for any number of blocks, rejection of non-multiples; shares the kernel-checked catalogue of C01; correspondence over layouts",
    "text": "Unbounded theorems: for ANY matrices with G.R = I (row by row) extraction after encoding is the identity on all messages; for every catalogue instance additionally the syndrome is zero; blockwise_roundtrip: for any list of b message blocks, encoding the concatenation yields b.n bits, extraction returns the original b.k bits and the blockwise syndrome is all-zero; a last dimension that is not a multiple of the block size yields `none` (an error); output length is exactly (len/in).out. Tie: enc/inv lines for every catalogue encoder over layouts 1-D, (B,k), (B1,B2,k), b=1..4 concatenated blocks and all messages for k<=6, through inverse_encode, extract_message and project_word; non-multiples must raise.",
    "design_ref": "DESIGN.md section 4, C04",
    "note": "Trusted: as C01; leading batch dimensions are handled by the harness (each last-dimension row is one operation line); Hamming/Reed-Muller inverse_encode overrides are exercised on codewords only here (their correcting behaviour is C02).",
}
CLAIMS["C03"] = {
    "technique": "Lean 4: sound lower-bound checker for the minimum weight of a row span (tree recursion, proved for every generator matrix), additive cyclic shift => shift-closure from the generators, polynomial divisibility with the model of BinaryPolynomial; kernel-evaluated per catalogue instance on data regenerated from /repo; correspondence of forward() ties the word set to G",
    "text": "Unbounded: spanMin(G) <= weight(m.G) for every non-zero message and every generator matrix; the cyclic shift is additive, so if the shift of each generator row has zero syndrome then the shift of EVERY codeword has. K obligations (8 parallel modules) for each of ~230 instances: reported code_length / code_dimension equal the shape of the published generator (and the (n,k) in the name of named standard codes); for instances with k <= 13: minimum distance >= advertised minimum_distance / delta, with a witness codeword of exactly that weight where the value is documented as exact (Hamming, Golay, repetition, SPC, Reed-Muller, enumerated cyclic codes); for cyclic and BCH instances: generator polynomial divides X^n+1, has degree n-k, every generator row is a multiple of it in the stated coefficient order (rotation / reversal found by the harness, checked by the kernel), closure under cyclic shifts; sphere-packing equality for the Hamming and Golay codes (Nat.choose, kernel-evaluated). RS-style codes are a listed finding: the kernel proves a codeword lighter than the advertised design distance.",
    "design_ref": "DESIGN.md section 4, C03",
    "note": "Trusted: Lean kernel + standard axioms; advertised values read through the public attributes; distance of instances with k > 13 (listed in evidence under distance_not_decided_in_lean) is decided only by the search oracle (enumeration / MacWilliams in Python), not by a theorem.",
}
CLAIMS["C02"] = {
    "technique": "Lean 4 theorems: nearest-codeword argument on Nat masks (triangle inequality of the Hamming weight), correctness of the first-arg-min codebook search for every received word, combination with the kernel-checked distances of C03; executable models of the ML, syndrome-table, Hamming-inverse and RM-inverse decoders tied by correspondence; Berlekamp-Massey / Reed majority covered by an exhaustive implementation test only",
    "text": "Unbounded theorems: any decoder returning a codeword at minimum distance corrects every error pattern of weight <= t when 2t < d (any generator matrix, any length); the model of BruteForceMLDecoder (first arg-min over the codebook in message order; bit-reversal bijection proved) returns for EVERY received word a message whose codeword is at minimum Hamming distance; hence for every catalogue instance whose distance C03 decides, ML decoding returns the transmitted message for all messages and all error patterns of weight <= floor((d-1)/2). Tie: decode lines on codewords x error patterns (exhaustive when small) and on arbitrary words (all 2^n for n<=10 quick / 12 thorough): the ML, syndrome-table (first pattern by weight then lexicographic order), Hamming single-error inverse and Reed-Muller nearest-codeword inverse models must return the same message as the implementation including tie-breaks, and within capability the transmitted message must come back. NOT proved: Berlekamp-Massey on BCH and the Reed majority decoder have no Lean model yet; the check runs them on every error pattern of weight <= t for the small codes (sampled above) - a test, labelled as such in the evidence.",
    "design_ref": "DESIGN.md section 4, C02",
    "note": "Trusted: Lean kernel + standard axioms; torch.argmin returns the first minimum; 'nearest' is a theorem for the ML model only - the syndrome-table / Hamming / RM-inverse models are executable definitions compared with the code; BM and Reed decoders are partial (test only).",
}
CLAIMS["C05"] = {
    "technique": "Lean 4 theorems on table-driven modem models (first-arg-min scan returns a minimiser; decision at a constellation point is that point when points are distinct; bit-group <-> label bijection; splitting into groups) instantiated on the kernel-checked tables of C14; index-level models of the schemes with memory; correspondence with real modulator -> demodulator round trips",
    "text": "Unbounded theorem memoryless_roundtrip: for ANY table with bijective labels and pairwise distinct points and ANY number of symbols, demodulating the noiselessly modulated symbols returns exactly the input bits, #symbols = #bits/b, and lengths that are not multiples are rejected; instantiated for every catalogue table through C14's kernel-checked obligations. Schemes with memory: the decision at table entry i returns the label of entry i (index_symbol_decision), so index-mapped schemes (DPSK, pi/4-QPSK) round-trip exactly when the table is binary-labelled - proved for all binary-labelled catalogue tables (K) - and the Gray DPSK / pi/4-QPSK tables are kernel-checked NOT to be (listed known findings, test-pinned); OQPSK: in-phase bit in place, quadrature bit delayed by one symbol, first quadrature decision = reset value (oqpsk_roundtrip, all lengths). Tie: real modulator (reset, eval) -> real demodulator on every b-bit group, every ordered symbol pair for schemes with memory, random long sequences, 1-D and batched, compared with the model's prediction and with the property.",
    "design_ref": "DESIGN.md section 4, C05",
    "note": "Trusted: Lean kernel + standard axioms; float32 trigonometry placing noise-free symbols on the intended table entry (validated on every symbol / pair by the correspondence, not proved); DPSK is modelled on its decision variable.",
}
CLAIMS["C06"] = {
    "technique": "Lean 4 theorems over integer-scaled points and rational variances: the arg-min scan returns a global minimiser for every received point; sign and 1/variance scaling of the max-log LLR for every table; BPSK closed form; correspondence on exact dyadic received points",
    "text": "Unbounded theorems, for every finite table, every received point and all positive rational constants: the hard decision is the index of a point at minimum Euclidean distance; the max-log LLR c*(min_{b=1} d^2 - min_{b=0} d^2)/(s^2 sigma^2) is >= 0 when the nearest point's label bit is 0 and <= 0 when it is 1; multiplying the variance by a>0 divides the LLR by a; for two antipodal points the formula is 2y/sigma^2. Tie: every catalogue demodulator (BPSK, QPSK, PSK, QAM, PAM, OQPSK, pi/4-QPSK tables, DPSK on its decision variable) is run on grid / boundary / random received points that are exact multiples of 1/64 of the table scale; hard outputs must equal the model's decision (margin rule 1e-4), soft outputs must equal the model's rational LLR with the scheme's constant c within a float32 tolerance, for noise variances 1e-3..1e2, scalar and per-symbol.",
    "design_ref": "DESIGN.md section 4, C06",
    "note": "Trusted: Lean kernel + standard axioms; float32 arithmetic within the stated tolerance; DPSK soft output normalises the decision variable (a square root) and is compared with a float64 evaluation of the definition instead of the exact model (a test).",
}
CLAIMS["C15"] = {
    "technique": "Lean 4 theorems: strict sign of the noise-free max-log LLR for every table with distinct points, exact rational models of the sign-based consumers, sigmoid law over the reals (Mathlib Real.sigmoid), composition producer -> consumer; correspondence of real consumers with the rational models on LLRs produced by the real demodulators",
    "text": "Unbounded theorems: at a constellation point itself the max-log LLR of each label bit is strictly positive for bit 0 and strictly negative for bit 1 (any table with pairwise distinct points, any positive constants); LLRThresholder (threshold 0, positive scaling), llr_to_bits / sign_to_bin / WeightedThresholder(1, 0.5) (sigmoid(-L) vs 1/2), MinDistanceThresholder with reference points [-2, 2] and the repetition soft-bit decoder (sum/mean) decide 0 for positive and 1 for negative LLRs; P(bit=1) = sigmoid(-L) = 1/(1+e^L) is strictly decreasing and > 1/2 iff L < 0, so any consumer comparing it with thresholds hi >= 1/2 >= lo never turns a positive LLR into 1 or a negative one into 0; producer_consumer: thresholding the noise-free soft output of any catalogue table reproduces the label bit. FixedThresholder in LLR mode is a listed finding with a kernel-checked witness (test-pinned). Tie: 12 real soft demodulators (noise-free, three noise variances) x 11 real consumers + repetition decoder + BP / min-sum / Wagner / soft-RM decoders on exhaustive short and random bit sequences and synthetic LLR magnitudes 1e-3..1e3; rational-model consumers are compared decision by decision.",
    "design_ref": "DESIGN.md section 4, C15",
    "note": "Trusted: Lean kernel + standard axioms (reals); adaptive / dynamic thresholders (data-dependent mean thresholds) are exercised only with equal-magnitude LLR vectors containing both bit values, hysteresis only with |LLR| >= 1 (dead zone by design); sigmoid-domain consumers and the soft-input decoders are checked against the property on the implementation (a test), full decoder coverage is C10/C11.",
}
CLAIMS["C12"] = {
    "technique": "Lean 4 theorems about channel models that take the uniform draws as an input (transition law per position, support, extremes, Z-channel never raises); correspondence through re-seeded runs that give model and implementation the same draws; rate / independence statistics as support only",
    "text": "Unbounded theorems for every input, every draw vector and every probability: BSC output i is x_i flipped exactly when u_i < p on both alphabets (recognised as the code does, by the presence of a -1), stays in the input alphabet, p=0 is the identity and p=1 flips everything for draws in [0,1); BEC leaves every unerased symbol unchanged, erases exactly where u_i < p, outputs are input symbols or the erasure symbol, with the same extremes; the Z-channel consumes draws only at positions holding a 1, never turns a 0 into a 1 and outputs only 0/1; p=0 is the identity. Tie: for p in {0, 1e-3, 0.1, 0.25, 0.5, 0.9, 0.999, 1}, alphabets {0,1} / {-1,+1}, dtypes float32/int64/float64, shapes 1-D/2-D/3-D the real channel is run after torch.manual_seed(s), the draws are regenerated with the same seed and rand_like call and fed to the model; outputs must agree exactly; the input tensor must be unmodified and outputs inside the alphabet.",
    "design_ref": "DESIGN.md section 4, C12",
    "note": "Trusted: Lean kernel + standard axioms; that torch.rand_like yields independent uniform draws on [0,1) (the model's input) - supported by rate and lag-1 independence statistics on 10^6 symbols with a false-alarm bound <= 1e-9, recorded in the evidence, never used as a violation by themselves.",
}
CLAIMS["C07"] = {
    "technique": "Lean 4 algebra over the rationals / reals with the unit draws as inputs and square roots replaced by sign + square (noise power identities for every parameterisation, same-seed scaling, the single SNR definition via Mathlib logb/rpow); correspondence through re-seeded float64 runs comparing each noise sample's sign and square with the model",
    "text": "Unbounded theorems: noise = s.z with s^2 = P gives sum noise^2 = P.sum z^2 (real) and P.(sum z_r^2 + sum z_i^2)/2 (complex, P/2 per component); the per-component multipliers of AWGN and of the Laplacian power / scale parameterisations (raw Laplacian variance 2) add up to the configured power; same draws with two powers differ by the factor sqrt(P2/P1); P = S/10^j gives S/P = 10^j exactly, and over the reals 10.log10(S/(S/10^(snr/10))) = snr, dB<->linear are mutually inverse, and the SNR measured on a channel output is snr - 10.log10(mean z^2). Tie: AWGN / Laplacian (scale, power, SNR) / nonlinear+noise channels are run in float64 after torch.manual_seed(s); the draws are regenerated with the same seed and call sequence; every added noise sample must have the sign of its draw and its square must equal the model's P_component.z_i^2 (rel 2e-6; 5e-6 for float32 Laplacian draws) for powers 1e-4..1e3, real and complex, three shapes; SNR mode for integer decades through the exact model, other SNRs through the float64 formula; conversions on a 0.5 dB grid; calculate_snr / noise_power_to_snr / add_noise_for_snr / pregenerated noise checked against the same relations.",
    "design_ref": "DESIGN.md section 4, C07",
    "note": "Trusted: Lean kernel + standard axioms (reals); zero mean / unit variance / independence of torch.randn, torch.rand (supported by 10^6-sample statistics in the evidence, never a violation alone); float arithmetic within the stated tolerances. Listed finding: SignalToNoiseRatio reports +inf for noise power below float32 eps (test-pinned).",
}
CLAIMS["C13"] = {
    "technique": "Lean 4 theorems on the block-expansion and y = h.x + n models with the fading draws as inputs (block index arithmetic for all lengths, verbatim csi/noise, Rayleigh/Rician normalisation algebra); correspondence through re-seeded runs and exact rational evaluation of supplied-csi cases",
    "text": "Unbounded theorems: h_exp[t] = h[t div T] for every length and coherence time including non-divisors, positions of one block share one coefficient, block indices stay below ceil(L/T), output has one entry per symbol; with supplied channel state and noise the output is exactly h.x + n element by element; |h|^2 of a Rayleigh coefficient is (z_r^2+z_i^2)/2, Rician line-of-sight and scattered powers K/(K+1) and 1/(K+1) sum to 1 with ratio K for every K >= 0. Tie: with x = 1 and zero noise the real channel's output is matched against the regenerated block coefficients and must follow the model's index pattern for L in {1,5,8,12,17} x coherence times incl. non-divisors and T > L x batch sizes; supplied csi/noise in complex128 for 1-D / 2-D / 4-D inputs, real and complex, compared with exact rational h.x+n; Rayleigh, Rician (K = 0, 3, 100) and log-normal coefficients and the noise stage in power and SNR mode (relative to the faded signal) compared with values rebuilt from the same seed.",
    "design_ref": "DESIGN.md section 4, C13",
    "note": "Trusted: Lean kernel + standard axioms; law and independence of the fading draws (gain statistics on 10^6 blocks recorded as support); the law cases are float evaluations of the definition (tests), the structure cases go through the exact model.",
}
CLAIMS["C08"] = {
    "technique": "Lean 4 algebra over the rationals on the squared scale factor P/(c+1e-8) (upper bound, 0.1% lower bound, positivity, monotonicity, second application, per-antenna form, clamp bounds, final PAPR clip, composite = fold); correspondence comparing the output power of the real constraints with the exact model on items given as exact rationals",
    "text": "Unbounded theorems for every current power c >= 0 and target P: the output power c.P/(c+1e-8) never exceeds P, is within 0.1% of P as soon as c >= 999e-8, the item is multiplied by a strictly positive factor (sum of squares scales by s^2 exactly), the output power is monotone in the input power, a second application stays between c1.P/(P+eps) and P; the per-antenna form never exceeds its budget; clamp bounds every sample by A and is idempotent; the final PAPR clip bounds every sample's power by 0.98.PAPR.avg; a composite is the left fold of its parts. Tie: Total / Average power constraints on six signal families x scales 1e-2..1e4 x targets 1e-2..1e3 x real/complex x shapes 1-D, batch of 1, batch of 3, 3-D, 4-D: the power of every output item must equal the model's value on the item's exact samples (rel 2e-5), the ratio output/input must be one positive real per item; per-antenna constraint on 2-D/3-D/4-D; peak amplitude exact; composite / apply_constraint_chain / combine_constraints equal sequential application; OFDM and MIMO factory composites meet their limits.",
    "design_ref": "DESIGN.md section 4, C08",
    "note": "Trusted: Lean kernel + standard axioms; float32 reductions to 2e-5 relative. PARTIAL: 'output PAPR <= limit on non-sparse signals' is tested on the implementation (Gaussian / uniform / OFDM-like / heavy-tailed, limits 2, 3, 6, real/complex, single and batched), not proved - only the final clip bound is a theorem.",
}

NOT_YET = {}


def build():
    props = [json.loads(l) for l in open(os.path.join(VERIF, "properties.jsonl"))]
    checks, na = [], []
    for p in props:
        pid = p["id"]
        if pid in CLAIMS:
            c = CLAIMS[pid]
            checks.append({
                "property_id": pid,
                "quick_cmd": "./check %s --tier quick" % pid,
                "thorough_cmd": "./check %s --tier thorough" % pid,
                "evidence_file": "evidence/%s.json" % pid,
                "replay_cmd_template": "./check %s --replay {path}" % pid,
                "engine": "lean4-proof+correspondence",
                "level_claimed": {"category": "proof", "text": c["text"], "design_ref": c["design_ref"]},
                "level_note": c["note"],
                "technique": c["technique"],
            })
        else:
            na.append({"property_id": pid, "reason": NOT_YET.get(pid, "check not built yet in this round (model and theorems are designed in DESIGN.md section 4; not claimed until the check runs)")})
    man = {
        "version": 1,
        "setup_cmd": "./setup.sh",
        "hooks": {
            "guard": "IPC_LAB_KAIRA_VERIF",
            "enable": "checks export IPC_LAB_KAIRA_VERIF=1 before importing kaira from /repo (no hook commits exist: schedules, seeds and histories are driven through the public API)",
            "baseline_off_cmd": "cd /repo && /venv/bin/python -m pytest -ra -q -p no:cacheprovider --timeout=900 --continue-on-collection-errors",
            "source_commits": [],
            "add_only": True,
        },
        "engines": [{
            "name": "lean4-proof+correspondence",
            "path": "lean/ (lake project: Kaira = model, Proofs = lemmas, Theorems = property theorems, Generated = instance data from /repo) + harness/",
            "serves_properties": sorted(CLAIMS),
            "kind_free_text": "machine-checked proof in Lean 4 about a hand-written executable model; model tied to /repo by regenerated instance data (K obligations) and a line-protocol correspondence with the real code",
        }],
        "checks": checks,
        "not_applicable": na,
        "notes": "Known findings: known_findings.json. Design and trusted base: DESIGN.md.",
    }
    with open(os.path.join(VERIF, "MANIFEST.json"), "w") as f:
        json.dump(man, f, indent=1)
    return man


if __name__ == "__main__":
    m = build()
    print("claimed:", [c["property_id"] for c in m["checks"]])
