"""Lean side of a check: regenerate, build, audit, run the driver."""
import fcntl, os, re, subprocess, time, hashlib

VERIF = os.path.dirname(os.path.dirname(os.path.abspath(__file__)))
LEAN = os.path.join(VERIF, "lean")
DRIVER = os.path.join(LEAN, ".lake", "build", "bin", "kdriver")
ALLOWED_AXIOMS = {"propext", "Classical.choice", "Quot.sound"}
FORBIDDEN = re.compile(r"\b(sorry|admit|native_decide|bv_decide|implemented_by)\b|^\s*axiom\s|\bunsafe\s|maxHeartbeats\s+0\b")


class InfraError(Exception):
    pass


class _Lock:
    def __enter__(self):
        self.f = open(os.path.join(LEAN, ".build.lock"), "w")
        fcntl.flock(self.f, fcntl.LOCK_EX)
        return self

    def __exit__(self, *a):
        fcntl.flock(self.f, fcntl.LOCK_UN)
        self.f.close()


def write_if_changed(path, text):
    try:
        if open(path).read() == text:
            return False
    except FileNotFoundError:
        pass
    os.makedirs(os.path.dirname(path), exist_ok=True)
    tmp = path + ".tmp%d" % os.getpid()
    with open(tmp, "w") as f:
        f.write(text)
    os.replace(tmp, path)
    return True


def lake_build(targets, timeout=3000):
    """returns (ok, output)"""
    with _Lock():
        t0 = time.time()
        try:
            p = subprocess.run(["lake", "build"] + list(targets), cwd=LEAN, capture_output=True, text=True, timeout=timeout)
        except subprocess.TimeoutExpired:
            raise InfraError("lake build timed out after %ds" % timeout)
        out = p.stdout + p.stderr
        return p.returncode == 0, out, time.time() - t0


def broken_theorems(build_output):
    """map `error: File.lean:line:col` to the theorem enclosing that line"""
    broken = []
    for m in re.finditer(r"error: ([\w/.]+\.lean):(\d+):(\d+): (.*)", build_output):
        path, line, msg = m.group(1), int(m.group(2)), m.group(4)
        full = os.path.join(LEAN, path)
        name = None
        try:
            lines = open(full).read().split("\n")
            for i in range(min(line, len(lines)) - 1, -1, -1):
                mm = re.match(r"\s*(?:private\s+|protected\s+)?(theorem|lemma|def|example|instance|abbrev)\s+([\w.'«»]+)?", lines[i])
                if mm:
                    name = mm.group(2) or "example@%d" % (i + 1)
                    break
        except OSError:
            pass
        broken.append({"file": path, "line": line, "decl": name, "message": msg[:300]})
    return broken


def audit(prop):
    """elaborate Audit/<prop>.lean; returns list of {name, axioms, ok}"""
    path = os.path.join("Audit", prop + ".lean")
    with _Lock():
        try:
            p = subprocess.run(["lake", "env", "lean", path], cwd=LEAN, capture_output=True, text=True, timeout=1200)
        except subprocess.TimeoutExpired:
            raise InfraError("audit timed out")
    out = p.stdout + p.stderr
    res = []
    text = out.replace("\n  ", " ").replace("\n ", " ")
    for m in re.finditer(r"(?m)^'(.+)' depends on axioms: \[([^\]]*)\]", text):
        ax = [a.strip() for a in m.group(2).split(",") if a.strip()]
        res.append({"name": m.group(1), "axioms": ax, "ok": set(ax) <= ALLOWED_AXIOMS})
    for m in re.finditer(r"(?m)^'(.+)' does not depend on any axioms", text):
        res.append({"name": m.group(1), "axioms": [], "ok": True})
    errors = [l for l in out.split("\n") if "error" in l]
    return res, errors, p.returncode


def audit_names(prop):
    path = os.path.join(LEAN, "Audit", prop + ".lean")
    names = []
    for l in open(path):
        m = re.match(r"\s*#print axioms\s+(\S+)", l)
        if m:
            names.append(m.group(1))
    return names


def grep_forbidden(files):
    hits = []
    for path in files:
        incomment = 0
        for i, line in enumerate(open(path), 1):
            s = line
            # strip block comments (coarse, nesting-aware) and line comments
            outp = ""
            j = 0
            while j < len(s):
                if s.startswith("/-", j):
                    incomment += 1; j += 2; continue
                if s.startswith("-/", j) and incomment:
                    incomment -= 1; j += 2; continue
                if not incomment:
                    if s.startswith("--", j):
                        break
                    outp += s[j]
                j += 1
            if FORBIDDEN.search(outp):
                hits.append("%s:%d: %s" % (os.path.relpath(path, LEAN), i, outp.strip()[:120]))
    return hits


def lean_sources(prop):
    """files whose content backs property `prop`: all model/proof files + its theorem and generated file"""
    files = []
    for sub in ("Kaira", "Proofs"):
        d = os.path.join(LEAN, sub)
        for root, _, fs in os.walk(d):
            files += [os.path.join(root, f) for f in fs if f.endswith(".lean")]
    for sub in ("Theorems", "Generated", "Audit"):
        p = os.path.join(LEAN, sub, prop + ".lean")
        if os.path.exists(p):
            files.append(p)
    return sorted(files)


def _run_driver_one(lines, timeout):
    data = "\n".join(lines) + "\n"
    try:
        p = subprocess.run([DRIVER], input=data, capture_output=True, text=True, timeout=timeout)
    except subprocess.TimeoutExpired:
        raise InfraError("kdriver timed out")
    if p.returncode != 0:
        raise InfraError("kdriver exit %d: %s" % (p.returncode, p.stderr[-500:]))
    out = p.stdout.split("\n")
    if out and out[-1] == "":
        out.pop()
    if len(out) != len(lines):
        raise InfraError("kdriver returned %d lines for %d ops" % (len(out), len(lines)))
    return out


def run_driver(lines, timeout=2400, workers=8):
    """runs the model on the operation lines; long runs are split over several driver processes - the definition lines
    (deftable / defcode / defrank, which set the driver's state) are replayed at the head of every chunk"""
    if not os.path.exists(DRIVER):
        raise InfraError("kdriver not built")
    if len(lines) < 1500:
        return _run_driver_one(lines, timeout)
    from concurrent.futures import ThreadPoolExecutor
    n = len(lines)
    size = (n + workers - 1) // workers
    chunks = []
    defs = []
    for start in range(0, n, size):
        chunk = lines[start:start + size]
        chunks.append((list(defs), chunk))
        defs += [l for l in chunk if l.startswith("def")]
    def job(item):
        pre, chunk = item
        out = _run_driver_one(pre + chunk, timeout)
        return out[len(pre):]
    with ThreadPoolExecutor(max_workers=workers) as ex:
        parts = list(ex.map(job, chunks))
    return [o for part in parts for o in part]


def sha(lines):
    h = hashlib.sha256()
    for l in lines:
        h.update(l.encode() + b"\n")
    return h.hexdigest()[:16]
