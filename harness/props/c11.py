"""C11 — polar encoding is the Arikan transform on the 5G information set and inverts."""
import contextlib, io, itertools, math
from fractions import Fraction
from ..runner import Op

ID = "C11"
KINDS = {"U": ["polar_transform_eq_kron", "minSum_signLaw", "sc_clean", "extract_place", "sc_decodes_clean", "info_set_card", "info_mask_length", "interleaved_is_bitreversal", "sc_decodes_clean_interleaved", "sumProduct_signLaw", "sc_decodes_clean_sum_product"],
         "K": ["rank_is_5G", "rank_is_permutation"]}
PARTIAL = ["sum-product check rule: modelled as sign(x).sign(y).max(|h(x,y)|, tiny) clipped to +-c with an ARBITRARY inner function h (the transcendental value "
           "2 atanh(tanh tanh) / log1p form is floating point and not modelled): sign law and clean decoding are theorems for every h (sumProduct_signLaw, "
           "sc_decodes_clean_sum_product); the structural claim is tied to sum_product() by a sign test over 38 decades of magnitudes, the VALUES of the rule and SC on "
           "arbitrary LLRs in this regime are compared with a float64 textbook recursion (tests); the polar belief-propagation decoder is tested against the property",
           "'chosen by the 5G reliability ranking': the extracted CSV is kernel-compared with the hand-held copy of TS 38.212 Table 5.3.1.2-1 in lean/Kaira/Rank5G.lean (trusted reference)"]
RULE = ("pinfo / penc / pkron / psc lines for N = 2..1024: information masks, encodings of all (k <= 6) or random messages for both frozen values and both orders, "
        "Kronecker matrices, SC decisions on arbitrary dyadic LLRs (min-sum, exact) ; non-trivial = non-zero message / non-constant LLR signs")
ASSUMPTIONS = ["the ranking is read from the constructed encoder's `rank` attribute (rank_polar.csv)", "LLRs are multiples of 1/8 below 64 so float32 min/sum arithmetic is exact; zero LLRs are excluded"]

_Q = {}


def quiet(fn, *a, **k):
    with contextlib.redirect_stdout(io.StringIO()):
        return fn(*a, **k)


def rank():
    if "rank" not in _Q:
        from kaira.models.fec.encoders.polar_code import PolarCodeEncoder
        e = quiet(PolarCodeEncoder, 2, 4)
        _Q["rank"] = [int(v) for v in e.rank]
    return _Q["rank"]


def rank5g():
    import os, re
    txt = open(os.path.join(os.path.dirname(__file__), "..", "..", "lean", "Kaira", "Rank5G.lean")).read()
    body = txt[txt.index("def rank5G"):]
    return [int(v) for v in re.findall(r"\d+", body[body.index("["): body.index("]")])]


def extract(ctx):
    r = rank()
    return ("-- generated from /repo: kaira/models/fec/rank_polar.csv as loaded by PolarCodeEncoder\nnamespace Generated.C11\n"
            "def rank : List Nat := [%s]\nend Generated.C11\n" % ", ".join(map(str, r)))


def bstr(v):
    return "".join("1" if int(round(float(x))) else "0" for x in v) or "-"


def fr(v):
    return ",".join(str(Fraction(float(x))) for x in v) or "-"


MARGIN = [float("inf")]


def textbook_sc(llr, info, fz, interleaved, f):
    """float64 textbook SC recursion (independent oracle): returns decisions u; records the smallest |decision LLR| in MARGIN[0]"""
    N = len(llr)
    if N == 1:
        if info[0]:
            b = 1 if llr[0] < 0 else 0
            MARGIN[0] = min(MARGIN[0], abs(llr[0]))
        else:
            b = fz
        return [b], [b]
    if interleaved:
        ya, yb = llr[0::2], llr[1::2]
    else:
        ya, yb = llr[: N // 2], llr[N // 2:]
    u1, x1 = textbook_sc([f(a, b) for a, b in zip(ya, yb)], info[: N // 2], fz, interleaved, f)
    u2, x2 = textbook_sc([b + (1 - 2 * x) * a for a, b, x in zip(ya, yb, x1)], info[N // 2:], fz, interleaved, f)
    xx = [p ^ q for p, q in zip(x1, x2)]
    x = [v for pr in zip(xx, x2) for v in pr] if interleaved else xx + x2
    return u1 + u2, x


def f_sp(a, b):
    """2 atanh(tanh(a/2) tanh(b/2)) in float64, evaluated through the identity sign.min + log1p(e^-|a+b|) - log1p(e^-|a-b|)
    (the tanh form saturates in float64 beyond |x| ~ 37 - an earlier version of this oracle did, which was a false alarm)"""
    if a == 0 or b == 0:
        return 0.0
    v = math.copysign(1, a) * math.copysign(1, b) * min(abs(a), abs(b)) + math.log1p(math.exp(-abs(a + b))) - math.log1p(math.exp(-abs(a - b)))
    return max(min(v, 1000.0), -1000.0)


def f_ms(a, b):
    return max(min(math.copysign(1, a) * math.copysign(1, b) * min(abs(a), abs(b)), 1000.0), -1000.0)


def corr(ctx):
    import torch
    from kaira.models.fec.encoders.polar_code import PolarCodeEncoder
    from kaira.models.fec.decoders import SuccessiveCancellationDecoder, BeliefPropagationPolarDecoder
    rng = ctx.rng
    ops = [Op("defrank " + ",".join(map(str, rank())), "ok", nontrivial=False)]
    sizes = [2, 4, 8, 16, 32] + ([64, 128, 256, 512, 1024] if ctx.thorough else [64, 1024])
    for N in sizes:
        m = N.bit_length() - 1
        ks = list(range(1, N)) if N <= (32 if ctx.thorough else 8) else sorted({1, N - 1, N // 2, rng.randrange(1, N), rng.randrange(1, N)} if (ctx.thorough or N <= 64) else {N // 2, rng.randrange(1, N)})
        if m <= 6:
            G = quiet(PolarCodeEncoder, 1, N).get_generator_matrix()
            ops.append(Op("pkron %d" % m, "/".join(bstr(r) for r in G.tolist()), nontrivial=True, info={"site": "fec.encoders:polar.get_generator_matrix", "config": {"N": N}}))
        for k in ks:
            for fz0 in (False, True):
                for inter in (False, True):
                    if N > 64 and inter and fz0:
                        continue
                    enc = quiet(PolarCodeEncoder, k, N, frozen_zeros=fz0, polar_i=inter)
                    info = [bool(v) for v in enc.info_indices.tolist()]
                    fzv = 0 if fz0 else 1
                    cfg = {"N": N, "k": k, "frozen_zeros": fz0, "polar_i": inter}
                    if not inter and fz0:
                        ops.append(Op("pinfo %d %d" % (N, k), bstr(info), nontrivial=True, info={"site": "fec.encoders:polar.info_indices", "config": cfg}, prop_ok=(sum(info) == k and len(info) == N)))
                    msgs = [list(t) for t in itertools.product([0, 1], repeat=k)] if k <= (6 if ctx.thorough else 4) else [[rng.getrandbits(1) for _ in range(k)] for _ in range(3)]
                    B = len(msgs)
                    X = enc(torch.tensor(msgs, dtype=torch.float32))
                    for msg, cw in zip(msgs[:16], X.tolist()[:16]):
                        ops.append(Op("penc %d %d %d %s %s" % (m, inter, fzv, bstr(info), bstr(msg)), bstr(cw), nontrivial=any(msg), info={"site": "fec.encoders:polar.forward", "config": cfg}))
                    ctx.count("encode_N%d" % N, min(B, 16))
                    if N > 256 and k not in (1, N // 2):
                        continue
                    # decoders on clean LLRs (property) and SC on arbitrary LLRs (model / oracle)
                    for regime in ("sum_product", "min_sum"):
                        sc = SuccessiveCancellationDecoder(enc, regime=regime)
                        for a in (0.5, 7.0, 100.0):
                            sub = X[: 8]
                            out = sc((1 - 2 * sub) * a)
                            ok = bool((out == torch.tensor(msgs[: 8], dtype=out.dtype)).all()) and tuple(out.shape) == (len(sub), k)
                            ops.append(Op("pkron 0", "1", nontrivial=False,
                                          info={"site": "fec.decoders:SuccessiveCancellationDecoder.clean", "config": dict(cfg, regime=regime, magnitude=a, batch=len(sub))}, prop_ok=ok))
                        if N <= 64:
                            nl = 6 if ctx.thorough else 3
                            L = torch.tensor([[rng.choice([-1, 1]) * rng.randrange(1, 512) / 8 for _ in range(N)] for _ in range(nl)], dtype=torch.float32)
                            if regime == "sum_product":
                                L = L / 4   # keep the float64 oracle and the float32 implementation well inside each other's precision
                            out = sc(L)
                            for row, o in zip(L.tolist(), out.tolist()):
                                MARGIN[0] = float("inf")
                                u, _ = textbook_sc(row, info, fzv, inter, f_ms if regime == "min_sum" else f_sp)
                                if MARGIN[0] < (1e-9 if regime == "min_sum" else 1e-3):
                                    ctx.skipped_by_margin += 1      # a decision LLR is (numerically) zero: ties are excluded
                                    continue
                                if regime == "min_sum":
                                    ops.append(Op("psc %d %d %d 1000 %s %s" % (m, inter, fzv, bstr(info), fr(row)), bstr(o), nontrivial=True,
                                                  info={"site": "fec.decoders:SuccessiveCancellationDecoder", "config": dict(cfg, regime=regime)}))
                                else:
                                    want = [b for b, i in zip(u, info) if i]
                                    ops.append(Op("pkron 0", "1", nontrivial=False,
                                                  info={"site": "fec.decoders:SuccessiveCancellationDecoder.textbook", "config": dict(cfg, regime=regime, llr=row, got=bstr(o), want=bstr(want))}, prop_ok=(bstr(o) == bstr(want))))
                            ctx.count("sc_arbitrary_%s" % regime, nl)
                            # magnitudes confined to a narrow band, one row per call: approximations that switch on the size of ALL
                            # inputs of a node / batch (saturation shortcuts) and nearly equal magnitudes (largest correction term)
                            if regime == "sum_product" and N <= 16:
                                for band in ((0.3, 0.5), (4.0, 5.0), (18.0, 21.0), (19.5, 20.5), (30.0, 33.0)):
                                    for _ in range(4 if ctx.thorough else 2):
                                        row = [rng.choice([-1, 1]) * round(rng.uniform(*band) * 64) / 64 for _ in range(N)]
                                        o = sc(torch.tensor([row], dtype=torch.float32)).tolist()[0]
                                        MARGIN[0] = float("inf")
                                        u, _ = textbook_sc(row, info, fzv, inter, f_sp)
                                        if MARGIN[0] < 1e-3:
                                            ctx.skipped_by_margin += 1
                                            continue
                                        want = [b for b, i in zip(u, info) if i]
                                        ops.append(Op("pkron 0", "1", nontrivial=False,
                                                      info={"site": "fec.decoders:SuccessiveCancellationDecoder.textbook", "config": dict(cfg, regime=regime, band=list(band), llr=row, got=bstr(o), want=bstr(want))},
                                                      prop_ok=(bstr(o) == bstr(want))))
                                        ctx.count("sc_band_rows")
                    if not inter and N <= 64:
                        for regime in ("sum_product", "min_sum"):
                            bp = quiet(BeliefPropagationPolarDecoder, enc, regime=regime, bp_iters=10)
                            for a in (0.5, 7.0, 100.0):
                                sub = X[: 4]
                                out = quiet(bp, (1 - 2 * sub) * a)
                                ok = bool((out == torch.tensor(msgs[: 4], dtype=out.dtype)).all())
                                ops.append(Op("pkron 0", "1", nontrivial=False,
                                              info={"site": "fec.decoders:BeliefPropagationPolarDecoder.clean", "config": dict(cfg, regime=regime, magnitude=a)}, prop_ok=ok))
                        # histories: the same decoder object, few iterations, a strong batch followed by a weak one of
                        # other code words - the answer must not depend on the earlier call
                        for regime in ("sum_product", "min_sum"):
                            for iters in (1, 2, 3):
                                bp = quiet(BeliefPropagationPolarDecoder, enc, regime=regime, bp_iters=iters)
                                nb = min(4, B // 2)
                                if nb == 0:
                                    continue
                                first, second = X[:nb], X[B - nb:]
                                outs = [quiet(bp, (1 - 2 * first) * 100.0), quiet(bp, (1 - 2 * second) * 0.5)]
                                fresh = quiet(quiet(BeliefPropagationPolarDecoder, enc, regime=regime, bp_iters=iters), (1 - 2 * second) * 0.5)
                                same = bool((outs[1] == fresh).all())
                                ok2 = bool((outs[1] == torch.tensor(msgs[B - nb:], dtype=outs[1].dtype)).all()) and bool((outs[0] == torch.tensor(msgs[:nb], dtype=outs[0].dtype)).all())
                                ops.append(Op("pkron 0", "1", nontrivial=False,
                                              info={"site": "fec.decoders:BeliefPropagationPolarDecoder.history", "config": dict(cfg, regime=regime, bp_iters=iters, batch=nb, same_as_fresh_decoder=same)}, prop_ok=same and ok2))
                        ctx.count("bp_clean")
    # deep check-node chains on weak LLRs (the least reliable position carries a message bit only when k is close to N)
    for (N, k) in ((256, 255), (128, 127)) + (((1024, 1023), (512, 511)) if ctx.thorough else ()):
        for inter in (False, True):
            enc = quiet(PolarCodeEncoder, k, N, frozen_zeros=False, polar_i=inter)
            msgs = [[rng.getrandbits(1) for _ in range(k)] for _ in range(2)]
            X = enc(torch.tensor(msgs, dtype=torch.float32))
            for regime in ("sum_product", "min_sum"):
                sc = SuccessiveCancellationDecoder(enc, regime=regime)
                for a in (0.5, 100.0):
                    out = sc((1 - 2 * X) * a)
                    ok = bool((out == torch.tensor(msgs, dtype=out.dtype)).all())
                    ops.append(Op("pkron 0", "1", nontrivial=False, info={"site": "fec.decoders:SuccessiveCancellationDecoder.clean", "config": {"N": N, "k": k, "frozen_zeros": False, "polar_i": inter, "regime": regime, "magnitude": a, "batch": 2}}, prop_ok=ok))
        ctx.count("deep_chain_clean")
    # long codes, strong structured LLRs (period-4 patterns, magnitudes up to 100): partial sums of the bit nodes run into the thousands -
    # nothing but the check node may clip
    for N in (64, 128):
        for k in (1, 2, 3):
            for inter in (False, True):
                enc = quiet(PolarCodeEncoder, k, N, frozen_zeros=True, polar_i=inter)
                info = [bool(v) for v in enc.info_indices.tolist()]
                m_ = N.bit_length() - 1
                sc = SuccessiveCancellationDecoder(enc, regime="min_sum")
                rows = []
                for _ in range(6 if ctx.thorough else 3):
                    base = [rng.choice([94.0, 80.5, 60.25]), -rng.choice([22.0, 30.5]), -rng.choice([37.5, 45.25, 12.5]), -rng.choice([22.0, 18.75])]
                    rng.shuffle(base)
                    rows.append([base[j % 4] * rng.choice([1.0, 1.0, 0.5]) for j in range(N)])
                rows.append([94.0 if j % 4 == 0 else (-37.5 if j % 4 == 2 else -22.0) for j in range(N)])
                Lr = torch.tensor(rows, dtype=torch.float32)
                for row, o in zip(Lr.tolist(), sc(Lr).tolist()):
                    MARGIN[0] = float("inf")
                    textbook_sc(row, info, 0, inter, f_ms)
                    if MARGIN[0] < 1e-9:
                        continue
                    ops.append(Op("psc %d %d 0 1000 %s %s" % (m_, inter, bstr(info), fr(row)), bstr(o), nontrivial=True,
                                  info={"site": "fec.decoders:SuccessiveCancellationDecoder", "config": {"N": N, "k": k, "frozen_zeros": True, "polar_i": inter, "regime": "min_sum", "structured_strong_llrs": True}}))
                ctx.count("sc_strong_structured_rows", len(rows))
    # user-supplied information masks are used verbatim
    for N, mask in ((8, [0, 1, 0, 1, 1, 0, 1, 1]), (8, [1, 1, 1, 1, 0, 0, 0, 0]), (16, [rng.getrandbits(1) for _ in range(16)])):
        k = sum(mask)
        if k in (0, N):
            continue
        enc = quiet(PolarCodeEncoder, k, N, load_rank=False, info_indices=torch.tensor(mask, dtype=torch.bool))
        msg = [rng.getrandbits(1) for _ in range(k)]
        cw = enc(torch.tensor([msg], dtype=torch.float32))[0].tolist()
        ops.append(Op("penc %d 0 1 %s %s" % (N.bit_length() - 1, bstr(mask), bstr(msg)), bstr(cw), nontrivial=True, info={"site": "fec.encoders:polar.user_mask", "config": {"N": N, "mask": bstr(mask)}}))
    # ... and by the decoders: successive cancellation (both regimes, clean and arbitrary LLRs) and polar BP on masks of every shape,
    # in particular masks that are NOT upward-closed (a frozen position after information positions inside a sub-block)
    umasks = [(8, [1, 1, 1, 0, 0, 0, 0, 0]), (8, [0, 1, 1, 0, 1, 0, 0, 1]), (8, [1, 0, 0, 0, 0, 0, 0, 0]), (4, [1, 0, 1, 0]), (4, [1, 1, 0, 0]), (16, [1, 0, 1, 1, 0, 0, 1, 0, 1, 1, 0, 0, 0, 1, 0, 0])]
    umasks += [(N_, [rng.getrandbits(1) for _ in range(N_)]) for N_ in (8, 16, 32) for _ in range(2)]
    for N, mask in umasks:
        k = sum(mask)
        if k in (0, N):
            continue
        m_ = N.bit_length() - 1
        for fz0 in (True, False):
            for inter in (False, True):
                fzv = 0 if fz0 else 1
                enc = quiet(PolarCodeEncoder, k, N, load_rank=False, info_indices=torch.tensor(mask, dtype=torch.bool), frozen_zeros=fz0, polar_i=inter)
                msgs = [list(t_) for t_ in itertools.product([0, 1], repeat=k)] if k <= 3 else [[rng.getrandbits(1) for _ in range(k)] for _ in range(4)]
                X = enc(torch.tensor(msgs, dtype=torch.float32))
                cfgm = {"N": N, "mask": bstr(mask), "frozen_zeros": fz0, "polar_i": inter}
                for regime in ("sum_product", "min_sum"):
                    sc = SuccessiveCancellationDecoder(enc, regime=regime)
                    for a in (0.5, 9.0):
                        out = sc((1 - 2 * X) * a)
                        ok = bool((out == torch.tensor(msgs, dtype=out.dtype)).all()) and tuple(out.shape) == (len(msgs), k)
                        ops.append(Op("pkron 0", "1", nontrivial=False, info={"site": "fec.decoders:SuccessiveCancellationDecoder.clean", "config": dict(cfgm, regime=regime, magnitude=a, user_mask=True)}, prop_ok=ok))
                    if regime == "min_sum":
                        Lr = torch.tensor([[rng.choice([-1, 1]) * rng.randrange(1, 512) / 8 for _ in range(N)] for _ in range(2)], dtype=torch.float32)
                        for row, o in zip(Lr.tolist(), sc(Lr).tolist()):
                            MARGIN[0] = float("inf")
                            textbook_sc(row, [bool(v) for v in mask], fzv, inter, f_ms)
                            if MARGIN[0] < 1e-9:
                                continue
                            ops.append(Op("psc %d %d %d 1000 %s %s" % (m_, inter, fzv, bstr(mask), fr(row)), bstr(o), nontrivial=True,
                                          info={"site": "fec.decoders:SuccessiveCancellationDecoder", "config": dict(cfgm, regime=regime, user_mask=True)}))
                if not inter:      # the BP decoder rejects polar_i=True at construction (an error, not a wrong answer)
                    try:
                        bp = quiet(BeliefPropagationPolarDecoder, enc, bp_iters=20)
                        outb = quiet(bp, (1 - 2 * X) * 4.0)
                        okb = bool((outb == torch.tensor(msgs, dtype=outb.dtype)).all())
                    except Exception as e_:
                        okb = False
                    ops.append(Op("pkron 0", "1", nontrivial=False, info={"site": "fec.decoders:BeliefPropagationPolarDecoder.clean", "config": dict(cfgm, user_mask=True)}, prop_ok=okb))
        ctx.count("user_mask_decoders")
    # ---- the check-node rule itself, band by band (each call holds only values of one band), against the float64 definition
    from kaira.models.fec.encoders.polar_code import PolarCodeEncoder as _PE
    scn = SuccessiveCancellationDecoder(_PE(2, 4), regime="sum_product")
    worst = {}
    for band in ((0.01, 0.1), (0.3, 1.0), (1.0, 5.0), (5.0, 12.0), (12.0, 18.0), (18.0, 22.0), (19.9, 20.1), (22.0, 40.0), (40.0, 90.0)):
        pa = [rng.choice([-1, 1]) * rng.uniform(*band) for _ in range(64)]
        pb = [rng.choice([-1, 1]) * (abs(a) + rng.uniform(-0.02, 0.02) * abs(a) if j % 2 else rng.uniform(*band)) for j, a in enumerate(pa)]
        ta, tb = torch.tensor([pa], dtype=torch.float32), torch.tensor([pb], dtype=torch.float32)
        got = scn.checknode((ta, tb)).flatten().tolist()
        dev = max(abs(g - f_sp(float(a), float(b))) / (1e-3 + abs(f_sp(float(a), float(b)))) for g, a, b in zip(got, ta.flatten().tolist(), tb.flatten().tolist()))
        worst["%g-%g" % band] = dev
        ops.append(Op("pkron 0", "1", nontrivial=False, info={"site": "fec.decoders:SuccessiveCancellationDecoder.checknode", "config": {"band": list(band), "max_rel_dev": dev}}, prop_ok=dev < 2e-3))
    ctx.extra["checknode_max_rel_dev"] = worst
    # the structural claim behind C11.sumProduct_signLaw: for non-zero inputs of ANY magnitude the rule returns a non-zero value
    # with the sign sign(x).sign(y) (model: sign re-imposed on an arbitrary inner value)
    from kaira.models.fec.utils import sum_product as _sp
    mags = [1e-38, 1e-30, 1e-12, 1e-6, 1e-3, 0.1, 1.0, 9.99, 10.0, 10.01, 17.0, 37.0, 88.0, 500.0, 1e4, 1e30]
    xs = torch.tensor([sa * a for a in mags for b in mags for sa in (1, -1) for sb in (1, -1)], dtype=torch.float32)
    ys = torch.tensor([sb * b for a in mags for b in mags for sa in (1, -1) for sb in (1, -1)], dtype=torch.float32)
    r = _sp(xs, ys)
    okr = bool(((r != 0) & (torch.sign(r) == torch.sign(xs) * torch.sign(ys)) & torch.isfinite(r)).all())
    bad = [(float(a), float(b), float(v)) for a, b, v in zip(xs.tolist(), ys.tolist(), r.tolist()) if v == 0 or (v < 0) != ((a < 0) != (b < 0)) or v != v][:3]
    ops.append(Op("pkron 0", "1", nontrivial=False, info={"site": "fec.utils:sum_product.sign", "config": {"pairs": len(xs), "first_bad": bad}}, prop_ok=okr))
    ctx.count("sum_product_sign_pairs", len(xs))
    return ops


def search(ctx, mismatches, broken, prop_fail):
    out, seen = [], set()
    # a changed ranking: find the (N, k) whose information set is not k positions / the duplicate entry
    r = rank()
    ref = rank5g()
    if r != ref:
        # the failing input: the smallest (N, k) whose information set is not the 5G one
        hit = None
        for N in (2 ** j for j in range(1, 11)):
            a = [v for v in r if v < N]; b = [v for v in ref if v < N]
            for k in range(1, N):
                if set(a[: N - k]) != set(b[: N - k]):
                    hit = (N, k, sorted(set(range(N)) - set(a[: N - k])), sorted(set(range(N)) - set(b[: N - k])))
                    break
            if hit:
                break
        i = next((j for j, (x, y) in enumerate(zip(r, ref)) if x != y), min(len(r), len(ref)))
        if hit:
            out.append({"site": "fec.encoders:polar.rank", "config": {"N": hit[0], "k": hit[1]}, "kind": "failing-input",
                        "what": "rank_polar.csv differs from the 5G sequence at entry %d; PolarCodeEncoder(%d, %d) carries message bits on positions %s that the 5G ranking freezes, and freezes %s" % (i, hit[1], hit[0], sorted(set(hit[2]) - set(hit[3]))[:8], sorted(set(hit[3]) - set(hit[2]))[:8]), "ops": ["pinfo %d %d" % (hit[0], hit[1])]})
    if sorted(r) != list(range(1024)):
        dup = [v for v in set(r) if r.count(v) > 1][:3]
        out.append({"site": "fec.encoders:polar.rank", "config": {}, "kind": "failing-input", "what": "rank_polar.csv is not a permutation of 0..1023 (duplicates %s, missing %s)" % (dup, sorted(set(range(1024)) - set(r))[:3]), "ops": []})
    for pf in prop_fail + mismatches:
        cfg = pf["info"].get("config", {})
        site = pf["info"].get("site")
        key = (site, cfg.get("N"), cfg.get("polar_i"), cfg.get("regime"))
        if site is None or key in seen:
            continue
        seen.add(key)
        if pf in mismatches and pf not in prop_fail:
            what = "%s %s: implementation gives %s, Arikan-transform / textbook-SC model gives %s (op %s)" % (site, cfg, pf["impl"][:80], str(pf.get("model"))[:80], pf["op"][:120])
        else:
            what = "%s %s" % (site, {k: v for k, v in cfg.items()})
        out.append({"site": site, "config": cfg, "what": what, "ops": [pf["op"][:400]], "impl_output": pf["impl"][:200], "kind": "failing-input"})
    return out[:10]


def finding_reproduces(ctx, f):
    return False


def replay(ctx, payload):
    print("replay: re-run ./check C11; op lines:", payload.get("ops"))
    return 0
