"""C02 — hard-decision decoders correct every error pattern within advertised capability."""
import itertools
import numpy as np
from ..runner import Op
from .. import feccat
from . import c01, c03

ID = "C02"
KINDS = {"U": ["weight_triangle", "nearest_decoder_corrects", "ml_is_nearest", "ml_corrects", "ml_corrects_large", "syndrome_decoder_corrects", "syndrome_table_entry", "hamming_inverse_corrects",
               "bm_reduction (BMProofs.correct_add_of_zero, syndAt_codeword)", "bm_corrects_small", "bm_output_certified (BMProofs.light_zero_syndromes_zero)", "bm_corrects_t1 (BMProofs.bm_t1, locate_single)", "bm_corrects_t2 (BMProofs.bm_t2, disc2_char2, locate_pair)", "bm_no_error", "bm_root_search_exact", "bm_syndromes_conjugate",
               "ReedProofs.reed_corrects (reed_decoder_corrects)"],
         "R": ["syndrome_decoder_instances"],
         "K": ["C03.instances_ok (distances, shared catalogue)", "C01.instances_ok (null space, right inverse)", "C03.bch_ok", "bm_light_small", "reed_ok", "reed_instances_in_catalogue"]}
PARTIAL = ["Berlekamp-Massey: modelled (Kaira/BM.lean: syndromes, tabular BM, Chien-style search) and tied line by line (decoded messages, internals); "
           "proved: the correction depends on the syndromes only, syndromes are additive and vanish on code words of a certified BCH instance, hence "
           "decoding (code word + e) = decoding e on the zero code word for EVERY instance (bm_reduction); full correctness within capability is a "
           "theorem for t = 1 and t = 2 at every length (bm_corrects_t1, bm_corrects_t2) and where the kernel can run the decoder on every light pattern (bm_corrects_small); for the larger instances the light "
           "patterns on the zero code word are run through the compiled model and the implementation by the check (exhaustive where <= 700 / 3000 patterns) - "
           "a test of the model lifted by the theorem, not a proof that the BM recursion finds the locator",
           "syndrome-table decoder, Hamming inverse and RM nearest-codeword inverse: tied to executable models by the correspondence; "
           "'nearest' is proved for the ML model only"]
RULE = ("decode lines: codewords x error patterns of weight <= t (exhaustive when the product <= 2*10^4, sampled otherwise) and arbitrary words "
        "(all 2^n for n <= 12 quick); the model must return the same message incl. tie-breaks; non-trivial = non-zero error pattern")
ASSUMPTIONS = c01.ASSUMPTIONS + ["torch.argmin returns the first minimal index"]

def reed_data(ctx=None):
    """per Reed-Muller instance: generator rows, the published check groups as position masks, t"""
    from kaira.models.fec.decoders import ReedMullerDecoder
    out = {}
    for name, d in c03.data(ctx).items():
        c = d["c"]
        if c.family != "reed_muller" or d["n"] > 64:
            continue
        dec = ReedMullerDecoder(c.enc)
        parts = [[sum(1 << int(p) for p in grp) for grp in part.tolist()] for part in dec._reed_partitions]
        out[name] = dict(n=d["n"], k=d["k"], t=capability(d), G=d["G"], parts=parts)
    return out


def extract(ctx):
    files = dict(c03.extract(ctx))
    lst = lambda v: "[" + ", ".join(str(x) for x in v) + "]"
    rows = []
    for name, r in reed_data(ctx).items():
        rows.append('  { name := "%s", n := %d, k := %d, t := %d, G := %s, parts := [%s] }'
                    % (name, r["n"], r["k"], r["t"], lst(r["G"]), ", ".join(lst(p) for p in r["parts"])))
    files["C02R"] = ("-- generated from /repo: Reed-Muller generator rows and the check groups get_reed_partitions() publishes for them\n"
                     "import Kaira.Reed\nopen Kaira.Reed\nnamespace Generated.C02R\ndef instances : List ReedInst := [\n" + ",\n".join(rows) + "]\nend Generated.C02R\n")
    return files
bits = c01.bits


def patterns(n, wmax):
    for w in range(0, wmax + 1):
        for pos in itertools.combinations(range(n), w):
            e = [0] * n
            for p in pos:
                e[p] = 1
            yield e


def words_for(ctx, enc, n, k, t, budget):
    """(received word, transmitted message or None) pairs"""
    import torch
    rng = ctx.rng
    out = []
    msgs = c01.messages(ctx, k, 6, 12)
    from math import comb
    npat = sum(comb(n, w) for w in range(t + 1))
    pats = list(patterns(n, t)) if npat * len(msgs) <= budget else None
    M = torch.tensor(msgs, dtype=torch.float32)
    C = enc(M)
    if pats is not None:
        for m, cw in zip(msgs, C.tolist()):
            for e in pats:
                out.append(([int(a) ^ b for a, b in zip(map(int, cw), e)], m, sum(e)))
    else:
        for m, cw in zip(msgs, C.tolist()):
            for w in range(0, t + 1):
                for _ in range(3):
                    e = [0] * n
                    for p in rng.sample(range(n), w):
                        e[p] = 1
                    out.append(([int(a) ^ b for a, b in zip(map(int, cw), e)], m, w))
    return out


def arbitrary_words(ctx, n, full_upto, nrand):
    if n <= full_upto:
        return [list(w) for w in itertools.product([0, 1], repeat=n)]
    return [[ctx.rng.getrandbits(1) for _ in range(n)] for _ in range(nrand)]


def _dec(fn, W):
    import torch
    try:
        out = fn(torch.tensor(W, dtype=torch.float32))
        out = out[0] if isinstance(out, tuple) else out
        return [bits(r) for r in out.tolist()]
    except Exception as e:
        return ["other:%s" % type(e).__name__] * len(W)


def plan(ctx):
    """(instance name, decoder kind) pairs this run exercises"""
    dd = c03.data(ctx)
    out = []
    for name, d in dd.items():
        c = d["c"]
        n, k = d["n"], d["k"]
        r = n - k
        if k <= (10 if ctx.thorough else 8) and (n <= 24 or name.startswith("wide") or (c.family in ("bch", "reed_muller") and n >= 63)):
            out.append((name, "ml"))
        if r <= (11 if ctx.thorough else 8) and n <= 24 and c.family != "reed_muller":
            out.append((name, "syn"))
        if c.family == "hamming" and c.params["mu"] <= (5 if ctx.thorough else 4):
            out.append((name, "ham"))
        if c.family == "reed_muller" and k <= (11 if ctx.thorough else 8):
            out.append((name, "rminv"))
        # Berlekamp-Massey works on polynomial coefficient order: the property quantifies over "both information sets" ('left', 'right');
        # an index-list information set gives a coordinate-permuted (non-cyclic) code the decoder is not specified for
        if c.family == "bch" and isinstance(c.params["info"], str) and c.params["mu"] <= (5 if ctx.thorough else 4):
            out.append((name, "bm"))
        if c.family == "reed_muller" and c.params["m"] <= (5 if ctx.thorough else 4) and k <= 16:
            out.append((name, "reed"))
    if True:
        # quick tier: at most 7 instances per (family, decoder), spread over the catalogue order; thorough: at most 30 (the catalogue has
        # several hundred instances - all of them with 20000 words each exhausted the memory of the sandbox)
        cap = 30 if ctx.thorough else 7
        byk = {}
        for name, kind in out:
            byk.setdefault((dd[name]["c"].family, kind), []).append((name, kind))
        out = []
        for key, lst in byk.items():
            chosen, seen_info = [], set()
            for item in lst:                      # one instance per kind of information set first
                tag = str(dd[item[0]]["c"].params.get("info", ""))
                if tag not in seen_info:
                    seen_info.add(tag); chosen.append(item)
            step = max(1, len(lst) // (cap - 3))
            for item in lst[1::step]:
                if item not in chosen and len(chosen) < cap:
                    chosen.append(item)
            out += chosen[:cap]
    return out


def capability(d):
    """t = floor((d-1)/2) for the advertised distance (0 if none advertised or a listed finding)"""
    if not d["advD"] or d["knownBad"]:
        return 0
    return (d["advD"] - 1) // 2


_TESTS = []   # (site, config, what) failures of the BM / Reed exhaustive tests on the implementation


def corr(ctx):
    import torch
    from kaira.models.fec.decoders import SyndromeLookupDecoder, BruteForceMLDecoder, BerlekampMasseyDecoder, ReedMullerDecoder
    dd = c03.data(ctx)
    ops = []
    defined = set()
    _TESTS.clear()
    for name, kind in plan(ctx):
        d = dd[name]
        c = d["c"]
        enc = c.enc
        n, k = d["n"], d["k"]
        t = capability(d)
        if name not in defined:
            ops.append(Op(c01.defcode_line(c), "ok", nontrivial=False))
            defined.add(name)
        cases = words_for(ctx, enc, n, k, t, 8000 if ctx.thorough else 4000)
        cfg = {"inst": name, "family": c.family, "decoder": kind}
        if kind in ("ml", "syn", "ham", "rminv"):
            extra = arbitrary_words(ctx, n, 12 if ctx.thorough else 10, 60 if ctx.thorough else 20) if kind in ("ml", "syn", "rminv") else []
            W = [w for w, _, _ in cases] + extra
            if kind == "ml":
                fn, verb, site = BruteForceMLDecoder(enc), "ml", "fec.decoders:BruteForceMLDecoder"
            elif kind == "syn":
                fn, verb, site = SyndromeLookupDecoder(enc), "syndec", "fec.decoders:SyndromeLookupDecoder"
            elif kind == "ham":
                fn, verb, site = enc.inverse_encode, "haminv", "fec.encoders:hamming.inverse_encode"
            else:
                fn, verb, site = enc.inverse_encode, "ml", "fec.encoders:reed_muller.inverse_encode"
            res = _dec(fn, W)
            # the same hard bits handed over as uint8 / int64 / float64 tensors must decode to the same messages
            import torch as _t
            for dt_ in (_t.uint8, _t.int64, _t.float64):
                try:
                    o_ = fn(_t.tensor(W[:24], dtype=dt_))
                    o_ = o_[0] if isinstance(o_, tuple) else o_
                    alt = [bits(r_) for r_ in o_.tolist()]
                except Exception as e_:
                    alt = None         # a rejected dtype is an error, not a wrong answer
                if alt is not None:
                    badi = next((i_ for i_, (a_, b_) in enumerate(zip(alt, res[:24])) if a_ != b_), None)
                    ops.append(Op("gray 0", "0", nontrivial=False, prop_ok=(badi is None),
                                  info={"site": site + ".dtype", "config": dict(cfg, dtype=str(dt_), word=bits(W[badi]) if badi is not None else None, got=alt[badi] if badi is not None else None, float32_answer=res[badi] if badi is not None else None)}))
            info_set = ",".join(str(int(i)) for i in enc.information_set.tolist()) if kind == "ham" else None
            for i, (w, out) in enumerate(zip(W, res)):
                sent = cases[i][1] if i < len(cases) else None
                wt = cases[i][2] if i < len(cases) else None
                line = "%s %s %s%s" % (verb, name, (info_set + " ") if info_set else "", bits(w))
                # the property itself on the implementation: within capability the message must come back
                ok = None if sent is None else (out == bits(sent) or (kind == "ham" and wt > 1))
                ops.append(Op(line, out, nontrivial=bool(wt) if wt is not None else True, info={"site": site, "config": dict(cfg, sent=bits(sent) if sent else None, weight=wt)}, prop_ok=ok))
            ctx.count("dec_" + kind, len(W))
        else:
            # Berlekamp-Massey / Reed majority: exhaustive TEST of the implementation (no Lean model)
            if kind == "bm":
                fn, site = BerlekampMasseyDecoder(enc), "fec.decoders:BerlekampMasseyDecoder"
                tt = int(enc.error_correction_capability)
            else:
                fn, site = ReedMullerDecoder(enc), "fec.decoders:ReedMullerDecoder"
                tt = t
            cs = words_for(ctx, enc, n, k, tt, 6000 if ctx.thorough else 800)
            if not ctx.thorough and len(cs) > 800:
                cs = ctx.rng.sample(cs, 800)
            res = _dec(fn, [w for w, _, _ in cs])
            if kind == "reed" and name in reed_data(ctx):
                # the Lean model of Reed's decoder (Kaira/Reed.lean) on the published check groups: within capability and on arbitrary words
                rd = reed_data(ctx)[name]
                ops.append(Op("defreed %s %s" % (name, "/".join(",".join(str(x) for x in p) for p in rd["parts"])), "ok", nontrivial=False))
                for (w, m_, wt), o in list(zip(cs, res))[: (600 if ctx.thorough else 150)]:
                    ops.append(Op("reed %s %s" % (name, bits(w)), o, nontrivial=bool(wt), info={"site": site, "config": dict(cfg, sent=bits(m_), weight=wt)}, prop_ok=(o == bits(m_))))
                AW = arbitrary_words(ctx, n, 0, 30 if ctx.thorough else 12)
                for w, o in zip(AW, _dec(fn, AW)):
                    ops.append(Op("reed %s %s" % (name, bits(w)), o, nontrivial=True, info={"site": site, "config": dict(cfg, arbitrary=True)}))
                ctx.count("reed_model_lines", min(len(cs), 150) + len(AW))
            if kind == "bm":
                # the Lean model of the decoder (Kaira/BM.lean): decoded messages line by line, the internals (syndromes, error locator,
                # error positions) on a sample, and EVERY error pattern of weight <= t on the zero code word (BMProofs.bm_reduction lifts
                # those to every code word)
                fld = enc._field
                PP, mm = int(fld.modulus.value), int(c.params["mu"])
                for (w, m_, wt), o in list(zip(cs, res))[: (400 if ctx.thorough else 120)]:
                    ops.append(Op("bmdec %s %d %d %d %s" % (name, PP, mm, tt, bits(w)), o, nontrivial=bool(wt),
                                  info={"site": site, "config": dict(cfg, sent=bits(m_), weight=wt)}, prop_ok=(o == bits(m_))))
                light = [p_ for wgt in range(0, tt + 1) for p_ in itertools.combinations(range(n), wgt)]
                if len(light) > (3000 if ctx.thorough else 700):
                    light = [()] + ctx.rng.sample(light[1:], (3000 if ctx.thorough else 700) - 1)
                LW = [[1 if j in set(p_) else 0 for j in range(n)] for p_ in light]
                for w, o, p_ in zip(LW, _dec(fn, LW), light):
                    ops.append(Op("bmdec %s %d %d %d %s" % (name, PP, mm, tt, bits(w)), o, nontrivial=bool(p_),
                                  info={"site": site, "config": dict(cfg, sent=bits([0] * k), weight=len(p_), zero_codeword=True)}, prop_ok=(o == bits([0] * k))))
                ctx.count("bm_light_patterns_on_zero_codeword", len(LW))
                # certificate of every answer (C02.bm_output_certified): corrected word = received xor reported error pattern must have
                # all-zero syndromes and lie within distance t of the received word - evaluated by the model on the implementation's output
                import torch as _t
                CW = [w for w, _, _ in cs[: (300 if ctx.thorough else 80)]] + LW[: (600 if ctx.thorough else 150)]
                try:
                    _, errs = fn(_t.tensor(CW, dtype=_t.float32), return_errors=True)
                    for w, er in zip(CW, errs.tolist()):
                        corr_w = [int(round(a)) ^ int(round(b)) for a, b in zip(w, er)]
                        ops.append(Op("bmcert %s %d %d %s %s" % (name, PP, tt, bits(corr_w), bits(w)), "ok", nontrivial=any(int(round(b)) for b in er),
                                      info={"site": site + ".certificate", "config": dict(cfg)}))
                    ctx.count("bm_certified_outputs", len(CW))
                except Exception as e_:
                    ops.append(Op("bmcert %s %d %d %s %s" % (name, PP, tt, bits(CW[0]), bits(CW[0])), "other:%s" % type(e_).__name__, info={"site": site + ".certificate", "config": dict(cfg)}))
                # internals, also beyond the capability (arbitrary words): model and implementation must agree step by step
                rng = ctx.rng
                sample = [w for w, _, _ in cs[:6]] + [[rng.getrandbits(1) for _ in range(n)] for _ in range(6)] if tt >= 1 else []
                for w in sample:
                    try:
                        rf = [fld(int(b)) for b in w]
                        S = enc.calculate_syndrome_polynomial(rf)
                        if all(x == fld.zero for x in S):
                            impl = "S %s clean" % ",".join(str(int(x.value)) for x in S)
                        else:
                            sg = fn.berlekamp_massey_algorithm(S)
                            pos = fn._find_error_locations(sg)
                            impl = "S %s L %s E %s" % (",".join(str(int(x.value)) for x in S), ",".join(str(int(x.value)) for x in sg), ",".join(map(str, pos)) or "-")
                    except Exception as e_:
                        impl = "other:%s" % type(e_).__name__
                    ops.append(Op("bmint %d %d %d %d %s" % (PP, mm, tt, n, bits(w)), impl, nontrivial=True, info={"site": site + ".internals", "config": dict(cfg)}))
                ctx.count("bm_internal_lines", len(sample))
            bad = [(w, m, wt, o) for (w, m, wt), o in zip(cs, res) if o != bits(m)]
            ctx.count("test_" + kind, len(cs))
            if bad:
                w, m, wt, o = min(bad, key=lambda b: b[2])
                _TESTS.append({"site": site, "config": dict(cfg, weight=wt), "kind": "failing-input",
                               "what": "%s on %s: received %s = encode(%s) + error of weight %d <= t = %d decodes to %s" % (kind, name, bits(w), bits(m), wt, tt, o),
                               "ops": ["%s %s %s" % (kind, name, bits(w))]})
    ctx.extra["implementation_tests_failed"] = len(_TESTS)
    if _TESTS:
        # surfaces through search(): a failing implementation test is a property failure with a concrete input
        ops.append(Op("gray 0", "0", nontrivial=False, prop_ok=False, info={"site": "tests", "config": {}}))
    return ops


def search(ctx, mismatches, broken, prop_fail):
    out = list(_TESTS)
    seen = set()
    for pf in prop_fail + mismatches:
        cfg = pf["info"].get("config", {})
        if str(pf["info"].get("site", "")).endswith(".dtype") and cfg.get("word"):
            out.append({"site": pf["info"]["site"], "config": cfg, "kind": "failing-input", "ops": [],
                        "what": "%s decoder on %s: the received word %s given as a %s tensor decodes to %s, as float32 to %s" % (cfg.get("decoder"), cfg.get("inst"), cfg.get("word"), cfg.get("dtype"), cfg.get("got"), cfg.get("float32_answer"))})
            continue
        if not cfg.get("inst") or cfg.get("sent") is None:
            continue
        key = (cfg["inst"], cfg["decoder"])
        if key in seen:
            continue
        if pf["impl"] != cfg["sent"] and not (cfg["decoder"] == "ham" and (cfg.get("weight") or 0) > 1):
            seen.add(key)
            out.append({"site": pf["info"]["site"], "config": {k: v for k, v in cfg.items() if k != "sent"}, "kind": "failing-input",
                        "what": "%s decoder on %s: %s (error weight %s within capability) decodes to %s, transmitted %s" % (cfg["decoder"], cfg["inst"], pf["op"].split()[-1], cfg.get("weight"), pf["impl"], cfg["sent"]),
                        "ops": [pf["op"]]})
    # complete decoders: the returned message must be at minimum distance for arbitrary words
    dd = c03.data(ctx)
    for m in mismatches:
        cfg = m["info"].get("config", {})
        if cfg.get("decoder") in ("ml", "syn", "rminv") and cfg.get("sent") is None and cfg.get("inst") in dd:
            d = dd[cfg["inst"]]
            w = int(m["op"].split()[-1][::-1], 2) if set(m["op"].split()[-1]) <= {"0", "1"} else None
            if w is None or not set(m["impl"]) <= {"0", "1"}:
                continue
            msg = int(m["impl"][::-1], 2)
            cw = 0
            for i, g in enumerate(d["G"]):
                if (msg >> i) & 1:
                    cw ^= g
            dist = bin(cw ^ w).count("1")
            best = min(bin(w ^ x).count("1") for x in _codewords(d))
            if dist > best and (cfg["inst"], "nearest") not in seen:
                seen.add((cfg["inst"], "nearest"))
                out.append({"site": m["info"]["site"], "config": {k: v for k, v in cfg.items() if k != "sent"}, "kind": "failing-input",
                            "what": "%s decoder on %s: word %s decodes to a codeword at distance %d, but a codeword at distance %d exists" % (cfg["decoder"], cfg["inst"], m["op"].split()[-1], dist, best),
                            "ops": [m["op"]]})
    return out[:10]


def _codewords(d):
    cw, res = 0, [0]
    for i in range(1, 1 << d["k"]):
        j = (i & -i).bit_length() - 1
        cw ^= d["G"][j]
        res.append(cw)
    return res


def finding_reproduces(ctx, f):
    return False


def replay(ctx, payload):
    print("replay: re-run ./check C02; op lines:", payload.get("ops"))
    return 0
