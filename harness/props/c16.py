"""C16 — error-rate metrics are exact counts; streaming form is partition-independent."""
import itertools
from fractions import Fraction
from ..runner import Op

ID = "C16"
KINDS = {"U": ["diffCount_comm", "diffCount_eq_zero_iff", "ber_exact", "stream_eq_oneshot", "partition_independent",
               "order_independent", "history_refinement", "ber_bler_sandwich", "bler_reject", "symCode_blocks"]}
PARTIAL = ["exactness of compute() beyond 2^24 accumulated bits (float32 quotient) is outside the model; the tie compares the float with the exact fraction at 1e-6"]
RULE = ("one line = one whole history (update/compute/reset/forward tokens) run on a fresh metric object; exhaustive short "
        "histories over a pool of batches + random long ones; non-trivial = the history contains an update with at least one differing element and a compute")
ASSUMPTIONS = ["tensor elements are drawn from a small set of exactly representable values so thresholding is exact"]


def _fmt(vals):
    return ",".join(str(Fraction(v)) for v in vals) if len(vals) else "-"


def _rows(t):
    if t.dim() <= 1:
        return _fmt(t.tolist())
    return ";".join(_fmt(r.flatten().tolist()) for r in t)


def _tok(x):
    try:
        return repr(float(x))
    except Exception:
        return "other"


def _cmp(model, impl):
    a, b = model.split(), impl.split()
    if len(a) != len(b):
        return False
    for x, y in zip(a, b):
        if x in ("ok", "reject") or y in ("ok", "reject") or y.startswith("other"):
            if x != y:
                return False
        else:
            try:
                if abs(float(Fraction(x)) - float(y)) > 1e-6:
                    return False
            except Exception:
                return False
    return True


def _run_ber(torch, metric_cls, thr, hist):
    m = metric_cls(threshold=thr) if thr is not None else metric_cls()
    out = []
    for op in hist:
        try:
            if op[0] == "u":
                m.update(op[1], op[2]); out.append("ok")
            elif op[0] == "c":
                out.append(_tok(m.compute()))
            elif op[0] == "r":
                m.reset(); out.append("ok")
            elif op[0] == "f":
                out.append(_tok(m(op[1], op[2])))
        except ValueError:
            out.append("reject")
        except Exception as e:
            out.append("other:" + type(e).__name__)
    return " ".join(out)


def _ref(hist, kind, bs=None, thr=0.5):
    """independent reference counter: exact Fractions; returns token list"""
    tot = err = 0
    out = []

    def count(x, y):
        if tuple(x.shape) != tuple(y.shape):
            return None
        if kind == "ber":
            if x.is_complex():
                xs = [v.real for v in x.flatten().tolist()] + [v.imag for v in x.flatten().tolist()]
                ys = [v.real for v in y.flatten().tolist()] + [v.imag for v in y.flatten().tolist()]
            else:
                xs, ys = x.flatten().tolist(), y.flatten().tolist()
            return len(xs), sum((a > thr) != (b > thr) for a, b in zip(xs, ys))
        rows_x = [r.flatten().tolist() for r in x] if x.dim() > 1 else [[v] for v in x.tolist()] if bs is None else None
        if x.dim() == 1:
            rows_x = [[v] for v in x.tolist()]
            rows_y = [[v] for v in y.tolist()]
        else:
            rows_y = [r.flatten().tolist() for r in y]
        n = e = 0
        for rx, ry in zip(rows_x, rows_y):
            b = bs if bs is not None else max(len(rx), 1)
            if len(rx) % b:
                return None
            for i in range(0, len(rx), b):
                n += 1
                e += any(abs(a - c) > thr for a, c in zip(rx[i:i + b], ry[i:i + b]))
        return n, e

    for op in hist:
        if op[0] == "u":
            c = count(op[1], op[2])
            if c is None:
                out.append("reject")
            else:
                tot += c[0]; err += c[1]; out.append("ok")
        elif op[0] == "c":
            out.append(Fraction(err, max(tot, 1)))
        elif op[0] == "r":
            tot = err = 0; out.append("ok")
        elif op[0] == "f":
            c = count(op[1], op[2])
            out.append("reject" if c is None else (Fraction(c[1], c[0]) if c[0] else Fraction(0)))
    return out


def _agrees(impl, ref):
    a = impl.split()
    if len(a) != len(ref):
        return False
    for x, y in zip(a, ref):
        if isinstance(y, Fraction):
            try:
                if abs(float(x) - float(y)) > 1e-6:
                    return False
            except ValueError:
                return False
        elif x != y:
            return False
    return True


def _encode_ber(hist):
    toks = []
    for op in hist:
        if op[0] in ("u", "f"):
            x, y = op[1], op[2]
            if x.is_complex():
                toks.append("uc|%s|%s|%s|%s" % (_fmt(x.real.flatten().tolist()), _fmt(x.imag.flatten().tolist()), _fmt(y.real.flatten().tolist()), _fmt(y.imag.flatten().tolist())))
            else:
                toks.append("%s|%s|%s" % (op[0], _fmt(x.flatten().tolist()), _fmt(y.flatten().tolist())))
        else:
            toks.append(op[0])
    return toks


def _realcode(t):
    """complex-form binary data (re, im in {0,1}) -> real symbols 2*re+im: entries differ iff the codes differ by >= 1"""
    return 2 * t.real + t.imag if t.is_complex() else t


def _decomplex(hist):
    return [(op[0], _realcode(op[1]), _realcode(op[2])) if op[0] in ("u", "f") else op for op in hist]


def _encode_bler(hist):
    toks = []
    for op in _decomplex(hist):
        if op[0] in ("u", "f"):
            toks.append("%s|%s|%s" % (op[0], _rows(op[1]), _rows(op[2])))
        else:
            toks.append(op[0])
    return toks


def _histories(ctx, pool, maxlen_exh, n_rand, rand_len):
    rng = ctx.rng
    alphabet = [("u", p[0], p[1]) for p in pool] + [("c",), ("r",)]
    for L in range(1, maxlen_exh + 1):
        for seq in itertools.product(alphabet, repeat=L):
            yield list(seq)
    for _ in range(n_rand):
        n = rng.randint(1, rand_len)
        yield [rng.choice(alphabet + [("c",)]) for _ in range(n)] + [("c",)]


def _gen(ctx):
    """yields (kind, params, history) triples"""
    import torch
    rng = ctx.rng
    T = torch.tensor

    def bits(n):
        return T([float(rng.getrandbits(1)) for _ in range(n)])

    # ---- BER
    a, b = bits(4), bits(4)
    pool = [(a, b), (bits(3), bits(3)), (T([[1., 0.], [1., 1.]]), T([[1., 1.], [0., 1.]])), (bits(7), bits(7)), (T([0.75, 0.25, -1.0, 2.0]), T([0.25, 0.25, 2.0, 2.0]))]
    exh = 6 if ctx.thorough else 4
    for h in _histories(ctx, pool[:3], exh if not ctx.thorough else 5, 150 if ctx.thorough else 30, 200 if ctx.thorough else 60):
        yield "ber", 0.5, h
    for h in _histories(ctx, pool, 2, 20, 40):
        yield "ber", 0.5, h
    # two batches of the SAME size with different error counts: every history up to length 6 over {u0, u1, compute, reset}
    # (a stale value keyed on totals, a reset that forgets part of the state, ... only show when totals repeat)
    twin = [(T([1., 0., 1., 1.]), T([1., 0., 1., 0.])), (T([0., 0., 1., 1.]), T([1., 1., 0., 1.]))]
    for h in _histories(ctx, twin, 6, 0, 0):
        if h[-1] == ("c",) and ("r",) in h:
            yield "ber", 0.5, h
    # adversarial pairs, one-shot and streaming
    for n in (1, 2, 5, 8):
        x = bits(n)
        yield "ber", 0.5, [("f", x, x.clone()), ("u", x, x.clone()), ("c",)]
        yield "ber", 0.5, [("f", x, 1 - x), ("u", x, 1 - x), ("c",)]
        for i in range(n):
            y = x.clone(); y[i] = 1 - y[i]
            yield "ber", 0.5, [("f", x, y), ("f", y, x), ("u", x, y), ("u", y, x), ("c",)]
    # mismatching shapes, complex
    yield "ber", 0.5, [("u", bits(3), bits(4)), ("c",), ("f", bits(2), bits(3))]
    for _ in range(10):
        n = rng.randint(1, 6)
        x = torch.complex(bits(n), bits(n)); y = torch.complex(bits(n), bits(n))
        yield "ber", 0.5, [("u", x, y), ("c",), ("u", y, x), ("c",), ("r",), ("c",)]
    # partitions of the same data, permuted batches
    for _ in range(30 if ctx.thorough else 10):
        n = rng.randint(2, 24)
        x, y = bits(n), bits(n)
        cuts = sorted(rng.sample(range(1, n), min(n - 1, rng.randint(0, 4))))
        parts = [(x[i:j], y[i:j]) for i, j in zip([0] + cuts, cuts + [n])]
        rng.shuffle(parts)
        yield "ber", 0.5, [("u", p, q) for p, q in parts] + [("c",), ("f", x, y)]
    # ---- BLER (and aliases) with block sizes incl. non-divisors
    for bs in (None, 1, 2, 3, 4):
        def rows(B, L):
            return T([[float(rng.getrandbits(1)) for _ in range(L)] for _ in range(B)])
        pool_b = [(rows(2, 4), rows(2, 4)), (rows(1, 6), rows(1, 6)), (rows(3, 12), rows(3, 12))]
        for h in _histories(ctx, pool_b, 3 if not ctx.thorough else 4, 40 if ctx.thorough else 8, 100 if ctx.thorough else 30):
            yield "bler", bs, h
        if bs in (None, 2):
            xx = rows(2, 4)
            y1 = xx.clone(); y1[0, 1] = 1 - y1[0, 1]
            y2 = 1 - xx
            for h in _histories(ctx, [(xx, y1), (xx, y2)], 5, 0, 0):
                if h[-1] == ("c",) and ("r",) in h:
                    yield "bler", bs, h
        x = rows(2, 12)
        for i in range(12):
            y = x.clone(); y[1, i] = 1 - y[1, i]
            yield "bler", bs, [("f", x, y), ("u", x, y), ("u", y, x), ("c",)]
        yield "bler", bs, [("f", x, x.clone()), ("f", x, 1 - x), ("u", x, 1 - x), ("c",), ("r",), ("c",)]
        yield "bler", bs, [("u", rows(2, 5), rows(2, 5)), ("c",), ("u", rows(2, 7), rows(2, 7)), ("c",)]
        z = torch.tensor([[[1., 0.], [0., 1.], [1., 1.]], [[0., 0.], [1., 0.], [1., 1.]]])
        yield "bler", bs, [("u", z, 1 - z), ("u", z, z.clone()), ("c",)]
        # complex-form symbols (re, im in {0,1}): a symbol differs when either part differs
        cx = torch.complex(rows(2, 4), rows(2, 4))
        for part in (0, 1):
            for i in range(4):
                d = torch.zeros(2, 4); d[i % 2, i] = 1.0
                cy = torch.complex((cx.real + d) % 2, cx.imag) if part == 0 else torch.complex(cx.real, (cx.imag + d) % 2)
                yield "bler", bs, [("f", cx, cy), ("f", cy, cx), ("u", cx[:1], cy[:1]), ("u", cx[1:], cy[1:]), ("c",)]
        cy = torch.complex(rows(2, 4), rows(2, 4))
        yield "bler", bs, [("f", cx, cy), ("u", cx, cy), ("u", cx, cx.clone()), ("c",), ("r",), ("c",)]
    # ---- StandardMetrics twins
    for _ in range(60 if ctx.thorough else 25):
        n = rng.choice([4, 6, 8, 9, 12, 15, 16])
        x, y = bits(n), bits(n)
        yield "sber", None, [("f", x, y)]
        for bs in (1, 2, 3, 4, 5):
            yield "sbler", bs, [("f", x, y)]
    for B, L in ((2, 4), (3, 6), (2, 5)):
        x = T([[float(rng.getrandbits(1)) for _ in range(L)] for _ in range(B)])
        y = T([[float(rng.getrandbits(1)) for _ in range(L)] for _ in range(B)])
        for bs in (1, 2, 3, 5):
            yield "sbler", bs, [("f", x, y)]


def _impl(kind, param, hist):
    import torch
    from kaira.metrics.signal.ber import BitErrorRate
    from kaira.metrics.signal import bler as B
    from kaira.benchmarks.metrics import StandardMetrics
    if kind == "ber":
        return _run_ber(torch, BitErrorRate, param, hist)
    if kind == "bler":
        cls = [B.BlockErrorRate, B.SymbolErrorRate, B.FrameErrorRate][hash(len(hist)) % 3]
        m = cls(block_size=param)
        out = []
        for op in hist:
            try:
                if op[0] == "u":
                    m.update(op[1], op[2]); out.append("ok")
                elif op[0] == "c":
                    out.append(_tok(m.compute()))
                elif op[0] == "r":
                    m.reset(); out.append("ok")
                else:
                    out.append(_tok(m(op[1], op[2])))
            except (ValueError, RuntimeError):
                out.append("reject")
            except Exception as e:
                out.append("other:" + type(e).__name__)
        return " ".join(out)
    x, y = hist[0][1], hist[0][2]
    try:
        if kind == "sber":
            return _tok(StandardMetrics.bit_error_rate(x, y))
        return _tok(StandardMetrics.block_error_rate(x, y, param))
    except (ValueError, RuntimeError, ZeroDivisionError):
        return "reject"
    except Exception as e:
        return "other:" + type(e).__name__


def _line(kind, param, hist):
    if kind == "ber":
        return "berhist %s %s" % (Fraction(param), " ".join(_encode_ber(hist)))
    if kind == "bler":
        return "blerhist %d 0 %s" % (param or 0, " ".join(_encode_bler(hist)))
    x, y = hist[0][1], hist[0][2]
    if kind == "sber":
        return "sber %s %s" % (_fmt(x.flatten().tolist()), _fmt(y.flatten().tolist()))
    return "sbler %d %s %s" % (param, _rows(x), _rows(y))


def _refcheck(kind, param, hist, impl):
    if kind == "ber":
        return _agrees(impl, _ref(hist, "ber", thr=param))
    if kind == "bler":
        return _agrees(impl, _ref(_decomplex(hist), "bler", bs=param, thr=0.0))
    x, y = hist[0][1], hist[0][2]
    if kind == "sber":
        n = x.numel()
        return _agrees(impl, [Fraction(int((x != y).sum()), n)])
    xs, ys = x.flatten().tolist(), y.flatten().tolist()
    per = x[0].numel() if x.dim() > 1 else x.numel()
    if per % param:
        return impl == "reject"
    nb = len(xs) // param
    e = sum(any(a != b for a, b in zip(xs[i * param:(i + 1) * param], ys[i * param:(i + 1) * param])) for i in range(nb))
    return _agrees(impl, [Fraction(e, nb)])


_CASES = {}


def corr(ctx):
    ops = []
    seen = set()
    for kind, param, hist in _gen(ctx):
        line = _line(kind, param, hist)
        if line in seen:
            continue
        seen.add(line)
        impl = _impl(kind, param, hist)
        nontriv = any(op[0] in ("u", "f") and bool((op[1] != op[2]).any()) if op[0] in ("u", "f") and tuple(op[1].shape) == tuple(op[2].shape) else False for op in hist) and any(op[0] in ("c", "f") for op in hist)
        ctx.count(kind)
        ctx.count("len_%s" % ("1-3" if len(hist) <= 3 else "4-6" if len(hist) <= 6 else "7-50" if len(hist) <= 50 else "51+"))
        if "reject" in impl:
            ctx.count("with_reject")
        _CASES[line] = (kind, param, hist)
        ops.append(Op(line, impl, cmp=_cmp, nontrivial=nontriv, info={"site": "metrics:" + kind, "config": {"kind": kind, "param": param, "len": len(hist)}}))
    return ops


def _shrink(kind, param, hist):
    """shortest sub-history on which the implementation still deviates from the reference counter"""
    cur = list(hist)
    changed = True
    while changed and len(cur) > 1:
        changed = False
        for i in range(len(cur)):
            cand = cur[:i] + cur[i + 1:]
            if cand and not _refcheck(kind, param, cand, _impl(kind, param, cand)):
                cur = cand
                changed = True
                break
    return cur


def search(ctx, mismatches, broken, prop_fail):
    out = []
    cands = [_CASES[m["op"]] for m in mismatches if m["op"] in _CASES]
    if not cands:
        cands = list(_gen(ctx))
    seen = set()
    for kind, param, hist in cands:
        impl = _impl(kind, param, hist)
        if not _refcheck(kind, param, hist, impl):
            small = _shrink(kind, param, hist)
            line = _line(kind, param, small)
            if line in seen:
                continue
            seen.add(line)
            impl_s = _impl(kind, param, small)
            refs = _ref(small, kind if kind in ("ber", "bler") else "ber", bs=param if kind == "bler" else None, thr=param if kind == "ber" else 0.0) if kind in ("ber", "bler") else None
            out.append({"site": "metrics:" + kind, "config": {"kind": kind, "param": param},
                        "what": "%s history %s: implementation returns [%s], reference counter says %s" % (kind, line[:300], impl_s, [str(r) for r in refs] if refs else "a different exact fraction"),
                        "ops": [line], "impl_output": impl_s, "kind": "failing-input"})
            if len(out) >= 5:
                break
    return out


def finding_reproduces(ctx, f):
    return False


def replay(ctx, payload):
    print("replay: re-run ./check C16; op lines:", payload.get("ops"))
    return 0
