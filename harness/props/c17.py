"""C17 — pipeline models run their stages in declared order, independent of thread timing."""
import itertools, threading, time
from ..runner import Op

ID = "C17"
M = 1000003
KINDS = {"U": ["sequential_trace", "sequential_value", "history_then_run", "add_appends", "remove_rejects_out_of_range",
               "parallel_declared_order", "parallel_named", "parallel_schedule_independent", "branching_first_match",
               "branching_default", "feedback_rounds", "feedback_round_order", "mac_order", "mac_superposition"],
         "K": ["deepjscc_order", "channel_code_order"]}
PARTIAL = ["ThreadPoolExecutor/as_completed deliver each future exactly once in some order: trusted; the model's input `perm` is that order"]
RULE = ("one line = one scenario run on real model objects with recording stages (sequential histories, parallel runs with the "
        "completion order forced to a given permutation, branching, feedback, MAC); non-trivial = at least two stages run")
ASSUMPTIONS = ["recording stages compute (v*31+s+1+e) mod 1000003, the same opaque family the model driver uses"]


def sf(e, s, v):
    return (v * 31 + s + 1 + e) % M


def sf2(s, a, b):
    return (a * 31 + s + 1 + 7 * b) % M


def _tr(t):
    return ",".join("%d:%d" % p for p in t) if t else "-"


# ------------------------------------------------------------------ real-code runners
def run_seq(kind, v, e, init, ops, how):
    import torch
    from kaira.models.generic.sequential import SequentialModel
    from kaira.models.base import ConfigurableModel
    trace = []
    cache = {}

    def stage(s):
        # one callable object per stage id: adding the same stage twice puts the same object at two positions
        if s not in cache:
            def fn(x, *args, **kw):
                ee = args[0] if args else kw.get("e", 0)
                trace.append((s, x))
                return sf(ee, s, x)
            cache[s] = fn
        return cache[s]
    if kind == "seq":
        m = SequentialModel(steps=[stage(s) for s in init]) if init else SequentialModel()
    else:
        m = ConfigurableModel()
        for s in init:
            m.add_step(stage(s))
    outs = []
    for op in ops:
        try:
            if op[0] == "a":
                m.add_step(stage(int(op[1:]))); outs.append("ok")
            else:
                m.remove_step(int(op[1:])); outs.append("ok")
        except IndexError:
            outs.append("reject")
    r = m(v, e) if how == 0 else m(v, e=e)
    return " ".join(outs + ["T", _tr(trace), "V", str(r)])


def run_named(kind, v, e):
    """DeepJSCCModel / ChannelCodeModel with recording nn.Modules; stage ids follow the documented order"""
    import torch
    from torch import nn
    from kaira.models.deepjscc import DeepJSCCModel
    from kaira.models.channel_code import ChannelCodeModel
    trace = []

    class Rec(nn.Module):
        def __init__(self, s):
            super().__init__(); self.s = s

        def forward(self, x, *args, **kw):
            ee = args[0] if args else kw.get("e", 0)
            trace.append((self.s, x))
            return sf(ee, self.s, x)
    if kind == "deepjscc":
        m = DeepJSCCModel(encoder=Rec(0), constraint=Rec(1), channel=Rec(2), decoder=Rec(3))
    else:
        m = ChannelCodeModel(encoder=Rec(0), modulator=Rec(1), constraint=Rec(2), channel=Rec(3), demodulator=Rec(4), decoder=Rec(5))
    r = m(v, e)
    return " ".join(["T", _tr(trace), "V", str(r)])


def run_par(v, e, agg, names, stages, perm, workers, via):
    from kaira.models.generic.parallel import ParallelModel
    n = len(names)
    go = [threading.Event() for _ in range(n)]
    done = [threading.Event() for _ in range(n)]

    def branch(i):
        def fn(x, *args, **kw):
            ee = args[0] if args else 0
            if not go[i].wait(20):
                raise RuntimeError("schedule not feasible")
            r = sf(ee, stages[i], x)
            done[i].set()
            return r
        return fn

    def aggregator(vals):
        h = 7
        for x in vals:
            h = (h * 131 + x) % M
        return h
    kw = {"max_workers": workers, "aggregator": aggregator if agg else None}
    if isinstance(via, tuple):
        # ("hist", init, ops): the model is built from `init` (names), then steps are removed / added; `names` is the list the
        # history leaves behind (python list model), and only those branches are ever run
        _, init, hops = via
        m = ParallelModel(**kw)
        cur = []
        fidx = {nm: i for i, nm in enumerate(names)}

        def br_for(nm):
            return branch(fidx[nm]) if nm in fidx else (lambda x, *a, **k: x)
        for nm in init:
            m.add_step(br_for(nm), nm); cur.append(nm)
        for op in hops:
            if op[0] == "r":
                m.remove_step(op[1]); cur.pop(op[1])
            else:
                m.add_step(br_for(op[1]), op[1]); cur.append(op[1])
        assert cur == list(names), (cur, names)
    elif via == "steps":
        m = ParallelModel(steps=[(names[i], branch(i)) for i in range(n)], **kw)
    else:
        m = ParallelModel(**kw)
        for i in range(n):
            m.add_step(branch(i), names[i])

    def releaser():
        for i in perm:
            go[i].set()
            done[i].wait(20)
            time.sleep(0.003)
    t = threading.Thread(target=releaser, daemon=True)
    t.start()
    res = m(v, e)
    t.join(30)
    if agg:
        return str(res) if n else "{}"
    if not res:
        return "{}"
    return ",".join("%s=%s" % kv for kv in res.items())


def run_br(v, e, ops, prior=()):
    from kaira.models.generic.branching import BranchingModel
    from kaira.models.base import BaseModel
    evaluated = []

    class Rec(BaseModel):
        def __init__(self, s):
            super().__init__(); self.s = s

        def forward(self, x, *args, **kw):
            ee = args[0] if args else 0
            return sf(ee, self.s, x)
    m = BranchingModel()
    outs = []
    for op in ops:
        p = op.split(":")
        try:
            if p[0] == "a":
                name, k, j, s = p[1], int(p[2]), int(p[3]), int(p[4])

                def cond(x, name=name, k=k, j=j):
                    evaluated.append(name)
                    return x % k == j
                m.add_branch(name, cond, Rec(s))
            elif p[0] == "d":
                m.set_default_branch(Rec(int(p[1])))
            else:
                m.remove_branch(p[1])
            outs.append("ok")
        except (ValueError, KeyError):
            outs.append("reject")
    for pv in prior:            # earlier calls on the same object: which branch they took must not matter afterwards
        try:
            m(pv, True, e)
        except RuntimeError:
            pass
    del evaluated[:]
    try:
        out, name = m(v, True, e)
        rs = "%s=%d" % (name, out)
    except RuntimeError:
        rs = "error"
    return " ".join(outs + ["B", rs, "E", ",".join(evaluated) if evaluated else "-"])


def run_fb(x, iters, mode=0):
    import torch
    from kaira.models.feedback_channel import FeedbackChannelModel
    from kaira.models.base import BaseModel
    from kaira.channels.base import BaseChannel
    trace = []

    class Rec(BaseModel):
        def __init__(self, s):
            super().__init__(); self.s = s

        def forward(self, a, b=None, state=None, **kw):
            trace.append((self.s, int(a)))
            if mode == 1:
                return torch.tensor(self.s * 1000 + 7)
            if state is not None:
                return torch.tensor(sf2(self.s, int(a), int(state)))
            if b is not None:
                return torch.tensor(sf2(self.s, int(a), int(b)))
            return torch.tensor(sf(0, self.s, int(a)))

    class RecCh(BaseChannel):
        def __init__(self, s):
            super().__init__(); self.s = s

        def forward(self, a, *args, **kw):
            trace.append((self.s, int(a)))
            if mode == 1:
                return torch.tensor(self.s * 1000 + 7)
            return torch.tensor(sf(0, self.s, int(a)))
    m = FeedbackChannelModel(encoder=Rec(2), forward_channel=RecCh(3), decoder=Rec(4), feedback_generator=Rec(5), feedback_channel=RecCh(6), feedback_processor=Rec(1), max_iterations=iters)
    res = m(torch.tensor(x))
    ok = len(res["iterations"]) == iters and len(res["feedback_history"]) == iters
    o = res.get("final_output", "none")
    return "O %s T %s" % ((int(o) if o != "none" else o) if ok else "badcount:%d" % len(res["iterations"]), _tr(trace))


def run_mac(joint, xs, how):
    import torch
    from torch import nn
    from kaira.models.multiple_access_channel import MultipleAccessChannelModel
    from kaira.models.base import BaseModel
    from kaira.channels.base import BaseChannel
    from kaira.constraints.base import BaseConstraint
    trace = []

    def val(t):
        return int(t.flatten()[0].item())

    class Rec(BaseModel):
        def __init__(self, s):
            super().__init__(); self.s = s

        def forward(self, a, *args, **kw):
            trace.append((self.s, val(a)))
            return torch.full((1, 1), sf(0, self.s, val(a)), dtype=torch.int64)

    class RecCh(BaseChannel):
        def forward(self, a, *args, **kw):
            trace.append((201, val(a)))
            return torch.full((1, 1), sf(0, 201, val(a)), dtype=torch.int64)

    class RecCo(BaseConstraint):
        def forward(self, a, *args, **kw):
            trace.append((200, val(a)))
            return torch.full((1, 1), sf(0, 200, val(a)), dtype=torch.int64)
    n = len(xs)
    encs = [Rec(100 + i) for i in range(n)]
    decs = [Rec(300)] if joint else [Rec(300 + i) for i in range(n)]
    if how == 1:
        encs, decs = nn.ModuleList(encs), nn.ModuleList(decs)
    m = MultipleAccessChannelModel(encoders=encs, decoders=decs, channel=RecCh(), power_constraint=RecCo(), num_devices=n)
    out = m([torch.full((1, 1), x, dtype=torch.int64) for x in xs])
    return "O %s T %s" % (",".join(str(int(t)) for t in out.flatten().tolist()), _tr(trace))


def run_macid(joint, xs):
    """pass-through encoders; users with equal values share ONE tensor object; the model is run twice on the same list"""
    import torch
    from kaira.models.multiple_access_channel import MultipleAccessChannelModel
    from kaira.models.base import BaseModel
    from kaira.channels.base import BaseChannel
    from kaira.constraints.base import BaseConstraint
    trace = []

    def val(t):
        return int(t.flatten()[0].item())

    class Thru(BaseModel):
        def __init__(self, s):
            super().__init__(); self.s = s

        def forward(self, a, *args, **kw):
            trace.append((self.s, val(a)))
            return a

    class Rec(BaseModel):
        def __init__(self, s):
            super().__init__(); self.s = s

        def forward(self, a, *args, **kw):
            trace.append((self.s, val(a)))
            return torch.full((1, 1), sf(0, self.s, val(a)), dtype=torch.int64)

    class RecCh(BaseChannel):
        def forward(self, a, *args, **kw):
            trace.append((201, val(a)))
            return torch.full((1, 1), sf(0, 201, val(a)), dtype=torch.int64)

    class RecCo(BaseConstraint):
        def forward(self, a, *args, **kw):
            trace.append((200, val(a)))
            return torch.full((1, 1), sf(0, 200, val(a)), dtype=torch.int64)
    n = len(xs)
    m = MultipleAccessChannelModel(encoders=[Thru(100 + i) for i in range(n)], decoders=[Rec(300)] if joint else [Rec(300 + i) for i in range(n)],
                                   channel=RecCh(), power_constraint=RecCo(), num_devices=n)
    objs = {}
    inp = [objs.setdefault(x, torch.full((1, 1), x, dtype=torch.int64)) for x in xs]
    parts = []
    for _ in range(2):
        del trace[:]
        out = m(inp)
        parts.append("O %s T %s" % (",".join(str(int(t)) for t in out.flatten().tolist()), _tr(trace)))
    return " | ".join(parts) + " | X " + ",".join(str(val(t)) for t in inp)


# ------------------------------------------------------------------ independent reference (list model in Python)
def ref_seq(v, e, init, ops):
    steps = list(init)
    outs = []
    for op in ops:
        if op[0] == "a":
            steps.append(int(op[1:])); outs.append("ok")
        else:
            i = int(op[1:])
            if 0 <= i < len(steps):
                steps.pop(i); outs.append("ok")
            else:
                outs.append("reject")
    tr = []
    for s in steps:
        tr.append((s, v)); v = sf(e, s, v)
    return " ".join(outs + ["T", _tr(tr), "V", str(v)])


def ref_par(v, e, agg, names, stages):
    vals = [sf(e, s, v) for s in stages]
    if not names:
        return "{}"
    if agg:
        h = 7
        for x in vals:
            h = (h * 131 + x) % M
        return str(h)
    return ",".join("%s=%d" % p for p in zip(names, vals))


def feasible_perms(n, w):
    """completion orders possible with w workers (tasks start FIFO)"""
    res = []

    def rec(done, order):
        if len(order) == n:
            res.append(tuple(order)); return
        pending = [i for i in range(n) if i not in done]
        for i in pending[:w]:
            rec(done | {i}, order + [i])
    rec(frozenset(), [])
    return res


# ------------------------------------------------------------------ generation
def _cases(ctx):
    rng = ctx.rng
    # sequential histories
    alphabet = ["a1", "a2", "a7", "r0", "r1", "r5"]
    for init in ([], [3], [3, 4], [1, 2, 3, 4, 5, 6]):
        for L in range(0, 3 if not ctx.thorough else 4):
            for ops in itertools.product(alphabet, repeat=L):
                yield ("seq", rng.choice(["seq", "cfg"]), rng.randrange(1000), rng.randrange(3), tuple(init), ops, rng.randrange(2))
    for _ in range(150 if ctx.thorough else 40):
        init = [rng.randrange(1, 20) for _ in range(rng.randint(0, 6))]
        ops = [rng.choice(["a%d" % rng.randrange(1, 30), "r%d" % rng.randrange(0, 8)]) for _ in range(rng.randint(0, 12))]
        yield ("seq", rng.choice(["seq", "cfg"]), rng.randrange(M), rng.randrange(5), tuple(init), tuple(ops), rng.randrange(2))
    for kind in ("deepjscc", "channelcode"):
        for _ in range(3):
            yield ("named", kind, rng.randrange(M), rng.randrange(5))
    # parallel
    nmax = 5 if ctx.thorough else 4
    for n in range(0, nmax + 1):
        names = ["b%d" % i for i in range(n)]
        stages = [rng.randrange(1, 50) for _ in range(n)]
        for w in ([None] + list(range(1, n + 1))):
            perms = feasible_perms(n, w if w is not None else n) if n else [()]
            if n == nmax and w is not None and w < n and len(perms) > 30:
                perms = rng.sample(perms, 30)
            for perm in perms:
                for agg in (0, 1):
                    if n >= 4 and w not in (None, n) and agg == 0 and rng.random() < 0.5:
                        continue
                    yield ("par", rng.randrange(1000), rng.randrange(3), agg, tuple(names), tuple(stages), tuple(perm), w, rng.choice(["steps", "add"]))
    # parallel models built through add / remove histories: the declared order is what the history leaves behind
    for _ in range(60 if ctx.thorough else 24):
        ninit = rng.randint(2, 4)
        init = ["h%d" % i for i in range(ninit)]
        cur, hops, fresh = list(init), [], ninit
        for _ in range(rng.randint(1, 5)):
            if cur and rng.random() < 0.55:
                i = rng.randrange(len(cur) - (1 if len(cur) > 1 and rng.random() < 0.7 else 0))    # mostly not the last one
                hops.append(("r", i)); cur.pop(i)
            else:
                nm = "h%d" % fresh; fresh += 1
                hops.append(("a", nm)); cur.append(nm)
        if len(cur) < 2 or len(cur) > 5:
            continue
        stages = [rng.randrange(1, 50) for _ in cur]
        perms = feasible_perms(len(cur), len(cur))
        for perm in rng.sample(perms, min(len(perms), 4)) + [tuple(reversed(range(len(cur))))]:
            yield ("par", rng.randrange(1000), rng.randrange(3), rng.randrange(2), tuple(cur), tuple(stages), tuple(perm), None, ("hist", tuple(init), tuple(hops)))
    # branching, several calls on one object (overlapping conditions: the branch an earlier call took must not be preferred later)
    for _ in range(80 if ctx.thorough else 30):
        opsb = ("a:s:%d:0:4" % rng.choice([2, 3]), "a:m:1:0:5", "a:l:%d:%d:6" % (rng.choice([4, 5]), rng.randrange(3)), "d:9")
        prior = tuple(rng.randrange(0, 30) for _ in range(rng.randint(1, 3)))
        yield ("br", rng.randrange(0, 30), rng.randrange(2), opsb, prior)
        opsc = ("a:x:6:%d:4" % rng.randrange(6), "a:y:3:%d:5" % rng.randrange(3), "a:z:2:%d:6" % rng.randrange(2))
        yield ("br", rng.randrange(0, 30), 0, opsc, prior)
    # branching
    for v in range(0, 12):
        yield ("br", v, 0, ("a:x:2:1:4", "a:y:3:0:5", "a:z:2:0:6", "d:9"))
        yield ("br", v, 1, ("a:x:2:1:4", "a:y:3:0:5", "a:x:1:0:1", "r:q", "r:x", "a:x:4:2:8"))
        yield ("br", v, 0, ("a:x:5:4:4",))
        yield ("br", v, 2, ("d:3",))
    for _ in range(60 if ctx.thorough else 20):
        ops = []
        for _ in range(rng.randint(0, 6)):
            c = rng.random()
            if c < 0.6:
                k = rng.randint(1, 4)
                ops.append("a:%s:%d:%d:%d" % (rng.choice("pqrst"), k, rng.randrange(k), rng.randrange(1, 30)))
            elif c < 0.8:
                ops.append("r:%s" % rng.choice("pqrst"))
            else:
                ops.append("d:%d" % rng.randrange(1, 30))
        yield ("br", rng.randrange(100), rng.randrange(3), tuple(ops))
    # feedback, MAC
    for iters in range(0, 6):
        for x in (3, rng.randrange(M)):
            yield ("fb", x, iters, 0)
        yield ("fb", 5, iters, 1)
    # the same stage object at several positions, later occurrence removed
    for ops in (("a1", "a2", "a1", "r2"), ("a1", "a2", "a1", "r0"), ("a4", "a4", "a5", "r1"), ("a1", "a2", "a3", "a1", "a2", "r3", "r3")):
        yield ("seq", "seq", rng.randrange(1000), 0, (), ops, 0)
        yield ("seq", "cfg", rng.randrange(1000), 1, (2, 1), ops, 1)
    for _ in range(60 if ctx.thorough else 25):
        init = [rng.randrange(1, 4) for _ in range(rng.randint(0, 4))]
        ops = [rng.choice(["a%d" % rng.randrange(1, 4), "r%d" % rng.randrange(0, 5)]) for _ in range(rng.randint(2, 8))]
        yield ("seq", rng.choice(["seq", "cfg"]), rng.randrange(M), rng.randrange(3), tuple(init), tuple(ops), rng.randrange(2))
    for n in range(1, 5):
        for joint in (0, 1):
            for how in (0, 1):
                yield ("mac", joint, tuple(rng.randrange(1000) for _ in range(n)), how)
    for n in range(1, 5):
        for joint in (0, 1):
            v = rng.randrange(1, 1000)
            yield ("macid", joint, tuple([v] * n))                                   # one tensor object for every user
            yield ("macid", joint, tuple(rng.randrange(1, 1000) for _ in range(n)))      # distinct objects
            if n >= 3:
                w = rng.randrange(1, 1000)
                yield ("macid", joint, tuple([v, w] + [v] * (n - 2)))                # user 0's tensor again for a later user


def _line(c):
    k = c[0]
    if k == "seq":
        _, _, v, e, init, ops, _ = c
        return "seq %d %d %s %s" % (v, e, ",".join(map(str, init)) or "-", " ".join(ops))
    if k == "named":
        _, kind, v, e = c
        n = 4 if kind == "deepjscc" else 6
        return "seq %d %d %s" % (v, e, ",".join(map(str, range(n))))
    if k == "par":
        _, v, e, agg, names, stages, perm, w, via = c
        return "par %d %d %d %s %s %s" % (v, e, agg, ",".join(names) or "-", ",".join(map(str, stages)) or "-", ",".join(map(str, perm)) or "-")
    if k == "br":
        v, e, ops = c[1], c[2], c[3]
        return "br %d %d %s" % (v, e, " ".join(ops))
    if k == "fb":
        return "fb %d %d %d" % (c[1], c[2], c[3])
    if k == "macid":
        return "macid %d %s" % (c[1], ",".join(map(str, c[2])))
    return "mac %d %s" % (c[1], ",".join(map(str, c[2])))


def _impl(c):
    k = c[0]
    if k == "seq":
        _, kind, v, e, init, ops, how = c
        return run_seq(kind, v, e, init, ops, how)
    if k == "named":
        return run_named(c[1], c[2], c[3])
    if k == "par":
        _, v, e, agg, names, stages, perm, w, via = c
        return run_par(v, e, agg, names, stages, perm, w, via)
    if k == "br":
        return run_br(c[1], c[2], c[3], c[4] if len(c) > 4 else ())
    if k == "fb":
        return run_fb(c[1], c[2], c[3])
    if k == "macid":
        return run_macid(c[1], c[2])
    return run_mac(c[1], c[2], c[3])


def _oracle(c):
    """independent statement of the property for the case; None if this case has no independent oracle here"""
    k = c[0]
    if k == "seq":
        return ref_seq(c[2], c[3], c[4], c[5])
    if k == "named":
        n = 4 if c[1] == "deepjscc" else 6
        return ref_seq(c[2], c[3], list(range(n)), [])
    if k == "par":
        return ref_par(c[1], c[2], c[3], c[4], c[5])
    if k == "br":
        v, e, ops = c[1], c[2], c[3]
        bs, default, outs = [], None, []
        for op in ops:
            p = op.split(":")
            if p[0] == "a":
                if any(b[0] == p[1] for b in bs):
                    outs.append("reject")
                else:
                    bs.append((p[1], int(p[2]), int(p[3]), int(p[4]))); outs.append("ok")
            elif p[0] == "d":
                default = int(p[1]); outs.append("ok")
            else:
                if any(b[0] == p[1] for b in bs):
                    bs = [b for b in bs if b[0] != p[1]]; outs.append("ok")
                else:
                    outs.append("reject")
        ev, rs = [], None
        for name, kk, j, s in bs:
            ev.append(name)
            if v % kk == j:
                rs = "%s=%d" % (name, sf(e, s, v)); break
        if rs is None:
            rs = "default=%d" % sf(e, default, v) if default is not None else "error"
        return " ".join(outs + ["B", rs, "E", ",".join(ev) if ev else "-"])
    if k == "fb":
        x, iters, mode = c[1], c[2], c[3]
        f1_ = (lambda e, s, v: s * 1000 + 7) if mode == 1 else sf
        f2_ = (lambda s, a, b: s * 1000 + 7) if mode == 1 else sf2
        tr, fb, out = [], None, "none"
        for i in range(iters):
            if i > 0:
                tr.append((1, fb)); st = f1_(0, 1, fb); tr.append((2, x)); enc = f2_(2, x, st)
            else:
                tr.append((2, x)); enc = f1_(0, 2, x)
            tr.append((3, enc)); rec = f1_(0, 3, enc)
            tr.append((4, rec)); dec = f1_(0, 4, rec)
            tr.append((5, dec)); f1 = f2_(5, dec, x)
            tr.append((6, f1)); fb = f1_(0, 6, f1)
            out = dec
        return "O %s T %s" % (out, _tr(tr))
    joint, xs = c[1], c[2]
    if k == "macid":
        tr = [(100 + i, x) for i, x in enumerate(xs)]
        comb = sum(xs)
        tr.append((200, comb)); con = sf(0, 200, comb)
        tr.append((201, con)); rec = sf(0, 201, con)
        decs = [300] if joint else [300 + i for i in range(len(xs))]
        tr += [(d, rec) for d in decs]
        one = "O %s T %s" % (",".join(str(sf(0, d, rec)) for d in decs), _tr(tr))
        return one + " | " + one + " | X " + ",".join(map(str, xs))
    tr = [(100 + i, x) for i, x in enumerate(xs)]
    comb = sum(sf(0, 100 + i, x) for i, x in enumerate(xs))
    tr.append((200, comb)); con = sf(0, 200, comb)
    tr.append((201, con)); rec = sf(0, 201, con)
    decs = [300] if joint else [300 + i for i in range(len(xs))]
    tr += [(d, rec) for d in decs]
    return "O %s T %s" % (",".join(str(sf(0, d, rec)) for d in decs), _tr(tr))


def extract(ctx):
    from torch import nn
    from kaira.models.deepjscc import DeepJSCCModel
    from kaira.models.channel_code import ChannelCodeModel

    class N(nn.Module):
        def __init__(self, name):
            super().__init__(); self.tag = name

        def forward(self, x):
            return x
    d = DeepJSCCModel(encoder=N("encoder"), constraint=N("constraint"), channel=N("channel"), decoder=N("decoder"))
    c = ChannelCodeModel(encoder=N("encoder"), constraint=N("constraint"), modulator=N("modulator"), channel=N("channel"), demodulator=N("demodulator"), decoder=N("decoder"))
    fmt = lambda m: ", ".join('"%s"' % s.tag for s in m.steps)
    return ("-- generated from /repo: the `steps` lists of DeepJSCCModel and ChannelCodeModel built with tagged stages\n"
            "namespace Generated.C17\n"
            "def deepjsccOrder : List String := [%s]\n"
            "def channelCodeOrder : List String := [%s]\n"
            "end Generated.C17\n" % (fmt(d), fmt(c)))


_CASES = {}


def corr(ctx):
    ops, seen = [], set()
    for c in _cases(ctx):
        line = _line(c)
        key = (line, c[7:] if c[0] == "par" else c[1] if c[0] in ("seq", "named") else None, c[-1] if c[0] in ("seq", "mac") else None)
        if key in seen:
            continue
        seen.add(key)
        try:
            impl = _impl(c)
        except Exception as e:
            impl = "other:%s:%s" % (type(e).__name__, str(e)[:80])
        ctx.count(c[0])
        if c[0] == "par":
            ctx.count("par_n%d" % len(c[4]))
            ctx.count("par_workers_%s" % c[7])
        _CASES.setdefault(line, []).append(c)
        nontriv = {"seq": lambda: impl.count(":") >= 2, "named": lambda: True, "par": lambda: len(c[4]) >= 2, "br": lambda: "E -" not in impl, "fb": lambda: c[2] >= 1, "mac": lambda: True, "macid": lambda: True}[c[0]]()
        ops.append(Op(line, impl, nontrivial=nontriv, info={"site": "models:" + c[0], "config": {"case": repr(c)[:300]}}))
    return ops


def search(ctx, mismatches, broken, prop_fail):
    out = []
    cands = []
    for m in mismatches:
        cands += _CASES.get(m["op"], [])
    if not cands:
        cands = list(_cases(ctx))
    seen = set()
    for c in cands:
        try:
            impl = _impl(c)
        except Exception as e:
            impl = "other:%s:%s" % (type(e).__name__, str(e)[:80])
        want = _oracle(c)
        if want is not None and impl != want:
            line = _line(c)
            if line in seen:
                continue
            seen.add(line)
            out.append({"site": "models:" + c[0], "config": {"case": repr(c)[:300]}, "kind": "failing-input",
                        "what": "%s: implementation gives [%s], declared-order semantics gives [%s] (case %s)" % (line, impl[:200], want[:200], repr(c)[:200]),
                        "ops": [line], "impl_output": impl})
            if len(out) >= 5:
                break
    return out


def finding_reproduces(ctx, f):
    return False


def replay(ctx, payload):
    print("replay: re-run ./check C17; op lines:", payload.get("ops"))
    return 0
