"""C20 — per-sample components are pure: batch result equals the stack of single results."""
import contextlib, io, itertools, math
from ..runner import Op
from . import c01, c02, c03, c14

ID = "C20"
KINDS = {"U": ["member_alone", "batch_permutation", "batch_is_stack_of_singles", "blockwise_is_map", "grouping_independent", "reject_non_multiple", "block_alone"]}
PARTIAL = ["the theorems say that the MODEL's framing (blockwise / batch = map) is pure for every per-block function; that each real component is such a function of its block is what the "
           "correspondence establishes on the explored batches, layouts, permutations and call histories (a test of the implementation against per-member evaluation and, for encoders / "
           "ML / syndrome decoders / extraction, against the model)"]
RULE = ("for every component: members processed alone (batch of one) vs batches of 2..6 in several orders, layouts 1-D / (B,n) / (B1,B2,n) / (B,m*n) (agree with per-block evaluation or raise), "
        "repeated and interleaved calls on the same object, input tensor unchanged; members include zero-syndrome words, zero signals, all-zero / all-one messages; "
        "enc / ml / syndec / inv rows are also compared with the model's blockwise map")
ASSUMPTIONS = ["float outputs (modulators, soft outputs, constraints) are compared at 1e-5 relative: batched reductions may round differently"]

ERRS = (ValueError, RuntimeError, AssertionError, IndexError, TypeError, NotImplementedError)


def quiet(fn, *a, **k):
    with contextlib.redirect_stdout(io.StringIO()):
        return fn(*a, **k)


def bstr(v):
    return "".join("1" if int(round(float(x))) else "0" for x in v) or "-"


def parts(x):
    """a component may answer with a tuple (e.g. return_errors=True, inverse_encode): every part is a per-member result"""
    return list(x) if isinstance(x, tuple) else [x]


class Comp:
    def __init__(self, name, site, f, members, item_dims=1, others=None, float_out=False, grouping=True, cfg=None, line=None, int_dtypes=False, group_rows=None, fresh=None):
        self.name, self.site, self.f, self.members = name, site, f, members
        self.fresh = fresh                    # optional factory of a pristine component: the per-member reference is then computed on a new object each time
        self.int_dtypes = int_dtypes          # hard bit inputs: the same answer for int32 / int64 / uint8 / int8 / float64 tensors, which must stay untouched
        self.group_rows = group_rows          # extra (B, m*n) row compositions (lists of member indices) for special paths
        self.item_dims, self.float_out, self.grouping = item_dims, float_out, grouping
        self.cfg = cfg or {}
        self.line = line          # optional: row tensor -> (op line) for components with a Lean model


def same(a, b, float_out):
    import torch
    if tuple(a.shape) != tuple(b.shape):
        return False
    if float_out or a.is_floating_point() and b.is_floating_point() and not bool(((a == a.round()) & (b == b.round())).all()):
        a_, b_ = (a, b) if a.is_complex() else (a.double(), b.double())
        return bool(torch.allclose(a_, b_.to(a_.dtype), rtol=1e-5, atol=1e-7))
    return bool((a.to(torch.float64) == b.to(torch.float64)).all()) if not a.is_complex() else bool(torch.allclose(a, b, rtol=1e-5, atol=1e-7))


def check_component(ctx, comp, ops):
    """runs the purity relations for one component; appends one op per relation (prop_ok) and model lines where available"""
    import torch
    rng = ctx.rng
    f, M = (lambda x: parts(quiet(comp.f, x))), comp.members
    site = comp.site
    sameP = lambda ys, ws: len(ys) == len(ws) and all(same(a_, b_, comp.float_out) for a_, b_ in zip(ys, ws))

    def rec(rel, ok, **extra):
        ops.append(Op("gray 0", "0", nontrivial=(rel != "single"), info={"site": site, "config": dict(comp.cfg, component=comp.name, relation=rel, **extra)}, prop_ok=bool(ok)))
        ctx.count("rel_" + rel)
    # members alone (batch of one): singles[i] = list of parts
    singles = []
    for m in M:
        try:
            if comp.fresh is not None:
                fr_ = comp.fresh()
                singles.append([p_[0] for p_ in parts(quiet(fr_, m.unsqueeze(0).clone()))])
            else:
                singles.append([p_[0] for p_ in f(m.unsqueeze(0).clone())])
        except ERRS as e:
            rec("single", False, error="%s: %s" % (type(e).__name__, str(e)[:120]))
            return
    nparts = len(singles[0])
    stackS = lambda idx: [torch.stack([singles[i][p_] for i in idx]) for p_ in range(nparts)]
    # batches of 2..6 in several orders
    for B in range(2, min(6, len(M)) + 1):
        idx_sets = [list(range(B))]
        if B <= 3:
            idx_sets = [list(p) for p in itertools.permutations(range(B))]
        else:
            idx_sets += [rng.sample(range(len(M)), B) for _ in range(2)]
        for idx in idx_sets:
            x = torch.stack([M[i] for i in idx])
            before = x.clone()
            try:
                y = f(x)
                bad = next((j for j, i in enumerate(idx) if not all(y[p_].shape[0] == B and same(y[p_][j], singles[i][p_], comp.float_out) for p_ in range(nparts))), None) if len(y) == nparts else "parts"
                ok = bad is None
            except ERRS as e:
                ok, bad = False, "%s: %s" % (type(e).__name__, str(e)[:100])
            unchanged = bool(torch.equal(x, before)) if not x.is_floating_point() else bool(((x == before) | (x.isnan() & before.isnan())).all())
            rec("batch", ok and unchanged, B=B, order=idx, first_bad_member=bad, input_unchanged=unchanged)
    nb = min(4, len(M))
    x = torch.stack(M[:nb])
    want = stackS(range(nb))
    # repeated / interleaved calls on the same object
    try:
        y1 = f(x.clone()); _ = f(torch.stack(M[::-1][: min(3, len(M))]).clone()); _ = f(M[-1].unsqueeze(0).clone()); y2 = f(x.clone())
        rec("repeat", sameP(y1, want) and sameP(y2, want))
    except ERRS as e:
        rec("repeat", False, error="%s: %s" % (type(e).__name__, str(e)[:100]))
    # integer dtypes: same answer, input untouched
    if comp.int_dtypes:
        for dt in (torch.int32, torch.int64, torch.uint8, torch.int8, torch.float64):
            xi = x.to(dt)
            before = xi.clone()
            try:
                yi = [p_.to(torch.float64) for p_ in f(xi)]
                w64 = [p_.to(torch.float64) for p_ in want]
                ok = sameP(yi, w64)
                again = [p_.to(torch.float64) for p_ in f(xi)]
                rec("dtype", ok and bool(torch.equal(xi, before)) and sameP(again, w64), dtype=str(dt), input_unchanged=bool(torch.equal(xi, before)))
            except ERRS:
                rec("dtype", True, dtype=str(dt), outcome="rejected")

    def grouped(rows, **extra):
        xg = torch.stack([torch.cat([M[i] for i in row]) for row in rows])
        try:
            y = f(xg.clone())
            w = [torch.stack([torch.cat([singles[i][p_].reshape(-1) for i in row]) for row in rows]) for p_ in range(nparts)]
            ok = len(y) == nparts and all(same(y[p_].reshape(len(rows), -1), w[p_], comp.float_out) for p_ in range(nparts))
            rec("layout_grouped", ok, outcome="answered", **extra)
            return xg, y, ok
        except ERRS:
            rec("layout_grouped", True, outcome="rejected", **extra)
            return None
    # layouts: each must agree with per-member evaluation or raise
    if comp.item_dims == 1:
        for rows in (comp.group_rows or []):
            grouped(rows, row_members=rows)
        # 1-D
        try:
            y = f(M[0].clone())
            rec("layout_1d", len(y) == nparts and all(same(y[p_].reshape(-1), singles[0][p_].reshape(-1), comp.float_out) for p_ in range(nparts)), outcome="answered")
        except ERRS:
            rec("layout_1d", True, outcome="rejected")
        # (B1, B2, n)
        if len(M) >= 4 and comp.grouping:       # for per-item constraints (B1, B2, n) is B1 items of shape (B2, n)
            x3 = torch.stack(M[:4]).reshape(2, 2, -1)
            try:
                y = f(x3.clone())
                w = stackS(range(4))
                rec("layout_3d", len(y) == nparts and all(tuple(y[p_].shape[:2]) == (2, 2) and same(y[p_].reshape(4, -1), w[p_].reshape(4, -1), comp.float_out) for p_ in range(nparts)), outcome="answered")
            except ERRS:
                rec("layout_3d", True, outcome="rejected")
        # (B, m*n): blocks grouped along the last dimension
        if comp.grouping and len(M) >= 4:
            for m_ in (2, 3):
                rows = [list(range(r * m_, r * m_ + m_)) for r in range(len(M) // m_)][:3]
                if not rows:
                    continue
                res = grouped(rows, blocks_per_row=m_)
                if res is not None and comp.line is not None and nparts == 1:
                    xg, y, ok = res
                    for r_, row in enumerate(rows):
                        ops.append(Op(comp.line(xg[r_]), bstr(y[0].reshape(len(rows), -1)[r_].tolist()), nontrivial=True, info={"site": site, "config": dict(comp.cfg, component=comp.name, relation="model_blockwise", blocks_per_row=m_)}))


def fec_components(ctx):
    import torch
    from kaira.models.fec import decoders as D_, encoders as E_
    rng = ctx.rng
    dd = c03.data(ctx)
    comps, lines = [], []
    plan = c02.plan(ctx)
    byk = {}
    for p in plan:
        byk.setdefault(p[1], []).append(p)
    chosen = []
    for kind, lst in byk.items():
        chosen += rng.sample(lst, min(len(lst), (5 if ctx.thorough else 2)))
    defined = set()
    enc_seen = set()
    for name, kind in chosen:
        d = dd[name]; c = d["c"]; enc = c.enc
        n, k = d["n"], d["k"]
        t = c02.capability(d)
        msgs = [[0] * k, [1] * k] + [[rng.getrandbits(1) for _ in range(k)] for _ in range(6)]
        Mm = [torch.tensor(m, dtype=torch.float32) for m in msgs]
        cws = [enc(m.unsqueeze(0))[0] for m in Mm]
        words = []
        for i, cw in enumerate(cws):
            w = cw.clone()
            if i % 3 and t > 0:     # members 1,2,4,5,7: one flipped position (within capability); 0,3,6: zero syndrome path
                p = rng.randrange(n); w[p] = 1 - w[p]
            words.append(w)
        words.append(torch.zeros(n))
        if name not in defined:
            lines.append(Op(c01.defcode_line(c), "ok", nontrivial=False)); defined.add(name)
        cfg = {"code": name, "n": n, "k": k}
        if name not in enc_seen:
            enc_seen.add(name)
            comps.append(Comp("encoder", "fec.encoders:%s" % type(enc).__name__, enc, Mm, cfg=cfg, int_dtypes=True, line=lambda row, nm=name: "enc %s %s" % (nm, bstr(row.tolist()))))
            comps.append(Comp("inverse_encode", "fec.encoders:%s.inverse_encode" % type(enc).__name__, enc.inverse_encode, cws, cfg=cfg,
                              line=(lambda row, nm=name: "inv %s %s" % (nm, bstr(row.tolist()))) if c.family not in ("hamming", "reed_muller") else None))
            comps.append(Comp("calculate_syndrome", "fec.encoders:%s.calculate_syndrome" % type(enc).__name__, enc.calculate_syndrome, words, cfg=cfg) if n - k <= 14 and c.family != "reed_muller" else None)
        if kind == "ml":
            comps.append(Comp("BruteForceMLDecoder", "fec.decoders:BruteForceMLDecoder", D_.BruteForceMLDecoder(enc), words, cfg=cfg, int_dtypes=True, line=lambda row, nm=name: "ml %s %s" % (nm, bstr(row.tolist()))))
        elif kind == "syn":
            comps.append(Comp("SyndromeLookupDecoder(return_errors)", "fec.decoders:SyndromeLookupDecoder", (lambda w_, dd_=D_.SyndromeLookupDecoder(enc): dd_(w_, return_errors=True)), words, cfg=cfg))
            comps.append(Comp("SyndromeLookupDecoder", "fec.decoders:SyndromeLookupDecoder", D_.SyndromeLookupDecoder(enc), words, cfg=cfg, int_dtypes=True, fresh=lambda enc=enc: D_.SyndromeLookupDecoder(enc), line=lambda row, nm=name: "syndec %s %s" % (nm, bstr(row.tolist()))))
        elif kind == "bm":
            comps.append(Comp("BerlekampMasseyDecoder", "fec.decoders:BerlekampMasseyDecoder", D_.BerlekampMasseyDecoder(enc), words, cfg=cfg, int_dtypes=True, fresh=lambda enc=enc: D_.BerlekampMasseyDecoder(enc)))
            comps.append(Comp("BerlekampMasseyDecoder(return_errors)", "fec.decoders:BerlekampMasseyDecoder", (lambda w_, dd_=D_.BerlekampMasseyDecoder(enc): dd_(w_, return_errors=True)), words, cfg=cfg))
        elif kind == "reed":
            comps.append(Comp("ReedMullerDecoder", "fec.decoders:ReedMullerDecoder", D_.ReedMullerDecoder(enc), words, cfg=cfg, int_dtypes=True, fresh=lambda enc=enc: D_.ReedMullerDecoder(enc)))
            comps.append(Comp("ReedMullerDecoder(return_errors)", "fec.decoders:ReedMullerDecoder", (lambda w_, dd_=D_.ReedMullerDecoder(enc): dd_(w_, return_errors=True)), words, cfg=cfg))
            comps.append(Comp("ReedMullerDecoder(soft)", "fec.decoders:ReedMullerDecoder", D_.ReedMullerDecoder(enc, input_type="soft"), [(1 - 2 * w) * rng.uniform(0.5, 3.0) for w in words], cfg=cfg))
    # Berlekamp-Massey on words that share their first syndrome S_1 but not S_3: a single error at p next to double errors at (q, r) with
    # alpha^q + alpha^r = alpha^p - whatever a decoder remembers about one of them must not leak into the other (batch mates, call order)
    for (mu_, delta_) in ((4, 5), (4, 7)):
        try:
            be = E_.BCHCodeEncoder(mu=mu_, delta=delta_)
            F_ = be._field; al = F_.primitive_element(); nb = be.code_length; kb = be.code_dimension
            mem = []
            for p_ in (0, 3, 7):
                pairs = [(q_, r_) for q_ in range(nb) for r_ in range(q_ + 1, nb) if (al ** q_ + al ** r_) == al ** p_]
                cwp = be(torch.tensor([[rng.getrandbits(1) for _ in range(kb)]], dtype=torch.float32))[0]
                w1 = cwp.clone(); w1[p_] = 1 - w1[p_]; mem.append(w1)
                for (q_, r_) in pairs[:2]:
                    cwq = be(torch.tensor([[rng.getrandbits(1) for _ in range(kb)]], dtype=torch.float32))[0]
                    w2 = cwq.clone(); w2[q_] = 1 - w2[q_]; w2[r_] = 1 - w2[r_]; mem.append(w2)
            mem = mem[:8]
            cfgb = {"code": "BCH(mu=%d, delta=%d)" % (mu_, delta_), "n": nb, "k": kb, "members": "equal S_1, different S_3"}
            comps.append(Comp("BerlekampMasseyDecoder", "fec.decoders:BerlekampMasseyDecoder", D_.BerlekampMasseyDecoder(be), mem, cfg=cfgb, int_dtypes=True,
                              fresh=lambda be=be: D_.BerlekampMasseyDecoder(be)))
            comps.append(Comp("BerlekampMasseyDecoder(return_errors)", "fec.decoders:BerlekampMasseyDecoder", (lambda w_, dd_=D_.BerlekampMasseyDecoder(be): dd_(w_, return_errors=True)), mem, cfg=cfgb,
                              fresh=lambda be=be: (lambda w_, dd_=D_.BerlekampMasseyDecoder(be): dd_(w_, return_errors=True))))
        except Exception as e_:
            ctx.notes.append("BM collision members not built: %s: %s" % (type(e_).__name__, e_))
    # soft-input decoders
    spc = E_.SingleParityCheckCodeEncoder(4)
    soft = lambda enc, kk: [(1 - 2 * enc(torch.tensor([[rng.getrandbits(1) for _ in range(kk)]], dtype=torch.float32))[0]) * torch.tensor([rng.uniform(0.3, 4.0) * (1 if rng.random() > 0.15 else -0.2) for _ in range(enc.code_length)]) for _ in range(8)]
    # Wagner members: 0-3 have odd hard-decision parity (one weak wrong sign), 4-7 even parity; rows made of odd blocks only, even only, mixed
    wm = []
    for i in range(8):
        cw = spc(torch.tensor([[rng.getrandbits(1) for _ in range(4)]], dtype=torch.float32))[0]
        l = (1 - 2 * cw) * torch.tensor([rng.uniform(0.5, 4.0) for _ in range(5)])
        if i < 4:
            p_ = rng.randrange(5); l[p_] = -0.1 * l[p_]
        wm.append(l)
    wrows = [[[0, 1], [2, 3]], [[0, 1, 2, 3]], [[4, 5], [6, 7]], [[0, 4], [5, 1]], [[0, 1], [4, 5]]]
    comps.append(Comp("WagnerSoftDecisionDecoder", "fec.decoders:WagnerSoftDecisionDecoder", D_.WagnerSoftDecisionDecoder(spc), wm, cfg={"code": "spc4"}, group_rows=wrows))
    comps.append(Comp("WagnerSoftDecisionDecoder(return_errors)", "fec.decoders:WagnerSoftDecisionDecoder", (lambda w_, dd_=D_.WagnerSoftDecisionDecoder(spc): dd_(w_, return_errors=True)), wm, cfg={"code": "spc4"}, group_rows=wrows))
    ham = E_.HammingCodeEncoder(3)
    comps.append(Comp("BeliefPropagationDecoder", "fec.decoders:BeliefPropagationDecoder", D_.BeliefPropagationDecoder(ham, bp_iters=4), soft(ham, 4), cfg={"code": "hamming3"}))
    comps.append(Comp("MinSumLDPCDecoder", "fec.decoders:MinSumLDPCDecoder", D_.MinSumLDPCDecoder(ham, bp_iters=4, normalized=True), soft(ham, 4), cfg={"code": "hamming3"}))
    pe = quiet(E_.PolarCodeEncoder, 4, 8)
    comps.append(Comp("PolarCodeEncoder", "fec.encoders:PolarCodeEncoder", pe, [torch.tensor([rng.getrandbits(1) for _ in range(4)], dtype=torch.float32) for _ in range(8)], cfg={"code": "polar(4,8)"}))
    comps.append(Comp("SuccessiveCancellationDecoder", "fec.decoders:SuccessiveCancellationDecoder", D_.SuccessiveCancellationDecoder(pe), soft(pe, 4), cfg={"code": "polar(4,8)"}))
    comps.append(Comp("BeliefPropagationPolarDecoder", "fec.decoders:BeliefPropagationPolarDecoder", quiet(D_.BeliefPropagationPolarDecoder, pe, bp_iters=3), soft(pe, 4), cfg={"code": "polar(4,8)"}))
    return [c_ for c_ in comps if c_ is not None], lines


def modem_components(ctx):
    import torch
    rng = ctx.rng
    tabs = c14._load(ctx)
    names = [n for n, (inst, pts, lo, hi) in tabs.items() if not inst.memory and inst.kind in ("bpsk", "qpsk", "psk", "qam", "pam")]
    pick = names if ctx.thorough else ["bpsk", "qpsk_n1", "psk8_g1", "qam16_g1_n1", "pam4_g0_n0"] + rng.sample(names, 3)
    comps = []
    for tn in dict.fromkeys(pick):
        inst, pts, lo, hi = tabs[tn]
        b = inst.b
        L = 4
        bits = [torch.tensor([0.0] * (L * b)), torch.tensor([1.0] * (L * b))] + [torch.tensor([float(rng.getrandbits(1)) for _ in range(L * b)]) for _ in range(6)]
        comps.append(Comp("modulator", "modulations:%s.modulator" % inst.kind, inst.mod, bits, float_out=True, cfg={"table": tn}))
        with torch.no_grad():
            syms = [inst.mod(x.unsqueeze(0))[0] for x in bits]
        noisy = [s + torch.complex(torch.tensor([rng.gauss(0, 0.05) for _ in range(len(s))]), torch.tensor([rng.gauss(0, 0.05) for _ in range(len(s))])) if s.is_complex() else s + torch.tensor([rng.gauss(0, 0.05) for _ in range(len(s))]) for s in syms]
        comps.append(Comp("demodulator(hard)", "modulations:%s.demodulator" % inst.kind, inst.demod, noisy, cfg={"table": tn}))
        comps.append(Comp("demodulator(soft)", "modulations:%s.demodulator" % inst.kind, (lambda y, dm=inst.demod: dm(y, noise_var=0.3)), noisy, float_out=True, cfg={"table": tn}))
    return comps


def constraint_components(ctx):
    import torch
    from kaira.constraints.power import TotalPowerConstraint, AveragePowerConstraint, PAPRConstraint
    from kaira.constraints.antenna import PerAntennaPowerConstraint
    from kaira.constraints.signal import PeakAmplitudeConstraint
    rng = ctx.rng
    n = 24
    g = lambda s: torch.tensor([rng.gauss(0, s) for _ in range(n)], dtype=torch.float32)
    members = [g(1), g(0.01), g(100), torch.zeros(n), torch.full((n,), 0.5), g(3), torch.tensor([(-1.0) ** i * 2 for i in range(n)]), g(1) * torch.tensor([10.0] + [1.0] * (n - 1))]
    cm = [torch.complex(a, b) for a, b in zip(members, members[1:] + members[:1])]
    comps = []
    for nm, C in (("TotalPowerConstraint", TotalPowerConstraint(2.0)), ("AveragePowerConstraint", AveragePowerConstraint(0.5)), ("PAPRConstraint", PAPRConstraint(max_papr=3.0)), ("PeakAmplitudeConstraint", PeakAmplitudeConstraint(1.0))):
        comps.append(Comp(nm, "constraints:" + nm, C, members, float_out=True, grouping=False, cfg={"dtype": "real"}))
        if nm != "PeakAmplitudeConstraint":
            comps.append(Comp(nm, "constraints:" + nm, C, cm, float_out=True, grouping=False, cfg={"dtype": "complex"}))
    # PAPR: members that need many clipping rounds (one dominant sample, tight limits on short items) next to members that
    # already satisfy the limit at 75-99 % of it or converge at once: a finished member must not be touched again
    for lim in (1.5, 2.0, 3.0):
        m = 12

        def two_level(frac):
            # one sample of amplitude a among m-1 ones: PAPR = a^2 m / (a^2 + m - 1) = frac * lim
            t = frac * lim
            a2 = t * (m - 1) / (m - t)
            return torch.tensor([math.sqrt(a2)] + [1.0] * (m - 1), dtype=torch.float32) * (1.0 if rng.random() < 0.5 else -1.0)
        gs = lambda sc: torch.tensor([rng.gauss(0, sc) for _ in range(m)], dtype=torch.float32)
        pm = [two_level(0.75), torch.tensor([40.0] + [rng.uniform(0.5, 1.5) * rng.choice([-1, 1]) for _ in range(m - 1)]), two_level(0.9), gs(1), two_level(0.99),
              torch.tensor([(-1.0) ** i for i in range(m)]), torch.tensor([0.0] * (m - 2) + [25.0, -1.0]), gs(5)]
        comps.append(Comp("PAPRConstraint", "constraints:PAPRConstraint", PAPRConstraint(max_papr=lim), pm, float_out=True, grouping=False, cfg={"dtype": "real", "max_papr": lim, "members": "peaky+converged"}))
        pc = [torch.complex(a, b) for a, b in zip(pm, pm[3:] + pm[:3])]
        comps.append(Comp("PAPRConstraint", "constraints:PAPRConstraint", PAPRConstraint(max_papr=lim), pc, float_out=True, grouping=False, cfg={"dtype": "complex", "max_papr": lim, "members": "peaky+converged"}))
    # members around the zero-signal guard (power < 1e-10 -> uniform replacement): total power / average power just below and
    # just above it, next to ordinary members - the guard is per member, whatever else the batch holds
    wn = 16
    weak = [torch.full((wn,), a) * torch.tensor([(-1.0) ** i for i in range(wn)]) for a in (5e-6, 2e-6, 1.2e-5, 3e-5, 1e-7)] + [torch.zeros(wn), g(1)[:wn], g(1e-3)[:wn], g(50)[:wn]]
    for nm, C in (("TotalPowerConstraint", TotalPowerConstraint(2.0)), ("AveragePowerConstraint", AveragePowerConstraint(0.5))):
        comps.append(Comp(nm, "constraints:" + nm, C, weak, float_out=True, grouping=False, cfg={"dtype": "real", "members": "around the zero-signal guard"}))
        comps.append(Comp(nm, "constraints:" + nm, C, [torch.complex(a, b) for a, b in zip(weak, weak[1:] + weak[:1])], float_out=True, grouping=False, cfg={"dtype": "complex", "members": "around the zero-signal guard"}))
    am = [m.reshape(3, 8) for m in members]
    comps.append(Comp("PerAntennaPowerConstraint", "constraints:PerAntennaPowerConstraint", PerAntennaPowerConstraint(uniform_power=0.7), am, item_dims=2, float_out=True, cfg={"item_shape": [3, 8]}))
    for nm, C in (("TotalPowerConstraint", TotalPowerConstraint(2.0)), ("AveragePowerConstraint", AveragePowerConstraint(0.5)), ("PAPRConstraint", PAPRConstraint(max_papr=3.0))):
        comps.append(Comp(nm, "constraints:" + nm, C, am, item_dims=2, float_out=True, cfg={"item_shape": [3, 8]}))
    return comps


def corr(ctx):
    ops = []
    fec, lines = fec_components(ctx)
    ops += lines
    for comp in fec + modem_components(ctx) + constraint_components(ctx):
        check_component(ctx, comp, ops)
        ctx.count("component_" + comp.name)
    return ops


def search(ctx, mismatches, broken, prop_fail):
    out, seen = [], set()
    for pf in prop_fail + mismatches:
        cfg = pf["info"].get("config", {})
        site = pf["info"].get("site")
        key = (site, cfg.get("component"), cfg.get("relation"))
        if site is None or key in seen:
            continue
        seen.add(key)
        rel = cfg.get("relation")
        if rel == "batch":
            what = "%s (%s): in a batch of %s (members %s) the result for position %s differs from that member processed alone%s" % (cfg.get("component"), {k: v for k, v in cfg.items() if k in ("code", "table", "dtype", "item_shape")}, cfg.get("B"), cfg.get("order"), cfg.get("first_bad_member"), "" if cfg.get("input_unchanged", True) else "; the input tensor was modified")
        elif rel == "repeat":
            what = "%s: the same batch gives a different answer after other calls on the same object (%s)" % (cfg.get("component"), cfg.get("error", "values differ"))
        elif rel and rel.startswith("layout"):
            what = "%s: layout %s (%s) is answered with values that differ from per-block evaluation instead of being rejected" % (cfg.get("component"), rel, {k: v for k, v in cfg.items() if k in ("blocks_per_row", "code", "table")})
        elif rel == "model_blockwise":
            what = "%s: row %s -> %s, the model's blockwise map gives %s" % (cfg.get("component"), pf["op"][:120], pf["impl"], pf.get("model"))
        else:
            what = "%s: %s" % (cfg.get("component"), cfg)
        out.append({"site": site, "config": cfg, "what": what, "ops": [pf["op"][:400]], "impl_output": pf["impl"][:200], "kind": "failing-input"})
    return out[:15]


def finding_reproduces(ctx, f):
    return False


def replay(ctx, payload):
    print("replay: re-run ./check C20; op lines:", payload.get("ops"))
    return 0
