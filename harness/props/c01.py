"""C01 — encoder, generator matrix and parity-check matrix describe one and the same code."""
import itertools
import numpy as np
from ..runner import Op
from .. import feccat

ID = "C01"
KINDS = {"U": ["encode_linear", "encode_zero", "syndrome_linear", "syndrome_coset", "encode_injective", "codeword_length",
               "syndrome_zero_iff_codeword", "check_matrix_rank"],
         "K": ["instances_ok (part0_ok .. part7_ok)"]}
PARTIAL = ["polar codes are C11", "rank(H) = n-k is stated as: n-k independent rows + null space = the 2^k codewords"]
RULE = ("enc / syn lines per instance: all 2^k messages (k <= 8 quick, 12 thorough) or a sample, syndromes of codewords and of "
        "single-bit and random multi-bit perturbations; non-trivial = non-zero message / word")
ASSUMPTIONS = ["matrices are read from the buffers generator_matrix, check_matrix, generator_right_inverse of freshly constructed encoders",
               "vectors are at most 128 bits long"]
NPARTS = 8

_CAT = {}


def load():
    if not _CAT:
        for c in feccat.catalogue():
            _CAT[c.name] = c
    return _CAT


def inst_text(c):
    G, H, R = c.matrices()
    if not c.raw_matrices_binary():
        raise ValueError("%s: published matrices contain non-binary entries" % c.name)
    k, n = G.shape
    r = H.shape[0]
    try:
        St, J, HJ, W = feccat.certificates(G, H, R)
        St, HJ, W = feccat.masks(St), feccat.masks(HJ), feccat.masks(W)
    except ValueError:
        St, J, HJ, W = [0] * r, [], [], [0] * n      # no certificate exists: codeOk is false for this instance
    lst = lambda v: "[" + ", ".join(str(x) for x in v) + "]"
    HT = feccat.masks(H.T) if H.shape[1] == n else [0] * n
    return ('  { name := "%s", n := %d, k := %d, r := %d, G := %s, HT := %s, R := %s, St := %s, J := %s, HJ := %s, W := %s }'
            % (c.name, n, k, r, lst(feccat.masks(G)), lst(HT), lst(feccat.masks(R)), lst(St), lst(list(J)), lst(HJ), lst(W)))


def extract(ctx):
    cat = load()
    items = []
    for name, c in cat.items():
        G = c.matrices()[0]
        items.append((G.shape[0] ** 2 + G.shape[1] ** 2, name))
    items.sort(reverse=True)
    parts = [[] for _ in range(NPARTS)]
    load_ = [0] * NPARTS
    for w, name in items:
        j = load_.index(min(load_))
        parts[j].append(inst_text(cat[name])); load_[j] += w + 20
    files = {}
    for j in range(NPARTS):
        files["C01P%d" % j] = ("-- generated from /repo: generator_matrix / check_matrix / generator_right_inverse of catalogue encoders (part %d)\n"
                               "import Kaira.Codes\nopen Kaira.Codes\nnamespace Generated.C01P%d\ndef part : List CodeInst := [\n" % (j, j)
                               + ",\n".join(parts[j]) + "]\nend Generated.C01P%d\n" % j)
    files["C01"] = ("".join("import Generated.C01P%d\n" % j for j in range(NPARTS)) + "open Kaira.Codes\nnamespace Generated.C01\n"
                    "def instances : List CodeInst := " + " ++ ".join("Generated.C01P%d.part" % j for j in range(NPARTS)) + "\nend Generated.C01\n")
    return files


def defcode_line(c):
    G, H, R = c.matrices()
    j = lambda v: ",".join(str(x) for x in v) if len(v) else "-"
    return "defcode %s %d %d %d %s %s %s" % (c.name, G.shape[1], G.shape[0], H.shape[0], j(feccat.masks(G)), j(feccat.masks(H.T)), j(feccat.masks(R)))


def bits(row):
    return "".join("1" if int(round(float(v))) % 2 else "0" for v in row) or "-"


def messages(ctx, k, full_upto, nsample):
    if k <= full_upto:
        return [list(m) for m in itertools.product([0, 1], repeat=k)]
    rng = ctx.rng
    ms = [[0] * k, [1] * k] + [[1 if i == j else 0 for i in range(k)] for j in range(k)]
    ms += [[rng.getrandbits(1) for _ in range(k)] for _ in range(nsample)]
    return ms


def corr(ctx):
    import torch
    ops = []
    rng = ctx.rng
    full = 12 if ctx.thorough else 8
    for name, c in load().items():
        enc = c.enc
        n, k = enc.code_length, enc.code_dimension
        ops.append(Op(defcode_line(c), "ok", nontrivial=False))
        M = torch.tensor(messages(ctx, k, full, 200 if ctx.thorough else 40), dtype=torch.float32)
        C = enc(M)
        info = {"site": "fec.encoders:%s.forward" % c.family, "config": {"inst": name, "family": c.family}}
        for m, cw in zip(M.tolist(), C.tolist()):
            ops.append(Op("enc %s %s" % (name, bits(m)), bits(cw), nontrivial=any(m), info=info))
        ctx.count("enc_" + c.family, len(M))
        # syndromes: codewords, all single-bit flips of a few codewords, random multi-bit perturbations
        words = [C[i].clone() for i in range(min(len(C), 24 if ctx.thorough else 8))]
        pert = []
        for w in words[:6 if ctx.thorough else 3]:
            for p in range(n):
                v = w.clone(); v[p] = 1 - v[p]; pert.append(v)
        for w in words:
            for _ in range(4):
                v = w.clone()
                for p in rng.sample(range(n), rng.randint(1, min(n, 4))):
                    v[p] = 1 - v[p]
                pert.append(v)
        W = torch.stack(words + pert)
        info2 = {"site": "fec.encoders:%s.calculate_syndrome" % c.family, "config": {"inst": name, "family": c.family}}
        if c.family == "reed_muller":
            # its calculate_syndrome is the error pattern of the nearest codeword (2^k enumeration), not x H^T:
            # the property's clause is about zero-ness, compared as such
            if k > 16:
                ctx.count("syn_skipped_rm_k>16")
                continue
            if k > 14:
                W = torch.stack(words[:5] + pert[:3] + pert[-3:])    # 2^k x n work per word: a handful of words with random (large-index) messages
            S = enc.calculate_syndrome(W)
            for w, s in zip(W.tolist(), S.tolist()):
                ops.append(Op("synz %s %s" % (name, bits(w)), "1" if any(int(round(v)) % 2 for v in s) else "0", nontrivial=any(w), info=info2))
        else:
            S = enc.calculate_syndrome(W)
            for w, s in zip(W.tolist(), S.tolist()):
                ops.append(Op("syn %s %s" % (name, bits(w)), bits(s), nontrivial=any(w), info=info2))
        ctx.count("syn_" + c.family, len(W))
    return ops


# ------------------------------------------------------------------ independent oracle
def kernel_vector_outside(G, H):
    """a word with zero syndrome that is not a codeword, or None"""
    n = G.shape[1]
    # null space basis of H
    R, _, piv = feccat.rref(H)
    free = [j for j in range(n) if j not in piv]
    for f in free:
        v = np.zeros(n, dtype=np.uint8); v[f] = 1
        for i, p in enumerate(piv):
            v[p] = R[i, f]
        if feccat.rank(np.concatenate([G, v[None, :]], axis=0)) > feccat.rank(G):
            return v
    return None


def instance_violations(c, ctx, limit=3):
    """list of (what, ops) found on the real encoder"""
    import torch
    out = []
    try:
        enc = c.enc
        G, H, R = c.matrices()
    except Exception as e:
        return [("%s: cannot be constructed / matrices unavailable: %s" % (c.name, e), [])]
    k, n = G.shape
    if (n, k) != (enc.code_length, enc.code_dimension):
        out.append(("%s: generator matrix is %dx%d but the code reports (n,k)=(%d,%d)" % (c.name, k, n, enc.code_length, enc.code_dimension), []))
    M = torch.tensor(messages(ctx, k, 10, 60), dtype=torch.float32)
    C = (enc(M).numpy().astype(int) % 2)
    want = (M.numpy().astype(int) @ G.astype(int)) % 2
    bad = np.nonzero((C != want).any(axis=1))[0]
    if len(bad):
        i = bad[0]
        out.append(("%s: encode(%s) = %s but m*G = %s for the published generator matrix" % (c.name, bits(M[i]), bits(C[i]), bits(want[i])), ["enc %s %s" % (c.name, bits(M[i]))]))
    if feccat.rank(G) < k:
        out.append(("%s: published generator matrix has rank %d < k = %d (encoding not injective)" % (c.name, feccat.rank(G), k), []))
    if c.family == "reed_muller" and k > 16:
        return out[:limit]
    if c.family == "reed_muller" and k > 14:
        M, C = M[:6], C[:6]
    # codewords with non-zero syndrome (as computed by the real calculate_syndrome)
    S = enc.calculate_syndrome(torch.tensor(C, dtype=torch.float32)).numpy().astype(int) % 2
    bad = np.nonzero(S.any(axis=1))[0]
    if len(bad):
        i = bad[0]
        out.append(("%s: codeword %s = encode(%s) has non-zero syndrome %s" % (c.name, bits(C[i]), bits(M[i]), bits(S[i])), ["syn %s %s" % (c.name, bits(C[i]))]))
    v = kernel_vector_outside(G, H) if H.shape[1] == n else None
    if H.shape[1] != n:
        out.append(("%s: check matrix has %d columns, n = %d" % (c.name, H.shape[1], n), []))
    elif v is not None:
        s = enc.calculate_syndrome(torch.tensor(v, dtype=torch.float32)).numpy().astype(int) % 2
        if not s.any():
            out.append(("%s: word %s is not a codeword but has an all-zero syndrome (rank H = %d, n-k = %d)" % (c.name, bits(v), feccat.rank(H), n - k), ["syn %s %s" % (c.name, bits(v))]))
    elif feccat.rank(H) != n - k:
        out.append(("%s: rank of the published check matrix is %d, n-k = %d" % (c.name, feccat.rank(H), n - k), []))
    return out[:limit]


def search(ctx, mismatches, broken, prop_fail):
    out = []
    names = []
    for m in mismatches:
        nm = m["info"].get("config", {}).get("inst")
        if nm and nm not in names:
            names.append(nm)
    try:
        cat = load()
    except Exception as e:
        return [{"site": "fec.encoders:catalogue", "config": {}, "what": "catalogue cannot be constructed: %s" % e, "ops": [], "kind": "failing-input"}]
    order = names + [n for n in cat if n not in names]
    for name in order:
        c = cat[name]
        for what, ops in instance_violations(c, ctx):
            out.append({"site": "fec.encoders:%s" % c.family, "config": {"inst": name, "family": c.family, **{k: v for k, v in c.params.items() if not isinstance(v, list)}},
                        "what": what, "ops": ops, "kind": "failing-input"})
        if len(out) >= 8:
            break
    return out


def finding_reproduces(ctx, f):
    return False


def replay(ctx, payload):
    print("replay: re-run ./check C01; op lines:", payload.get("ops"))
    return 0
