"""C04 — encoding followed by the encoder's own message extraction is the identity (all layouts)."""
import numpy as np
from ..runner import Op
from .. import feccat
from . import c01

ID = "C04"
KINDS = {"U": ["right_inverse_roundtrip", "roundtrip_instances", "blockwise_roundtrip", "reject_non_multiple", "blockwise_length"],
         "K": ["C01.instances_ok (shared catalogue)"]}
PARTIAL = ["Hamming.inverse_encode (single-error correction) and ReedMuller.inverse_encode (nearest codeword) are modelled on codewords only here; their behaviour on corrupted words is C02"]
RULE = ("enc / inv lines: each row of the last dimension is one line; layouts 1-D, (B,k), (B1,B2,k), b = 1..4 concatenated blocks; "
        "inverse_encode, extract_message and project_word; lengths that are not multiples must be rejected; non-trivial = non-zero message")
ASSUMPTIONS = c01.ASSUMPTIONS

extract = c01.extract
bits = c01.bits


def _reject(fn):
    try:
        return fn()
    except (ValueError, AssertionError, RuntimeError, IndexError):
        return None


def corr(ctx):
    import torch
    ops = []
    rng = ctx.rng
    for name, c in c01.load().items():
        enc = c.enc
        n, k = enc.code_length, enc.code_dimension
        if c.family == "reed_muller" and k > 12:
            ctx.count("skipped_rm_k>12")
            continue
        ops.append(Op(c01.defcode_line(c), "ok", nontrivial=False))
        info = {"site": "fec.encoders:%s.inverse_encode" % c.family, "config": {"inst": name, "family": c.family}}

        def rnd(*shape):
            return torch.tensor(np.array([rng.getrandbits(1) for _ in range(int(np.prod(shape)))]).reshape(shape), dtype=torch.float32)
        nmsg = 12 if ctx.thorough else 5
        layouts = [("1d", rnd(k)), ("Bk", rnd(nmsg, k)), ("B1B2k", rnd(2, 3, k))] + [("blocks%d" % b, rnd(2, b * k)) for b in (1, 2, 3, 4)]
        layouts += [("B1B2blocks2", rnd(2, 3, 2 * k)), ("B1B2B3blocks3", rnd(2, 2, 2, 3 * k))]
        if k <= 6:
            import itertools
            layouts.append(("all", torch.tensor(list(itertools.product([0, 1], repeat=k)), dtype=torch.float32)))
        if c.family in ("reed_muller", "hamming") and n <= 32:
            # families with their own inverse (chunked / vectorised searches): block counts that are not round numbers
            layouts += [("many201", rnd(201, k)), ("many67x3", rnd(67, 3 * k))]
            if k <= 6 and c.family == "reed_muller":
                layouts.append(("many2100", rnd(2100, k)))
        for tag, M in layouts:
            C = _reject(lambda: enc(M))
            rowsM = M.reshape(-1, M.shape[-1])
            if C is None:
                ops.append(Op("enc %s %s" % (name, bits(rowsM[0])), "reject", info=dict(info, site="fec.encoders:%s.forward" % c.family)))
                continue
            rowsC = C.reshape(-1, C.shape[-1])
            shape_ok = tuple(C.shape[:-1]) == tuple(M.shape[:-1]) and C.shape[-1] * k == M.shape[-1] * n
            for m, cw in zip(rowsM.tolist(), rowsC.tolist()):
                ops.append(Op("enc %s %s" % (name, bits(m)), bits(cw) if shape_ok else "shape:%s" % (tuple(C.shape),), nontrivial=any(m), info=dict(info, site="fec.encoders:%s.forward" % c.family)))
            res = _reject(lambda: enc.inverse_encode(C))
            if res is None:
                ops.append(Op("inv %s %s" % (name, bits(rowsC[0])), "reject", info=dict(info, config=dict(info["config"], layout=tag))))
            else:
                dec, syn = res if isinstance(res, tuple) else (res, None)
                ok_shape = tuple(dec.shape) == tuple(M.shape)
                rowsD = dec.reshape(-1, dec.shape[-1])
                syn_zero = syn is None or not bool((syn != 0).any())
                for cw, d in zip(rowsC.tolist(), rowsD.tolist()):
                    ops.append(Op("inv %s %s" % (name, bits(cw)), (bits(d) if ok_shape else "shape:%s" % (tuple(dec.shape),)) + ("" if syn_zero else " syndrome!=0"),
                                  nontrivial=any(cw), info=dict(info, config=dict(info["config"], layout=tag))))
            em = _reject(lambda: enc.extract_message(C))
            if em is not None:
                for cw, d in zip(rowsC.tolist(), em.reshape(-1, em.shape[-1]).tolist()):
                    ops.append(Op("inv %s %s" % (name, bits(cw)), bits(d) if tuple(em.shape) == tuple(M.shape) else "shape:%s" % (tuple(em.shape),),
                                  nontrivial=any(cw), info=dict(info, site="fec.encoders:%s.extract_message" % c.family, config=dict(info["config"], layout=tag))))
            else:
                ops.append(Op("inv %s %s" % (name, bits(rowsC[0])), "reject", info=dict(info, site="fec.encoders:%s.extract_message" % c.family)))
            if hasattr(enc, "project_word"):
                pw = _reject(lambda: enc.project_word(C))
                if pw is not None:
                    for cw, d in zip(rowsC.tolist(), pw.reshape(-1, pw.shape[-1]).tolist()):
                        ops.append(Op("inv %s %s" % (name, bits(cw)), bits(d), nontrivial=any(cw), info=dict(info, site="fec.encoders:%s.project_word" % c.family, config=dict(info["config"], layout=tag))))
            ctx.count("layout_" + tag)
        # rejection of non-multiples
        bad = rnd(k + 1) if k > 1 else rnd(3)
        if bad.shape[-1] % k:
            r = _reject(lambda: enc(bad))
            ops.append(Op("enc %s %s" % (name, bits(bad)), "reject" if r is None else "accepted:" + bits(r.reshape(-1)), info=dict(info, site="fec.encoders:%s.forward" % c.family)))
        badc = rnd(n + 1)
        if badc.shape[-1] % n:
            r = _reject(lambda: enc.inverse_encode(badc))
            ops.append(Op("inv %s %s" % (name, bits(badc)), "reject" if r is None else "accepted", info=info))
            ctx.count("reject_cases", 2)
        # batched non-multiples whose total size IS a multiple: every row must still be rejected
        if k > 1 and k <= 16:
            for shp in [(k, k + 1)] + ([(2, k // 2), (2, 3 * k // 2)] if k % 2 == 0 and k > 2 else []):
                badb = rnd(*shp)
                r = _reject(lambda: enc(badb))
                ops.append(Op("enc %s %s" % (name, bits(badb[0])), "reject" if r is None else "accepted:shape%s" % (tuple(r.shape),), info=dict(info, site="fec.encoders:%s.forward" % c.family, config=dict(info["config"], layout="batched-non-multiple%s" % (shp,)))))
        if n <= 16:
            shapes = [(n, n + 1)] + ([(2, n // 2), (4, n // 2), (2, 3 * n // 2)] if n % 2 == 0 and n > 2 else [])
            for shp in shapes:
                badb = rnd(*shp)
                for fn_name in ("inverse_encode", "extract_message", "calculate_syndrome"):
                    r = _reject(lambda: getattr(enc, fn_name)(badb))
                    verb = "syn" if fn_name == "calculate_syndrome" else "inv"
                    ops.append(Op("%s %s %s" % (verb, name, bits(badb[0])), "reject" if r is None else "accepted", info=dict(info, site="fec.encoders:%s.%s" % (c.family, fn_name), config=dict(info["config"], layout="batched-non-multiple%s" % (shp,)))))
            ctx.count("reject_cases", 3 * len(shapes))
        ctx.count("family_" + c.family)
    return ops


def search(ctx, mismatches, broken, prop_fail):
    """oracle = identity: for each instance and layout, inverse(encode(m)) must be m with zero syndrome, or an error for non-multiples"""
    import torch
    out = []
    names = []
    for m in mismatches:
        nm = m["info"].get("config", {}).get("inst")
        if nm and nm not in names:
            names.append(nm)
    cat = c01.load()
    rng = ctx.rng
    for name in names + [n for n in cat if n not in names]:
        c = cat[name]
        try:
            enc = c.enc
        except Exception as e:
            out.append({"site": "fec.encoders:%s" % c.family, "config": {"inst": name}, "what": "%s cannot be constructed: %s" % (name, e), "ops": [], "kind": "failing-input"})
            continue
        n, k = enc.code_length, enc.code_dimension
        if c.family == "reed_muller" and k > 12:
            continue
        shapes = [("1d", (k,)), ("Bk", (4, k)), ("B1B2k", (2, 2, k)), ("blocks2", (2, 2 * k)), ("blocks3", (3 * k,)), ("B1B2blocks2", (2, 3, 2 * k))]
        if c.family in ("reed_muller", "hamming") and n <= 32:
            shapes += [("many201", (201, k)), ("many67x3", (67, 3 * k))] + ([("many2100", (2100, k))] if k <= 6 and c.family == "reed_muller" else [])
        for tag, shape in shapes:
            M = torch.tensor(np.array([rng.getrandbits(1) for _ in range(int(np.prod(shape)))]).reshape(shape), dtype=torch.float32)
            what = None
            try:
                C = enc(M)
                if C.shape[-1] * k != M.shape[-1] * n or tuple(C.shape[:-1]) != tuple(M.shape[:-1]):
                    what = "encode maps shape %s to %s" % (tuple(M.shape), tuple(C.shape))
                else:
                    # per-block reference: every block of every row must be the encoding of the corresponding message block
                    Cb = C.reshape(-1, n); Mb = M.reshape(-1, k)
                    ref = torch.stack([enc(Mb[i]) for i in range(Mb.shape[0])])
                    if bool((ref != Cb).any()):
                        what = "encode of layout %s differs from block-by-block encoding" % (tuple(M.shape),)
                    for fn_name in (("inverse_encode", "extract_message") + (("project_word",) if hasattr(enc, "project_word") else ())) if what is None else ():
                        res = getattr(enc, fn_name)(C)
                        dec, syn = res if isinstance(res, tuple) else (res, None)
                        if tuple(dec.shape) != tuple(M.shape) or bool((dec != M).any()):
                            what = "%s(encode(m)) != m for m = %s (got %s)" % (fn_name, bits(M.reshape(-1)), bits(dec.reshape(-1)) if dec.numel() < 200 else tuple(dec.shape))
                            break
                        if syn is not None and bool((syn != 0).any()):
                            what = "%s(encode(m)) reports a non-zero syndrome for m = %s" % (fn_name, bits(M.reshape(-1)))
                            break
            except Exception as e:
                what = "layout %s raises %s: %s" % (tag, type(e).__name__, str(e)[:120])
            if what:
                out.append({"site": "fec.encoders:%s" % c.family, "config": {"inst": name, "family": c.family, "layout": tag},
                            "what": "%s [%s]: %s" % (name, tag, what), "ops": ["enc %s %s" % (name, bits(M.reshape(-1)))], "kind": "failing-input"})
                break
        for L, fn in ((k + 1, enc.forward), (n + 1, enc.inverse_encode), (-(k + 1), enc.forward), (-(n + 1), enc.inverse_encode), (-(n + 1), enc.extract_message)):
            size = k if fn == enc.forward else n
            batched = L < 0
            L = abs(L)
            if L % size == 0 or size > 16 or size < 2:
                continue
            xs = [torch.zeros(size, L)] + ([torch.zeros(2, size // 2), torch.zeros(2, 3 * size // 2)] if size % 2 == 0 and size > 2 else []) if batched else [torch.zeros(L)]
            for x in xs:
                try:
                    fn(x)
                    out.append({"site": "fec.encoders:%s" % c.family, "config": {"inst": name, "family": c.family, "layout": "non-multiple"},
                                "what": "%s: %s accepts an input of shape %s whose last dimension is not a multiple of %d instead of rejecting it" % (name, getattr(fn, "__name__", "call"), tuple(x.shape), size), "ops": [], "kind": "failing-input"})
                    break
                except Exception:
                    pass
        if len(out) >= 8:
            break
    return out


def finding_reproduces(ctx, f):
    return False


def replay(ctx, payload):
    print("replay: re-run ./check C04; op lines:", payload.get("ops"))
    return 0
