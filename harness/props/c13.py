"""C13 — fading channels apply block-constant, correctly normalised gains: y = h.x + n."""
import math
from fractions import Fraction
import numpy as np
from ..runner import Op

ID = "C13"
KINDS = {"U": ["expand_block_constant", "same_block_same_gain", "block_index_lt", "expand_length", "csi_noise_verbatim", "fade_length",
               "rayleigh_norm", "rician_norm", "rician_gain", "faded_power"]}
PARTIAL = ["independence across blocks / batch items and the law of the fading draws: trusted (torch.randn), supported by gain statistics on 10^6 blocks (recorded, never a violation alone)",
           "log-normal shadowing (exp of a normal draw) is checked only through the float64 formula"]
RULE = ("re-seeded runs: the coefficient pattern (x = 1, zero noise) vs expandBlocks; supplied csi/noise vs h.x+n in exact rationals (complex128); "
        "Rayleigh / Rician coefficients and the SNR-mode noise vs the regenerated draws; non-trivial = coherence time < sequence length")
ASSUMPTIONS = ["torch.manual_seed(s) + the same randn call sequence reproduces the channel's draws"]


def fr(v):
    return str(Fraction(float(v)))


def cl(t):
    return ";".join("%s,%s" % (fr(z.real), fr(z.imag)) for z in t.flatten().tolist()) or "-"


def corr(ctx):
    import torch
    from kaira.channels.analog import FlatFadingChannel, RayleighFadingChannel, RicianFadingChannel
    rng = ctx.rng
    ops = []
    seed0 = 9000 + 13 * ctx.seed
    case = 0
    # ---- block structure: x = 1, noise = 0  =>  y = expanded coefficients
    for L in (1, 5, 8, 12, 17):
        for T in sorted({1, 2, 3, 4, 5, 7, L, L + 3}):
            for B in (1, 3):
                case += 1
                ch = FlatFadingChannel("rayleigh", T, avg_noise_power=0.1)
                x = torch.ones(B, L, dtype=torch.complex64)
                torch.manual_seed(seed0 + case)
                y = ch(x, noise=torch.zeros(B, L, dtype=torch.complex64))
                nb = (L + T - 1) // T
                torch.manual_seed(seed0 + case)
                hr = torch.randn(B, nb); hi = torch.randn(B, nb)
                h = torch.complex(hr, hi) / (2 ** 0.5)
                for b in range(B):
                    vals = h[b].tolist()
                    idx = []
                    for t in range(L):
                        m = [j for j, v in enumerate(vals) if abs(complex(v) - complex(y[b, t].item())) <= 1e-6 * (1 + abs(complex(v)))]
                        idx.append(m[0] if len(m) >= 1 else -1)
                    ops.append(Op("expand %d %d %s" % (T, L, ",".join(str(j) for j in range(nb))), ",".join(str(j) for j in idx) + " %d" % nb, nontrivial=T < L,
                                  info={"site": "channels:FlatFadingChannel.blocks", "config": {"L": L, "T": T, "B": B}}))
                ctx.count("block_cases")
    # ---- supplied csi and noise: exactly h.x + n, shapes 1-D / 2-D / 4-D
    for shape in ((6,), (2, 5), (2, 2, 2, 3)):
        for cplx_in in (True, False):
            case += 1
            n = int(math.prod(shape))
            g = lambda: torch.tensor([rng.choice([-2, -1, -0.5, 0.25, 1, 1.5, 3]) for _ in range(n)], dtype=torch.float64)
            x = torch.complex(g(), g()) if cplx_in else g()
            flat = (1, n) if len(shape) == 1 else (shape[0], n // shape[0])
            csi = torch.complex(g(), g()).reshape(flat)
            nz = torch.complex(g(), g()).reshape(flat)
            ch = FlatFadingChannel("rician", 3, k_factor=2.0, snr_db=10.0)
            y = ch(x.reshape(shape), csi=csi, noise=nz)
            xc = (x if cplx_in else torch.complex(x, torch.zeros_like(x)))
            ok_shape = tuple(y.shape) == tuple(shape)
            ops.append(Op("fade %s %s %s" % (cl(csi), cl(xc), cl(nz)), cl(y) + ("" if ok_shape else " shape%s" % (tuple(y.shape),)), nontrivial=True,
                          info={"site": "channels:FlatFadingChannel.csi", "config": {"shape": list(shape), "complex_input": cplx_in}}))
            ctx.count("csi_cases")
    # ---- coefficient laws and SNR-mode noise against the regenerated draws (float64 evaluation of the definition)
    for kind, kw in (("rayleigh", {}), ("rician", {"k_factor": 0.0}), ("rician", {"k_factor": 3.0}), ("rician", {"k_factor": 100.0}), ("lognormal", {"shadow_sigma_db": 4.0}),
                     # the K-factor written as a Python int (as in the class docstring), a numpy scalar, a 0-d tensor
                     ("rician", {"k_factor": 4}), ("rician", {"k_factor": 1}), ("rician", {"k_factor": 0}), ("rician", {"k_factor": np.float32(2.5)}), ("rician", {"k_factor": torch.tensor(6.0)}),
                     ("lognormal", {"shadow_sigma_db": 4})):
        for mode in ("power", "snr"):
            case += 1
            B, L, T = 3, 10, 4
            nb = (L + T - 1) // T
            par = {"avg_noise_power": 0.3} if mode == "power" else {"snr_db": 7.0}
            ch = FlatFadingChannel(kind, T, **kw, **par)
            x = torch.complex(torch.tensor([[rng.gauss(0, 1) for _ in range(L)] for _ in range(B)]), torch.tensor([[rng.gauss(0, 1) for _ in range(L)] for _ in range(B)]))
            torch.manual_seed(seed0 + case); y = ch(x)
            torch.manual_seed(seed0 + case)
            if kind == "rayleigh":
                h = torch.complex(torch.randn(B, nb), torch.randn(B, nb)) / (2 ** 0.5)
            elif kind == "rician":
                K = float(kw["k_factor"])
                a = math.sqrt(K / (K + 1)); sg = math.sqrt(1 / (K + 1)) / math.sqrt(2)
                h = torch.complex(a + torch.randn(B, nb) * sg, torch.randn(B, nb) * sg)
            else:
                hr = torch.complex(torch.randn(B, nb), torch.randn(B, nb)) / (2 ** 0.5)
                sl = float(kw["shadow_sigma_db"]) * math.log(10.0) / 10
                h = hr * torch.exp(torch.randn(B, nb) * sl - sl * sl / 2)
            hexp = h[:, torch.arange(L) // T]
            faded = hexp * x
            zr = torch.randn_like(faded.real); zi = torch.randn_like(faded.imag)
            P = 0.3 if mode == "power" else float(torch.mean(torch.abs(faded) ** 2)) / 10 ** (7.0 / 10)
            want = faded + torch.complex(zr, zi) * math.sqrt(P / 2)
            ok = bool(torch.allclose(y, want, rtol=2e-5, atol=2e-6)) and tuple(y.shape) == tuple(x.shape)
            ops.append(Op("expand 1 1 0", "0 1", nontrivial=False, info={"site": "channels:FlatFadingChannel.law", "config": {"kind": kind, "mode": mode, **{k_: (float(v_), type(v_).__name__) for k_, v_ in kw.items()}, "max_dev": float((y - want).abs().max())}}, prop_ok=ok))
            ctx.count("law_cases")
    # convenience classes share the implementation
    for ch, nm in ((RayleighFadingChannel(coherence_time=2, avg_noise_power=0.1), "RayleighFadingChannel"), (RicianFadingChannel(k_factor=2.0, coherence_time=2, snr_db=5.0), "RicianFadingChannel")):
        x = torch.ones(2, 6, dtype=torch.complex64)
        y = ch(x, noise=torch.zeros(2, 6, dtype=torch.complex64))
        ok = bool((y[:, 0] == y[:, 1]).all() and (y[:, 2] == y[:, 3]).all() and (y[:, 4] == y[:, 5]).all()) and tuple(y.shape) == (2, 6)
        ops.append(Op("expand 2 6 0,1,2", "0,0,1,1,2,2 3", nontrivial=True, info={"site": "channels:%s.blocks" % nm, "config": {}}, prop_ok=ok))
    ctx.extra["statistics"] = _statistics(ctx)
    return ops


def _statistics(ctx):
    import torch
    from kaira.channels.analog import FlatFadingChannel
    n = 1_000_000
    torch.manual_seed(31337 + ctx.seed)
    out = {}
    for name, ch in (("rayleigh", FlatFadingChannel("rayleigh", 1, avg_noise_power=1.0)), ("rician_K3", FlatFadingChannel("rician", 1, k_factor=3.0, avg_noise_power=1.0))):
        h = ch._generate_fading_coefficients(1000, n // 1000, "cpu")
        g = float(torch.mean(torch.abs(h) ** 2))
        out[name] = {"blocks": n, "mean_square_gain": g, "ok": abs(g - 1) <= 6.2 * math.sqrt(1.0 / n) * 1.5}
        if name.startswith("rician"):
            los = float(torch.mean(h.real)) ** 2
            out[name]["los_to_scattered"] = los / max(g - los, 1e-12)
    return out


def search(ctx, mismatches, broken, prop_fail):
    out, seen = [], set()
    for pf in prop_fail + mismatches:
        site = pf["info"].get("site")
        cfg = pf["info"].get("config", {})
        key = (site, cfg.get("kind"), cfg.get("mode"))
        if site is None or key in seen:
            continue
        seen.add(key)
        if site.endswith(".blocks"):
            what = "coefficient pattern over the sequence is [%s] but block-constant gains with coherence time %s over length %s give [%s]" % (pf["impl"], cfg.get("T"), cfg.get("L"), pf.get("model"))
        elif site.endswith(".csi"):
            what = "with supplied channel state and noise the output differs from h.x + n (shape %s): %s" % (cfg.get("shape"), pf["impl"][:160])
        else:
            what = "output differs from h.x + n built from the regenerated draws (%s), max deviation %s" % (cfg, cfg.get("max_dev"))
        out.append({"site": site, "config": cfg, "what": "%s: %s" % (site, what), "ops": [pf["op"][:300]], "impl_output": pf["impl"][:200], "kind": "failing-input"})
    return out[:10]


def finding_reproduces(ctx, f):
    return False


def replay(ctx, payload):
    print("replay: re-run ./check C13; op lines:", payload.get("ops"))
    return 0
