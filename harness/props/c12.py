"""C12 — binary channels follow their transition law and never leave their alphabet."""
import math
from fractions import Fraction
from ..runner import Op

ID = "C12"
KINDS = {"U": ["bsc_law_bin", "bsc_law_bip", "bsc_extremes", "bsc_support", "bec_law", "bec_support", "bec_extremes", "z_never_raises", "z_zero"]}
PARTIAL = ["'independently with probability p' = output i is a function of (x_i, u_i) only (proved) + the draws of torch.rand_like are independent uniform on [0,1) "
           "(trusted; supported by rate / pairwise-independence statistics with a per-run false-alarm bound <= 1e-9, which alone never raise a violation)"]
RULE = "re-seeded runs: the real channel and the model get the same uniform draws (torch.manual_seed + rand_like); outputs compared exactly; non-trivial = 0 < p < 1 and mixed input"
ASSUMPTIONS = ["torch.manual_seed(s) followed by the same rand_like call reproduces the channel's draws", "probabilities are compared after rounding to float32 as the channel stores them"]


def ints(v):
    return ",".join(str(int(round(float(x)))) for x in v) or "-"


def fr(v):
    return ",".join(str(Fraction(float(x))) for x in v) or "-"


def corr(ctx):
    import torch
    from kaira.channels.digital import BinarySymmetricChannel, BinaryErasureChannel, BinaryZChannel
    rng = ctx.rng
    ops = []
    probs = [0.0, 1e-3, 0.1, 0.25, 0.5, 0.9, 0.999, 1.0]
    shapes = [(12,), (3, 5), (2, 2, 4)]
    seedc = 1000 + ctx.seed * 17

    def make_input(shape, alphabet, dtype):
        n = int(math.prod(shape))
        vals = [rng.getrandbits(1) for _ in range(n)]
        if alphabet == "bip":
            vals = [2 * v - 1 for v in vals]
            if -1 not in vals:
                vals[0] = -1
        t = torch.tensor(vals).reshape(shape)
        return t.to(dtype)
    for p in probs:
        for shape in shapes:
            for alphabet in ("bin", "bip"):
                for dtype in (torch.float32, torch.int64, torch.float64):
                    seedc += 1
                    x = make_input(shape, alphabet, dtype)
                    x_before = x.clone()
                    # --- BSC
                    ch = BinarySymmetricChannel(p)
                    torch.manual_seed(seedc); y = ch(x)
                    torch.manual_seed(seedc); u = torch.rand_like(((x + 1) / 2 if alphabet == "bip" else x).float())
                    pf = Fraction(float(ch.crossover_prob))
                    untouched = bool((x == x_before).all())
                    alpha = set(int(v) for v in y.flatten().tolist()) <= ({0, 1} if alphabet == "bin" else {-1, 1})
                    ops.append(Op("bsc %s %s %s" % (pf, ints(x.flatten().tolist()), fr(u.flatten().tolist())), ints(y.flatten().tolist()) + ("" if tuple(y.shape) == shape else " shape"),
                                  nontrivial=0 < p < 1, info={"site": "channels:BinarySymmetricChannel", "config": {"p": p, "alphabet": alphabet, "dtype": str(dtype), "shape": list(shape)}},
                                  prop_ok=untouched and alpha))
                    # --- BEC
                    ch = BinaryErasureChannel(p)
                    torch.manual_seed(seedc); y = ch(x)
                    torch.manual_seed(seedc); u = torch.rand_like(x.float())
                    pf = Fraction(float(ch.erasure_prob))
                    ok = bool((x == x_before).all()) and set(int(v) for v in y.flatten().tolist()) <= (set(int(v) for v in x.flatten().tolist()) | {-1})
                    ops.append(Op("bec %s -1 %s %s" % (pf, ints(x.flatten().tolist()), fr(u.flatten().tolist())), ints(y.flatten().tolist()),
                                  nontrivial=0 < p < 1, info={"site": "channels:BinaryErasureChannel", "config": {"p": p, "alphabet": alphabet, "dtype": str(dtype), "shape": list(shape)}}, prop_ok=ok))
                    # --- Z
                    ch = BinaryZChannel(p)
                    torch.manual_seed(seedc); y = ch(x)
                    xb = ((x + 1) / 2 if alphabet == "bip" else x.clone()).float()
                    nones = int((xb == 1).sum())
                    torch.manual_seed(seedc); u = torch.rand_like(xb[xb == 1]) if (p > 0 and nones) else torch.zeros(0)
                    pf = Fraction(float(ch.error_prob))
                    xi, yi = [int(v) for v in x.flatten().tolist()], [int(round(v)) for v in y.flatten().tolist()]
                    zero = 0 if alphabet == "bin" else -1
                    never = all(not (a == zero and b != zero) for a, b in zip(xi, yi))
                    ops.append(Op("zch %s %s %s" % (pf, ints(xi), fr(u.flatten().tolist())), ints(yi),
                                  nontrivial=0 < p < 1, info={"site": "channels:BinaryZChannel", "config": {"p": p, "alphabet": alphabet, "dtype": str(dtype), "shape": list(shape)}},
                                  prop_ok=never and bool((x == x_before).all())))
                    ctx.count("cases_p=%g" % p, 3)
    ctx.extra["statistics"] = _statistics(ctx)
    return ops


def _statistics(ctx):
    """support only: flip / erase rates and lag-1 independence on >= 10^6 symbols, thresholds for a false-alarm probability <= 1e-9"""
    import torch
    from kaira.channels.digital import BinarySymmetricChannel, BinaryErasureChannel, BinaryZChannel
    n = 4_000_000 if ctx.thorough else 1_000_000
    out = {}
    torch.manual_seed(4242 + ctx.seed)
    z = 6.2  # two-sided normal quantile for ~6e-10
    for p in (0.1, 0.5):
        x = torch.randint(0, 2, (n,)).float()
        for name, ch, ev in (("bsc", BinarySymmetricChannel(p), lambda x, y: (x != y)), ("bec", BinaryErasureChannel(p), lambda x, y: (y == -1)), ("z", BinaryZChannel(p), lambda x, y: (x != y)[x == 1])):
            y = ch(x)
            e = ev(x, y).float()
            m = e.numel()
            rate = float(e.mean())
            tol = z * math.sqrt(p * (1 - p) / m)
            lag = float((e[1:] * e[:-1]).mean()) - rate * rate
            tol_lag = z * p * (1 - p) / math.sqrt(m) * 1.5
            out["%s_p%g" % (name, p)] = {"n": m, "rate": rate, "rate_ok": abs(rate - p) <= tol, "lag1_cov": lag, "lag1_ok": abs(lag) <= tol_lag}
    return out


def search(ctx, mismatches, broken, prop_fail):
    out, seen = [], set()
    for pf in prop_fail + mismatches:
        site = pf["info"].get("site")
        cfg = pf["info"].get("config", {})
        key = (site, cfg.get("alphabet"))
        if site is None or key in seen:
            continue
        seen.add(key)
        toks = pf["op"].split()
        law = _law(toks)
        if pf in prop_fail and pf["impl"] == law:
            what = "input modified or output outside the alphabet: x=%s y=%s" % (toks[-2], pf["impl"])
        elif law is not None and pf["impl"] != law:
            what = "with draws u the transition law gives %s but the channel returned %s (x=%s, p=%s)" % (law, pf["impl"], toks[-2][:80], toks[1])
        else:
            continue
        out.append({"site": site, "config": cfg, "what": "%s: %s" % (site.split(":")[1], what), "ops": [pf["op"]], "impl_output": pf["impl"], "kind": "failing-input"})
    return out[:10]


def _law(toks):
    """independent statement of the transition law on the op's own data"""
    F = Fraction
    try:
        verb = toks[0]
        p = F(toks[1])
        xs = [int(v) for v in toks[-2].split(",")]
        us = [F(v) for v in toks[-1].split(",")] if toks[-1] != "-" else []
        bip = -1 in xs
        if verb == "bsc":
            ys = [(-v if bip else 1 - v) if u < p else v for v, u in zip(xs, us)]
        elif verb == "bec":
            ys = [-1 if u < p else v for v, u in zip(xs, us)]
        else:
            one, zero = 1, (-1 if bip else 0)
            it = iter(us)
            ys = []
            for v in xs:
                if v == one and p > 0:
                    ys.append(zero if next(it) < p else one)
                else:
                    ys.append(v)
        return ",".join(str(v) for v in ys)
    except Exception:
        return None


def finding_reproduces(ctx, f):
    return False


def replay(ctx, payload):
    print("replay: re-run ./check C12; op lines:", payload.get("ops"))
    return 0
