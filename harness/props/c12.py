"""C12 — binary channels follow their transition law and never leave their alphabet."""
import math
from fractions import Fraction
from ..runner import Op

ID = "C12"
KINDS = {"U": ["bsc_law_bin", "bsc_law_bip", "bsc_extremes", "bsc_support", "bec_law", "bec_support", "bec_extremes", "z_never_raises", "z_zero"]}
PARTIAL = ["'independently with probability p' = output i is a function of (x_i, u_i) only (proved) + the draws of torch.rand_like are independent uniform on [0,1) "
           "(trusted; validated by event-rate and adjacent-pair counts on 2e6..8e6 symbols against multiplicative Chernoff bounds, false-alarm probability < 5e-10 per test, "
           "as the property's quantifier prescribes)"]
RULE = "re-seeded runs: the real channel and the model get the same uniform draws (torch.manual_seed + rand_like); outputs compared exactly; non-trivial = 0 < p < 1 and mixed input"
ASSUMPTIONS = ["torch.manual_seed(s) followed by the same rand_like call reproduces the channel's draws", "probabilities are compared after rounding to float32 as the channel stores them"]


def ints(v):
    return ",".join(str(int(round(float(x)))) for x in v) or "-"


def fr(v):
    return ",".join(str(Fraction(float(x))) for x in v) or "-"


def corr(ctx):
    import torch
    from kaira.channels.digital import BinarySymmetricChannel, BinaryErasureChannel, BinaryZChannel
    rng = ctx.rng
    ops = []
    probs = [0.0, 1e-3, 0.1, 0.25, 0.5, 0.9, 0.999, 1.0]
    shapes = [(12,), (3, 5), (2, 2, 4)]
    seedc = 1000 + ctx.seed * 17

    def make_input(shape, alphabet, dtype):
        n = int(math.prod(shape))
        vals = [rng.getrandbits(1) for _ in range(n)]
        if alphabet == "bip":
            vals = [2 * v - 1 for v in vals]
            if -1 not in vals:
                vals[0] = -1
        t = torch.tensor(vals).reshape(shape)
        return t.to(dtype)
    for p in probs:
        for shape in shapes:
            for alphabet in ("bin", "bip"):
                for dtype in (torch.float32, torch.int64, torch.float64, torch.bool, torch.uint8, torch.int8):
                    if alphabet == "bip" and dtype in (torch.bool, torch.uint8):
                        continue
                    seedc += 1
                    x = make_input(shape, alphabet, dtype)
                    x_before = x.clone()
                    # --- BSC
                    ch = BinarySymmetricChannel(p)
                    torch.manual_seed(seedc); y = ch(x)
                    torch.manual_seed(seedc); u = torch.rand_like(((x + 1) / 2 if alphabet == "bip" else x).float())
                    pf = Fraction(float(ch.crossover_prob))
                    untouched = bool((x == x_before).all())
                    alpha = set(int(v) for v in y.flatten().tolist()) <= ({0, 1} if alphabet == "bin" else {-1, 1})
                    ops.append(Op("bsc %s %s %s" % (pf, ints(x.flatten().tolist()), fr(u.flatten().tolist())), ints(y.flatten().tolist()) + ("" if tuple(y.shape) == shape else " shape"),
                                  nontrivial=0 < p < 1, info={"site": "channels:BinarySymmetricChannel", "config": {"p": p, "alphabet": alphabet, "dtype": str(dtype), "shape": list(shape)}},
                                  prop_ok=untouched and alpha))
                    # --- BEC
                    ch = BinaryErasureChannel(p)
                    torch.manual_seed(seedc); y = ch(x)
                    torch.manual_seed(seedc); u = torch.rand_like(x.float())
                    pf = Fraction(float(ch.erasure_prob))
                    ok = bool((x == x_before).all()) and set(int(v) for v in y.flatten().tolist()) <= (set(int(v) for v in x.flatten().tolist()) | {-1})
                    ops.append(Op("bec %s -1 %s %s" % (pf, ints(x.flatten().tolist()), fr(u.flatten().tolist())), ints(y.flatten().tolist()),
                                  nontrivial=0 < p < 1, info={"site": "channels:BinaryErasureChannel", "config": {"p": p, "alphabet": alphabet, "dtype": str(dtype), "shape": list(shape)}}, prop_ok=ok))
                    # --- Z
                    ch = BinaryZChannel(p)
                    torch.manual_seed(seedc); y = ch(x)
                    xb = ((x + 1) / 2 if alphabet == "bip" else x.clone()).float()
                    nones = int((xb == 1).sum())
                    torch.manual_seed(seedc); u = torch.rand_like(xb[xb == 1]) if (p > 0 and nones) else torch.zeros(0)
                    pf = Fraction(float(ch.error_prob))
                    xi, yi = [int(v) for v in x.flatten().tolist()], [int(round(v)) for v in y.flatten().tolist()]
                    zero = 0 if alphabet == "bin" else -1
                    never = all(not (a == zero and b != zero) for a, b in zip(xi, yi))
                    ops.append(Op("zch %s %s %s" % (pf, ints(xi), fr(u.flatten().tolist())), ints(yi),
                                  nontrivial=0 < p < 1, info={"site": "channels:BinaryZChannel", "config": {"p": p, "alphabet": alphabet, "dtype": str(dtype), "shape": list(shape)}},
                                  prop_ok=never and bool((x == x_before).all())))
                    ctx.count("cases_p=%g" % p, 3)
    # ---- non-contiguous inputs (transposed / permuted / strided views): deterministic extremes exactly, support invariants and
    #      Chernoff-bounded rates in between (no assumption on the order in which a strided tensor receives its draws)
    def views(alphabet, dtype):
        base = make_input((40, 60), alphabet, dtype)
        yield "transposed", base.t()
        yield "strided", make_input((80, 60), alphabet, dtype)[::2]
        yield "permuted", make_input((6, 20, 20), alphabet, dtype).permute(2, 0, 1)
        yield "column", make_input((2400, 2), alphabet, dtype)[:, 0]
    for alphabet in ("bin", "bip"):
        for dtype in (torch.float32, torch.int64, torch.bool):
            if alphabet == "bip" and dtype == torch.bool:
                continue
            for vname, x in views(alphabet, dtype):
                one, zero = (1, 0) if alphabet == "bin" else (1, -1)
                xi = x.clone().to(torch.int64)
                nx = x.numel(); n1 = int((xi == one).sum())
                for p in (0.0, 0.3, 1.0):
                    seedc += 1
                    x_before = x.clone()
                    res = {}
                    for cname, ch in (("BinarySymmetricChannel", BinarySymmetricChannel(p)), ("BinaryErasureChannel", BinaryErasureChannel(p)), ("BinaryZChannel", BinaryZChannel(p))):
                        torch.manual_seed(seedc)
                        y = ch(x)
                        yi = y.to(torch.float64).round().to(torch.int64)
                        ok = bool((x == x_before).all()) and tuple(y.shape) == tuple(x.shape)
                        what = {"view": vname, "p": p, "alphabet": alphabet, "dtype": str(dtype)}
                        if cname == "BinarySymmetricChannel":
                            flips = int((yi != xi).sum())
                            ok = ok and set(yi.flatten().tolist()) <= {one, zero} and (flips == 0 if p == 0 else flips == nx if p == 1 else _chernoff_ok(flips, nx, p))
                            what["flips"] = flips
                        elif cname == "BinaryErasureChannel":
                            er = int(((yi == -1) & (xi != -1)).sum()) if alphabet == "bip" else int((yi == -1).sum())
                            kept = bool(((yi == xi) | (yi == -1)).all())
                            if alphabet == "bip":
                                # erasure symbol -1 coincides with the bipolar zero: count changed symbols among the +1 only
                                ok = ok and kept and (er == 0 if p == 0 else er == n1 if p == 1 else _chernoff_ok(er, n1, p))
                            else:
                                ok = ok and kept and (er == 0 if p == 0 else er == nx if p == 1 else _chernoff_ok(er, nx, p))
                            what["erased"] = er
                        else:
                            down = int(((xi == one) & (yi == zero)).sum())
                            never = not bool(((xi == zero) & (yi != zero)).any())
                            ok = ok and never and set(yi.flatten().tolist()) <= {one, zero} and (down == 0 if p == 0 else down == n1 if p == 1 else _chernoff_ok(down, n1, p))
                            what["ones_to_zero"] = down; what["ones"] = n1
                        ops.append(Op("bsc 0 0 0", "0", nontrivial=False, info={"site": "channels:%s.view" % cname, "config": what}, prop_ok=bool(ok)))
                        ctx.count("noncontiguous_views")
    # ---- constant inputs (all ones, all zeros, a single symbol sent on its own): data-derived level detection must not turn the
    #      channel into the identity; deterministic extremes exactly, rates Chernoff-bounded
    for shape in ((1,), (5000,), (50, 100)):
        for val, alphabet in ((1, "bin"), (0, "bin")):
            for dtype in (torch.float32, torch.int64, torch.bool):
                x = torch.full(shape, val).to(dtype)
                nx = x.numel()
                for p in (0.0, 0.3, 1.0):
                    seedc += 1
                    for cname, ch in (("BinarySymmetricChannel", BinarySymmetricChannel(p)), ("BinaryErasureChannel", BinaryErasureChannel(p)), ("BinaryZChannel", BinaryZChannel(p))):
                        x_before = x.clone()
                        torch.manual_seed(seedc)
                        y = ch(x)
                        yi = y.to(torch.float64).round().to(torch.int64)
                        changed = int((yi != val).sum())
                        ok = bool((x == x_before).all()) and tuple(y.shape) == tuple(x.shape)
                        if cname == "BinaryZChannel" and val == 0:
                            want = "none"; ok = ok and changed == 0
                        elif cname == "BinaryErasureChannel":
                            want = "erasures"; ok = ok and bool(((yi == val) | (yi == -1)).all()) and (changed == 0 if p == 0 else changed == nx if p == 1 else (nx < 100 or _chernoff_ok(changed, nx, p)))
                        else:
                            want = "flips"; ok = ok and set(yi.flatten().tolist()) <= {0, 1} and (changed == 0 if p == 0 else changed == nx if p == 1 else (nx < 100 or _chernoff_ok(changed, nx, p)))
                        ops.append(Op("bsc 0 0 0", "0", nontrivial=False, info={"site": "channels:%s.constant" % cname, "config": {"value": val, "shape": list(shape), "dtype": str(dtype), "p": p, "changed": changed, "of": nx, "expected": want}}, prop_ok=bool(ok)))
                        ctx.count("constant_inputs")
    # ---- one channel object over several calls: the signalling format is a property of each input (a first block of all +1 - the BPSK
    #      image of the zero word - must not fix the format of later blocks); deterministic extremes only
    for cname, mk in (("BinarySymmetricChannel", BinarySymmetricChannel), ("BinaryZChannel", BinaryZChannel), ("BinaryErasureChannel", BinaryErasureChannel)):
        for p in (0.0, 1.0):
            ch = mk(p)
            seq = [("ones", torch.ones(12)), ("bipolar", torch.tensor([1., -1., -1., 1., 1., -1., 1., -1., 1., 1., -1., -1.])), ("binary", torch.tensor([0., 1., 1., 0., 1., 0., 0., 0., 1., 1., 0., 1.])),
                   ("bipolar", torch.tensor([-1., -1., 1., -1., 1., 1., -1., 1., 1., -1., 1., -1.])), ("zeros", torch.zeros(12))]
            for call, (tag, x) in enumerate(seq):
                y = ch(x)
                fresh = mk(p)(x)
                same = bool(torch.equal(y, fresh))
                ops.append(Op("bsc 0 0 0", "0", nontrivial=False, info={"site": "channels:%s.object_history" % cname, "config": {"p": p, "call": call, "input": tag, "history": [t_ for t_, _ in seq[:call]], "got": ints(y.tolist()), "fresh_object": ints(fresh.tolist())}}, prop_ok=same))
            ctx.count("channel_object_histories")
    # ---- large re-seeded runs: the transition law on the regenerated draws, symbol by symbol (vectorised oracle)
    nbig = 2_000_000
    for p in (1e-3, 0.37):
        x = (torch.rand(nbig, generator=torch.Generator().manual_seed(5 + ctx.seed)) < 0.5).float()
        for name, ch, prob, law in (("BinarySymmetricChannel", BinarySymmetricChannel(p), "crossover_prob", lambda x, u, q: torch.where(u < q, 1 - x, x)),
                                    ("BinaryErasureChannel", BinaryErasureChannel(p), "erasure_prob", lambda x, u, q: torch.where(u < q, torch.full_like(x, -1.0), x))):
            seedc += 1
            torch.manual_seed(seedc); y = ch(x)
            torch.manual_seed(seedc); u = torch.rand_like(x)
            want = law(x, u, float(getattr(ch, prob)))
            nd = int((y != want).sum())
            ev = (y != x)
            ops.append(Op("bsc 0 0 0", "0", nontrivial=False, info={"site": "channels:%s.large" % name, "config": {"p": p, "n": nbig, "differing_symbols": nd, "event_rate": float(ev.float().mean())}}, prop_ok=(nd == 0)))
            ctx.count("large_reseeded")
    st = _statistics(ctx)
    ctx.extra["statistics"] = st
    for key, v in st.items():
        ops.append(Op("bsc 0 0 0", "0", nontrivial=False, info={"site": "channels:%s.rate" % key.split("_p")[0], "config": dict(v, case=key)}, prop_ok=bool(v["rate_ok"] and v["lag1_ok"])))
    return ops


def _chernoff_ok(count, n, p, logfa=21.5):
    """two-sided multiplicative Chernoff bound: P(X >= (1+d)mu) <= exp(-d^2 mu/(2+d)), P(X <= (1-d)mu) <= exp(-d^2 mu/2);
    accept iff the observed deviation has bound > exp(-logfa) (logfa = 21.5: false-alarm probability < 5e-10 per test)"""
    mu = n * p
    if mu == 0:
        return count == 0
    d = abs(count - mu) / mu
    if count >= mu:
        return d * d * mu / (2 + d) < logfa
    return d * d * mu / 2 < logfa


def _statistics(ctx):
    """event rates (Chernoff bound, false-alarm probability < 5e-10 per test) and lag-1 dependence of the error / erasure events"""
    import torch
    from kaira.channels.digital import BinarySymmetricChannel, BinaryErasureChannel, BinaryZChannel
    out = {}
    torch.manual_seed(4242 + ctx.seed)
    for p, n in ((1e-3, 8_000_000), (0.1, 2_000_000), (0.5, 2_000_000)):
        x = torch.randint(0, 2, (n,)).float()
        for name, ch, ev in (("bsc", BinarySymmetricChannel(p), lambda x, y: (x != y)), ("bec", BinaryErasureChannel(p), lambda x, y: (y == -1)), ("z", BinaryZChannel(p), lambda x, y: (x != y)[x == 1])):
            y = ch(x)
            e = ev(x, y)
            m = e.numel()
            cnt = int(e.sum())
            ef = e.float()
            both = int((e[1:] & e[:-1]).sum())          # adjacent events: Binomial(m-1, p^2) up to 1-dependence; the bound is applied to even and odd pairs
            even = int((e[1::2][: (m - 1) // 2] & e[0::2][: (m - 1) // 2]).sum())
            npairs = (m - 1) // 2
            out["%s_p%g" % (name, p)] = {"n": m, "events": cnt, "rate": cnt / m, "rate_ok": _chernoff_ok(cnt, m, p),
                                          "adjacent_pairs": even, "pair_rate": even / max(npairs, 1), "lag1_ok": _chernoff_ok(even, npairs, p * p)}
    return out


def search(ctx, mismatches, broken, prop_fail):
    out, seen = [], set()
    for pf in prop_fail + mismatches:
        site = pf["info"].get("site")
        cfg = pf["info"].get("config", {})
        key = (site, cfg.get("alphabet"))
        if site is None or key in seen:
            continue
        seen.add(key)
        if site.endswith(".large"):
            out.append({"site": site, "config": cfg, "kind": "failing-input", "ops": [],
                        "what": "%s: on %d symbols with p=%g, %d outputs differ from the transition law applied to the regenerated draws (observed event rate %.6g)" % (site.split(":")[1], cfg.get("n"), cfg.get("p"), cfg.get("differing_symbols"), cfg.get("event_rate"))})
            continue
        if site.endswith(".rate"):
            out.append({"site": site, "config": cfg, "kind": "failing-input", "ops": [],
                        "what": "%s: %d events in %d symbols (rate %.6g) / %d adjacent event pairs - outside the Chernoff bound for independent events of the configured probability (false-alarm probability < 5e-10)" % (cfg.get("case"), cfg.get("events"), cfg.get("n"), cfg.get("rate"), cfg.get("adjacent_pairs"))})
            continue
        if site.endswith(".object_history"):
            out.append({"site": site, "config": cfg, "kind": "failing-input", "ops": [],
                        "what": "%s(p=%s): call %s on one object (earlier inputs: %s) with a %s input returns %s, a fresh object returns %s" % (site.split(":")[1].split(".")[0], cfg.get("p"), cfg.get("call"), cfg.get("history"), cfg.get("input"), cfg.get("got"), cfg.get("fresh_object"))})
            continue
        if site.endswith(".view") or site.endswith(".constant"):
            kind = "a non-contiguous %s view" % cfg.get("view") if site.endswith(".view") else "a constant input (every symbol = %s, shape %s)" % (cfg.get("value"), cfg.get("shape"))
            out.append({"site": site, "config": cfg, "kind": "failing-input", "ops": [],
                        "what": "%s on %s, dtype %s, p=%s: %s - the transition law demands %s (input unmodified, output in the alphabet)" % (
                            site.split(":")[1].split(".")[0], kind, cfg.get("dtype"), cfg.get("p"),
                            {k_: v_ for k_, v_ in cfg.items() if k_ in ("flips", "erased", "ones_to_zero", "ones", "changed", "of")},
                            "no change" if cfg.get("p") == 0 else "every eligible symbol changed" if cfg.get("p") == 1 else "a rate of p among the eligible symbols")})
            continue
        toks = pf["op"].split()
        law = _law(toks)
        if pf in prop_fail and pf["impl"] == law:
            what = "input modified or output outside the alphabet: x=%s y=%s" % (toks[-2], pf["impl"])
        elif law is not None and pf["impl"] != law:
            what = "with draws u the transition law gives %s but the channel returned %s (x=%s, p=%s)" % (law, pf["impl"], toks[-2][:80], toks[1])
        else:
            continue
        out.append({"site": site, "config": cfg, "what": "%s: %s" % (site.split(":")[1], what), "ops": [pf["op"]], "impl_output": pf["impl"], "kind": "failing-input"})
    return out[:10]


def _law(toks):
    """independent statement of the transition law on the op's own data"""
    F = Fraction
    try:
        verb = toks[0]
        p = F(toks[1])
        xs = [int(v) for v in toks[-2].split(",")]
        us = [F(v) for v in toks[-1].split(",")] if toks[-1] != "-" else []
        bip = -1 in xs
        if verb == "bsc":
            ys = [(-v if bip else 1 - v) if u < p else v for v, u in zip(xs, us)]
        elif verb == "bec":
            ys = [-1 if u < p else v for v, u in zip(xs, us)]
        else:
            one, zero = 1, (-1 if bip else 0)
            it = iter(us)
            ys = []
            for v in xs:
                if v == one and p > 0:
                    ys.append(zero if next(it) < p else one)
                else:
                    ys.append(v)
        return ",".join(str(v) for v in ys)
    except Exception:
        return None


def finding_reproduces(ctx, f):
    return False


def replay(ctx, payload):
    print("replay: re-run ./check C12; op lines:", payload.get("ops"))
    return 0
