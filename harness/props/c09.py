"""C09 — a coded, modulated link over an ideal or bounded-error channel returns the data."""
import contextlib, io, math
from ..runner import Op
from . import c01, c02, c03, c14

ID = "C09"
KINDS = {"U": ["nearest_within_half", "link_corrects", "link_bitflips", "link_chanSub", "ml_is_nearest_decoder"],
         "R": ["link_instances", "ideal_channel_ok", "inverse_is_decoder", "link_reed (Reed-Muller + Reed decoder over any catalogue table, t flips per block + displacement)", "link_bm_t1 (BCH, delta >= 3, Berlekamp-Massey with t = 1)"],
         "K": ["C01.instances_ok (shared catalogue)", "C14.instances_ok (shared tables)"]}
PARTIAL = ["soft chains (soft demodulator -> Wagner / BP / min-sum / SC decoders) and the Berlekamp-Massey / Reed decoders inside the chain are checked on the implementation against the property "
           "(message returned), their Lean models being per component (C10, C11) and not composed here",
           "the minimum-distance hypothesis of link_bitflips is discharged per instance by C03 (kernel-decided for k <= 13)",
           "float32 cos/sin constellation points are taken at their table values (C14); displacements stay below 0.45 d_min so that rounding cannot matter"]
RULE = ("link lines: ChannelCodeModel(encoder, IdentityConstraint, modulator, channel, demodulator, decoder) on real objects vs the composed model; channels: perfect, symbol substitution "
        "realising <= t bit flips per block (every single position for short codes), displacement of every symbol by < d_min/2 in random directions, both; "
        "non-trivial = non-zero message or a non-ideal channel")
ASSUMPTIONS = c14.ASSUMPTIONS + ["generator / check / right-inverse matrices as published by the encoder objects (C01)"]


def extract(ctx):
    files = dict(c02.extract(ctx))          # C02's theorems (Reed / BM instances) are imported by C09
    files.update(c14.extract(ctx))
    return files


def quiet(fn, *a, **k):
    with contextlib.redirect_stdout(io.StringIO()):
        return fn(*a, **k)


def bstr(v):
    return "".join("1" if int(round(float(x))) else "0" for x in v) or "-"


def pick_tables(ctx, tabs):
    names = [n for n, (inst, pts, lo, hi) in tabs.items() if not inst.memory and inst.kind in ("bpsk", "qpsk", "psk", "qam", "pam")]
    if ctx.thorough:
        return names
    base = ["bpsk", "qpsk_n1", "psk8_g1", "psk16_g0", "qam16_g1_n1", "qam64_g0_n0", "pam4_g1_n1", "pam8_g0_n0", "qam4_g1_n0", "psk4_g1"]
    base = [n for n in base if n in names]
    # the largest order of every scheme, Gray and binary labels (table-building shortcuts tend to hold for small orders only)
    for kind in ("psk", "qam", "pam"):
        cand = [n for n in names if tabs[n][0].kind == kind]
        if cand:
            top = max(len(tabs[n][1]) for n in cand)
            for g in (True, False):
                hit = [n for n in cand if len(tabs[n][1]) == top and bool(tabs[n][0].gray) == g]
                if hit and hit[0] not in base:
                    base.append(hit[0])
    rest = [n for n in names if n not in base]
    return base + ctx.rng.sample(rest, min(4, len(rest)))


def pick_codes(ctx):
    plan = [p for p in c02.plan(ctx) if p[1] in ("ml", "syn", "bm", "reed")]
    if ctx.thorough:
        # the catalogue has several hundred (code, decoder) pairs: a seeded sample of 40 / 20 per decoder kind keeps the tier under half an hour
        byk = {}
        for p in plan:
            byk.setdefault(p[1], []).append(p)
        out = []
        for kind, lst in byk.items():
            out += ctx.rng.sample(lst, min(len(lst), 40 if kind in ("ml", "syn") else 20))
        return out
    byk = {}
    for p in plan:
        byk.setdefault(p[1], []).append(p)
    out = []
    for kind, lst in byk.items():
        out += ctx.rng.sample(lst, min(len(lst), 6 if kind in ("ml", "syn") else 3))
    # codes whose object advertises only a lower bound below the true capability (cyclic codes with k > 12): a complete decoder still has
    # to correct up to the code's own floor((d-1)/2)
    dd = c03.data(ctx)
    under = [n_ for n_, d_ in dd.items() if d_.get("true_d") and not d_["knownBad"] and (int(d_["true_d"]) - 1) // 2 > c02.capability(d_)
             and d_["n"] - d_["k"] <= 8 and d_["n"] <= 24]
    for n_ in ctx.rng.sample(under, min(len(under), 3)):
        out.append((n_, "syn"))
    return out


def make_channel(inst, E, D):
    import torch
    from kaira.channels import LambdaChannel, PerfectChannel
    if E is None and D is None:
        return PerfectChannel()

    def fn(y, *a, **k):
        if E is not None:
            with torch.no_grad():
                b = inst.demod(y)
                y = inst.mod((b + E) % 2)
        if D is not None:
            y = y + D
        return y
    return LambdaChannel(fn)


def displacements(rng, nrows, nsym, lo, scale, frac, sweep=False):
    """integer offsets (table units) of squared length < frac^2 * lo / 4, random directions (sweep: full length, directions swept over the circle)"""
    r = frac * math.sqrt(lo) / 2
    rows = []
    for ri in range(nrows):
        row = []
        for si in range(nsym):
            th = rng.uniform(0, 2 * math.pi) if not sweep else 2 * math.pi * ((si * nrows + ri) * 0.381966 % 1.0)
            q = (rng.uniform(0.6, 1.0) if not sweep else 1.0) * r
            row.append((int(q * math.cos(th)), int(q * math.sin(th))))
        rows.append(row)
    return rows


def corr(ctx):
    import torch
    from kaira.models.channel_code import ChannelCodeModel
    from kaira.constraints import IdentityConstraint
    from kaira.models.fec import encoders as E_, decoders as D_
    rng = ctx.rng
    tabs = c14._load(ctx)
    dd = c03.data(ctx)
    ops = []
    tnames = pick_tables(ctx, tabs)
    for tn in tnames:
        inst, pts, lo, hi = tabs[tn]
        ops.append(Op("deftable %s %d %s" % (tn, inst.b, ";".join("%d,%d,%d" % p for p in pts)), "ok", nontrivial=False))
    defined = set()
    for ci, (name, kind) in enumerate(pick_codes(ctx)):
        d = dd[name]
        c = d["c"]
        enc = c.enc
        n, k = d["n"], d["k"]
        t = c02.capability(d)
        if kind in ("ml", "syn") and d.get("true_d") and not d.get("knownBad"):
            # complete decoders correct up to the code's own floor((d-1)/2), whatever lower bound the object advertises
            t = max(t, (int(d["true_d"]) - 1) // 2)
        if kind == "ml":
            dec, verb = D_.BruteForceMLDecoder(enc), "ml"
        elif kind == "syn":
            dec, verb = D_.SyndromeLookupDecoder(enc), "syn"
        elif kind == "bm":
            dec, verb = D_.BerlekampMasseyDecoder(enc), None
            t = int(enc.error_correction_capability)
        else:
            dec, verb = D_.ReedMullerDecoder(enc), None
        if verb and name not in defined:
            ops.append(Op(c01.defcode_line(c), "ok", nontrivial=False))
            defined.add(name)
        tsel = [tnames[(ci * 7 + j * 5) % len(tnames)] for j in range(16)] if ctx.thorough and n <= 16 else [tnames[(ci + j * 3) % len(tnames)] for j in range(4)]
        for tn in dict.fromkeys(tsel):
            inst, pts, lo, hi = tabs[tn]
            b = inst.b
            nb = b // math.gcd(n, b)
            if nb * n > 600:
                continue
            S = inst.scale
            B = 3
            nsym = nb * n // b
            cfg = {"code": name, "decoder": kind, "table": tn, "n": n, "k": k, "t": t, "blocks": nb, "bits_per_symbol": b}
            site = "models:ChannelCodeModel"
            scenarios = [("ideal", None, None)]
            # <= t flips in every block (weight exactly t in one block, fewer in the others), random positions
            if t > 0:
                for _ in range(2):
                    Erows = []
                    for _r in range(B):
                        e = [0] * (nb * n)
                        for blk in range(nb):
                            for p in rng.sample(range(n), rng.randint(1 if blk == 0 else 0, t)):
                                e[blk * n + p] = 1
                        Erows.append(e)
                    scenarios.append(("flips", Erows, None))
                if n <= 16:
                    # every single position of the first block
                    for p0 in range(0, n, B):
                        Erows = [[1 if i == min(p0 + r_, n - 1) else 0 for i in range(nb * n)] for r_ in range(B)]
                        scenarios.append(("single_flip", Erows, None))
            scenarios.append(("displaced", None, displacements(rng, B, nsym, lo, S, 0.9)))
            scenarios.append(("displaced_0.98", None, displacements(rng, B, nsym, lo, S, 0.98, sweep=True)))
            if t > 0:
                Erows = []
                for _r in range(B):
                    e = [0] * (nb * n)
                    for blk in range(nb):
                        for p in rng.sample(range(n), t):
                            e[blk * n + p] = 1
                    Erows.append(e)
                scenarios.append(("flips+displaced", Erows, displacements(rng, B, nsym, lo, S, 0.9)))
            for sname, Erows, Drows in scenarios:
                msgs = [[rng.getrandbits(1) for _ in range(nb * k)] for _ in range(B)]
                Et = torch.tensor(Erows, dtype=torch.float32) if Erows is not None else None
                Dt = torch.tensor([[complex(dx / S, dy / S) for dx, dy in row] for row in Drows], dtype=torch.complex64) if Drows is not None else None
                model = ChannelCodeModel(enc, IdentityConstraint(), inst.mod, make_channel(inst, Et, Dt), inst.demod, dec)
                try:
                    out = model(torch.tensor(msgs, dtype=torch.float32))
                    out = out[0] if isinstance(out, tuple) else out
                    rows = [bstr(r) for r in out.reshape(B, -1).tolist()]
                    shape_ok = tuple(out.shape) == (B, nb * k)
                except Exception as e:
                    rows = ["other:%s" % type(e).__name__] * B
                    shape_ok = False
                for r_ in range(B):
                    fl = bstr(Erows[r_]) if Erows is not None else "-"
                    ds = ";".join("%d,%d" % p for p in Drows[r_]) if Drows is not None else "-"
                    ok = shape_ok and rows[r_] == bstr(msgs[r_])
                    c_ = dict(cfg, scenario=sname, sent=bstr(msgs[r_]))
                    if verb:
                        ops.append(Op("link %s %s %s %s %s %s" % (name, tn, verb, bstr(msgs[r_]), fl, ds), rows[r_], nontrivial=(sname != "ideal" or any(msgs[r_])), info={"site": site, "config": c_}, prop_ok=ok))
                    else:
                        ops.append(Op("gray 0", "0", nontrivial=True, info={"site": site, "config": dict(c_, got=rows[r_])}, prop_ok=ok))
                ctx.count("hard_%s_%s" % (kind, sname), B)
                if sname == "ideal":
                    # the same model object after its stage attributes were re-assigned (to the very same / to equivalent fresh stages):
                    # a chain assembled from matching pairs must still return the message
                    for which in ("constraint", "modulator", "all"):
                        m2 = ChannelCodeModel(enc, IdentityConstraint(), inst.mod, make_channel(inst, None, None), inst.demod, dec)
                        try:
                            if which in ("constraint", "all"):
                                m2.constraint = IdentityConstraint()
                            if which in ("modulator", "all"):
                                m2.modulator = inst.mod
                            if which == "all":
                                m2.encoder = enc; m2.demodulator = inst.demod; m2.decoder = dec
                            o2 = m2(torch.tensor(msgs, dtype=torch.float32))
                            o2 = o2[0] if isinstance(o2, tuple) else o2
                            rows2 = [bstr(r) for r in o2.reshape(B, -1).tolist()]
                        except Exception as e:
                            rows2 = ["other:%s" % type(e).__name__] * B
                        ops.append(Op("gray 0", "0", nontrivial=True, info={"site": "models:ChannelCodeModel.reassigned", "config": dict(cfg, reassigned=which, sent=[bstr(m_) for m_ in msgs], got=rows2)},
                                      prop_ok=(rows2 == [bstr(m_) for m_ in msgs])))
                    ctx.count("reassigned_stage_chains", 3)
    # ---------------- a digital channel in the chain (real BPSK over a binary symmetric / Z channel with probability 0 = ideal): several
    # calls on ONE model object, the first of which carries only all-zero code words (all +1 after BPSK)
    from kaira.channels.digital import BinarySymmetricChannel, BinaryZChannel
    from kaira.modulations.psk import BPSKModulator, BPSKDemodulator
    for chname, mkch in (("BinarySymmetricChannel(0)", lambda: BinarySymmetricChannel(0.0)), ("BinaryZChannel(0)", lambda: BinaryZChannel(0.0))):
        for encx, decx, cname in ((E_.HammingCodeEncoder(3), None, "Hamming(7,4)+syndrome"), (E_.ReedMullerCodeEncoder(1, 3), "reed", "RM(1,3)+Reed")):
            decoder = D_.ReedMullerDecoder(encx) if decx == "reed" else D_.SyndromeLookupDecoder(encx)
            try:
                model = ChannelCodeModel(encx, IdentityConstraint(), BPSKModulator(complex_output=False), mkch(), BPSKDemodulator(), decoder)
                kx = encx.code_dimension
                hist = []
                for call, msgs in enumerate(([[0] * kx], [[0] * kx, [0] * kx], [[rng.getrandbits(1) for _ in range(kx)] for _ in range(3)], [[1] * kx], [[rng.getrandbits(1) for _ in range(kx)]])):
                    try:
                        out = model(torch.tensor(msgs, dtype=torch.float32))
                        out = out[0] if isinstance(out, tuple) else out
                        got = [bstr(r) for r in out.reshape(len(msgs), -1).tolist()]
                    except Exception as e:
                        got = ["other:%s" % type(e).__name__]
                    hist.append(len(msgs))
                    ops.append(Op("gray 0", "0", nontrivial=True, info={"site": "models:ChannelCodeModel.memory", "config": {"modulation": "real BPSK over %s, %s" % (chname, cname), "mode": "default", "blocks_per_row_history": list(hist), "sent": [bstr(m) for m in msgs], "got": got}},
                                  prop_ok=(got == [bstr(m) for m in msgs])))
            except Exception as e:
                ctx.notes.append("digital-channel chain %s / %s not built: %s: %s" % (chname, cname, type(e).__name__, e))
        ctx.count("digital_channel_chain")
    # ---------------- a modulation with memory in the chain: pi/4-QPSK (binary labelling), several calls on ONE model object,
    # in the default (training) mode where the alternation state is carried from call to call, and in evaluation mode after a reset
    from kaira.modulations import pi4qpsk
    from kaira.channels import PerfectChannel
    ham = E_.HammingCodeEncoder(3)
    for mode in ("train", "eval"):
        mod, dem = pi4qpsk.Pi4QPSKModulator(gray_coded=False), pi4qpsk.Pi4QPSKDemodulator()
        model = ChannelCodeModel(ham, IdentityConstraint(), mod, PerfectChannel(), dem, D_.SyndromeLookupDecoder(ham))
        model.train(mode == "train")
        hist = []
        for call, nblk in enumerate((2, 2, 4, 6, 2, 2)):        # 2 / 6 blocks = 7 / 21 symbols per row (odd), 4 blocks = 14 (even)
            if mode == "eval":
                mod.reset_state(); dem.reset_state()
            msgs = [[rng.getrandbits(1) for _ in range(4 * nblk)] for _ in range(2)]
            try:
                out = model(torch.tensor(msgs, dtype=torch.float32))
                got = [bstr(r) for r in out.reshape(2, -1).tolist()]
            except Exception as e:
                got = ["other:%s" % type(e).__name__]
            hist.append(nblk)
            ops.append(Op("gray 0", "0", nontrivial=True, info={"site": "models:ChannelCodeModel.memory", "config": {"modulation": "pi/4-QPSK (binary labels)", "mode": mode, "blocks_per_row_history": list(hist), "sent": [bstr(m) for m in msgs], "got": got}},
                          prop_ok=(got == [bstr(m) for m in msgs])))
        ctx.count("memory_chain")
    # ---------------- soft chains: soft demodulator output into soft-input decoders (ideal / displaced symbols)
    soft_cases = []
    spc = E_.SingleParityCheckCodeEncoder(5)
    soft_cases.append(("spc5+wagner", spc, D_.WagnerSoftDecisionDecoder(spc)))
    ham = E_.HammingCodeEncoder(3)
    soft_cases.append(("hamming3+bp", ham, D_.BeliefPropagationDecoder(ham, bp_iters=5)))
    soft_cases.append(("hamming3+minsum", ham, D_.MinSumLDPCDecoder(ham, bp_iters=5)))
    ld = E_.LDPCCodeEncoder(check_matrix=torch.tensor([[1, 1, 0, 1, 0, 0], [0, 1, 1, 0, 1, 0], [1, 0, 1, 0, 0, 1]], dtype=torch.float32))
    soft_cases.append(("ldpc6+bp", ld, D_.BeliefPropagationDecoder(ld, bp_iters=5)))
    soft_cases.append(("ldpc6+minsum_norm", ld, D_.MinSumLDPCDecoder(ld, bp_iters=5, normalized=True)))
    rm = E_.ReedMullerCodeEncoder(1, 3)
    soft_cases.append(("rm13+soft", rm, D_.ReedMullerDecoder(rm, input_type="soft")))
    pe = quiet(E_.PolarCodeEncoder, 4, 8)
    soft_cases.append(("polar8+sc", pe, D_.SuccessiveCancellationDecoder(pe)))
    soft_cases.append(("polar8+sc_minsum", pe, D_.SuccessiveCancellationDecoder(pe, regime="min_sum")))
    # longer polar codes, both coordinate orders, frozen ones, and the BP decoder (natural order only: it rejects polar_i)
    for (kk_, nn_, inter_, fz_) in ((6, 16, True, True), (11, 32, True, False), (9, 16, False, False), (20, 64, True, True)):
        pex = quiet(E_.PolarCodeEncoder, kk_, nn_, polar_i=inter_, frozen_zeros=fz_)
        soft_cases.append(("polar%d_i%d_fz%d+sc" % (nn_, inter_, fz_), pex, D_.SuccessiveCancellationDecoder(pex)))
        soft_cases.append(("polar%d_i%d_fz%d+sc_minsum" % (nn_, inter_, fz_), pex, D_.SuccessiveCancellationDecoder(pex, regime="min_sum")))
        if not inter_:
            soft_cases.append(("polar%d_fz%d+bp" % (nn_, fz_), pex, quiet(D_.BeliefPropagationPolarDecoder, pex, bp_iters=20)))
    for cname, enc, dec in soft_cases:
        n, k = enc.code_length, enc.code_dimension
        for tn in tnames:
            inst, pts, lo, hi = tabs[tn]
            if n % inst.b:
                continue       # these decoders take one block per row
            S = inst.scale
            nsym = n // inst.b
            B = 4
            for sname, Drows in (("ideal", None), ("displaced", displacements(rng, B, nsym, lo, S, 0.85))):
                for nv in (0.05, 2.0):
                    msgs = [[rng.getrandbits(1) for _ in range(k)] for _ in range(B)]
                    Dt = torch.tensor([[complex(dx / S, dy / S) for dx, dy in row] for row in Drows], dtype=torch.complex64) if Drows is not None else None
                    model = ChannelCodeModel(enc, IdentityConstraint(), inst.mod, make_channel(inst, None, Dt), inst.demod, dec)
                    try:
                        out = quiet(model, torch.tensor(msgs, dtype=torch.float32), noise_var=nv)
                        out = out[0] if isinstance(out, tuple) else out
                        got = [bstr(r) for r in out.reshape(B, -1).tolist()]
                        ok = tuple(out.shape) == (B, k) and got == [bstr(m) for m in msgs]
                    except Exception as e:
                        got, ok = ["other:%s: %s" % (type(e).__name__, str(e)[:80])], False
                    ops.append(Op("gray 0", "0", nontrivial=True, info={"site": "models:ChannelCodeModel.soft", "config": {"chain": cname, "table": tn, "scenario": sname, "noise_var": nv, "sent": [bstr(m) for m in msgs], "got": got}}, prop_ok=ok))
                ctx.count("soft_" + sname)
    return ops


def search(ctx, mismatches, broken, prop_fail):
    out, seen = [], set()
    for pf in prop_fail + mismatches:
        cfg = pf["info"].get("config", {})
        site = pf["info"].get("site")
        key = (site, cfg.get("code") or cfg.get("chain"), cfg.get("table"), cfg.get("scenario"))
        if site is None or key in seen:
            continue
        seen.add(key)
        if site.endswith(".memory"):
            what = "chain over %s, %s mode, calls with %s rows / blocks per row on one model object: sent %s, received %s" % (cfg.get("modulation"), cfg.get("mode"), cfg.get("blocks_per_row_history"), cfg.get("sent"), cfg.get("got"))
        elif site.endswith(".reassigned"):
            what = "%s + %s decoder over %s, ideal channel, after re-assigning the model's stage attribute(s) [%s] to the same / equivalent stages: sent %s, received %s" % (cfg.get("code"), cfg.get("decoder"), cfg.get("table"), cfg.get("reassigned"), cfg.get("sent"), cfg.get("got"))
        elif site.endswith(".soft"):
            what = "soft chain %s over %s (%s channel, noise_var %s): sent %s, received %s" % (cfg.get("chain"), cfg.get("table"), cfg.get("scenario"), cfg.get("noise_var"), cfg.get("sent"), cfg.get("got"))
        elif pf in prop_fail:
            what = "%s + %s decoder over %s, %s channel (t = %s, %s block(s)): message %s comes back as %s" % (cfg.get("code"), cfg.get("decoder"), cfg.get("table"), cfg.get("scenario"), cfg.get("t"), cfg.get("blocks"), cfg.get("sent"), cfg.get("got", pf["impl"]))
        else:
            what = "%s + %s decoder over %s, %s channel: implementation returns %s, the composed model %s" % (cfg.get("code"), cfg.get("decoder"), cfg.get("table"), cfg.get("scenario"), pf["impl"], pf.get("model"))
        out.append({"site": site, "config": cfg, "what": what, "ops": [pf["op"][:1500]], "impl_output": pf["impl"][:200], "kind": "failing-input"})
    return out[:12]


def finding_reproduces(ctx, f):
    return False


def replay(ctx, payload):
    print("replay: re-run ./check C09; op lines:", payload.get("ops"))
    return 0
