"""C03 — the (n, k, d) and structure a code object advertises are its true parameters."""
import itertools, re
import numpy as np
from ..runner import Op
from .. import feccat
from . import c01

ID = "C03"
KINDS = {"U": ["spanMin_sound", "reported_parameters", "min_distance", "exact_distance_attained", "cyclic_structure", "DistInfo.info_bound (min_distance_large)",
               "BCHAbs.bch_bound / BCHBound.bch_min_distance (min_distance_bch)"],
         "K": ["instances_ok (part0_ok .. part7_ok)", "known_bad_witness", "sphere_packing", "info_instances_ok (info0_ok .. info5_ok)",
               "info_instances_in_catalogue", "bch_ok", "bch_instances_in_catalogue"]}
PARTIAL = ["'consist of the multiples of g': proved as every generator row is a multiple of g, deg g = n-k, g | X^n+1",
           "finding F-RS-DIST (RS-style codes advertise a design distance their binary construction does not have): witness theorem known_bad_witness"]
NOTE_DIST = ("minimum distance is decided in Lean for EVERY catalogue instance: full enumeration (k <= 13 where that is cheapest), information-set certificate "
             "(DistInfo.info_bound), or the BCH bound (BCHBound.bch_min_distance); evidence lists which route each instance took and `distance_not_decided_in_lean` (empty)")
RULE = "enc lines on all messages (k <= 8 quick / 12 thorough) tie the set of words to the published G; non-trivial = non-zero message"
ASSUMPTIONS = c01.ASSUMPTIONS + ["advertised values are read through code_length, code_dimension, minimum_distance / minimum_distance(), delta, generator_poly"]
NPARTS = 8
KDEC = 13
NIPARTS = 6
INFO_LEAVES = 40000      # information-set enumeration budget (kernel: ~150 leaves/s)

EXACT_FAMILIES = ("hamming", "golay", "repetition", "spc", "reed_muller")
CYCLIC_FAMILIES = ("cyclic", "cyclic_std", "bch")


def weight(x):
    return bin(x).count("1")


def pmod(a, b):
    db = b.bit_length()
    while a.bit_length() >= db:
        a ^= b << (a.bit_length() - db)
    return a


def advertised(c):
    e = c.enc
    d = 0
    md = getattr(e, "minimum_distance", None)
    if callable(md):
        try:
            d = int(md())
        except Exception:
            d = 0
    elif md is not None:
        d = int(md)
    elif hasattr(e, "delta"):
        d = int(e.delta)
    if c.family == "repetition" and not d:
        d = 0
    return int(e.code_length), int(e.code_dimension), d


def codewords_min(Gm, k, limit_k=20):
    """(dmin, message) by Gray-code enumeration, or (None, None) if k too large"""
    if k > limit_k:
        return None, None
    best, arg = None, None
    cw, msg = 0, 0
    for i in range(1, 1 << k):
        j = (i & -i).bit_length() - 1
        cw ^= Gm[j]; msg ^= 1 << j
        w = weight(cw)
        if best is None or w < best:
            best, arg = w, msg
    return best, arg


def dual_min_distance(G, H):
    """minimum distance through the dual's weight distribution (MacWilliams), for n-k <= 20"""
    k, n = G.shape
    R, _, piv = feccat.rref(H)
    Hb = R[:len(piv)]
    r = Hb.shape[0]
    if r > 20:
        return None
    rows = feccat.masks(Hb)
    B = [0] * (n + 1)
    cw = 0
    B[0] = 1
    for i in range(1, 1 << r):
        j = (i & -i).bit_length() - 1
        cw ^= rows[j]
        B[weight(cw)] += 1
    # A_j = 2^-r sum_i B_i K_j(i)
    from math import comb
    for j in range(1, n + 1):
        tot = 0
        for i, b in enumerate(B):
            if b:
                kj = sum((-1) ** s * comb(i, s) * comb(n - i, j - s) for s in range(0, j + 1))
                tot += b * kj
        if tot != 0:
            return j
    return None


def to_order(x, n, rot, rev):
    y = sum(((x >> p) & 1) << (n - 1 - p) for p in range(n)) if rev else x
    return ((y << rot) ^ (y >> (n - rot))) % (1 << n)


def find_order(rows, n, g):
    """(rot, rev) such that every row, brought into that coefficient order, is a multiple of g"""
    for rev in (False, True):
        for rot in range(n):
            if all(pmod(to_order(x, n, rot, rev), g) == 0 for x in rows):
                return rot, rev
    return None


def light_codeword(Gm, n, k, d, budget=300000):
    """message of a codeword of weight exactly d: combinations of few rows of G and of a systematic form of G"""
    G = np.array([[(g >> p) & 1 for p in range(n)] for g in Gm], dtype=np.uint8)
    R, T, piv = feccat.rref(G)
    for rows, msgs in ((Gm, [1 << i for i in range(k)]), (feccat.masks(R), feccat.masks(T))):
        cnt = 0
        for w in range(1, k + 1):
            for comb in itertools.combinations(range(k), w):
                cw = 0; msg = 0
                for i in comb:
                    cw ^= rows[i]; msg ^= msgs[i]
                if weight(cw) == d:
                    return msg
                cnt += 1
                if cnt > budget:
                    break
            if cnt > budget:
                break
    return None


def info_cert(d):
    """information set (pivot columns of G), inverse of G restricted to it, even-weight flag, enumeration size"""
    from math import comb
    G = np.array([[(g >> p) & 1 for p in range(d["n"])] for g in d["G"]], dtype=np.uint8)
    _, T, piv = feccat.rref(G)
    if len(piv) != d["k"]:
        return None
    even = all(weight(g) % 2 == 0 for g in d["G"]) and d["advD"] % 2 == 0 and d["advD"] >= 2
    w = d["advD"] - 2 if even else d["advD"] - 1
    leaves = sum(comb(d["k"], j) for j in range(w + 1))
    return dict(pos=[int(c) for c in piv], M=feccat.masks(T), even=even, leaves=leaves)


_DATA = {}


def data(ctx=None):
    if _DATA:
        return _DATA
    for name, c in c01.load().items():
        G, H, R = c.matrices()
        k, n = G.shape
        Gm = feccat.masks(G)
        advN, advK, advD = advertised(c)
        exact = c.family in EXACT_FAMILIES or (c.family in ("cyclic", "cyclic_std") and k <= 12)
        true_d, wmsg = codewords_min(Gm, k, 16)
        if true_d is None:
            true_d = dual_min_distance(G, H)
        if wmsg is None and true_d is not None:
            wmsg = light_codeword(Gm, n, k, true_d)
        wit = 0
        known_bad = False
        if advD and true_d is not None and true_d < advD:
            known_bad = c.family == "reed_solomon"
            wit = wmsg or 0
        elif advD and exact and wmsg is not None:
            # a codeword of exactly the advertised weight
            if true_d == advD:
                wit = wmsg
        cyc = c.family in CYCLIC_FAMILIES and isinstance(c.params.get("info", "left"), str)   # closure / divisibility: contiguous layouts only
        gpoly, rot, rev = 0, 0, False
        if cyc:
            gpoly = int(c.enc.generator_poly.value)
            fo = find_order(Gm, n, gpoly) if gpoly else None
            if fo:
                rot, rev = fo
        nameN = nameK = 0
        if c.family == "cyclic_std":
            m = re.search(r"\((\d+),(\d+)\)", c.params["name"])
            nameN, nameK = int(m.group(1)), int(m.group(2))
        perfect = (c.family == "hamming" and not c.params["extended"]) or (c.family == "golay" and not c.params["extended"]) or (c.family == "cyclic_std" and c.params["name"] in ("Hamming(7,4)", "Golay(23,12)"))
        # lower bound: full enumeration (2^k words) or information-set certificate, whichever is cheaper for the kernel
        pre = dict(n=n, k=k, G=Gm, advD=advD)
        ic = info_cert(pre) if advD and not known_bad else None
        decided = k <= KDEC and not (ic and ic["leaves"] * (advD + 2) < (2 ** k) * 4)
        # BCH codes in polynomial coefficient order: the BCH bound (Proofs/BCHBound.lean) decides the design distance for any size
        bch = None
        if c.family == "bch" and cyc and gpoly and rot == 0 and not rev and advD >= 2 and not known_bad:
            fld = c.enc._field
            bch = dict(m=int(c.params["mu"]), P=int(fld.modulus.value), gpoly=gpoly, delta=advD, R=feccat.masks(R))
            decided = False
        _DATA[name] = dict(c=c, info=ic, bch=bch, n=n, k=k, r=H.shape[0], G=Gm, HT=feccat.masks(H.T) if H.shape[1] == n else [0] * n, advN=advN, advK=advK, advD=advD,
                           exact=exact, wit=wit, decided=decided, cyclic=cyc, gpoly=gpoly, rot=rot, rev=rev, perfect=perfect, knownBad=known_bad,
                           nameN=nameN, nameK=nameK, true_d=true_d)
    return _DATA


def extract(ctx):
    files = dict(c01.extract(ctx))          # C03 also relies on C01's generated catalogue being current
    items = sorted(data(ctx).items(), key=lambda kv: -(2 ** min(kv[1]["k"], KDEC) if kv[1]["decided"] and kv[1]["advD"] else 1))
    parts = [[] for _ in range(NPARTS)]
    load = [0] * NPARTS
    lst = lambda v: "[" + ", ".join(str(x) for x in v) + "]"
    b = lambda x: "true" if x else "false"
    for name, d in items:
        j = load.index(min(load))
        parts[j].append('  { name := "%s", n := %d, k := %d, r := %d, G := %s, HT := %s, advN := %d, advK := %d, advD := %d, exact := %s, wit := %d, decided := %s, '
                        'cyclic := %s, gpoly := %d, rot := %d, rev := %s, perfect := %s, knownBad := %s, nameN := %d, nameK := %d }'
                        % (name, d["n"], d["k"], d["r"], lst(d["G"]), lst(d["HT"]), d["advN"], d["advK"], d["advD"], b(d["exact"]), d["wit"], b(d["decided"]),
                           b(d["cyclic"]), d["gpoly"], d["rot"], b(d["rev"]), b(d["perfect"]), b(d["knownBad"]), d["nameN"], d["nameK"]))
        load[j] += (2 ** d["k"] * d["n"] if d["decided"] and d["advD"] else 50) + 100
    for j in range(NPARTS):
        files["C03P%d" % j] = ("-- generated from /repo: advertised parameters, generator matrices, generator polynomials (part %d)\n"
                               "import Kaira.Dist\nopen Kaira.Dist\nnamespace Generated.C03P%d\ndef part : List DistInst := [\n" % (j, j)
                               + ",\n".join(parts[j]) + "]\nend Generated.C03P%d\n" % j)
    files["C03"] = ("".join("import Generated.C03P%d\n" % j for j in range(NPARTS)) + "".join("import Generated.C03I%d\n" % j for j in range(NIPARTS))
                    + "open Kaira.Dist\nnamespace Generated.C03\n"
                    "def instances : List DistInst := " + " ++ ".join("Generated.C03P%d.part" % j for j in range(NPARTS)) + "\n"
                    "def infoInstances : List InfoInst := " + " ++ ".join("Generated.C03I%d.part" % j for j in range(NIPARTS)) + "\nend Generated.C03\n")
    # information-set bound for the instances the plain enumeration cannot reach
    iparts = [[] for _ in range(NIPARTS)]
    iload = [0] * NIPARTS
    by_info, nd = [], []
    cand = []
    for name, d in data(ctx).items():
        if d["bch"]:
            continue
        if d["advD"] and not d["decided"] and not d["knownBad"]:
            ic = d["info"]
            if ic and ic["leaves"] <= INFO_LEAVES:
                cand.append((name, d, ic))
            else:
                nd.append(name)
    for name, d, ic in sorted(cand, key=lambda t: -t[2]["leaves"]):
        j = iload.index(min(iload))
        iparts[j].append('  { name := "%s", n := %d, k := %d, G := %s, advD := %d, pos := %s, M := %s, even := %s }'
                         % (name, d["n"], d["k"], lst(d["G"]), d["advD"], lst(ic["pos"]), lst(ic["M"]), b(ic["even"])))
        iload[j] += ic["leaves"] * max(1, d["advD"]) + 200
        by_info.append(name)
    for j in range(NIPARTS):
        files["C03I%d" % j] = ("-- generated from /repo: information-set certificates for codes with k > %d (part %d)\n"
                               "import Kaira.Dist\nopen Kaira.Dist\nnamespace Generated.C03I%d\ndef part : List InfoInst := [\n" % (KDEC, j, j)
                               + ",\n".join(iparts[j]) + "]\nend Generated.C03I%d\n" % j)
    bl = []
    for name, d in data(ctx).items():
        if d["bch"]:
            q = d["bch"]
            bl.append('  { name := "%s", n := %d, k := %d, G := %s, R := %s, m := %d, P := %d, gpoly := %d, delta := %d }'
                      % (name, d["n"], d["k"], lst(d["G"]), lst(q["R"]), q["m"], q["P"], q["gpoly"], q["delta"]))
    files["C03B"] = ("-- generated from /repo: BCH instances (generator matrix, right inverse, field modulus, generator polynomial, design distance)\n"
                     "import Kaira.Dist\nopen Kaira.Dist\nnamespace Generated.C03B\ndef instances : List BchInst := [\n" + ",\n".join(bl) + "]\nend Generated.C03B\n")
    ctx.extra["distance_decided_by_bch_bound"] = sorted(n for n, d in data(ctx).items() if d["bch"])
    ctx.extra["distance_decided_by_information_set_bound"] = sorted(by_info)
    ctx.extra["distance_not_decided_in_lean"] = nd
    return files


def corr(ctx):
    import torch
    ops = []
    full = 12 if ctx.thorough else 8
    for name, d in data(ctx).items():
        c = d["c"]
        enc = c.enc
        ops.append(Op(c01.defcode_line(c), "ok", nontrivial=False))
        M = torch.tensor(c01.messages(ctx, d["k"], full, 100 if ctx.thorough else 30), dtype=torch.float32)
        C = enc(M)
        info = {"site": "fec.encoders:%s.forward" % c.family, "config": {"inst": name, "family": c.family}}
        for m, cw in zip(M.tolist(), C.tolist()):
            ops.append(Op("enc %s %s" % (name, c01.bits(m)), c01.bits(cw), nontrivial=any(m), info=info))
        ctx.count("enc_" + c.family, len(M))
    return ops


def search(ctx, mismatches, broken, prop_fail):
    out = []
    try:
        _DATA.clear()
        c01._CAT.clear()
        dd = data(ctx)
    except Exception as e:
        return [{"site": "fec.encoders:catalogue", "config": {}, "what": "catalogue / advertised parameters cannot be read: %s" % e, "ops": [], "kind": "failing-input"}]
    for name, d in dd.items():
        c = d["c"]
        cfg = {"inst": name, "family": c.family}
        cfg.update({k: v for k, v in c.params.items() if not isinstance(v, (list,))})

        def viol(what, ops=()):
            out.append({"site": "fec.encoders:%s" % c.family, "config": cfg, "what": "%s: %s" % (name, what), "ops": list(ops), "kind": "failing-input"})
        if (d["advN"], d["advK"]) != (d["n"], d["k"]):
            viol("reports (n,k) = (%d,%d) but its generator matrix is %dx%d" % (d["advN"], d["advK"], d["k"], d["n"]))
        if d["nameN"] and (d["nameN"], d["nameK"]) != (d["n"], d["k"]):
            viol("named %s but is a (%d,%d) code" % (c.params["name"], d["n"], d["k"]))
        if d["advD"] and d["true_d"] is not None:
            if d["true_d"] < d["advD"]:
                m = d["wit"]
                import torch
                mb = [(m >> i) & 1 for i in range(d["k"])]
                cw = c.enc(torch.tensor(mb, dtype=torch.float32)).tolist() if m else []
                viol("advertises minimum distance %d but encode(%s) = %s has weight %d" % (d["advD"], c01.bits(mb), c01.bits(cw), d["true_d"]), ["enc %s %s" % (name, c01.bits(mb))])
            elif d["exact"] and d["true_d"] != d["advD"]:
                viol("documents minimum distance %d as exact but the true minimum distance is %d" % (d["advD"], d["true_d"]))
        if d["cyclic"]:
            g = d["gpoly"]
            n = d["n"]
            if g == 0 or pmod((1 << n) | 1, g) != 0:
                viol("generator polynomial %s does not divide X^%d+1" % (bin(g), n))
            elif g.bit_length() - 1 != n - d["k"]:
                viol("generator polynomial has degree %d, n-k = %d" % (g.bit_length() - 1, n - d["k"]))
            else:
                G, H, R = c.matrices()
                for x in d["G"]:
                    s = ((x << 1) | (x >> (n - 1))) % (1 << n)
                    v = np.array([(s >> p) & 1 for p in range(n)], dtype=np.uint8)
                    if ((H.astype(int) @ v.astype(int)) % 2).any():
                        viol("cyclic shift of codeword %s is not a codeword" % format(x, "0%db" % n)[::-1], ["syn %s %s" % (name, "".join(str(int(b)) for b in v))])
                        break
                if find_order(d["G"], n, g) is None:
                    viol("generator rows are not multiples of the generator polynomial in any cyclic coefficient order")
        if d["perfect"]:
            from math import comb
            t = (d["advD"] - 1) // 2
            if sum(comb(d["n"], i) for i in range(t + 1)) != 2 ** (d["n"] - d["k"]):
                viol("documented as perfect but sum_{i<=%d} C(n,i) != 2^(n-k)" % t)
        if len(out) >= 10:
            break
    return out


def finding_reproduces(ctx, f):
    if f["id"] == "F-RS-DIST":
        return any(d["knownBad"] for d in data(ctx).values())
    return False


def replay(ctx, payload):
    print("replay: re-run ./check C03; op lines:", payload.get("ops"))
    return 0
