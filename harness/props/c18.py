"""C18 — binary polynomial and GF(2^m) arithmetic."""
import itertools
from ..runner import Op

ID = "C18"
KINDS = {"U": ["mul_comm", "mul_assoc", "mul_xor", "mul_one", "mul_is_polynomial_mul", "mod_spec", "div_mod_spec",
               "gcd_spec", "lcm_mul_gcd", "fmul_closed", "fmul_comm'", "fmul_assoc'", "fmul_xor", "fmul_one'", "fpow_succ",
               "trace_additive", "field_inverse", "field_no_zero_divisors"],
         "K": ["moduli_complete", "moduli_primitive"]}
PARTIAL = ["minimal polynomial: irreducibility / least degree is decided per element by the correspondence with the "
           "model's brute-force search plus the search oracle (cyclotomic-coset product); no unbounded theorem yet"]
RULE = ("operation lines `verb args` on BinaryPolynomial / FiniteBifieldElement; exhaustive small operands + random large "
        "ones; non-trivial = distinct line whose operands are all non-zero")
ASSUMPTIONS = ["Python int arithmetic (<<, >>, ^, bit_length) is modelled by Lean Nat operations",
               "moduli table is read from the constructed FiniteBifield objects"]


def _alg():
    import kaira.models.fec.algebra as A
    return A


def extract(ctx):
    A = _alg()
    rows = []
    for m in range(1, 17):
        A.FiniteBifield._instances.pop(m, None)
        f = A.FiniteBifield(m)
        rows.append((m, int(f.modulus.value)))
    ctx.extra["moduli"] = rows
    body = ", ".join("(%d, %d)" % r for r in rows)
    return ("-- generated from /repo (kaira/models/fec/algebra.py: FiniteBifield.modulus) on every run\n"
            "namespace Generated.C18\n"
            "def moduli : List (Nat × Nat) := [%s]\n"
            "end Generated.C18\n" % body)


def _call(fn):
    try:
        return str(fn())
    except (ValueError, ZeroDivisionError):
        return "reject"
    except Exception as e:  # anything else is not a modelled outcome
        return "other:" + type(e).__name__


def corr(ctx):
    A = _alg()
    BP = A.BinaryPolynomial
    rng = ctx.rng
    ops = []

    def add(verb, args, fn, site):
        line = verb + " " + " ".join(str(a) for a in args)
        ops.append(Op(line, _call(fn), nontrivial=all(a != 0 for a in args), info={"site": site, "config": {"verb": verb, "args": list(args)}}))
        ctx.count(verb)

    def poly_pair(a, b):
        add("pmul", (a, b), lambda: (BP(a) * BP(b)).value, "algebra:BinaryPolynomial.__mul__")
        add("pmod", (a, b), lambda: (BP(a) % BP(b)).value, "algebra:BinaryPolynomial.__mod__")
        add("pdiv", (a, b), lambda: BP(a).div(BP(b)).value, "algebra:BinaryPolynomial.div")
        add("pgcd", (a, b), lambda: BP(a).gcd(BP(b)).value, "algebra:BinaryPolynomial.gcd")
        add("plcm", (a, b), lambda: BP(a).lcm(BP(b)).value, "algebra:BinaryPolynomial.lcm")

    lim = 256 if ctx.thorough else 32
    for a in range(lim):
        for b in range(lim):
            poly_pair(a, b)
    for _ in range(2000 if ctx.thorough else 300):
        da, db = rng.randint(0, 200), rng.randint(0, 200)
        poly_pair(rng.getrandbits(da + 1), rng.getrandbits(db + 1))
    # related operands: squares (equal values, and the very same object), shifts, complements, single terms, all-ones, sparse
    for _ in range(400 if ctx.thorough else 80):
        d = rng.choice([rng.randint(0, 15), rng.randint(16, 31), rng.randint(32, 70), rng.randint(60, 200)])
        a = rng.getrandbits(d) | (1 << d)
        sparse = (1 << d) | (1 << rng.randint(0, d)) | 1
        for x, y in ((a, a), (sparse, sparse), (a, a << rng.randint(1, 40)), (a, a ^ 1), (a, 1 << rng.randint(0, 64)), ((1 << (d + 1)) - 1, (1 << (d + 1)) - 1),
                     (a, (1 << (d + 1)) - 1), (sparse, a)):
            poly_pair(x, y)
        obj = BP(a)
        add("pmul", (a, a), lambda: (obj * obj).value, "algebra:BinaryPolynomial.__mul__")
        add("pgcd", (a, a), lambda: obj.gcd(obj).value, "algebra:BinaryPolynomial.gcd")
        add("pmod", (a, a), lambda: (obj % obj).value, "algebra:BinaryPolynomial.__mod__")
    for a in list(range(64)) + [rng.getrandbits(rng.randint(1, 200)) for _ in range(100)]:
        add("pderiv", (a,), lambda: BP(a).derivative().value, "algebra:BinaryPolynomial.derivative")
        add("pdeg", (a,), lambda: BP(a).degree, "algebra:BinaryPolynomial.degree")
        ops.append(Op("pcoeffs %d" % a, ",".join(str(c) for c in BP(a).to_coefficient_list()), info={"site": "algebra:BinaryPolynomial.to_coefficient_list", "config": {"verb": "pcoeffs", "args": [a]}}))

    # fields
    all_pairs_upto = 8 if ctx.thorough else 4
    all_elems_upto = 8 if ctx.thorough else 6
    for m in range(1, 17):
        F = A.FiniteBifield(m)
        P = int(F.modulus.value)
        size = 1 << m
        if m <= all_pairs_upto:
            pairs = itertools.product(range(size), range(size))
        else:
            pairs = [(rng.randrange(size), rng.randrange(size)) for _ in range(400 if ctx.thorough else 120)]
        for a, b in pairs:
            add("fmul", (P, a, b), lambda: (F(a) * F(b)).value, "algebra:FiniteBifieldElement.__mul__")
        for a in [rng.randrange(size) for _ in range(20)]:
            el = F(a)
            add("fmul", (P, a, a), lambda: (el * el).value, "algebra:FiniteBifieldElement.__mul__")
        elems = range(size) if m <= all_elems_upto else [rng.randrange(size) for _ in range(200 if ctx.thorough else 60)]
        for a in elems:
            add("finv", (P, m, a), lambda: F(a).inverse().value, "algebra:FiniteBifieldElement.inverse")
            add("ftrace", (P, m, a), lambda: F(a).trace(), "algebra:FiniteBifieldElement.trace")
            e = rng.randrange(0, 4 * size)
            add("fpow", (P, a, e), lambda: (F(a) ** e).value, "algebra:FiniteBifieldElement.__pow__")
        melems = range(size) if m <= (8 if ctx.thorough else 5) else [rng.randrange(size) for _ in range((12 if m <= 10 else (2 if m <= 12 else (1 if ctx.thorough and m <= 14 else 0))))]
        if m >= 6:
            # elements of proper subfields (short conjugacy classes): 0, 1 and alpha^((2^m-1)/(2^d-1)) for every d | m, d < m
            sub = [0, 1]
            al_ = F.primitive_element()
            for d_ in range(1, m):
                if m % d_ == 0:
                    sub.append(int((al_ ** ((2 ** m - 1) // (2 ** d_ - 1))).value)); sub.append(int((al_ ** (3 * ((2 ** m - 1) // (2 ** d_ - 1)))).value))
            melems = list(melems) + [a_ for a_ in dict.fromkeys(sub) if a_ not in list(melems)]
        for a in melems:
            ops.append(Op("fconj %d %d %d" % (P, m, a), ",".join(str(c.value) for c in A.FiniteBifieldElement(F, a).conjugates()),
                          nontrivial=a > 1, info={"site": "algebra:FiniteBifieldElement.conjugates", "config": {"m": m, "a": a}}))
            el = A.FiniteBifieldElement(F, a)  # fresh object: minimal_polynomial caches on the element
            add("fminpoly", (P, m, a), lambda: el.minimal_polynomial().value, "algebra:FiniteBifieldElement.minimal_polynomial")
        # histories on ONE element object (cached minimal polynomial / conjugates must not change later answers): minimal_polynomial -> trace,
        # conjugates -> trace -> inverse, for elements of proper subfields as well
        hel = (list(range(min(size, 16))) + [rng.randrange(size) for _ in range(6)]) if m <= 8 else [0, 1, 2]
        if m % 2 == 0:
            hel += [1, 6 % size, 7 % size]
        for a in hel:
            el = F(a)
            try:
                el.minimal_polynomial()
            except Exception:
                pass
            add("ftrace", (P, m, a), lambda: el.trace(), "algebra:FiniteBifieldElement.trace")
            el2 = F(a)
            try:
                el2.conjugates()
            except Exception:
                pass
            add("ftrace", (P, m, a), lambda: el2.trace(), "algebra:FiniteBifieldElement.trace")
            if a:
                add("finv", (P, m, a), lambda: el2.inverse().value, "algebra:FiniteBifieldElement.inverse")
            add("fmul", (P, a, a), lambda: (el2 * el).value, "algebra:FiniteBifieldElement.__mul__")
        # primitive element as published
        ops.append(Op("primel %d %d" % (P, m), str(F.primitive_element().value), info={"site": "algebra:FiniteBifield.primitive_element", "config": {"m": m}}))
    return ops


# ------------------------------------------------------------------ independent oracle (bit masks)
def o_mul(a, b):
    r = 0
    i = 0
    while b >> i:
        if (b >> i) & 1:
            r ^= a << i
        i += 1
    return r


def o_divmod(a, b):
    q = 0
    db = b.bit_length()
    while a.bit_length() >= db:
        s = a.bit_length() - db
        q ^= 1 << s
        a ^= b << s
    return q, a


def o_gcd(a, b):
    while b:
        a, b = b, o_divmod(a, b)[1]
    return a


def o_fmul(P, a, b):
    return o_divmod(o_mul(a, b), P)[1]


def o_order_of_x(P, m):
    if m == 1:
        return 1
    v, k = 2, 1
    while v != 1 and k <= (1 << m):
        v = o_fmul(P, v, 2)
        k += 1
    return k if v == 1 else None


def _poly_laws(A, a, b, c):
    """first law of the property that fails on the implementation at (a, b, c), else None"""
    BP = A.BinaryPolynomial
    pa, pb, pc = BP(a), BP(b), BP(c)
    if (pa * pb).value != (pb * pa).value:
        return "a*b != b*a"
    if ((pa * pb) * pc).value != (pa * (pb * pc)).value:
        return "(a*b)*c != a*(b*c)"
    if (pa * BP(b ^ c)).value != ((pa * pb).value ^ (pa * pc).value):
        return "a*(b+c) != a*b + a*c"
    if (pa * BP(1)).value != a:
        return "a*1 != a"
    if b != 0:
        q, r = pa.div(pb), pa % pb
        if ((q * pb).value ^ r.value) != a:
            return "a != q*b + r"
        if not (r.degree < pb.degree):
            return "deg r >= deg b"
    g = pa.gcd(pb)
    if a or b:
        if g.value == 0 or (pa % g).value != 0 or (pb % g).value != 0:
            return "gcd does not divide both operands"
        if g.value != o_gcd(a, b):
            return "gcd is not the greatest common divisor (not a combination of the operands)"
        if a and b and (pa.lcm(pb) * g).value != (pa * pb).value:
            return "lcm*gcd != a*b"
    return None


def _field_laws(A, m, a, b, c):
    F = A.FiniteBifield(m)
    ea, eb, ec = F(a), F(b), F(c)
    size = 1 << m
    for x in ((ea * eb).value, (ea + eb).value):
        if not (0 <= x < size):
            return "not closed"
    if (ea * eb).value != (eb * ea).value:
        return "a*b != b*a"
    if ((ea * eb) * ec).value != (ea * (eb * ec)).value:
        return "(a*b)*c != a*(b*c)"
    if (ea * (eb + ec)).value != ((ea * eb) + (ea * ec)).value:
        return "a*(b+c) != a*b+a*c"
    if (ea * F(1)).value != ea.value:
        return "a*1 != a"
    if a != 0:
        if (ea * ea.inverse()).value != 1:
            return "a*inverse(a) != 1"
        if b != 0 and (ea * eb).value == 0:
            return "zero divisor: a*b = 0 with a, b non-zero"
    if (ea ** 3).value != (ea * ea * ea).value:
        return "a**3 != a*a*a"
    if (ea + eb).trace() != ea.trace() ^ eb.trace() or ea.trace() not in (0, 1):
        return "trace not additive / not in {0,1}"
    return None


def _minpoly_law(A, m, a):
    """minimal polynomial = product of (X - conjugate) computed independently over the implementation's own modulus"""
    F = A.FiniteBifield(m)
    P = int(F.modulus.value)
    el = A.FiniteBifieldElement(F, a)
    mp = el.minimal_polynomial().value
    # independent: cyclotomic coset product with coefficients in the field (bitmask arithmetic)
    conj, x = [], a
    while x not in conj:
        conj.append(x)
        x = o_fmul(P, x, x)
    coeffs = [1]  # polynomial in X with field coefficients, low to high
    for cj in conj:
        new = [0] * (len(coeffs) + 1)
        for i, co in enumerate(coeffs):
            new[i + 1] ^= co
            new[i] ^= o_fmul(P, co, cj)
        coeffs = new
    if any(co not in (0, 1) for co in coeffs):
        return None  # modulus not a field modulus; reported by the field laws
    want = sum(co << i for i, co in enumerate(coeffs))
    if mp != want:
        return "minimal polynomial %d != product over the cyclotomic coset %d" % (mp, want)
    return None


def search(ctx, mismatches, broken, prop_fail):
    A = _alg()
    rng = ctx.rng
    out = []

    def viol(site, config, what, ops):
        out.append({"site": site, "config": config, "what": what, "ops": ops, "kind": "failing-input"})

    # 1. moduli: order of x, zero divisors, failing inverse
    for m in range(1, 17):
        try:
            A.FiniteBifield._instances.pop(m, None)
            F = A.FiniteBifield(m)
            P = int(F.modulus.value)
        except Exception as e:
            viol("algebra:FiniteBifield", {"m": m}, "FiniteBifield(%d) cannot be constructed: %s" % (m, e), ["field %d" % m])
            continue
        size = 1 << m
        bad = None
        if P.bit_length() != m + 1:
            bad = "modulus %s does not have degree m" % bin(P)
        else:
            o = o_order_of_x(P, m)
            if o != size - 1:
                bad = "x has multiplicative order %s != 2^m-1 modulo %s" % (o, bin(P))
        if bad:
            # concrete element-level witness on the implementation
            wit = None
            cands = range(1, size) if m <= 10 else [rng.randrange(1, size) for _ in range(4000)]
            for a in cands:
                try:
                    if (F(a) * F(a).inverse()).value != 1:
                        wit = "a=%d: a*inverse(a) = %d" % (a, (F(a) * F(a).inverse()).value)
                        break
                except Exception as e:
                    wit = "a=%d: inverse raises %s" % (a, e)
                    break
            viol("algebra:FiniteBifield.modulus", {"m": m}, "GF(2^%d): %s; %s" % (m, bad, wit or "primitive element order wrong"), ["finv %d %d" % (P, m)])
        pe = F.primitive_element().value
        if (m >= 2 and pe != 2) or (m == 1 and pe != 1):
            viol("algebra:FiniteBifield.primitive_element", {"m": m}, "GF(2^%d): primitive_element() = %d does not have multiplicative order 2^m-1" % (m, pe), ["primel %d %d" % (P, m)])

    # 2. laws at and around the mismatching operands, then on a grid
    seeds = []
    for mm in mismatches:
        cfg = mm["info"].get("config", {})
        args = cfg.get("args") or []
        seeds.append((cfg.get("verb"), args, cfg))
    seen = set()
    for verb, args, cfg in seeds[:200]:
        if verb in ("pmul", "pmod", "pdiv", "pgcd", "plcm"):
            a, b = args
            for c in (1, 2, 3, rng.getrandbits(8)):
                w = _poly_laws(A, a, b, c) or _poly_laws(A, b, a, c)
                if w and ("p", a, b) not in seen:
                    seen.add(("p", a, b))
                    viol("algebra:BinaryPolynomial", {"a": a, "b": b, "c": c}, "binary polynomials a=%d b=%d c=%d: %s" % (a, b, c, w), ["%s %d %d" % (verb, a, b)])
        elif verb in ("fmul",):
            P, a, b = args
            m = P.bit_length() - 1
            for c in (1, 2, rng.randrange(1 << m)):
                w = _field_laws(A, m, a, b, c)
                if w and ("f", m, a, b) not in seen:
                    seen.add(("f", m, a, b))
                    viol("algebra:FiniteBifieldElement", {"m": m, "a": a, "b": b, "c": c}, "GF(2^%d) a=%d b=%d c=%d: %s" % (m, a, b, c, w), ["fmul %d %d %d" % (P, a, b)])
        elif verb == "fpow":
            P, a, e = args
            m = P.bit_length() - 1
            F = A.FiniteBifield(m)
            want, base, k = 1, a, e
            while k:  # independent square-and-multiply on bit masks = a multiplied e times
                if k & 1:
                    want = o_fmul(P, want, base)
                base = o_fmul(P, base, base)
                k >>= 1
            got = (F(a) ** e).value
            if got != want:
                viol("algebra:FiniteBifieldElement.__pow__", {"m": m, "a": a, "e": e}, "GF(2^%d): %d ** %d = %d, but the e-fold product is %d" % (m, a, e, got, want), ["fpow %d %d %d" % (P, a, e)])
        elif verb in ("finv", "ftrace", "fminpoly") or "m" in cfg:
            m = cfg.get("m") or (args[1] if verb in ("finv", "ftrace", "fminpoly") else args[0].bit_length() - 1)
            a = cfg.get("a") if "a" in cfg else (args[2] if verb in ("finv", "ftrace", "fminpoly") else args[1])
            for b in (1, 2, rng.randrange(1 << m)):
                w = _field_laws(A, m, a, b, 3 % (1 << m))
                if w:
                    viol("algebra:FiniteBifieldElement", {"m": m, "a": a, "b": b}, "GF(2^%d) a=%d b=%d: %s" % (m, a, b, w), ["finv %d %d %d" % (args[0] if args else 0, m, a)])
                    break
            if verb == "ftrace":
                # trace by definition (sum of the m Frobenius powers, independent bit-mask arithmetic) on a fresh element and on one
                # element object after minimal_polynomial() / conjugates() have been called on it
                Ft = A.FiniteBifield(m); Pm = int(Ft.modulus.value)
                t_, x_ = 0, a
                for _i in range(m):
                    t_ ^= x_; x_ = o_fmul(Pm, x_, x_)
                for hist in ("fresh", "minimal_polynomial", "conjugates"):
                    el = Ft(a)
                    try:
                        if hist == "minimal_polynomial":
                            el.minimal_polynomial()
                        elif hist == "conjugates":
                            el.conjugates()
                        got_t = el.trace()
                    except Exception as e_:
                        got_t = "raises %s" % type(e_).__name__
                    if got_t != t_:
                        viol("algebra:FiniteBifieldElement.trace", {"m": m, "a": a, "history": hist}, "GF(2^%d): trace(%d) = %s%s, the sum of the %d Frobenius powers is %d" % (
                            m, a, got_t, "" if hist == "fresh" else " after %s() on the same element object" % hist, m, t_), ["ftrace %d %d %d" % (Pm, m, a)])
                        break
            try:
                w = _minpoly_law(A, m, a)
            except Exception as e:
                w = "minimal_polynomial raises %s" % e
            if w:
                viol("algebra:FiniteBifieldElement.minimal_polynomial", {"m": m, "a": a}, "GF(2^%d) a=%d: %s" % (m, a, w), ["fminpoly %d %d %d" % (args[0] if args else 0, m, a)])
    if not out:
        for a in range(64):
            for b in range(64):
                w = _poly_laws(A, a, b, 5)
                if w:
                    viol("algebra:BinaryPolynomial", {"a": a, "b": b, "c": 5}, "binary polynomials a=%d b=%d c=5: %s" % (a, b, w), ["pmul %d %d" % (a, b)])
                    break
            if out:
                break
        for _ in range(300):
            a, b, c = (rng.getrandbits(rng.randint(1, 200)) for _ in range(3))
            w = _poly_laws(A, a, b, c)
            if w:
                viol("algebra:BinaryPolynomial", {"a": a, "b": b, "c": c}, "binary polynomials a=%d b=%d c=%d: %s" % (a, b, c, w), ["pmul %d %d" % (a, b)])
                break
    if not out:
        for m in range(1, 17):
            size = 1 << m
            trip = itertools.product(range(size), repeat=3) if m <= 3 else ((rng.randrange(size), rng.randrange(size), rng.randrange(size)) for _ in range(300))
            for a, b, c in trip:
                w = _field_laws(A, m, a, b, c)
                if w:
                    viol("algebra:FiniteBifieldElement", {"m": m, "a": a, "b": b, "c": c}, "GF(2^%d) a=%d b=%d c=%d: %s" % (m, a, b, c, w), ["fmul %d %d %d" % (A.FiniteBifield(m).modulus.value, a, b)])
                    break
            for a in (range(size) if m <= 6 else [rng.randrange(size) for _ in range(10)]):
                try:
                    w = _minpoly_law(A, m, a)
                except Exception as e:
                    w = "minimal_polynomial raises %s" % e
                if w:
                    viol("algebra:FiniteBifieldElement.minimal_polynomial", {"m": m, "a": a}, "GF(2^%d) a=%d: %s" % (m, a, w), ["fminpoly 0 %d %d" % (m, a)])
                    break
    return out


def finding_reproduces(ctx, f):
    A = _alg()
    return False


def replay(ctx, payload):
    A = _alg()
    print("replaying", payload.get("what"))
    found = search(ctx, [{"info": {"config": {"verb": o.split()[0], "args": [int(x) for x in o.split()[1:]]}}} for o in payload.get("ops", []) if o.split()[0] in ("pmul", "fmul")], [], [])
    for v in found[:5]:
        print("VIOLATION property=C18 replay=(replayed) ::", v["what"])
    return 1 if found else 0
