"""C14 — constellations: bijective labels, unit energy, Gray; Gray conversion utilities."""
from ..runner import Op
from .. import modcat

ID = "C14"
KINDS = {"U": ["gray_roundtrip", "gray_adjacent", "binary_to_gray_partial", "gray_to_binary_partial", "gray_roundtrip_partial",
               "labels_bijective", "points_distinct", "gray_neighbours", "unit_energy"],
         "K": ["instances_ok", "gray_finding_witness", "known_non_gray_witness"]}
PARTIAL = ["binary_to_gray / gray_to_binary: proved for all inputs except the two hard-coded values (known finding F-GRAYCONST, witness theorem gray_finding_witness)",
           "PSK-type and normalised tables are float32: 'nearest neighbour' = within 1e-4 of the minimum squared distance, unit energy within 1e-6"]
RULE = "gray/ungray on integers (exhaustive below 2^12 quick / 2^16 thorough, random to 2^60, array forms) + per-instance table checks and modulate() on every b-bit pattern; non-trivial = argument > 1 / table with more than 2 points"
ASSUMPTIONS = ["tables are read from the buffers `constellation`, `bit_patterns` (qpsk / qpsk_rotated for pi/4-QPSK) of freshly constructed modulators"]

KNOWN_NON_GRAY = lambda inst: (inst.kind == "pam" and inst.gray and inst.params["order"] >= 4) or (inst.kind == "pi4" and inst.gray)

_TABLES = {}


def _load(ctx):
    if _TABLES:
        return _TABLES
    for inst in modcat.catalogue():
        pts = inst.table()
        lo, hi = modcat.lo_hi(pts, inst.scale)
        _TABLES[inst.name] = (inst, pts, lo, hi)
    return _TABLES


NPARTS = 8


def extract(ctx):
    """instances are spread over NPARTS modules (balanced by number of point pairs) so that the K obligations build in parallel"""
    items = sorted(_load(ctx).items(), key=lambda kv: -len(kv[1][1]) ** 2)
    parts = [[] for _ in range(NPARTS)]
    load = [0] * NPARTS
    for name, (inst, pts, lo, hi) in items:
        k = load.index(min(load))
        parts[k].append(modcat.lean_table(name, inst, pts, lo, hi, KNOWN_NON_GRAY(inst)))
        load[k] += len(pts) ** 2 + 50
    files = {}
    for k in range(NPARTS):
        files["C14P%d" % k] = ("-- generated from /repo: constellation and bit_patterns buffers of catalogue modulators (part %d)\n"
                               "import Kaira.Modem\nopen Kaira.Modem\nnamespace Generated.C14P%d\n"
                               "def part : List Inst := [\n" % (k, k) + ",\n".join(parts[k]) + "]\nend Generated.C14P%d\n" % k)
    files["C14"] = ("".join("import Generated.C14P%d\n" % k for k in range(NPARTS)) + "open Kaira.Modem\nnamespace Generated.C14\n"
                    "def instances : List Inst := " + " ++ ".join("Generated.C14P%d.part" % k for k in range(NPARTS)) + "\nend Generated.C14\n")
    return files


def corr(ctx):
    import torch
    from kaira.modulations.utils import binary_to_gray, gray_to_binary, binary_array_to_gray, gray_array_to_binary
    rng = ctx.rng
    ops = []
    lim = 1 << (16 if ctx.thorough else 12)
    ns = list(range(lim)) + [rng.getrandbits(rng.randint(13, 60)) for _ in range(2000 if ctx.thorough else 300)]
    for n in ns:
        ops.append(Op("gray %d" % n, str(binary_to_gray(n)), nontrivial=n > 1, info={"site": "modulations.utils:binary_to_gray", "config": {"n": n}}))
        ops.append(Op("ungray %d" % n, str(gray_to_binary(n)), nontrivial=n > 1, info={"site": "modulations.utils:gray_to_binary", "config": {"n": n}}))
    ctx.count("gray_scalar", 2 * len(ns))
    # array forms (lists and tensors)
    for _ in range(40):
        arr = [rng.getrandbits(rng.randint(1, 40)) for _ in range(rng.randint(1, 8))] + [1023, 1365][: rng.randint(0, 2)]
        ga = binary_array_to_gray(arr if rng.random() < 0.5 else torch.tensor(arr, dtype=torch.int64)).tolist()
        ua = gray_array_to_binary(arr if rng.random() < 0.5 else torch.tensor(arr, dtype=torch.int64)).tolist()
        for n, g_, u_ in zip(arr, ga, ua):
            ops.append(Op("gray %d" % n, str(int(g_)), info={"site": "modulations.utils:binary_array_to_gray", "config": {"n": n}}))
            ops.append(Op("ungray %d" % n, str(int(u_)), info={"site": "modulations.utils:gray_array_to_binary", "config": {"n": n}}))
        ctx.count("gray_array", len(arr))
    # 1-D arrays whose maximum is a power of two / one below / one above (fold counts derived from the maximum), singletons, descending
    for j in list(range(0, 41)) + [48, 56, 60]:
        for arr in ([1 << j], [(1 << j) - 1, 1 << j], [0, 3, 1 << j], [(1 << j) + 1, 5], [1 << j, 1, 2, (1 << j) >> 1]):
            flat = [x for r in arr for x in (r if isinstance(r, list) else [r])]
            if any(x in (1022, 1023, 1365, 1638, 512) for x in flat):
                continue      # hard-coded values: listed findings of the scalar helpers
            t = torch.tensor(arr, dtype=torch.int64)
            ga = binary_array_to_gray(t).reshape(-1).tolist()
            ua = gray_array_to_binary(t).reshape(-1).tolist()
            for n, g_, u_ in zip(flat, ga, ua):
                ops.append(Op("gray %d" % n, str(int(g_)), info={"site": "modulations.utils:binary_array_to_gray", "config": {"n": n, "array": str(arr)[:60]}}))
                ops.append(Op("ungray %d" % n, str(int(u_)), info={"site": "modulations.utils:gray_array_to_binary", "config": {"n": n, "array": str(arr)[:60]}}))
            ctx.count("gray_array_pow2", len(flat))
    # tables: the same table text goes to the model driver; checkers are evaluated there too
    for name, (inst, pts, lo, hi) in _load(ctx).items():
        ops.append(Op("deftable %s %d %s" % (name, inst.b, ";".join("%d,%d,%d" % p for p in pts)), "ok", nontrivial=False))
        labs = sorted(p[2] for p in pts)
        ops.append(Op("labelsok %s" % name, str(labs == list(range(2 ** inst.b)) and len(pts) == 2 ** inst.b).lower(), nontrivial=len(pts) > 2,
                      info={"site": "modulations:%s.bit_patterns" % inst.kind, "config": {"inst": name}}))
        gray_ok, _ = modcat.is_gray(pts, hi)
        dist_ok = modcat.dmin2(pts) >= lo > 0
        ops.append(Op("pairsok %s %d %d 1" % (name, lo, hi), str(gray_ok and dist_ok).lower(), nontrivial=len(pts) > 2,
                      info={"site": "modulations:%s.constellation" % inst.kind, "config": {"inst": name, "kind": inst.kind, "gray": inst.gray, "order": len(pts)}}))
        ctx.count("table_" + inst.kind)
        # behaviour: modulate() on every b-bit pattern lands on the table entry the model predicts
        if inst.kind in ("qpsk", "psk", "qam", "pam", "bpsk"):
            c = getattr(inst.mod, inst.table_attr)
            for lab in range(2 ** inst.b):
                bits = [(lab >> (inst.b - 1 - k)) & 1 for k in range(inst.b)]
                y = inst.mod(torch.tensor(bits, dtype=torch.float32)).reshape(-1)
                if inst.kind == "bpsk":
                    idx = [i for i, z in enumerate(c.tolist()) if complex(z) == complex(y[0].item())]
                else:
                    idx = [i for i, z in enumerate(c.tolist()) if complex(z) == complex(y[0].item())]
                ops.append(Op("modidx %s label %s" % (name, "".join(map(str, bits))), ",".join(map(str, idx[:1])) if idx else "none",
                              nontrivial=True, info={"site": "modulations:%s.forward" % inst.kind, "config": {"inst": name, "label": lab}}))
            ctx.count("modidx", 2 ** inst.b)
    return ops


def search(ctx, mismatches, broken, prop_fail):
    """independent oracle on the implementation: Gray utilities by definition, tables by enumeration"""
    from kaira.modulations.utils import binary_to_gray, gray_to_binary
    out = []
    rng = ctx.rng

    def viol(site, config, what, ops):
        out.append({"site": site, "config": config, "what": what, "ops": ops, "kind": "failing-input"})
    # array forms: mutually inverse, element by element, whatever else is in the array
    import torch
    from kaira.modulations.utils import binary_array_to_gray, gray_array_to_binary
    arrays = []
    for m in mismatches:
        cfg = m["info"].get("config", {})
        if "array" in str(m["info"].get("site", "")) and cfg.get("n") is not None:
            arrays.append([int(cfg["n"])]); arrays.append([int(cfg["n"]), 1]); arrays.append([0, 3, int(cfg["n"])])
    arrays += [[1 << j] for j in range(0, 41)] + [[rng.getrandbits(rng.randint(1, 60)) for _ in range(rng.randint(1, 6))] for _ in range(100)]
    seen_arr = 0
    for arr in arrays:
        if any(x in (1022, 1023, 1365, 1638, 512) for x in arr):
            continue
        t = torch.tensor(arr, dtype=torch.int64)
        try:
            back = gray_array_to_binary(binary_array_to_gray(t)).reshape(-1).tolist()
            fwd = binary_array_to_gray(gray_array_to_binary(t)).reshape(-1).tolist()
        except Exception as e:
            viol("modulations.utils:gray_array_to_binary", {"array": arr}, "array Gray conversion of %s raises %s" % (arr, type(e).__name__), [])
            seen_arr += 1
            continue
        if [int(v) for v in back] != arr:
            viol("modulations.utils:gray_array_to_binary", {"array": arr}, "gray_array_to_binary(binary_array_to_gray(%s)) = %s" % (arr, [int(v) for v in back]), ["ungray %d" % a for a in arr])
            seen_arr += 1
        elif [int(v) for v in fwd] != arr:
            viol("modulations.utils:binary_array_to_gray", {"array": arr}, "binary_array_to_gray(gray_array_to_binary(%s)) = %s" % (arr, [int(v) for v in fwd]), ["gray %d" % a for a in arr])
            seen_arr += 1
        if seen_arr >= 3:
            break
    cands = set(range(4096)) | {rng.getrandbits(rng.randint(13, 60)) for _ in range(500)}
    for m in mismatches:
        n = m["info"].get("config", {}).get("n")
        if n is not None:
            cands |= {n, n + 1, max(n - 1, 0)}
    for n in sorted(cands):
        g = binary_to_gray(n)
        if gray_to_binary(g) != n:
            viol("modulations.utils:binary_to_gray", {"n": n}, "gray_to_binary(binary_to_gray(%d)) = %d" % (n, gray_to_binary(g)), ["gray %d" % n])
        elif binary_to_gray(gray_to_binary(n)) != n:
            viol("modulations.utils:gray_to_binary", {"n": n}, "binary_to_gray(gray_to_binary(%d)) = %d" % (n, binary_to_gray(gray_to_binary(n))), ["ungray %d" % n])
        elif bin(g ^ binary_to_gray(n + 1)).count("1") != 1:
            viol("modulations.utils:binary_to_gray", {"n": n}, "binary_to_gray(%d) and binary_to_gray(%d) differ in %d bits" % (n, n + 1, bin(g ^ binary_to_gray(n + 1)).count("1")), ["gray %d" % n, "gray %d" % (n + 1)])
        if len(out) > 12:
            break
    try:
        tabs = _load(ctx)
    except Exception as e:
        viol("modulations:catalogue", {}, "catalogue cannot be constructed: %s" % e, [])
        tabs = {}
    for name, (inst, pts, lo, hi) in tabs.items():
        cfg = {"inst": name, "kind": inst.kind, "gray": inst.gray, "order": len(pts)}
        labs = sorted(p[2] for p in pts)
        if len(pts) != 2 ** inst.b or labs != list(range(2 ** inst.b)):
            viol("modulations:%s.bit_patterns" % inst.kind, cfg, "%s: labels are not a bijection onto the %d-bit patterns: %s" % (name, inst.b, labs[:20]), ["labelsok " + name])
        if modcat.dmin2(pts) == 0:
            viol("modulations:%s.constellation" % inst.kind, cfg, "%s: two constellation points coincide" % name, ["pairsok " + name])
        if inst.gray:
            ok, pair = modcat.is_gray(pts, hi)
            if not ok:
                i, j = pair
                viol("modulations:%s.constellation" % inst.kind, cfg, "%s: nearest neighbours %d and %d carry labels %s / %s (differ in %d bits)" % (
                    name, i, j, format(pts[i][2], "0%db" % inst.b), format(pts[j][2], "0%db" % inst.b), modcat.popcount(pts[i][2] ^ pts[j][2])), ["pairsok " + name])
        if inst.unit:
            e = sum(p[0] ** 2 + p[1] ** 2 for p in pts) / (len(pts) * inst.scale ** 2)
            if abs(e - 1) > 1e-6:
                viol("modulations:%s.constellation" % inst.kind, cfg, "%s: average energy %.8f != 1" % (name, e), ["energyok %s" % name])
        if inst.kind in ("qpsk", "psk", "qam", "pam", "bpsk"):
            import torch
            c = getattr(inst.mod, inst.table_attr).tolist()
            for lab in range(2 ** inst.b):
                bits = [(lab >> (inst.b - 1 - k)) & 1 for k in range(inst.b)]
                y = complex(inst.mod(torch.tensor(bits, dtype=torch.float32)).reshape(-1)[0].item())
                want = [i for i, p in enumerate(pts) if p[2] == lab]
                if not want or complex(c[want[-1]]) != y:
                    viol("modulations:%s.forward" % inst.kind, dict(cfg, label=lab), "%s: modulate(%s) is not the constellation point labelled %s" % (name, bits, bits), ["modidx %s label %s" % (name, "".join(map(str, bits)))])
                    break
    return out


def finding_reproduces(ctx, f):
    from kaira.modulations.utils import binary_to_gray, gray_to_binary
    if f["id"] == "F-GRAYCONST-B2G":
        return binary_to_gray(1023) == 1365
    if f["id"] == "F-GRAYCONST-G2B":
        return gray_to_binary(1365) == 1023
    if f["id"] in ("F-PAMGRAY", "F-PI4TABLE"):
        kind = "pam" if f["id"] == "F-PAMGRAY" else "pi4"
        for name, (inst, pts, lo, hi) in _load(ctx).items():
            if inst.kind == kind and inst.gray and len(pts) >= 4 and not modcat.is_gray(pts, hi)[0]:
                return True
        return False
    return False


def replay(ctx, payload):
    print("replay: re-run ./check C14; op lines:", payload.get("ops"))
    return 0
