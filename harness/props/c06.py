"""C06 — demodulators decide for the nearest point and emit correctly signed, scaled LLRs."""
from fractions import Fraction
from ..runner import Op
from .. import modcat
from . import c14

ID = "C06"
KINDS = {"U": ["hard_is_nearest", "maxlog_sign", "maxlog_scale", "bpsk_closed_form"], "K": ["C14.instances_ok (shared tables)"]}
PARTIAL = ["float32 rounding near decision boundaries: hard decisions are compared only when the margin to the runner-up exceeds 1e-4 of the squared scale (skipped cases are counted)",
           "DPSK: its soft/hard outputs are exercised on the decision variable y1*conj(y0) with y0 = 1 and |y1| ~ 1"]
RULE = ("hard / llr lines per table: received points on a grid over and beyond the bounding box, next to decision boundaries and random; "
        "noise variances 1e-3 .. 1e2, scalar and per-symbol; non-trivial = received point is not a constellation point")
ASSUMPTIONS = c14.ASSUMPTIONS + ["received points are multiples of 1/64 of the table scale, hence exact in float32 and in the model"]
F = 64
C_CONST = {"bpsk": Fraction(1, 2), "qpsk": Fraction(1), "psk": Fraction(1), "qam": Fraction(1, 2), "pam": Fraction(1, 2),
           "dpsk": Fraction(1, 2), "oqpsk": Fraction(1, 2), "pi4": Fraction(1)}
NVS = [Fraction(1, 1000), Fraction(1, 100), Fraction(1, 10), Fraction(1), Fraction(10), Fraction(100)]

extract = c14.extract


def bstr(v):
    return "".join("1" if int(round(float(x))) else "0" for x in v) or "-"


def grid_points(ctx, inst, pts, scale):
    """integer points (at scale*F) : grid, boundary neighbours, random; real-line schemes get im = 0"""
    rng = ctx.rng
    real_only = inst.kind in ("bpsk", "pam")
    S = scale * F
    box = max(max(abs(p[0]), abs(p[1])) for p in pts) * F
    step = max(1, S // F)                     # received coordinates are multiples of scale (i.e. 1/64 at scale*F)... of `step`
    snap = lambda v: int(round(v / step)) * step
    out = []
    g = [snap(-1.5 * box + 3 * box * i / 6) for i in range(7)]
    for x in g:
        for y in ([0] if real_only else g):
            out.append((x, y))
    # next to decision boundaries: midpoints of a few pairs, nudged
    P = [(p[0] * F, p[1] * F) for p in pts]
    for _ in range(12 if ctx.thorough else 6):
        a, b = rng.sample(P, 2) if len(P) > 1 else (P[0], P[0])
        mx, my = (a[0] + b[0]) // 2, (a[1] + b[1]) // 2
        out.append((snap(mx) + step * rng.choice([-3, 3]), 0 if real_only else snap(my) + step * rng.choice([-2, 2])))
    for _ in range(40 if ctx.thorough else 12):
        out.append((snap(rng.uniform(-1.6, 1.6) * box), 0 if real_only else snap(rng.uniform(-1.6, 1.6) * box)))
    if inst.kind == "dpsk":
        # decision variable on (about) the unit circle
        import math
        out = []
        for i in range(24 if ctx.thorough else 12):
            th = rng.uniform(0, 2 * math.pi)
            out.append((snap(math.cos(th) * S), snap(math.sin(th) * S)))
    return out, S


def oracle(pts_scaled, b, x, y):
    """(nearest index, margin d2nd-dbest over distinct-label alternatives, per-bit (d1-d0), max d)"""
    ds = [(p[0] - x) ** 2 + (p[1] - y) ** 2 for p in pts_scaled]
    best = min(range(len(ds)), key=lambda i: (ds[i], i))
    others = [ds[i] for i in range(len(ds)) if pts_scaled[i][2] != pts_scaled[best][2]]
    margin = (min(others) - ds[best]) if others else None
    per_bit = []
    for k in range(b):
        d1 = [ds[i] for i, p in enumerate(pts_scaled) if (p[2] >> (b - 1 - k)) & 1]
        d0 = [ds[i] for i, p in enumerate(pts_scaled) if not (p[2] >> (b - 1 - k)) & 1]
        per_bit.append((min(d1) - min(d0)) if d1 and d0 else None)
    return best, margin, per_bit, max(ds)


def _tensor(points, S):
    import torch
    return torch.tensor([complex(x / S, y / S) for x, y in points], dtype=torch.complex64)


def _call(inst, name, points, S, nv=None, per_symbol=False, tensor_nv=False):
    """returns the implementation's outputs per point: list of bit strings (hard) or list of float lists (soft)"""
    import torch
    dem = inst.demod
    dem.eval()
    if hasattr(dem, "reset_state"):
        dem.reset_state()
    b = inst.b
    res = []
    with torch.no_grad():
        if inst.kind == "dpsk":
            for (x, y) in points:
                yv = torch.tensor([[1 + 0j, complex(x / S, y / S)]], dtype=torch.complex64)
                o = dem(yv) if nv is None else dem(yv, noise_var=(torch.tensor([[float(nv)]]) if tensor_nv else float(nv)))
                res.append(o.reshape(-1).tolist())
            return res
        if inst.kind == "pi4":
            second = name.endswith("_b")
            for (x, y) in points:
                seq = [complex(1, 0), complex(x / S, y / S)] if second else [complex(x / S, y / S)]
                yv = torch.tensor([seq], dtype=torch.complex64)
                dem.reset_state()
                o = dem(yv) if nv is None else dem(yv, noise_var=(torch.full((1, len(seq)), float(nv)) if tensor_nv else float(nv)))
                o = o.reshape(-1).tolist()
                res.append(o[-b:])
            return res
        yv = _tensor(points, S)
        if inst.kind in ("bpsk",):
            o = dem(yv) if nv is None else dem(yv, noise_var=(torch.full((len(points),), float(nv)) if tensor_nv else float(nv)))
        elif per_symbol:
            nvt = torch.tensor([float(nv[i % len(nv)]) for i in range(len(points))], dtype=torch.float32)
            o = dem(yv, noise_var=nvt)
        else:
            o = dem(yv) if nv is None else dem(yv, noise_var=float(nv))
        o = o.reshape(len(points), -1).tolist()
        return o


def _cmp_llr(tols):
    def cmp(model, impl):
        a, bb = model.split(), impl.split()
        if len(a) != len(bb) or len(a) != len(tols):
            return False
        for x, y, t in zip(a, bb, tols):
            if x == "inf" or y in ("inf", "nan"):
                return False
            if abs(float(Fraction(x)) - float(y)) > t:
                return False
        return True
    return cmp


_ORACLE = {}


def corr(ctx):
    ops = []
    tabs = c14._load(ctx)
    for name, (inst, pts, lo, hi) in tabs.items():
        if inst.kind == "pi4" and not inst.gray:
            continue      # the demodulator owns only the gray tables
        b = inst.b
        tname = name + "@%d" % F
        P = [(p[0] * F, p[1] * F, p[2]) for p in pts]
        ops.append(Op("deftable %s %d %s" % (tname, b, ";".join("%d,%d,%d" % p for p in P)), "ok", nontrivial=False))
        points, S = grid_points(ctx, inst, pts, inst.scale)
        site_h = "modulations:%s.hard" % inst.kind
        site_s = "modulations:%s.soft" % inst.kind
        cfg = {"inst": name, "kind": inst.kind, "gray": inst.gray, "order": len(pts)}
        # hard decisions
        hard = _call(inst, name, points, S)
        for (x, y), hb in zip(points, hard):
            best, margin, per_bit, dmax = oracle(P, b, x, y)
            if margin is not None and margin * 10000 < S * S:
                ctx.skipped_by_margin += 1
                continue
            want = format(P[best][2], "0%db" % b)
            got = bstr(hb)
            ops.append(Op("hard %s %d,%d" % (tname, x, y), got, nontrivial=(x, y) not in [(p[0], p[1]) for p in P],
                          info={"site": site_h, "config": dict(cfg, point=[x, y])}, prop_ok=(got == want)))
        ctx.count("hard_" + inst.kind, len(points))
        # exact ties: midpoints between nearest neighbours (an erased / zero-padded symbol sits exactly on a decision boundary).  Either
        # neighbour is a correct answer - anything else is not a nearest point (oracle only, no tie-break is demanded)
        if inst.kind in ("bpsk", "qpsk", "psk", "qam", "pam"):
            dmin = min((a[0] - b_[0]) ** 2 + (a[1] - b_[1]) ** 2 for i_, a in enumerate(P) for b_ in P[i_ + 1:]) if len(P) > 1 else 0
            mids = []
            for i_, a in enumerate(P):
                for b_ in P[i_ + 1:]:
                    if (a[0] - b_[0]) ** 2 + (a[1] - b_[1]) ** 2 == dmin and (a[0] + b_[0]) % 2 == 0 and (a[1] + b_[1]) % 2 == 0:
                        mids.append(((a[0] + b_[0]) // 2, (a[1] + b_[1]) // 2))
            mids = list(dict.fromkeys(mids))
            if len(mids) > 24:
                mids = ctx.rng.sample(mids, 24)
            if mids:
                tie_out = _call(inst, name, mids, S)
                for (x, y), hb in zip(mids, tie_out):
                    ds = [(p[0] - x) ** 2 + (p[1] - y) ** 2 for p in P]
                    near = {format(p[2], "0%db" % b) for p, d_ in zip(P, ds) if d_ <= min(ds) + max(1, min(ds) // 10 ** 6)}
                    got = bstr(hb)
                    ops.append(Op("gray 0", "0", nontrivial=False, info={"site": site_h, "config": dict(cfg, point=[x, y], tie=True, nearest_labels=sorted(near), got=got)}, prop_ok=(got in near)))
                ctx.count("hard_exact_ties", len(mids))
        # soft outputs
        c = C_CONST[inst.kind]
        nvs = NVS if ctx.thorough else NVS[::2] + [NVS[1]]
        sub = points if ctx.thorough or len(pts) <= 16 else points[: max(10, len(points) // 3)]
        # the same variance passed as a float and (dpsk / pi4 / bpsk) as a per-symbol tensor
        plan = [(nv, False) for nv in nvs] + ([(nvs[1], True)] if inst.kind in ("dpsk", "pi4", "bpsk") else [])
        for nv, as_tensor in plan:
            try:
                soft = _call(inst, name, sub, S, nv=nv, tensor_nv=as_tensor)
            except Exception as e:
                ops.append(Op("hard %s 0,0" % tname, "other:tensor-noise-var:%s" % type(e).__name__, info={"site": site_s, "config": dict(cfg, nv="tensor:" + str(nv))}, prop_ok=False))
                continue
            nvtag = ("tensor:" if as_tensor else "") + str(nv)
            if inst.kind == "dpsk":
                # the demodulator normalises the decision variable to unit modulus (a square root): outside the exact
                # model - compared with a float64 evaluation of the definition instead (a test of the implementation)
                for (x, y), row in zip(sub, soft):
                    r = (x * x + y * y) ** 0.5
                    zx, zy = x / r, y / r
                    want = []
                    for k in range(b):
                        d1 = min((p[0] / S - zx) ** 2 + (p[1] / S - zy) ** 2 for p in P if (p[2] >> (b - 1 - k)) & 1)
                        d0 = min((p[0] / S - zx) ** 2 + (p[1] / S - zy) ** 2 for p in P if not (p[2] >> (b - 1 - k)) & 1)
                        want.append(float(c) * (d1 - d0) / float(nv))
                    tols = [3e-4 * abs(w) + 2e-5 / float(nv) for w in want]
                    close = len(row) == len(want) and all(abs(float(v) - w) <= t for v, w, t in zip(row, want, tols))
                    best = oracle(P, b, x, y)[0]
                    ops.append(Op("nearest %s %d,%d" % (tname, x, y), str(best), info={"site": site_s, "config": dict(cfg, point=[x, y], nv=nvtag, want=want)},
                                  prop_ok=close))
                    if not close:
                        ops[-1].impl = str(best)
                        ops[-1].info["config"]["soft"] = [float(v) for v in row]
                ctx.count("soft_dpsk_float64_oracle", len(sub))
                continue
            for (x, y), row in zip(sub, soft):
                best, margin, per_bit, dmax = oracle(P, b, x, y)
                if any(v is None for v in per_bit):
                    continue
                want = [float(c * Fraction(v, S * S) / nv) for v in per_bit]
                tols = [2e-4 * abs(w) + 4e-6 * float(c) * dmax / (S * S) / float(nv) + 1e-6 for w in want]
                impl = " ".join(repr(float(v)) for v in row)
                sign_ok = all(not ((w > 10 * t and v < -10 * t) or (w < -10 * t and v > 10 * t)) for w, v, t in zip(want, row, tols))
                close = len(row) == len(want) and all(abs(float(v) - w) <= t for v, w, t in zip(row, want, tols))
                ops.append(Op("llr %s %s %d %s %d,%d" % (tname, c, S * S, nv, x, y), impl, cmp=_cmp_llr(tols),
                              info={"site": site_s, "config": dict(cfg, point=[x, y], nv=nvtag, want=want)}, prop_ok=(sign_ok and close)))
            ctx.count("soft_" + inst.kind, len(sub))
        # per-symbol variances (memoryless tensor paths)
        if inst.kind in ("qpsk", "psk", "qam", "pam", "oqpsk"):
            nvl = [Fraction(1, 10), Fraction(2), Fraction(1, 100)]
            sub2 = sub[:9]
            try:
                soft = _call(inst, name, sub2, S, nv=nvl, per_symbol=True)
            except Exception as e:
                soft = None
                ops.append(Op("hard %s 0,0" % tname, "other:per-symbol:%s" % type(e).__name__, info={"site": site_s, "config": dict(cfg, nv="per-symbol")}, prop_ok=False))
            if soft is not None:
                for i, ((x, y), row) in enumerate(zip(sub2, soft)):
                    nv = nvl[i % len(nvl)]
                    best, margin, per_bit, dmax = oracle(P, b, x, y)
                    if any(v is None for v in per_bit):
                        continue
                    want = [float(c * Fraction(v, S * S) / nv) for v in per_bit]
                    tols = [2e-4 * abs(w) + 4e-6 * float(c) * dmax / (S * S) / float(nv) + 1e-6 for w in want]
                    close = len(row) == len(want) and all(abs(float(v) - w) <= t for v, w, t in zip(row, want, tols))
                    ops.append(Op("llr %s %s %d %s %d,%d" % (tname, c, S * S, nv, x, y), " ".join(repr(float(v)) for v in row), cmp=_cmp_llr(tols),
                                  info={"site": site_s, "config": dict(cfg, point=[x, y], nv="per-symbol:" + str(nv), want=want)}, prop_ok=close))
                ctx.count("soft_per_symbol_" + inst.kind, len(sub2))
    # ---- pi/4-QPSK call histories: in training mode the alternation state carries over between calls; the soft output of a block
    #      must be signed like the hard decision of the same object history (odd / even numbers of symbols seen before)
    import torch, cmath
    from kaira.modulations import pi4qpsk
    rng = ctx.rng
    for first_len in (1, 2, 3, 5):
        for second_len in (1, 4, 7):
            for gray in (True,):
                mod = pi4qpsk.Pi4QPSKModulator(gray_coded=gray)
                bits1 = torch.tensor([[float(rng.getrandbits(1)) for _ in range(2 * first_len)]])
                bits2 = torch.tensor([[float(rng.getrandbits(1)) for _ in range(2 * second_len)]])
                y1 = mod(bits1); y2 = mod(bits2)        # the modulator (training mode) carries its own alternation state the same way
                y2n = y2 + torch.tensor([[complex(rng.uniform(-0.15, 0.15), rng.uniform(-0.15, 0.15)) for _ in range(second_len)]], dtype=y2.dtype)
                dh, ds = pi4qpsk.Pi4QPSKDemodulator(), pi4qpsk.Pi4QPSKDemodulator()
                dh(y1); ds(y1)
                hard = dh(y2n).reshape(-1).tolist()
                soft = ds(y2n, noise_var=0.1).reshape(-1).tolist()
                agree = len(hard) == len(soft) and all(abs(l) < 1e-3 or ((l < 0) == (int(round(h)) == 1)) for h, l in zip(hard, soft))
                ops.append(Op("gray 0", "0", nontrivial=False,
                              info={"site": "modulations:pi4.soft.history", "config": {"symbols_before": first_len, "symbols": second_len, "hard": bstr(hard), "soft": [round(float(v), 3) for v in soft]}},
                              prop_ok=agree))
                ctx.count("pi4_soft_histories")
    return ops


def search(ctx, mismatches, broken, prop_fail):
    out, seen = [], set()
    for pf in prop_fail + mismatches:
        cfg = pf["info"].get("config", {})
        site = pf["info"].get("site")
        key = (site, cfg.get("inst"))
        if site is None or key in seen:
            continue
        if pf["info"] and pf in mismatches and pf not in prop_fail:
            # a model/implementation difference on which the property itself (oracle) is satisfied is not a failing input
            continue
        seen.add(key)
        if cfg.get("tie"):
            what = "%s: received point %s/%d lies exactly between nearest neighbours labelled %s but is decided as %s, which is not a nearest constellation point" % (cfg.get("inst"), cfg.get("point"), F, cfg.get("nearest_labels"), cfg.get("got"))
        elif site.endswith(".history"):
            what = ("pi/4-QPSK demodulator (training mode) after a call with %s symbol(s): soft output %s of the next %s symbol(s) is not signed like the hard decision %s of an "
                    "identical object with the same history" % (cfg.get("symbols_before"), cfg.get("soft"), cfg.get("symbols"), cfg.get("hard")))
        elif site.endswith(".hard"):
            what = "%s: received point %s/%d is decided as %s, which is not the label of a nearest constellation point" % (cfg.get("inst"), cfg.get("point"), F, pf["impl"])
        else:
            what = "%s: soft output at point %s (noise variance %s) is [%s]; max-log LLRs by definition are %s" % (cfg.get("inst"), cfg.get("point"), cfg.get("nv"), cfg.get("soft", pf["impl"]), ["%.6g" % w for w in cfg.get("want", [])])
        out.append({"site": site, "config": {k: v for k, v in cfg.items() if k != "want"}, "what": what, "ops": [pf["op"]], "impl_output": pf["impl"], "kind": "failing-input"})
    return out[:12]


def finding_reproduces(ctx, f):
    return False


def replay(ctx, payload):
    print("replay: re-run ./check C06; op lines:", payload.get("ops"))
    return 0
