"""C15 — one LLR polarity everywhere: positive means bit 0, negative means bit 1."""
import itertools
from fractions import Fraction
from ..runner import Op
from . import c14

ID = "C15"
KINDS = {"U": ["noise_free_strict_sign", "llr_thresholder_polarity", "half_prob_polarity", "min_distance_polarity", "repetition_polarity",
               "sigmoid_law", "prob_one_strictAnti", "probability_thresholds_polarity", "producer_consumer", "producer_consumer_instances"],
         "K": ["fixed_thresholder_inverted"]}
PARTIAL = ["consumers that threshold sigmoid(-L) against data-dependent or non-1/2 thresholds (adaptive, hysteresis, dynamic, ensemble) and the soft-input decoders are "
           "checked against the property on the implementation only (a test); their polarity is proved only in the form 'a positive LLR is never pushed to 1 / a negative one never to 0' over the reals",
           "adaptive / dynamic thresholders need both bit values in a batch: constant sequences are excluded for them; hysteresis is driven with |LLR| >= 1 (its dead zone is by design)"]
RULE = "cons lines: LLR vectors (noise-free soft outputs of real demodulators and synthetic magnitudes 1e-3..1e3) decided by real consumers vs the exact rational model; non-trivial = vector contains both signs"
ASSUMPTIONS = c14.ASSUMPTIONS

extract = c14.extract
PRODUCERS = ["bpsk", "qpsk_n1", "qpsk_n0", "psk8_g1", "psk16_g0", "qam16_g1_n1", "qam64_g0_n0", "pam4_g0_n1", "pam8_g1_n0", "oqpsk_n1", "dpsk4_g0", "dpsk2_g1"]


def bstr(v):
    return "".join("1" if int(round(float(x))) else "0" for x in v) or "-"


def fr(v):
    return ",".join(str(Fraction(float(x))) for x in v) or "-"


def noise_free_llrs(inst, bits, nv):
    import torch
    mod, dem = inst.mod, inst.demod
    for m in (mod, dem):
        m.eval()
        if hasattr(m, "reset_state"):
            m.reset_state()
    with torch.no_grad():
        y = mod(torch.tensor([bits], dtype=torch.float32))
        return dem(y, noise_var=nv).reshape(-1)


def consumers():
    """(name, factory -> callable on a 2-D LLR tensor, model line prefix or None, options)"""
    import torch
    from kaira.models.binary import soft_bit_thresholding as T
    from kaira.models.fec.utils import llr_to_bits, sign_to_bin
    from kaira.models.registry import ModelRegistry
    LLR = T.InputType.LLR
    return [
        ("llr", lambda: T.LLRThresholder(), "cons llr 1 0", {}),
        ("llr_scaled", lambda: T.LLRThresholder(confidence_scaling=2.5), "cons llr 5/2 0", {}),
        ("fixed", lambda: T.FixedThresholder(threshold=0.0, input_type=LLR), "cons fixed 0", {"site": "binary:FixedThresholder"}),
        ("mindist", lambda: T.MinDistanceThresholder(input_type=LLR), "cons mindist -2,2", {}),
        ("weighted", lambda: T.WeightedThresholder(weights=1.0, threshold=0.5, input_type=LLR), "cons half", {}),
        ("llr_to_bits", lambda: llr_to_bits, "cons half", {"nonzero": True}),
        ("sign_to_bin", lambda: (lambda x: sign_to_bin(torch.sign(x))), "cons half", {"nonzero": True}),
        ("adaptive", lambda: T.AdaptiveThresholder(method="mean", input_type=LLR), None, {"mixed": True}),
        ("hysteresis", lambda: T.HysteresisThresholder(input_type=LLR), None, {"minmag": 1.0}),
        ("dynamic", lambda: T.DynamicThresholder(input_type=LLR), None, {"mixed": True}),
        # thresholds that are not symmetric about 1/2: a fresh object starts in state 0, so a bit is decided 1 iff P(1) = sigmoid(-L) exceeds the
        # HIGH threshold - every vector whose magnitudes exceed logit(high) must come back (in particular those between the two edges' logits)
        ("hysteresis_70_20", lambda: T.HysteresisThresholder(high_threshold=0.7, low_threshold=0.2, input_type=LLR), None, {"minmag": 0.9}),
        ("hysteresis_90_60", lambda: T.HysteresisThresholder(high_threshold=0.9, low_threshold=0.6, input_type=LLR), None, {"minmag": 2.25}),
        ("hysteresis_55_10", lambda: T.HysteresisThresholder(high_threshold=0.55, low_threshold=0.1, input_type=LLR), None, {"minmag": 0.25}),
        ("weighted_thr30", lambda: T.WeightedThresholder(weights=1.0, threshold=0.3, input_type=LLR), None, {"minmag": 1.0}),
        ("weighted_thr80", lambda: T.WeightedThresholder(weights=1.0, threshold=0.8, input_type=LLR), None, {"minmag": 1.6}),
        # custom reference points in every order (bit-0 reference first, descending multi-level, unsorted)
        ("mindist_pm", lambda: T.MinDistanceThresholder(reference_points=torch.tensor([3.0, -3.0]), input_type=LLR), "cons mindist 3,-3", {}),
        ("mindist_desc", lambda: T.MinDistanceThresholder(reference_points=torch.tensor([6.0, 2.0, -2.0, -6.0]), input_type=LLR), "cons mindist 6,2,-2,-6", {}),
        ("mindist_mixed", lambda: T.MinDistanceThresholder(reference_points=torch.tensor([-1.0, 5.0, 1.0, -5.0]), input_type=LLR), "cons mindist -1,5,1,-5", {}),
        # the input type given as the documented plain string, directly and through the model registry
        ("mindist_str", lambda: T.MinDistanceThresholder(input_type="llr"), "cons mindist -2,2", {}),
        ("weighted_str", lambda: T.WeightedThresholder(weights=1.0, threshold=0.5, input_type="llr"), "cons half", {}),
        ("adaptive_str", lambda: T.AdaptiveThresholder(method="mean", input_type="llr"), None, {"mixed": True}),
        ("hysteresis_str", lambda: T.HysteresisThresholder(input_type="llr"), None, {"minmag": 1.0}),
        ("dynamic_str", lambda: T.DynamicThresholder(input_type="llr"), None, {"mixed": True}),
        ("hysteresis_registry", lambda: ModelRegistry.create("hysteresis_thresholder", input_type="llr"), None, {"minmag": 1.0}),
        ("weighted_registry", lambda: ModelRegistry.create("weighted_thresholder", weights=1.0, threshold=0.5, input_type="llr"), "cons half", {}),
        ("adaptive_registry", lambda: ModelRegistry.create("adaptive_thresholder", method="mean", input_type="llr"), None, {"mixed": True}),
        ("ensemble", lambda: T.SoftBitEnsembleThresholder([T.LLRThresholder(), T.WeightedThresholder(weights=1.0, threshold=0.5, input_type=LLR), T.MinDistanceThresholder(input_type=LLR)]), None, {}),
    ]


def corr(ctx):
    import torch
    ops = []
    rng = ctx.rng
    tabs = c14._load(ctx)
    vectors = []   # (tag, llr tensor, transmitted bits)
    for pname in PRODUCERS:
        inst = tabs[pname][0]
        b = inst.b
        seqs = [list(s) for s in itertools.product([0, 1], repeat=min(2 * b, 6))][:: (1 if ctx.thorough else 3)]
        seqs += [[rng.getrandbits(1) for _ in range(b * rng.randint(2, 10))] for _ in range(6 if ctx.thorough else 2)]
        for bits in seqs:
            if len(bits) % b:
                bits = bits[: len(bits) - len(bits) % b]
            if inst.kind == "dpsk":
                bits = [0] * b + bits
            for nv in (0.05, 1.0, 20.0):
                l = noise_free_llrs(inst, bits, nv)
                sent = bits[b:] if inst.kind == "dpsk" else bits
                if inst.kind == "oqpsk":
                    I, Q = bits[0::2], bits[1::2]
                    sent = [v for p in zip(I, [0] + Q[:-1]) for v in p]
                    # the first quadrature LLR is exactly 0 (reset value): no decision is demanded there
                    l = torch.cat([l[:1], l[2:]]); sent = sent[:1] + sent[2:]
                vectors.append(("producer:" + pname, l, sent))
        ctx.count("producer_" + inst.kind)
    for mag in (1e-3, 0.3, 1.0, 7.0, 1e3):
        for bits in itertools.product([0, 1], repeat=4):
            vectors.append(("synthetic:%g" % mag, torch.tensor([(-mag if v else mag) * rng.uniform(1.0, 1.5) for v in bits], dtype=torch.float32), list(bits)))
            vectors.append(("synthetic-const:%g" % mag, torch.tensor([(-mag if v else mag) for v in bits], dtype=torch.float32), list(bits)))
    for cname, make, model, opt in consumers():
        site = opt.get("site", "binary:%s" % cname)
        for tag, l, sent in vectors:
            if opt.get("mixed"):
                # data-dependent (mean) thresholds: only vectors with both bit values and (nearly) equal magnitudes
                mags = l.abs()
                if len(set(sent)) < 2 or float(mags.max()) > 1.001 * float(mags.min()):
                    continue
            if opt.get("minmag") and float(l.abs().min()) < opt["minmag"]:
                continue
            fn = make()
            out = fn(l.reshape(1, -1))
            got = bstr(out.reshape(-1).tolist())
            ok = got == bstr(sent)
            line = (model + " " + fr(l.tolist())) if model else "cons half " + fr(l.tolist())
            info = {"site": site, "config": {"consumer": cname, "source": tag, "sent": bstr(sent)}}
            if model:
                ops.append(Op(line, got, nontrivial=len(set(sent)) > 1, info=info, prop_ok=ok))
            else:
                # no exact model: the line carries the LLRs for replay; the implementation's decision is checked against the property only
                ops.append(Op(line, bstr(sent) if ok else got, cmp=(lambda m, i: True), nontrivial=len(set(sent)) > 1, info=info, prop_ok=ok))
            ctx.count("consumer_" + cname)
    # repetition soft-bit decoder in LLR mode
    from kaira.models.binary.soft_bit_thresholding import RepetitionSoftBitDecoder, InputType
    for r in (1, 3, 5):
        for method in ("mean", "sum"):
            dec = RepetitionSoftBitDecoder(repetition_factor=r, soft_combine_method=method, input_type=InputType.LLR)
            for bits in itertools.product([0, 1], repeat=3):
                l = torch.tensor([[(-1.0 if v else 1.0) * rng.uniform(0.2, 3.0) for v in bits for _ in range(r)]], dtype=torch.float32)
                got = bstr(dec(l).reshape(-1).tolist())
                ops.append(Op("cons rep %d %s" % (r, fr(l.reshape(-1).tolist())), got, info={"site": "binary:RepetitionSoftBitDecoder", "config": {"consumer": "repetition", "r": r, "method": method, "sent": bstr(bits)}}, prop_ok=(got == bstr(bits))))
            ctx.count("consumer_repetition")
    # soft-input decoders: clean LLRs of one small code each (full coverage: C10 / C11)
    ops += _decoders(ctx)
    return ops


def _decoders(ctx):
    import torch
    from kaira.models.fec import encoders as E, decoders as D
    out = []
    rng = ctx.rng
    cases = []
    try:
        H = torch.tensor([[1, 1, 0, 1, 0, 0], [0, 1, 1, 0, 1, 0], [1, 0, 1, 0, 0, 1]], dtype=torch.float32)
        ld = E.LDPCCodeEncoder(check_matrix=H)
        cases += [("bp", ld, D.BeliefPropagationDecoder(ld, bp_iters=5)), ("minsum", ld, D.MinSumLDPCDecoder(ld, bp_iters=5))]
    except Exception as e:
        ctx.notes.append("LDPC decoders unavailable: %s" % e)
    spc = E.SingleParityCheckCodeEncoder(4)
    cases.append(("wagner", spc, D.WagnerSoftDecisionDecoder(spc)))
    rm = E.ReedMullerCodeEncoder(1, 3)
    cases.append(("soft_rm", rm, D.ReedMullerDecoder(rm, input_type="soft")))
    import contextlib, io
    with contextlib.redirect_stdout(io.StringIO()):
        for (kk, nn) in ((4, 8), (5, 16)):
            pe = E.PolarCodeEncoder(kk, nn)
            for regime in ("sum_product", "min_sum"):
                cases.append(("polar_sc_%s_%d" % (regime, nn), pe, D.SuccessiveCancellationDecoder(pe, regime=regime)))
                cases.append(("polar_bp_%s_%d" % (regime, nn), pe, D.BeliefPropagationPolarDecoder(pe, regime=regime, bp_iters=8)))
    # Reed-Muller codes of high order (check-sum groups of 16 / 8 positions): products / sums over large groups at weak LLRs
    for (r_, m_) in ((4, 5), (3, 5), (3, 4)):
        rmx = E.ReedMullerCodeEncoder(r_, m_)
        cases.append(("soft_rm_%d_%d" % (r_, m_), rmx, D.ReedMullerDecoder(rmx, input_type="soft")))
    for name, enc, dec in cases:
        k = enc.code_dimension
        msgs_iter = itertools.product([0, 1], repeat=k) if k <= 8 else [tuple(rng.getrandbits(1) for _ in range(k)) for _ in range(3)] + [tuple([1] * k)]
        for bits in msgs_iter:
            m = torch.tensor([bits], dtype=torch.float32)
            cw = enc(m)
            for a in (1e-3, 0.5, 1.0, 2.0, 4.0, 12.0, 50.0, 1e3):     # 1.0: the noise-free LLRs of the all-zero word are then a 0/1-free all-ones vector
                l = (1 - 2 * cw) * a
                try:
                    with contextlib.redirect_stdout(io.StringIO()):
                        r = dec(l)
                    r = r[0] if isinstance(r, tuple) else r
                    got = bstr(r.reshape(-1).tolist())
                except Exception as e:
                    got = "other:" + type(e).__name__
                out.append(Op("cons half " + fr(l.reshape(-1).tolist()), bstr(bits) if got == bstr(bits) else got, cmp=(lambda mo, i: True),
                              info={"site": "fec.decoders:%s" % name, "config": {"consumer": name, "sent": bstr(bits), "magnitude": a}}, prop_ok=(got == bstr(bits))))
        ctx.count("decoder_" + name)
    return out


def search(ctx, mismatches, broken, prop_fail):
    out, seen = [], set()
    for pf in prop_fail + mismatches:
        cfg = pf["info"].get("config", {})
        site = pf["info"].get("site")
        key = (site, cfg.get("source", "")[:9])
        if site is None or key in seen:
            continue
        seen.add(key)
        out.append({"site": site, "config": {k: v for k, v in cfg.items()}, "kind": "failing-input",
                    "what": "%s fed with LLRs %s (%s) decides %s, transmitted bits %s" % (cfg.get("consumer"), pf["op"].split()[-1][:120], cfg.get("source", ""), pf["impl"], cfg.get("sent")),
                    "ops": [pf["op"]], "impl_output": pf["impl"]})
    return out[:12]


def finding_reproduces(ctx, f):
    import torch
    if f["id"] == "F-FIXTHR":
        from kaira.models.binary.soft_bit_thresholding import FixedThresholder, InputType
        return bool(FixedThresholder(threshold=0.0, input_type=InputType.LLR)(torch.tensor([2.0]))[0] == 1)
    return False


def replay(ctx, payload):
    print("replay: re-run ./check C15; op lines:", payload.get("ops"))
    return 0
