"""C07 — additive-noise channels deliver exactly the configured noise power / SNR."""
import math
from fractions import Fraction
from ..runner import Op

ID = "C07"
KINDS = {"U": ["additive_real", "additive_complex", "noiseSq_spec", "same_seed_scaling", "component_powers", "snrPower_ratio",
               "snr_roundtrip", "db_linear_inverse", "measured_snr"]}
PARTIAL = ["zero mean / unit variance / independence of torch.randn and torch.rand draws: trusted, supported by 10^6-sample statistics with a false-alarm bound <= 1e-9 (recorded, never a violation by themselves)",
           "SNRs that are not multiples of 10 dB involve 10^(snr/10): proved over the reals (snr_roundtrip, measured_snr), tied by a float64 evaluation of the same formula (a test)"]
RULE = ("re-seeded runs in float64: noise = y - x of the real channel vs the model's squared samples P_component * z_i^2 computed from the same draws "
        "(sign and square compared, rel 2e-6); powers over six decades, SNR -20..40 dB; conversions on grids; non-trivial = draw != 0")
ASSUMPTIONS = ["torch.manual_seed(s) + the same randn_like / rand call sequence reproduces the channel's draws", "float64 inputs make y - x exact to 1e-15 relative"]


def fr(v):
    return ",".join(str(Fraction(float(x))) for x in v) or "-"


def cmp_sq(tol):
    def cmp(model, impl):
        a, b = model.split(","), impl.split(",")
        if len(a) != len(b):
            return False
        for x, y in zip(a, b):
            m, i = float(Fraction(x)), float(y)
            if abs(m - i) > tol * max(abs(m), 1e-300) + 1e-300:
                return False
        return True
    return cmp


def corr(ctx):
    import torch
    from kaira.channels.analog import AWGNChannel, LaplacianChannel, NonlinearChannel, FlatFadingChannel
    from kaira.utils import snr as U
    from kaira.metrics.signal.snr import SignalToNoiseRatio
    rng = ctx.rng
    ops = []
    seed0 = 5000 + 31 * ctx.seed
    D = torch.float64
    shapes = [(16,), (3, 8), (2, 2, 5)]
    powers = [1e-4, 1e-2, 0.5, 1.0, 37.0, 1e3]
    scales = [1e-2, 1.0, 1e2]      # signal scales

    def signal(shape, cplx, scale):
        n = int(math.prod(shape))
        re = torch.tensor([rng.gauss(0, 1) * scale for _ in range(n)], dtype=D).reshape(shape)
        if not cplx:
            return re
        im = torch.tensor([rng.gauss(0, 1) * scale for _ in range(n)], dtype=D).reshape(shape)
        return torch.complex(re, im)

    def add(kind, param, zs, noise, site, cfg, signs_ok=True, tol=2e-6):
        sq = ",".join(repr(float(v) ** 2) for v in noise)
        ops.append(Op("noise2 %s %s %s" % (kind, Fraction(float(param)), fr(zs)), sq, cmp=cmp_sq(tol), nontrivial=True,
                      info={"site": site, "config": cfg}, prop_ok=signs_ok))

    case = 0
    for P in powers:
        for shape in shapes:
            for cplx in (False, True):
                case += 1
                s = seed0 + case
                x = signal(shape, cplx, rng.choice(scales))
                cfg = {"P": P, "complex": cplx, "shape": list(shape)}
                # ---- AWGN, noise power
                ch = AWGNChannel(avg_noise_power=P)
                torch.manual_seed(s); y = ch(x)
                n = (y - x)
                torch.manual_seed(s)
                if cplx:
                    zr = torch.randn_like(x.real); zi = torch.randn_like(x.imag)
                    z = torch.cat([zr.flatten(), zi.flatten()]); nn = torch.cat([n.real.flatten(), n.imag.flatten()])
                else:
                    z = torch.randn_like(x).flatten(); nn = n.flatten()
                signs = bool((torch.sign(nn) == torch.sign(z)).all()) and tuple(y.shape) == tuple(x.shape)
                add("awgnComplex" if cplx else "awgnReal", P, z.tolist(), nn.tolist(), "channels:AWGNChannel", dict(cfg, mode="power"), signs)
                # ---- Laplacian, power and scale parameterisations
                for mode, par in (("power", P), ("scale", math.sqrt(P / 2))):
                    ch = LaplacianChannel(avg_noise_power=P) if mode == "power" else LaplacianChannel(scale=par)
                    torch.manual_seed(s); y = ch(x)
                    n = y - x
                    torch.manual_seed(s)
                    if cplx:
                        r1 = ch._get_laplacian_noise(x.real.shape, x.device); r2 = ch._get_laplacian_noise(x.imag.shape, x.device)
                        z = torch.cat([r1.flatten(), r2.flatten()]).double(); nn = torch.cat([n.real.flatten(), n.imag.flatten()])
                    else:
                        z = ch._get_laplacian_noise(x.shape, x.device).flatten().double(); nn = n.flatten()
                    signs = bool((torch.sign(nn) == torch.sign(z)).all())
                    kind = ("lapPower" if mode == "power" else "lapScale") + ("Complex" if cplx else "Real")
                    # raw Laplacian draws and the scale are float32: tolerance for float32 products
                    add(kind, par if mode == "scale" else P, z.tolist(), nn.tolist(), "channels:LaplacianChannel", dict(cfg, mode=mode), signs, tol=5e-6)
                ctx.count("power_cases", 3)
    # ---- the Gaussian noise stage behind every front end and across call histories on ONE object:
    #      NonlinearChannel (identity nonlinearity) in each complex_mode, AWGN objects reused for real / complex inputs in turn
    def gauss_case(ch, x, s, site, cfg, P, tol=2e-6):
        cplx = x.is_complex()
        torch.manual_seed(s); y = ch(x)
        n = y - x
        torch.manual_seed(s)
        if cplx:
            zr = torch.randn_like(x.real); zi = torch.randn_like(x.imag)
            z = torch.cat([zr.flatten(), zi.flatten()]); nn = torch.cat([n.real.flatten(), n.imag.flatten()])
        else:
            z = torch.randn_like(x).flatten(); nn = (n.real if n.is_complex() else n).flatten()
        signs = bool((torch.sign(nn) == torch.sign(z)).all()) and tuple(y.shape) == tuple(x.shape) and (cplx or not y.is_complex() or float(y.imag.abs().max()) == 0.0)
        add("awgnComplex" if cplx else "awgnReal", P, z.tolist(), nn.tolist(), site, cfg, signs, tol=tol)
    for P in (1e-2, 0.5, 37.0):
        for cmode in ("direct", "cartesian", "polar"):
            for cplx in (False, True):
                case += 1
                x = signal((3, 8), cplx, rng.choice(scales))
                ch = NonlinearChannel(lambda t: t, add_noise=True, avg_noise_power=P, complex_mode=cmode)
                gauss_case(ch, x, seed0 + case, "channels:NonlinearChannel", {"P": P, "complex": cplx, "complex_mode": cmode, "mode": "power"}, P)
                ctx.count("nonlinear_power_cases")
        for order in ((True, False, True, False), (False, True, False), (True, True, False), (False, False, True)):
            for dt in (torch.float64, torch.float32):
                ch = AWGNChannel(avg_noise_power=P)
                for step, cplx in enumerate(order):
                    case += 1
                    # float32: a small signal, so that rounding of x + n to float32 stays far below the comparison tolerance
                    x = signal((2, 8), cplx, rng.choice(scales) if dt == torch.float64 else 1e-2)
                    x = x.to(torch.complex64 if cplx else torch.float32) if dt == torch.float32 else x
                    gauss_case(ch, x, seed0 + case, "channels:AWGNChannel.history", {"P": P, "dtype": str(dt), "order": ["complex" if c else "real" for c in order], "call": step}, P,
                               tol=2e-6 if dt == torch.float64 else 2e-5)   # float32 signal: the sum x + n is rounded to float32
                ctx.count("awgn_object_histories")
    # ---- a channel re-configured by attribute assignment after it has been used (parameter sweeps on one object): the next call must
    #      deliver the NEW noise power / scale
    for P1, P2 in ((0.1, 0.4), (37.0, 1e-2)):
        for cplx in (False, True):
            ch = AWGNChannel(avg_noise_power=P1)
            case += 1
            gauss_case(ch, signal((2, 8), cplx, 1.0), seed0 + case, "channels:AWGNChannel.history", {"P": P1, "reassigned": False, "complex": cplx}, P1)
            ch.avg_noise_power = P2
            case += 1
            gauss_case(ch, signal((2, 8), cplx, 1.0), seed0 + case, "channels:AWGNChannel.history", {"P": P2, "reassigned": "avg_noise_power %g -> %g" % (P1, P2), "complex": cplx}, P2)
            # Laplacian scale
            lp = LaplacianChannel(scale=math.sqrt(P1 / 2))
            x = signal((2, 8), cplx, 1.0)
            lp(x)
            lp.scale = math.sqrt(P2 / 2)
            case += 1
            s_ = seed0 + case
            torch.manual_seed(s_); y = lp(x)
            n_ = y - x
            torch.manual_seed(s_)
            if cplx:
                z = torch.cat([lp._get_laplacian_noise(x.real.shape, x.device).flatten(), lp._get_laplacian_noise(x.imag.shape, x.device).flatten()]).double(); nn = torch.cat([n_.real.flatten(), n_.imag.flatten()])
            else:
                z = lp._get_laplacian_noise(x.shape, x.device).flatten().double(); nn = n_.flatten()
            add("lapScaleComplex" if cplx else "lapScaleReal", math.sqrt(P2 / 2), z.tolist(), nn.tolist(), "channels:LaplacianChannel", {"scale": math.sqrt(P2 / 2), "reassigned": "scale after first use", "complex": cplx, "mode": "scale"},
                bool((torch.sign(nn) == torch.sign(z)).all()), tol=5e-6)
            ctx.count("reassigned_parameter_cases", 2)
    # ---- SNR mode: integer decades are exact in the model (snrp), others through the float64 formula (test)
    for snr in [-20, -10, 0, 10, 20, 30, 40] + [rng.uniform(-20, 40) for _ in range(6)]:
        for cplx in (False, True):
            case += 1
            s = seed0 + case
            x = signal((4, 16), cplx, rng.choice(scales))
            S = float(torch.mean(torch.abs(x) ** 2))
            exact = float(snr).is_integer() and int(snr) % 10 == 0
            for name, ch in (("AWGNChannel", AWGNChannel(snr_db=float(snr))), ("NonlinearChannel", NonlinearChannel(lambda t: t, add_noise=True, snr_db=float(snr))),
                             ("LaplacianChannel", LaplacianChannel(snr_db=float(snr)))):
                torch.manual_seed(s); y = ch(x)
                n = y - x
                torch.manual_seed(s)
                if name == "LaplacianChannel":
                    if cplx:
                        z = torch.cat([ch._get_laplacian_noise(x.real.shape, x.device).flatten(), ch._get_laplacian_noise(x.imag.shape, x.device).flatten()]).double()
                    else:
                        z = ch._get_laplacian_noise(x.shape, x.device).flatten().double()
                    mult = (0.25 if cplx else 0.5)
                else:
                    z = torch.cat([torch.randn_like(x.real).flatten(), torch.randn_like(x.imag).flatten()]) if cplx else torch.randn_like(x).flatten()
                    mult = (0.5 if cplx else 1.0)
                nn = torch.cat([n.real.flatten(), n.imag.flatten()]) if cplx else n.flatten()
                Pwant = S / (10 ** (snr / 10))
                got = [float(v) ** 2 for v in nn.tolist()]
                want = [Pwant * mult * float(v) ** 2 for v in z.tolist()]
                ok = all(abs(g - w) <= 1e-5 * max(w, 1e-300) for g, w in zip(got, want)) and bool((torch.sign(nn) == torch.sign(z)).all())
                cfg = {"snr_db": snr, "complex": cplx, "S": S}
                if exact and name != "LaplacianChannel":
                    # model: P = S / 10^j exactly, then the squared samples
                    Pm = Fraction(S) / Fraction(10) ** (int(snr) // 10) if snr >= 0 else Fraction(S) * Fraction(10) ** (-(int(snr) // 10))
                    ops.append(Op("snrp %s %d" % (Fraction(S), int(snr) // 10), repr(float(Pm)), cmp=lambda m, i: abs(float(Fraction(m)) - float(i)) <= 1e-12 * abs(float(i)), nontrivial=True,
                                  info={"site": "utils.snr:snr_to_noise_power", "config": cfg}))
                    ops.append(Op("noise2 %s %s %s" % ("awgnComplex" if cplx else "awgnReal", Pm, fr(z.tolist())), ",".join(repr(g) for g in got), cmp=cmp_sq(1e-5),
                                  info={"site": "channels:%s" % name, "config": dict(cfg, mode="snr")}, prop_ok=ok))
                else:
                    ops.append(Op("snrp 1 0", "1", nontrivial=False, info={"site": "channels:%s" % name, "config": dict(cfg, mode="snr")}, prop_ok=ok))
                # measured with the library's own tools: configured SNR minus 10 log10(mean z^2 * mult-normalisation)
                mz = float(torch.mean(z ** 2)) * (1.0 if not cplx else 2.0) * mult * (2.0 if name == "LaplacianChannel" and False else 1.0)
                # noise power actually added = Pwant * mult * sum z^2 / numel(x) ; numel(z) = numel(x) (real) or 2 numel(x) (complex)
                Nadd = Pwant * mult * float(torch.sum(z ** 2)) / x.numel()
                want_db = 10 * math.log10(S / Nadd)
                m1 = float(U.calculate_snr(x, y))
                m2 = float(SignalToNoiseRatio(mode="db")(x.reshape(1, -1), y.reshape(1, -1)))
                m3 = float(U.noise_power_to_snr(torch.tensor(S), torch.tensor(Nadd)))
                okm = abs(m1 - want_db) < 2e-3 and abs(m3 - want_db) < 2e-3
                ops.append(Op("snrp 1 0", "1", nontrivial=False, info={"site": "utils.snr:measured", "config": dict(cfg, channel=name, calculate_snr=m1, noise_power_to_snr=m3, want=want_db)}, prop_ok=okm))
                # the SNR metric adds float32 eps to the noise power (bias eps/N) and reports inf below eps (listed finding, test-pinned)
                below = Nadd < 1.2e-7
                okmetric = abs(m2 - want_db) < 2e-3 + 10 * math.log10(1 + 1.2e-7 / Nadd) + 1e-3
                ops.append(Op("snrp 1 0", "1", nontrivial=False, info={"site": "metrics:SignalToNoiseRatio", "config": dict(cfg, channel=name, metric=m2, want=want_db, noise_power_below_eps=below)}, prop_ok=okmetric))
            ctx.count("snr_cases", 3)
    # ---- conversions on grids (scalars and tensors)
    grid = [-20 + 0.5 * i for i in range(121)]
    t = torch.tensor(grid, dtype=D)
    lin = U.snr_db_to_linear(t)
    back = U.snr_linear_to_db(lin)
    ok = bool(torch.allclose(back, t, atol=1e-9)) and all(abs(float(l) - 10 ** (g / 10)) <= 1e-12 * 10 ** (g / 10) for l, g in zip(lin.tolist(), grid))
    ops.append(Op("snrp 1 0", "1", nontrivial=False, info={"site": "utils.snr:conversions", "config": {"grid": "[-20,40] step 0.5"}}, prop_ok=ok))
    for j in range(-2, 5):
        for S in (1e-3, 1.0, 250.0):
            P = float(U.snr_to_noise_power(S, float(10 * j)))
            ops.append(Op("snrp %s %d" % (Fraction(S), j), repr(P), cmp=lambda m, i: abs(float(Fraction(m)) - float(i)) <= 2e-7 * abs(float(i)), nontrivial=True,
                          info={"site": "utils.snr:snr_to_noise_power", "config": {"S": S, "snr_db": 10 * j}}))
            back = float(U.noise_power_to_snr(torch.tensor(S, dtype=D), torch.tensor(P, dtype=D)))
            ops.append(Op("snrp 1 0", "1", nontrivial=False, info={"site": "utils.snr:noise_power_to_snr", "config": {"S": S, "P": P, "got": back, "want": 10 * j}}, prop_ok=abs(back - 10 * j) < 1e-5))
    # ---- caller-supplied noise is added verbatim
    x = signal((3, 7), True, 1.0); nz = signal((3, 7), True, 0.3)
    ok = bool((AWGNChannel(avg_noise_power=1.0)(x, noise=nz) == x + nz).all())
    ops.append(Op("snrp 1 0", "1", nontrivial=False, info={"site": "channels:AWGNChannel", "config": {"mode": "pregenerated"}}, prop_ok=ok))
    # supplied noise of another dtype / kind than the signal: the output is x + noise as torch adds them (nothing rounded or dropped)
    from kaira.channels.analog import FlatFadingChannel
    g = lambda n, dt: torch.tensor([ctx.rng.gauss(0, 1) for _ in range(n)], dtype=dt)
    for sdt, ndt, tag in ((torch.float32, torch.float64, "float32 signal, float64 noise"), (torch.complex64, torch.complex128, "complex64 signal, complex128 noise"),
                          (torch.float32, torch.complex64, "real signal, complex noise"), (torch.float64, torch.float32, "float64 signal, float32 noise")):
        mk = lambda dt: (torch.complex(g(12, torch.float64), g(12, torch.float64)).to(dt) if dt.is_complex else g(12, dt)).reshape(2, 6)
        x, nz = mk(sdt), mk(ndt) * (1 + 2 ** -30)
        y = AWGNChannel(avg_noise_power=1.0)(x, noise=nz)
        want = x + nz
        ok = y.dtype == want.dtype and tuple(y.shape) == tuple(want.shape) and bool((y == want).all())
        ops.append(Op("snrp 1 0", "1", nontrivial=False, info={"site": "channels:AWGNChannel", "config": {"mode": "pregenerated", "dtypes": tag, "out_dtype": str(y.dtype)}}, prop_ok=ok))
        if sdt.is_complex or not ndt.is_complex:
            xc = x if x.is_complex() else torch.complex(x, torch.zeros_like(x))
            csi = torch.complex(g(12, torch.float64), g(12, torch.float64)).reshape(2, 6).to(torch.complex128 if sdt in (torch.float64,) else torch.complex64)
            y = FlatFadingChannel("rayleigh", 2, avg_noise_power=0.1)(x, csi=csi, noise=nz)
            want = csi * xc + nz
            ok = bool(torch.allclose(y.to(torch.complex128), want.to(torch.complex128), rtol=0, atol=1e-12 if ndt in (torch.float64, torch.complex128) and sdt not in (torch.float32, torch.complex64) else 1e-6))
            # the added noise itself must survive in full precision: y - h.x reproduces it to the precision of the sum
            resid = (y.to(torch.complex128) - (csi * xc).to(torch.complex128)) - nz.to(torch.complex128)
            ops.append(Op("snrp 1 0", "1", nontrivial=False, info={"site": "channels:FlatFadingChannel", "config": {"mode": "pregenerated", "dtypes": tag, "max_resid": float(resid.abs().max())}}, prop_ok=ok))
    # ---- add_noise_for_snr
    for snr in (0.0, 10.0, 17.5, 30.0, 40.0, -20.0):
        for sc in (2.0, 1e-2, 1e-3, 1e2):          # weak signals at high SNR: noise powers far below float32 eps must still be delivered
            x = signal((2, 64), False, sc)
            torch.manual_seed(seed0 + 999); y, nz = U.add_noise_for_snr(x, snr)
            torch.manual_seed(seed0 + 999); z = torch.randn_like(x)
            S = float(torch.mean(x ** 2))
            want = (S / 10 ** (snr / 10)) * z ** 2
            ok = bool(torch.allclose(nz ** 2, want, rtol=1e-5, atol=0)) and bool((y == x + nz).all())
            ops.append(Op("snrp 1 0", "1", nontrivial=False, info={"site": "utils.snr:add_noise_for_snr", "config": {"snr_db": snr, "signal_scale": sc, "S": S}}, prop_ok=ok))
    ctx.extra["statistics"] = _statistics(ctx)
    return ops


def _statistics(ctx):
    import torch
    from kaira.channels.analog import AWGNChannel, LaplacianChannel
    n = 4_000_000 if ctx.thorough else 1_000_000
    torch.manual_seed(777 + ctx.seed)
    out = {}
    z = 6.2
    for name, ch, cplx in (("awgn_real", AWGNChannel(avg_noise_power=0.5), False), ("awgn_complex", AWGNChannel(avg_noise_power=0.5), True),
                           ("laplacian_real", LaplacianChannel(avg_noise_power=0.5), False), ("laplacian_complex", LaplacianChannel(avg_noise_power=0.5), True)):
        x = torch.zeros(n, dtype=torch.complex64 if cplx else torch.float32)
        nz = ch(x)
        p = float(torch.mean(torch.abs(nz) ** 2))
        m = float(torch.mean(nz.real)) if cplx else float(torch.mean(nz))
        kurt = 6.0 if "laplacian" in name else 3.0
        tol_p = z * 0.5 * math.sqrt((kurt - 1) / n) * (1.0 if not cplx else 0.75)
        out[name] = {"n": n, "power": p, "power_ok": abs(p - 0.5) <= tol_p * 1.2, "mean": m, "mean_ok": abs(m) <= z * math.sqrt(0.5 / n)}
    return out


def search(ctx, mismatches, broken, prop_fail):
    out, seen = [], set()
    for pf in prop_fail + mismatches:
        site = pf["info"].get("site")
        cfg = pf["info"].get("config", {})
        key = (site, cfg.get("mode"), cfg.get("complex"))
        if site is None or key in seen:
            continue
        seen.add(key)
        if pf["op"].startswith("noise2"):
            toks = pf["op"].split()
            zs = [float(Fraction(v)) for v in toks[3].split(",")]
            got = [float(v) for v in pf["impl"].split(",")] if "," in pf["impl"] or pf["impl"].replace(".", "").replace("e", "").replace("-", "").isdigit() else []
            r = [g / (z * z) for g, z in zip(got, zs) if z != 0][:3]
            what = "%s %s: added noise squared / unit draw squared = %s per component, configured parameter %s (%s)" % (site, cfg, ["%.6g" % v for v in r], toks[2], toks[1])
        else:
            what = "%s: %s" % (site, {k: v for k, v in cfg.items()})
        out.append({"site": site, "config": {k: v for k, v in cfg.items() if not isinstance(v, float) or True}, "what": what, "ops": [pf["op"][:300]], "impl_output": pf["impl"][:200], "kind": "failing-input"})
    return out[:10]


def finding_reproduces(ctx, f):
    if f["id"] == "F-SNRMETRIC-EPS":
        import torch
        from kaira.metrics.signal.snr import SignalToNoiseRatio
        x = torch.tensor([[1e-3, -1e-3, 1e-3, -1e-3]]); y = x + torch.tensor([[1e-5, 1e-5, -1e-5, 1e-5]])
        return bool(torch.isinf(SignalToNoiseRatio()(x, y)))
    return False


def replay(ctx, payload):
    print("replay: re-run ./check C07; op lines:", payload.get("ops"))
    return 0
