"""C10 — soft-input decoders are exact where the algorithm is; clean input decodes clean."""
import contextlib, io, itertools, math
from fractions import Fraction
from ..runner import Op

ID = "C10"
KINDS = {"U": ["wagner_is_ml", "wagner_min_penalty", "wagner_parity", "minsum_sign_law", "message_passing_clean", "minsum_decodes_clean",
               "minsum_rescaling", "minsum_scale_invariant", "marginal_minus_own"]}
PARTIAL = ["sum-product belief propagation (tanh / arctanh, exact or Taylor) is floating point: its sign law and its exactness on cycle-free graphs are not proved in Lean; "
           "clean decoding is tested on the implementation and the a-posteriori LLRs on cycle-free graphs are compared with brute-force marginalisation in float64",
           "the soft Reed-Muller decoder is tested on the implementation (clean input, all codewords for small k) - not modelled",
           "rescaling invariance is proved with the clipping level rescaled as well; the implementation's fixed clip (500) is outside the magnitudes explored"]
RULE = ("wag / ms / mssoft lines: Wagner decisions on random real vectors and min-sum decisions and a-posteriori LLRs (flooding schedule, scale / offset options, 0..20 iterations) on dyadic "
        "LLR vectors vs the exact rational model; oracles: brute-force ML (Wagner), transmitted message (clean input), brute-force marginals (sum-product on trees); "
        "non-trivial = input is not a clean all-positive vector")
ASSUMPTIONS = ["LLRs are float32 values passed as exact rationals; min-sum configurations use dyadic scale / offset so float32 arithmetic is exact; normalized=True (0.75, 0.2) is compared with a tolerance",
               "ties (equal least magnitudes for Wagner, zero a-posteriori LLRs) are excluded"]


def quiet(fn, *a, **k):
    with contextlib.redirect_stdout(io.StringIO()):
        return fn(*a, **k)


def bstr(v):
    return "".join("1" if int(round(float(x))) else "0" for x in v) or "-"


def fr(v):
    return ",".join(str(Fraction(float(x))) for x in v) or "-"


def graph_of(Hm):
    return "/".join(",".join(str(j) for j, b in enumerate(row) if int(b)) or "-" for row in Hm)


def tree_check_matrix(rng, n_target):
    """a cycle-free Tanner graph: every new check joins one existing variable to 1..2 new ones"""
    rows, n = [], 1
    while n < n_target:
        new = min(rng.randint(1, 2), n_target - n)
        rows.append([rng.randrange(n)] + list(range(n, n + new)))
        n += new
    H = [[1 if j in r else 0 for j in range(n)] for r in rows]
    return H


def sparse_check_matrix(rng, n, m):
    while True:
        H = [[0] * n for _ in range(m)]
        for j in range(n):
            for c in rng.sample(range(m), min(m, rng.choice([1, 2, 2, 3]))):
                H[c][j] = 1
        if all(sum(r) >= 2 for r in H):
            return H


def codes(ctx):
    import torch
    from kaira.models.fec import encoders as E
    from kaira.models.fec.encoders.ldpc_code import LDPCCodeEncoder
    rng = ctx.rng
    out = []
    out.append(("lin63", E.LinearBlockCodeEncoder(generator_matrix=torch.tensor([[1, 0, 0, 1, 1, 0], [0, 1, 0, 1, 0, 1], [0, 0, 1, 0, 1, 1]], dtype=torch.float32)), False))
    out.append(("hamming3", E.HammingCodeEncoder(3), False))
    out.append(("rep3", E.RepetitionCodeEncoder(3), False))
    out.append(("spc4", E.SingleParityCheckCodeEncoder(4), False))
    out.append(("ldpc_small", LDPCCodeEncoder(check_matrix=torch.tensor([[1, 1, 0, 1, 0, 0], [0, 1, 1, 0, 1, 0], [1, 0, 1, 0, 0, 1]], dtype=torch.float32)), False))
    if ctx.thorough:
        out.append(("hamming4", E.HammingCodeEncoder(4), False))
    # chain-shaped trees whose check degrees alternate (3,2,3 / 2,3,2,3 / 3,2,2,3 / 4,2,3,2,4): equal-degree checks that are NOT adjacent
    for tag, degs in (("c323", (3, 2, 3)), ("c2323", (2, 3, 2, 3)), ("c3223", (3, 2, 2, 3)), ("c42324", (4, 2, 3, 2, 4))):
        n = sum(degs) - (len(degs) - 1)
        H = [[0] * n for _ in degs]
        pos = 0
        for r, d in enumerate(degs):
            for j in range(pos, pos + d):
                H[r][j] = 1
            pos += d - 1                       # consecutive checks share exactly one variable: a path, hence cycle-free
        out.append(("chain_" + tag, LDPCCodeEncoder(check_matrix=torch.tensor(H, dtype=torch.float32)), True))
    for i in range(3 if ctx.thorough else 2):
        H = tree_check_matrix(rng, rng.randint(6, 12))
        try:
            out.append(("tree%d" % i, LDPCCodeEncoder(check_matrix=torch.tensor(H, dtype=torch.float32)), True))
        except Exception as e:
            ctx.notes.append("tree code %d rejected by LDPCCodeEncoder: %s" % (i, e))
    for i in range(3 if ctx.thorough else 1):
        n = rng.randint(8, 24 if ctx.thorough else 14)
        H = sparse_check_matrix(rng, n, rng.randint(3, max(3, n // 2)))
        try:
            out.append(("sparse%d" % i, LDPCCodeEncoder(check_matrix=torch.tensor(H, dtype=torch.float32)), False))
        except Exception as e:
            ctx.notes.append("sparse code %d rejected by LDPCCodeEncoder: %s" % (i, e))
    return out


def brute_marginals(cws, llr):
    """exact bitwise posterior LLRs log P(c_v=0|y)/P(c_v=1|y) over the code book, float64"""
    n = len(llr)
    w = [sum((1 - 2 * c[i]) * llr[i] / 2 for i in range(n)) for c in cws]
    mx = max(w)
    e = [math.exp(v - mx) for v in w]
    res = []
    for v in range(n):
        p0 = sum(x for x, c in zip(e, cws) if c[v] == 0)
        p1 = sum(x for x, c in zip(e, cws) if c[v] == 1)
        res.append(math.log(p0 / p1) if p0 > 0 and p1 > 0 else (math.inf if p1 == 0 else -math.inf))
    return res


def corr(ctx):
    import torch
    from kaira.models.fec import encoders as E, decoders as D
    rng = ctx.rng
    ops = []
    # ---------------- Wagner: maximum likelihood for every real vector
    for k in range(1, 11):
        enc = E.SingleParityCheckCodeEncoder(k)
        dec = D.WagnerSoftDecisionDecoder(enc)
        n = k + 1
        cws = [c for c in itertools.product([0, 1], repeat=n) if sum(c) % 2 == 0]
        nv = 40 if ctx.thorough else 12
        vecs = [[rng.gauss(0, 1.5) for _ in range(n)] for _ in range(nv)]
        vecs += [[(1 - 2 * c) * a for c in cws[rng.randrange(len(cws))]] for a in (0.5, 7.0, 50.0)]
        vecs += [[1.0] * n, [(1 - 2 * c) * 1.0 for c in cws[-1]]]      # unit magnitude: entries all in {0, 1} / {-1, +1} must still be read as LLRs
        # single weak wrong-sign perturbations of a codeword
        for _ in range(4):
            c = cws[rng.randrange(len(cws))]
            v = [(1 - 2 * b) * rng.uniform(1.0, 4.0) for b in c]
            i = rng.randrange(n); v[i] = -v[i] * 0.05
            vecs.append(v)
        # exactly one erased / punctured position (LLR 0), both parities of the remaining hard decisions: the maximum-likelihood
        # code word is still unique (the zero position is the free one)
        for _ in range(6):
            v = [rng.choice([-1, 1]) * rng.uniform(0.3, 5.0) for _ in range(n)]
            v[rng.randrange(n)] = 0.0
            vecs.append(v)
        L = torch.tensor(vecs, dtype=torch.float32)
        out = dec(L)
        out_e, errs = dec(L, return_errors=True)
        shape_ok = tuple(out.shape) == (len(vecs), k) and bool((out == out_e).all())
        for row, o in zip(L.tolist(), out.tolist()):
            mags = sorted(abs(v) for v in row)
            odd = sum(1 for v in row if v < 0) % 2 == 1
            if odd and len(mags) > 1 and mags[1] - mags[0] < 1e-6:      # only an odd-parity word has to choose its weakest position
                ctx.skipped_by_margin += 1
                continue
            scores = sorted(((sum((1 - 2 * b) * x for b, x in zip(c, row)), c) for c in cws), reverse=True)
            best = scores[0][1]
            ml_ok = len(scores) == 1 or scores[0][0] - scores[1][0] > 1e-6
            ok = shape_ok and (not ml_ok or bstr(o) == bstr(best[:k]))
            ops.append(Op("wag " + fr(row), bstr(o), nontrivial=any(v < 0 for v in row), info={"site": "fec.decoders:WagnerSoftDecisionDecoder", "config": {"k": k, "llr": row, "ml": bstr(best[:k])}}, prop_ok=ok))
        # multi-block and 3-D layouts are per-block applications
        if k <= 4:
            two = torch.tensor([vecs[0] + vecs[1]], dtype=torch.float32)
            got = dec(two)
            want = torch.cat([out[0], out[1]]).reshape(1, -1)
            ops.append(Op("wag " + fr(vecs[0]), bstr(out[0].tolist()), nontrivial=False, info={"site": "fec.decoders:WagnerSoftDecisionDecoder", "config": {"k": k, "layout": "two blocks"}},
                          prop_ok=tuple(got.shape) == (1, 2 * k) and bool((got == want).all())))
        # rows carrying 2..4 blocks: every block must be decoded as it is alone, whatever the parities / weakest positions of its neighbours
        # (crafted: a block of odd parity whose weakest value sits at position 0, next to blocks of even parity)
        if k <= 6:
            singles = {tuple(r): o for r, o in zip(L.tolist(), out.tolist())}
            rows_mb, want_mb = [], []
            for _ in range(12 if ctx.thorough else 6):
                nb = rng.randint(2, 4)
                blocks = []
                for bi in range(nb):
                    if bi == 0 and rng.random() < 0.6:
                        v = [rng.choice([-1, 1]) * rng.uniform(1.0, 4.0) for _ in range(n)]
                        v[0] = (1 if v[0] > 0 else -1) * 0.05
                        if sum(1 for x in v if x < 0) % 2 == 0:
                            v[1] = -v[1]                      # odd parity, weakest value at position 0
                        blocks.append(v)
                    elif rng.random() < 0.5:
                        c_ = cws[rng.randrange(len(cws))]
                        blocks.append([(1 - 2 * b) * rng.uniform(0.5, 3.0) for b in c_])   # even parity: nothing to flip
                    else:
                        blocks.append([rng.gauss(0, 1.5) for _ in range(n)])
                rows_mb.append([x for bl in blocks for x in bl])
                want_mb.append(blocks)
            for row, blocks in zip(rows_mb, want_mb):
                got = dec(torch.tensor([row], dtype=torch.float32)).reshape(-1).tolist()
                exp = []
                for bl in blocks:
                    exp += dec(torch.tensor([bl], dtype=torch.float32)).reshape(-1).tolist()
                okmb = [int(round(g)) for g in got] == [int(round(e)) for e in exp]
                ops.append(Op("wag " + fr(blocks[0]), bstr(exp[:k]), nontrivial=False, info={"site": "fec.decoders:WagnerSoftDecisionDecoder", "config": {"k": k, "layout": "%d blocks in one row" % len(blocks), "llr": row, "got": bstr(got), "per_block": bstr(exp)}}, prop_ok=okmb))
            ctx.count("wagner_multiblock_rows", len(rows_mb))
        ctx.count("wagner_k%d" % k, len(vecs))
    # ---------------- message passing decoders
    for name, enc, is_tree in codes(ctx):
        k, n = enc.code_dimension, enc.code_length
        msgs = [list(t) for t in itertools.product([0, 1], repeat=k)] if k <= (6 if ctx.thorough else 4) else [[rng.getrandbits(1) for _ in range(k)] for _ in range(12)]
        X = enc(torch.tensor(msgs, dtype=torch.float32))
        allcw = None
        if k <= 10:
            allm = [list(t) for t in itertools.product([0, 1], repeat=k)]
            allcw = [tuple(int(v) for v in r) for r in enc(torch.tensor(allm, dtype=torch.float32)).tolist()]
        cfgs = [(1.0, 0.0, False), (0.75, 0.0, False), (0.5, 0.25, False), (1.0, 0.5, False), (0.75, 0.2, True)]
        iters_list = [0, 1, 2, 5, 20] if ctx.thorough else [1, 3, 10]
        for (scale, offset, normalized) in cfgs:
            for iters in iters_list:
                try:
                    dec = D.MinSumLDPCDecoder(enc, bp_iters=iters, normalized=True) if normalized else D.MinSumLDPCDecoder(enc, bp_iters=iters, scaling_factor=scale, offset=offset)
                except Exception as e:
                    ops.append(Op("wag -", "-", nontrivial=False, info={"site": "fec.decoders:MinSumLDPCDecoder", "config": {"code": name, "error": "%s: %s" % (type(e).__name__, e)}}, prop_ok=False))
                    break
                G = graph_of(dec.H.tolist())
                pos = ",".join(str(int(v)) for v in dec.idx_mess_t.tolist())
                cfg = {"code": name, "n": n, "k": k, "scale": scale, "offset": offset, "normalized": normalized, "iters": iters}
                sc, of = Fraction(scale), (Fraction(float(torch.tensor(offset, dtype=torch.float32))) if normalized else Fraction(offset))
                # clean input at magnitudes 0.5 .. 50 (and very small ones for the offset variants): the message comes back
                for a in (0.0625, 0.5, 4.0, 50.0):
                    sub = X[: 8]
                    L = (1 - 2 * sub) * a
                    out = dec(L)
                    ok = tuple(out.shape) == (len(sub), k)
                    for ri, (row, o, m) in enumerate(zip(L.tolist(), out.tolist(), msgs)):
                        if ri < 3:      # model comparison on the first rows, the property's own verdict on all of them
                            ops.append(Op("ms %s %s 500 %d %s %s %s" % (sc, of, iters, G, pos, fr(row)), bstr(o) if ok else "shape%s" % (tuple(out.shape),), nontrivial=any(m),
                                          info={"site": "fec.decoders:MinSumLDPCDecoder.clean", "config": dict(cfg, magnitude=a, sent=bstr(m))}, prop_ok=ok and bstr(o) == bstr(m)))
                        else:
                            ops.append(Op("wag -", "-", nontrivial=any(m), info={"site": "fec.decoders:MinSumLDPCDecoder.clean", "config": dict(cfg, magnitude=a, sent=bstr(m), got=bstr(o))}, prop_ok=ok and bstr(o) == bstr(m)))
                # arbitrary dyadic LLRs: decisions and a-posteriori LLRs equal the model's; rescaling does not change decisions
                nl = 4 if ctx.thorough else 2
                L = torch.tensor([[rng.choice([-1, 1]) * rng.randrange(1, 160) / 8 for _ in range(n)] for _ in range(nl)], dtype=torch.float32)
                hard, soft = dec(L, return_soft=True)
                hard2 = dec(L * 4)
                for row, h, s, h2 in zip(L.tolist(), hard.tolist(), soft.tolist(), hard2.tolist()):
                    mpos = [s[int(v)] for v in dec.idx_mess_t.tolist()]
                    exact = (not normalized) and scale == 1.0     # float32 arithmetic is exact only without rescaling (each halving shifts bits out over many iterations)
                    if min(abs(v) for v in mpos) < (1e-6 if exact else 1e-3):
                        ctx.skipped_by_margin += 1
                        continue
                    if not exact:
                        cmp = (lambda mo, im: len(mo.split(",")) == len(im.split(",")) and all(abs(float(Fraction(x)) - float(Fraction(y))) <= 1e-4 * (1 + abs(float(Fraction(x)))) for x, y in zip(mo.split(","), im.split(","))))
                        ops.append(Op("mssoft %s %s 500 %d %s %s" % (sc, of, iters, G, fr(row)), fr(s), cmp=cmp, nontrivial=True, info={"site": "fec.decoders:MinSumLDPCDecoder.soft", "config": dict(cfg, llr=row)}))
                    else:
                        ops.append(Op("mssoft %s %s 500 %d %s %s" % (sc, of, iters, G, fr(row)), fr(s), nontrivial=True, info={"site": "fec.decoders:MinSumLDPCDecoder.soft", "config": dict(cfg, llr=row)}))
                        ops.append(Op("ms %s %s 500 %d %s %s %s" % (sc, of, iters, G, pos, fr(row)), bstr(h), nontrivial=True, info={"site": "fec.decoders:MinSumLDPCDecoder", "config": dict(cfg, llr=row)},
                                      prop_ok=(offset != 0.0 or bstr(h) == bstr(h2))))
                ctx.count("minsum_%s" % name)
        # ---- sum-product belief propagation (floating point): clean input, exactness on trees
        for arct in (True, False):
            for iters in ([1, 5, 20] if ctx.thorough else [2, 10]):
                dec = D.BeliefPropagationDecoder(enc, bp_iters=iters, arctanh=arct)
                cfg = {"code": name, "n": n, "k": k, "arctanh": arct, "iters": iters}
                for a in (0.5, 4.0, 50.0):
                    sub = X[: 8]
                    out = dec((1 - 2 * sub) * a)
                    ok = tuple(out.shape) == (len(sub), k) and bool((out == torch.tensor(msgs[: len(sub)], dtype=out.dtype)).all())
                    ops.append(Op("wag -", "-", nontrivial=False, info={"site": "fec.decoders:BeliefPropagationDecoder.clean", "config": dict(cfg, magnitude=a, shape=list(out.shape))}, prop_ok=ok))
                if is_tree and arct and allcw is not None and iters >= n:
                    L = torch.tensor([[rng.choice([-1, 1]) * rng.uniform(0.1, 1.2) for _ in range(n)] for _ in range(3)], dtype=torch.float32)
                    _, soft = dec(L, return_soft=True)
                    for row, s in zip(L.tolist(), soft.tolist()):
                        want = brute_marginals(allcw, row)
                        dev = max(abs(a_ - b_) for a_, b_ in zip(s, want))
                        ops.append(Op("wag -", "-", nontrivial=False, info={"site": "fec.decoders:BeliefPropagationDecoder.tree", "config": dict(cfg, llr=row, got=s, want=want, max_dev=dev)}, prop_ok=dev <= 2e-3 * (1 + max(abs(v) for v in want))))
                    ctx.count("bp_tree_exact")
        ctx.count("bp_%s" % name)
    # tree exactness needs enough iterations: make sure one configuration per tree code ran
    # ---------------- soft Reed-Muller
    for (r_, m) in ((1, 3), (2, 3), (1, 4), (2, 4), (3, 4), (1, 5), (2, 5), (3, 5)) if ctx.thorough else ((1, 3), (2, 3), (2, 4), (3, 4), (1, 5)):
        enc = E.ReedMullerCodeEncoder(r_, m)
        dec = D.ReedMullerDecoder(enc, input_type="soft")
        k = enc.code_dimension
        msgs = [list(t) for t in itertools.product([0, 1], repeat=k)] if k <= 6 else [[rng.getrandbits(1) for _ in range(k)] for _ in range(24)]
        X = enc(torch.tensor(msgs, dtype=torch.float32))
        for a in (0.5, 7.0, 50.0):
            out = dec((1 - 2 * X) * a)
            ok = tuple(out.shape) == (len(msgs), k) and bool((out == torch.tensor(msgs, dtype=out.dtype)).all())
            ops.append(Op("wag -", "-", nontrivial=False, info={"site": "fec.decoders:ReedMullerDecoder.soft", "config": {"r": r_, "m": m, "magnitude": a}}, prop_ok=ok))
        # single weak wrong-sign perturbations (|l_p| = 0.05 |l|, all others >= 1): the soft decoder still returns the message
        idxs = list(range(len(msgs))) if len(msgs) <= 8 else rng.sample(range(len(msgs)), 8)
        n_ = enc.code_length
        rows, want = [], []
        for mi in idxs:
            for p_ in (range(n_) if ctx.thorough or n_ <= 16 else rng.sample(range(n_), 12)):
                l = [(1 - 2 * int(b)) * rng.uniform(1.0, 4.0) for b in X[mi].tolist()]
                l[p_] = -l[p_] * 0.05
                rows.append(l); want.append(msgs[mi])
        out = dec(torch.tensor(rows, dtype=torch.float32))
        badrows = [i for i in range(len(rows)) if bstr(out[i].tolist()) != bstr(want[i])]
        ops.append(Op("wag -", "-", nontrivial=False, info={"site": "fec.decoders:ReedMullerDecoder.soft", "config": {"r": r_, "m": m, "case": "single weak wrong-sign perturbation", "failures": len(badrows), "of": len(rows),
                      "first": ({"llr": rows[badrows[0]], "sent": bstr(want[badrows[0]]), "got": bstr(out[badrows[0]].tolist())} if badrows else None)}}, prop_ok=not badrows))
        ctx.count("soft_rm")
    return ops


def search(ctx, mismatches, broken, prop_fail):
    out, seen = [], set()
    for pf in prop_fail + mismatches:
        cfg = pf["info"].get("config", {})
        site = pf["info"].get("site")
        key = (site, cfg.get("code"), cfg.get("normalized"), cfg.get("offset"))
        if site is None or key in seen:
            continue
        seen.add(key)
        if site.endswith("Wagner") or "Wagner" in site:
            what = "Wagner decoder on %s returns %s; a maximum-likelihood even-parity word has message %s (model %s)" % (cfg.get("llr"), pf["impl"], cfg.get("ml"), pf.get("model"))
        elif site.endswith(".clean"):
            what = "%s: noise-free LLRs of message %s at magnitude %s decode to %s (%s)" % (site.split(":")[1], cfg.get("sent"), cfg.get("magnitude"), pf["impl"], {k: v for k, v in cfg.items() if k in ("code", "scale", "offset", "normalized", "iters", "arctanh", "shape")})
        elif site.endswith(".tree"):
            what = "sum-product BP on a cycle-free graph: a-posteriori LLRs %s differ from the exact marginals %s (max deviation %.3g)" % (["%.4f" % v for v in cfg.get("got", [])], ["%.4f" % v for v in cfg.get("want", [])], cfg.get("max_dev", float("nan")))
        elif site.endswith(".soft") and pf in mismatches:
            what = "min-sum a-posteriori LLRs %s differ from the min-sum rule's %s (%s)" % (pf["impl"][:200], str(pf.get("model"))[:200], {k: v for k, v in cfg.items() if k != "llr"})
        elif pf in mismatches and pf not in prop_fail:
            what = "min-sum decisions %s differ from the min-sum rule's %s (%s)" % (pf["impl"], pf.get("model"), {k: v for k, v in cfg.items() if k != "llr"})
        else:
            what = "%s %s -> %s" % (site, {k: v for k, v in cfg.items() if k != "llr"}, pf["impl"])
        out.append({"site": site, "config": {k: v for k, v in cfg.items() if k not in ("got", "want")}, "what": what, "ops": [pf["op"][:600]], "impl_output": pf["impl"][:300], "kind": "failing-input"})
    return out[:12]


def finding_reproduces(ctx, f):
    return False


def replay(ctx, payload):
    print("replay: re-run ./check C10; op lines:", payload.get("ops"))
    return 0
