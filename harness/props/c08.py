"""C08 — power, amplitude and PAPR constraints enforce their limit on every batch item."""
import math
from fractions import Fraction
from ..runner import Op

ID = "C08"
KINDS = {"U": ["positive_factor", "power_never_exceeds", "power_within_tenth_percent", "output_power", "power_monotone", "second_application",
               "antenna_never_exceeds", "clamp_bound", "clamp_idempotent", "papr_final_clip_partial", "composite_is_fold"]}
PARTIAL = ["PAPR constraint: proved only that the final clip bounds every sample's power by 0.98*PAPR*avg; 'output PAPR <= limit on non-sparse signals' depends on how much the 15 clipping "
           "rounds lower the mean and is checked on the implementation only (a test)",
           "spectral-mask constraint is outside the property"]
RULE = ("constraint lines: the item's samples as exact rationals -> output power (model) vs the power of the real constraint's output (rel 1e-5), plus sign/phase preservation and "
        "per-item treatment checked on the implementation; signal families x scales 1e-2..1e4 x shapes; non-trivial = non-constant item")
ASSUMPTIONS = ["float32 sums of squares agree with the exact ones to 1e-5 relative on the generated (short) items"]


def fr(v):
    return ",".join(str(Fraction(float(x))) for x in v) or "-"


def cmp_rel(tol):
    def cmp(model, impl):
        a, b = model.split(","), impl.split(",")
        if len(a) != len(b):
            return False
        for x, y in zip(a, b):
            m, i = float(Fraction(x)), float(y)
            if abs(m - i) > tol * max(abs(m), 1e-30):
                return False
        return True
    return cmp


def families(ctx, n):
    rng = ctx.rng
    yield "gaussian", [rng.gauss(0, 1) for _ in range(n)]
    yield "uniform", [rng.uniform(-1, 1) for _ in range(n)]
    yield "ofdm_like", [sum(math.cos(2 * math.pi * k * t / n + ph) for k, ph in enumerate([rng.uniform(0, 6.28) for _ in range(4)], 1)) for t in range(n)]
    yield "heavy_tail", [rng.gauss(0, 1) / max(abs(rng.gauss(0, 1)), 0.2) for _ in range(n)]
    yield "constant", [0.75] * n
    yield "alternating", [(-1) ** t * 1.5 for t in range(n)]


def q(v):
    """round to a multiple of 2^-10 so that the rational text stays short and float32-exact"""
    return round(v * 1024) / 1024


def corr(ctx):
    import torch
    from kaira.constraints.power import TotalPowerConstraint, AveragePowerConstraint, PAPRConstraint
    from kaira.constraints.signal import PeakAmplitudeConstraint
    from kaira.constraints.antenna import PerAntennaPowerConstraint
    from kaira.constraints.composite import CompositeConstraint
    from kaira.constraints import utils as CU
    rng = ctx.rng
    ops = []
    targets = [1e-2, 1.0, 3.5, 1e3]
    scales = [1e-2, 1.0, 1e2, 1e4]
    shapes = [(12,), (1, 12), (3, 12), (2, 3, 4), (2, 2, 3, 2), (1, 3, 4), (1, 2, 2, 3), (2, 20), (40,), (1, 7)]
    # one long-lived constraint object per target, re-used for every shape / dtype that follows (a constraint keeps no state between
    # calls: whatever an object saw before, each call must hit the target for the tensor it is given)
    _objs = {}

    def shared(cls, P):
        if (cls, P) not in _objs:
            _objs[(cls, P)] = cls(P)
        return _objs[(cls, P)]
    for fam_i in range(6):
        for shape in shapes:
            for cplx in (False, True):
                for P in (targets if ctx.thorough else [rng.choice(targets), rng.choice(targets)]):
                    scale = rng.choice(scales)
                    n = int(math.prod(shape))
                    gens = list(families(ctx, n))
                    fam, vals = gens[fam_i]
                    re = [q(v * scale) for v in vals]
                    x = torch.tensor(re, dtype=torch.float32).reshape(shape)
                    if cplx:
                        im = [q(v * scale) for v in list(families(ctx, n))[fam_i][1]]
                        x = torch.complex(x, torch.tensor(im, dtype=torch.float32).reshape(shape))
                    batched = x.dim() > 1 and x.shape[0] > 1
                    items = [x[i] for i in range(x.shape[0])] if batched else [x]
                    for cname, C in (("total", shared(TotalPowerConstraint, P)), ("avg", shared(AveragePowerConstraint, P))):
                        y = C(x)
                        outs = [y[i] for i in range(y.shape[0])] if batched else [y]
                        for it, out in zip(items, outs):
                            comps = (it.real.flatten().tolist() + it.imag.flatten().tolist()) if cplx else it.flatten().tolist()
                            m = it.numel()
                            pw = float(torch.sum(torch.abs(out.to(torch.complex128 if cplx else torch.float64)) ** 2)) / (1 if cname == "total" else m)
                            nz = it.flatten() != 0
                            ratio = (out.flatten()[nz] / it.flatten()[nz])
                            pos = bool(nz.any()) and bool(torch.allclose(ratio.real if cplx else ratio, (ratio.real if cplx else ratio)[0].expand_as(ratio.real if cplx else ratio), rtol=1e-4)) \
                                and (not cplx or bool((ratio.imag.abs() <= 1e-4 * ratio.real.abs()).all())) and float((ratio.real if cplx else ratio)[0]) > 0
                            cur = sum(v * v for v in comps) / (1 if cname == "total" else m)
                            within = pw <= P * (1 + 1e-5) and (pw >= P * (1 - 1e-3) or cur < 1e-5)
                            line = ("cpow total %s %s" % (Fraction(P), fr(comps))) if cname == "total" else ("cpow avg %s %d %s" % (Fraction(P), m, fr(comps)))
                            ops.append(Op(line, repr(pw), cmp=cmp_rel(2e-5), nontrivial=fam not in ("constant",),
                                          info={"site": "constraints:%sPowerConstraint" % ("Total" if cname == "total" else "Average"), "config": {"family": fam, "P": P, "scale": scale, "shape": list(shape), "complex": cplx}},
                                          prop_ok=(pos and within and tuple(y.shape) == tuple(x.shape))))
                        ctx.count("power_" + cname)
        ctx.count("family_%d" % fam_i)
    # ---- per-antenna (B, A, spatial...) incl. the 2-D case
    for shape in ((3, 4), (2, 4, 5), (2, 3, 2, 4)):
        for cplx in (False, True):
            for t in (0.5, 2.0):
                x = torch.tensor([q(rng.gauss(0, 1) * rng.choice([0.1, 1, 30])) for _ in range(int(math.prod(shape)))], dtype=torch.float32).reshape(shape)
                if cplx:
                    x = torch.complex(x, torch.tensor([q(rng.gauss(0, 1)) for _ in range(int(math.prod(shape)))], dtype=torch.float32).reshape(shape))
                if ("ant", t) not in _objs:
                    _objs[("ant", t)] = PerAntennaPowerConstraint(uniform_power=t)
                y = _objs[("ant", t)](x)
                sp = tuple(range(2, x.dim()))
                cin = (torch.mean(torch.abs(x.to(torch.complex128 if cplx else torch.float64)) ** 2, dim=sp) if sp else torch.abs(x.to(torch.complex128 if cplx else torch.float64)) ** 2)
                cout = (torch.mean(torch.abs(y.to(torch.complex128 if cplx else torch.float64)) ** 2, dim=sp) if sp else torch.abs(y.to(torch.complex128 if cplx else torch.float64)) ** 2)
                never = bool((cout <= t * (1 + 1e-5)).all())
                ops.append(Op("cant %s %s" % (Fraction(t), fr(cin.flatten().tolist())), ",".join(repr(float(v)) for v in cout.flatten().tolist()), cmp=cmp_rel(3e-5), nontrivial=True,
                              info={"site": "constraints:PerAntennaPowerConstraint", "config": {"shape": list(shape), "complex": cplx, "t": t}}, prop_ok=never))
        ctx.count("antenna")
    # ---- peak amplitude: exact
    for A in (0.5, 1.0, 7.25):
        vals = [q(rng.gauss(0, 3)) for _ in range(24)] + [A, -A, 0.0]
        y = PeakAmplitudeConstraint(A)(torch.tensor(vals, dtype=torch.float32).reshape(3, 9))
        ops.append(Op("cclamp %s %s" % (Fraction(A), fr(vals)), ",".join(repr(float(v)) for v in y.flatten().tolist()), cmp=cmp_rel(0.0), nontrivial=True,
                      info={"site": "constraints:PeakAmplitudeConstraint", "config": {"A": A}}, prop_ok=bool((y.abs() <= A).all())))
    # one-sided and negative-only signals: every sample is bounded in magnitude, the others are untouched
    for A in (0.5, 2.0):
        for name, vals in (("negative_only", [-abs(q(rng.gauss(0, 3))) - 0.0078125 for _ in range(18)]), ("negative_constant", [-3.0 * A] * 18), ("positive_only", [abs(q(rng.gauss(0, 3))) + 0.0078125 for _ in range(18)]),
                           ("negative_offset", [q(rng.uniform(-1, 1) * A * 0.9 - 2 * A) for _ in range(18)]), ("one_negative_outlier", [q(rng.uniform(-0.5, 0.5) * A) for _ in range(17)] + [-5.0 * A])):
            for shape in ((18,), (2, 9), (1, 18)):
                xv = torch.tensor(vals, dtype=torch.float32).reshape(shape)
                y = PeakAmplitudeConstraint(A)(xv)
                ok = bool((y.abs() <= A).all()) and bool((y == xv.clamp(-A, A)).all()) and tuple(y.shape) == shape
                ops.append(Op("cclamp %s %s" % (Fraction(A), fr(vals)), ",".join(repr(float(v)) for v in y.flatten().tolist()), cmp=cmp_rel(0.0), nontrivial=True,
                              info={"site": "constraints:PeakAmplitudeConstraint", "config": {"A": A, "signal": name, "shape": list(shape)}}, prop_ok=ok))
        ctx.count("peak_one_sided")
    # ---- PAPR: batches whose items have very different power levels (the limit is per item)
    for limit in (2.0, 4.0):
        for cplx in (False, True):
            n = 64
            mk = lambda fam_i: (lambda v: torch.complex(torch.tensor(v, dtype=torch.float32), torch.tensor(list(families(ctx, n))[fam_i][1], dtype=torch.float32)) if cplx else torch.tensor(v, dtype=torch.float32))(list(families(ctx, n))[fam_i][1])
            flat_strong = 300.0 * mk(5)
            const_strong = 120.0 * mk(4)
            peaky = [mk(0), 0.02 * mk(2), mk(3)]
            for strong in (flat_strong, const_strong):
                for weak in peaky:
                    pw = torch.abs(weak) ** 2
                    if float((pw >= pw.max() / 100).float().mean()) < 0.25:
                        continue
                    xb = torch.stack([strong, weak, strong])
                    y = PAPRConstraint(max_papr=limit)(xb)
                    alone = PAPRConstraint(max_papr=limit)(weak)
                    paprs = [float((torch.abs(r) ** 2).max() / (torch.abs(r) ** 2).mean()) for r in y]
                    ok = all(p_ <= limit * 1.001 for p_ in paprs)
                    ops.append(Op("cclamp 1 0", "0", nontrivial=False, info={"site": "constraints:PAPRConstraint", "config": {"limit": limit, "complex": cplx, "batched": True, "mixed_power_levels": True, "papr": paprs,
                                  "papr_alone": float((torch.abs(alone) ** 2).max() / (torch.abs(alone) ** 2).mean())}}, prop_ok=ok))
            ctx.count("papr_mixed_batch")
    # ---- PAPR on non-sparse signals (test of the implementation), composites, chains
    for fam_i in (0, 1, 2, 3):
        for limit in (2.0, 3.0, 6.0):
            for cplx in (False, True):
                n = 64
                fam, vals = list(families(ctx, n))[fam_i]
                x = torch.tensor(vals, dtype=torch.float32)
                if cplx:
                    x = torch.complex(x, torch.tensor(list(families(ctx, n))[fam_i][1], dtype=torch.float32))
                pw = torch.abs(x) ** 2
                if float((pw >= pw.max() / 100).float().mean()) < 0.25:
                    continue   # sparse: the limit need not be attainable by clipping
                xb = torch.stack([x, 2.5 * x.flip(0)])
                for inp in (x, xb):
                    y = PAPRConstraint(max_papr=limit)(inp)
                    rows = y if inp.dim() > 1 else y.unsqueeze(0)
                    paprs = [float((torch.abs(r) ** 2).max() / (torch.abs(r) ** 2).mean()) for r in rows]
                    ok = all(p <= limit * 1.001 for p in paprs)
                    ops.append(Op("cclamp 1 0", "0", nontrivial=False, info={"site": "constraints:PAPRConstraint", "config": {"family": fam, "limit": limit, "complex": cplx, "batched": inp.dim() > 1, "papr": paprs}}, prop_ok=ok))
                ctx.count("papr")
    # composite = sequential application; factories
    x = torch.tensor([[q(rng.gauss(0, 2)) for _ in range(32)] for _ in range(3)], dtype=torch.float32)
    parts = [PeakAmplitudeConstraint(1.5), AveragePowerConstraint(0.7), TotalPowerConstraint(4.0)]
    seq = x
    for c_ in parts:
        seq = c_(seq)
    ok = bool(torch.equal(CompositeConstraint(parts)(x), seq)) and bool(torch.equal(CU.apply_constraint_chain(parts, x), seq)) and bool(torch.equal(CU.combine_constraints(parts)(x), seq))
    ops.append(Op("cclamp 1 0", "0", nontrivial=False, info={"site": "constraints:CompositeConstraint", "config": {"parts": "peak,avg,total"}}, prop_ok=ok))
    # nested composites, in every position, equal the flat sequential application
    a_, b_, c_, d_ = PeakAmplitudeConstraint(1.25), AveragePowerConstraint(0.7), PeakAmplitudeConstraint(0.9), TotalPowerConstraint(3.0)
    flat = [a_, b_, c_, d_]
    seq = x
    for k_ in flat:
        seq = k_(seq)
    nestings = {"[[a,b],c,d]": [CompositeConstraint([a_, b_]), c_, d_], "[a,[b,c],d]": [a_, CompositeConstraint([b_, c_]), d_], "[a,b,[c,d]]": [a_, b_, CompositeConstraint([c_, d_])],
                "[[a,[b,c]],d]": [CompositeConstraint([a_, CompositeConstraint([b_, c_])]), d_], "combine([combine([a,b]),c,d])": [CU.combine_constraints([a_, b_]), c_, d_]}
    for tag, parts_n in nestings.items():
        outs = {"CompositeConstraint": CompositeConstraint(parts_n)(x), "combine_constraints": CU.combine_constraints(parts_n)(x), "apply_constraint_chain": CU.apply_constraint_chain(parts_n, x)}
        for how, val in outs.items():
            ops.append(Op("cclamp 1 0", "0", nontrivial=False, info={"site": "constraints:CompositeConstraint", "config": {"nesting": tag, "how": how, "max_dev": float((val - seq).abs().max())}}, prop_ok=bool(torch.equal(val, seq))))
    ofc = CU.create_ofdm_constraints(total_power=2.0, max_papr=4.0)
    lim = PeakAmplitudeConstraint(0.3)
    xr = torch.tensor([[q(rng.gauss(0, 3)) for _ in range(64)]], dtype=torch.float32)
    want = lim(ofc(xr))
    got = CU.combine_constraints([ofc, lim])(xr)
    ops.append(Op("cclamp 1 0", "0", nontrivial=False, info={"site": "constraints:CompositeConstraint", "config": {"nesting": "combine([ofdm_chain, peak])", "max_dev": float((got - want).abs().max())}}, prop_ok=bool(torch.equal(got, want))))
    ctx.count("composite_nesting")
    xo = torch.complex(torch.tensor([[q(rng.gauss(0, 3)) for _ in range(64)]] * 1), torch.tensor([[q(rng.gauss(0, 3)) for _ in range(64)]]))[0]
    of = CU.create_ofdm_constraints(total_power=2.0, max_papr=4.0)
    y = of(xo)
    p_tot = float(torch.sum(torch.abs(y) ** 2)); papr = float((torch.abs(y) ** 2).max() / (torch.abs(y) ** 2).mean())
    ops.append(Op("cclamp 1 0", "0", nontrivial=False, info={"site": "constraints:create_ofdm_constraints", "config": {"total": p_tot, "papr": papr}}, prop_ok=(abs(p_tot - 2.0) <= 2e-3 and papr <= 4.0 * 1.001)))
    xm = torch.tensor([[[q(rng.gauss(0, 2)) for _ in range(16)] for _ in range(4)] for _ in range(2)], dtype=torch.float32)
    mm = CU.create_mimo_constraints(num_antennas=4, uniform_power=0.5, max_papr=5.0)
    y = mm(xm)
    ant = torch.mean(y ** 2, dim=2)
    paprs = [float((r ** 2).max() / (r ** 2).mean()) for r in y]
    ops.append(Op("cclamp 1 0", "0", nontrivial=False, info={"site": "constraints:create_mimo_constraints", "config": {"antenna_power_max": float(ant.max()), "papr": paprs}},
                  prop_ok=(bool((ant <= 0.5 * (1 + 1e-4)).all()) and all(p <= 5.0 * 1.001 for p in paprs))))
    return ops


def search(ctx, mismatches, broken, prop_fail):
    out, seen = [], set()
    for pf in prop_fail + mismatches:
        site = pf["info"].get("site")
        cfg = pf["info"].get("config", {})
        key = (site, cfg.get("complex"), str(cfg.get("shape")))
        if site is None or key in seen:
            continue
        seen.add(key)
        if pf["op"].startswith("cpow") or pf["op"].startswith("cant"):
            what = "%s %s: item samples %s... -> output power %s; c*P/(c+1e-8) gives %s" % (site, cfg, pf["op"].split()[-1][:80], pf["impl"][:60], str(pf.get("model"))[:40])
        else:
            what = "%s: %s" % (site, cfg)
        out.append({"site": site, "config": cfg, "what": what, "ops": [pf["op"][:400]], "impl_output": pf["impl"][:200], "kind": "failing-input"})
    return out[:10]


def finding_reproduces(ctx, f):
    return False


def replay(ctx, payload):
    print("replay: re-run ./check C08; op lines:", payload.get("ops"))
    return 0
